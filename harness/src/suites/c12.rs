//! C12–C15 — structural edits (insert / delete / insert+delete / move of rows and columns).
//!  * `cNN-rho`   : the reference rewrite. Real `Parser::parse` at the host + `to_string_displaced`
//!                  + re-parse and `to_localized_string`, exhaustive over a boundary window
//!                  (every position relative to the band, abs/rel combinations, hosts on both sides and
//!                  on the other sheet, same/other sheet references, ranges, whole-row/column ranges)
//!                  versus the model's ρ; oracle = "references follow their cells" from the property text.
//!  * `cNN-sigma` : random workbooks (values of every type incl. quote-prefixed and look-alike strings,
//!                  long-precision numbers, URL-like strings, styled empty cells; formulas with
//!                  relative/absolute/cross-sheet references and ranges on both sheets; row descriptors;
//!                  multi-column descriptors; hidden rows/columns; links), the real action through `Model`
//!                  or `UserModel`, the whole resulting layout versus the model; oracle = the property
//!                  evaluated between the snapshots before and after the action.
//! One request vocabulary (`c12 …`, handled by Driver/C12.lean); the operation kind selects the property:
//! ins → C12, del → C13, insdel → C14, mov → C15.
use crate::prng::Rng;
use crate::proto::{hex, unhex};
use crate::run::{never, Ctx, ImplOut, Suite, Tier};
use ironcalc_base::cell::CellValue;
use ironcalc_base::expressions::parser::stringify::{to_localized_string, to_string_displaced, DisplaceData};
use ironcalc_base::expressions::parser::Parser;
use ironcalc_base::expressions::types::CellReferenceRC;
use ironcalc_base::expressions::utils::number_to_column;
use ironcalc_base::language::get_language;
use ironcalc_base::locale::get_locale;
use ironcalc_base::types::{CellType, Col, Link};
use ironcalc_base::{Model, UserModel};
use std::collections::{BTreeMap, HashMap};

pub(crate) const LAST_ROW: i64 = 1_048_576;
pub(crate) const LAST_COLUMN: i64 = 16_384;
const COL_WINDOW: i32 = 60;

pub(crate) fn last(ax: &str) -> i64 {
    if ax == "c" {
        LAST_COLUMN
    } else {
        LAST_ROW
    }
}

fn prefix_of(kind: &str) -> &'static str {
    match kind {
        "ins" => "c12",
        "del" => "c13",
        "insdel" => "c14",
        _ => "c15",
    }
}

// ------------------------------------------------------------------------------------------------
// the property's own σ (written from the property texts, not from the code)
// ------------------------------------------------------------------------------------------------

/// where the line `x` ends up: insert `k` lines at `pos`; delete `k` lines at `pos`; move the block
/// `[pos, pos+n)` by `d`.  `None` = deleted.
pub(crate) fn spec_sigma(kind: &str, pos: i64, n: i64, d: i64, x: i64) -> Option<i64> {
    match kind {
        "ins" => Some(if x >= pos { x + n } else { x }),
        "del" => {
            if x < pos {
                Some(x)
            } else if x < pos + n {
                None
            } else {
                Some(x - n)
            }
        }
        "insdel" => Some(x),
        _ => {
            if x >= pos && x < pos + n {
                Some(x + d)
            } else if d > 0 && x >= pos + n && x < pos + n + d {
                Some(x - n)
            } else if d < 0 && x >= pos + d && x < pos {
                Some(x + n)
            } else {
                Some(x)
            }
        }
    }
}

// ------------------------------------------------------------------------------------------------
// atoms: references / ranges in A1 coordinates as written
// ------------------------------------------------------------------------------------------------

#[derive(Clone, Debug)]
pub(crate) struct Pt {
    pub(crate) ra: bool,
    pub(crate) r: i64,
    pub(crate) ca: bool,
    pub(crate) c: i64,
}

#[derive(Clone, Debug)]
pub(crate) enum Atom {
    Ref { sheet: u32, named: bool, p: Pt },
    Rng { sheet: u32, named: bool, a: Pt, b: Pt },
}

pub(crate) fn b01(s: &str) -> bool {
    s == "1"
}

pub(crate) fn parse_atom(f: &[&str]) -> Option<Atom> {
    match f.first().copied() {
        Some("ref") if f.len() == 7 => Some(Atom::Ref {
            sheet: f[1].parse().ok()?,
            named: b01(f[2]),
            p: Pt { ra: b01(f[3]), r: f[4].parse().ok()?, ca: b01(f[5]), c: f[6].parse().ok()? },
        }),
        Some("rng") if f.len() == 11 => Some(Atom::Rng {
            sheet: f[1].parse().ok()?,
            named: b01(f[2]),
            a: Pt { ra: b01(f[3]), r: f[4].parse().ok()?, ca: b01(f[5]), c: f[6].parse().ok()? },
            b: Pt { ra: b01(f[7]), r: f[8].parse().ok()?, ca: b01(f[9]), c: f[10].parse().ok()? },
        }),
        _ => None,
    }
}

pub(crate) fn atom_fields(a: &Atom, sep: &str) -> String {
    let b = |x: bool| if x { "1" } else { "0" };
    match a {
        Atom::Ref { sheet, named, p } => {
            [("ref").to_string(), sheet.to_string(), b(*named).into(), b(p.ra).into(), p.r.to_string(), b(p.ca).into(), p.c.to_string()]
                .join(sep)
        }
        Atom::Rng { sheet, named, a, b: q } => [
            ("rng").to_string(),
            sheet.to_string(),
            b(*named).into(),
            b(a.ra).into(),
            a.r.to_string(),
            b(a.ca).into(),
            a.c.to_string(),
            b(q.ra).into(),
            q.r.to_string(),
            b(q.ca).into(),
            q.c.to_string(),
        ]
        .join(sep),
    }
}

pub(crate) fn sheet_name(i: u32) -> String {
    format!("Sheet{}", i + 1)
}

pub(crate) fn pt_text(p: &Pt, omit_row: bool, omit_col: bool) -> String {
    let col = if omit_col {
        String::new()
    } else {
        format!("{}{}", if p.ca { "$" } else { "" }, number_to_column(p.c as i32).unwrap_or_else(|| "?".into()))
    };
    let row = if omit_row { String::new() } else { format!("{}{}", if p.ra { "$" } else { "" }, p.r) };
    format!("{col}{row}")
}

pub(crate) fn is_full_rows(a: &Pt, b: &Pt) -> bool {
    // a range over whole columns (A:B): both row parts absolute, 1 and LAST_ROW
    a.ra && b.ra && a.r.min(b.r) == 1 && a.r.max(b.r) == LAST_ROW
}
pub(crate) fn is_full_cols(a: &Pt, b: &Pt) -> bool {
    a.ca && b.ca && a.c.min(b.c) == 1 && a.c.max(b.c) == LAST_COLUMN
}

/// the A1 text a user would type for the atom
pub(crate) fn atom_text(a: &Atom) -> String {
    match a {
        Atom::Rng { a: p, b: q, .. } => {
            let fr = is_full_rows(p, q);
            atom_text_as(a, fr, is_full_cols(p, q) && !fr)
        }
        _ => atom_text_as(a, false, false),
    }
}

/// the same with the whole-column / whole-row spelling decided by the caller (a displaced range is
/// printed in the spelling of the range it came from)
pub(crate) fn atom_text_as(a: &Atom, fr: bool, fc: bool) -> String {
    match a {
        Atom::Ref { sheet, named, p } => {
            let pre = if *named { format!("{}!", sheet_name(*sheet)) } else { String::new() };
            format!("{pre}{}", pt_text(p, false, false))
        }
        Atom::Rng { sheet, named, a, b } => {
            let pre = if *named { format!("{}!", sheet_name(*sheet)) } else { String::new() };
            format!("{pre}{}:{}", pt_text(a, fr, fc), pt_text(b, fr, fc))
        }
    }
}

fn displace_data(ax: &str, kind: &str, sheet: u32, pos: i32, amt: i32) -> DisplaceData {
    match (ax, kind) {
        ("r", "ins") => DisplaceData::Row { sheet, row: pos, delta: amt },
        ("r", "del") => DisplaceData::Row { sheet, row: pos, delta: -amt },
        ("r", _) => DisplaceData::RowMove { sheet, row: pos, delta: amt },
        (_, "ins") => DisplaceData::Column { sheet, column: pos, delta: amt },
        (_, "del") => DisplaceData::Column { sheet, column: pos, delta: -amt },
        (_, _) => DisplaceData::ColumnMove { sheet, column: pos, delta: amt },
    }
}

// ------------------------------------------------------------------------------------------------
// rho suite
// ------------------------------------------------------------------------------------------------

/// what the property says the rewritten atom must be (None = the property does not determine it)
fn spec_rho(ax: &str, kind: &str, pos: i64, amt: i64, op_sheet: u32, atom: &Atom) -> Option<String> {
    // a single step: ins/del with count amt; mov = single line moved by amt (block of one)
    let (n, d) = if kind == "mov" { (1, amt) } else { (amt, 0) };
    let sig = |x: i64| spec_sigma(kind, pos, n, d, x);
    let lastv = last(ax);
    let map_pt = |p: &Pt| -> Option<Option<Pt>> {
        // Some(None) = #REF!
        let x = if ax == "r" { p.r } else { p.c };
        match sig(x) {
            None => Some(None),
            Some(y) if y > lastv => Some(None),
            Some(y) if y < 1 => None,
            Some(y) => {
                let mut q = p.clone();
                if ax == "r" {
                    q.r = y
                } else {
                    q.c = y
                }
                Some(Some(q))
            }
        }
    };
    match atom {
        Atom::Ref { sheet, named, p } => {
            if *sheet != op_sheet {
                return Some(atom_text(atom));
            }
            match map_pt(p)? {
                None => Some("#REF!".into()),
                Some(q) => Some(atom_text(&Atom::Ref { sheet: *sheet, named: *named, p: q })),
            }
        }
        Atom::Rng { sheet, named, a, b } => {
            if *sheet != op_sheet {
                return Some(atom_text(atom));
            }
            let full = if ax == "r" { is_full_rows(a, b) } else { is_full_cols(a, b) };
            if full {
                return Some(atom_text(atom));
            }
            // normalise as written ranges are (the property speaks of the cells of the range)
            let (lo, hi) = if ax == "r" { (a.r.min(b.r), a.r.max(b.r)) } else { (a.c.min(b.c), a.c.max(b.c)) };
            if kind == "mov" {
                // only ranges entirely inside the moved line, the shifted band, or outside both
                let (blo, bhi) = if d > 0 { (pos + 1, pos + d) } else { (pos + d, pos - 1) };
                let inside = |l: i64, h: i64| lo >= l && hi <= h;
                let disjoint = |l: i64, h: i64| hi < l || lo > h;
                let compatible = inside(pos, pos) || inside(blo, bhi) || (disjoint(pos, pos) && disjoint(blo, bhi));
                if !compatible {
                    return None;
                }
            }
            let qa = map_pt(a)?;
            let qb = map_pt(b)?;
            match (qa, qb) {
                (Some(qa), Some(qb)) => {
                    // written order may be inverted; the engine prints corners independently
                    let fr = is_full_rows(a, b);
                    Some(atom_text_as(&Atom::Rng { sheet: *sheet, named: *named, a: qa, b: qb }, fr, is_full_cols(a, b) && !fr))
                }
                // a corner was deleted / pushed off: the property only says the reference breaks
                _ => None,
            }
        }
    }
}

fn eval_rho(f: &[&str]) -> ImplOut {
    // c12 rho ax kind pos amt opsheet hostsheet hostrow hostcol atom…
    let (ax, kind) = (f[2], f[3]);
    let pos: i32 = f[4].parse().unwrap();
    let amt: i32 = f[5].parse().unwrap();
    let op_sheet: u32 = f[6].parse().unwrap();
    let host_sheet: u32 = f[7].parse().unwrap();
    let host_row: i32 = f[8].parse().unwrap();
    let host_col: i32 = f[9].parse().unwrap();
    let atom = match parse_atom(&f[10..]) {
        Some(a) => a,
        None => return ImplOut::new("bad-request".into()),
    };
    let locale = get_locale("en").unwrap();
    let language = get_language("en").unwrap();
    let mut parser = Parser::new(vec![sheet_name(0), sheet_name(1)], vec![], HashMap::new(), locale, language);
    let ctx = CellReferenceRC { sheet: sheet_name(host_sheet), row: host_row, column: host_col };
    let text = atom_text(&atom);
    let node = parser.parse(&text, &ctx);
    let back = to_localized_string(&node, &ctx, locale, language);
    if back != text {
        // inverted ranges are normalised by the parser; anything else means the generator wrote something
        // the parser reads differently
        if !matches!(atom, Atom::Rng { .. }) {
            return ImplOut::new(format!("setup-mismatch {text} {back}")).tag("rho:setup-mismatch");
        }
    }
    let data = displace_data(ax, kind, op_sheet, pos, amt);
    let displaced = to_string_displaced(&node, &ctx, &data, locale, language);
    let node2 = parser.parse(&displaced, &ctx);
    let reprinted = to_localized_string(&node2, &ctx, locale, language);
    let mut out = ImplOut::new(format!("{displaced} {reprinted}"))
        .tag(&format!("rho:{kind}:{ax}"))
        .tag(if displaced.contains("#REF!") { "rho:ref-error" } else { "rho:ok" });
    if displaced == text {
        out = out.tag("rho:unchanged");
    }
    // oracle: references follow their cells
    let normalised = match &atom {
        Atom::Rng { .. } => back.clone(),
        _ => text.clone(),
    };
    let spec_atom = if normalised != text {
        // inverted as written: compare on the normalised spelling the parser holds
        None
    } else {
        spec_rho(ax, kind, pos as i64, amt as i64, op_sheet, &atom)
    };
    if let Some(want) = spec_atom {
        if displaced != want {
            let what = match atom {
                Atom::Ref { .. } => "ref",
                Atom::Rng { .. } => "range",
            };
            out = out.fail(
                &format!("{}:ref-follows-cell:{kind}:{what}", prefix_of(kind)),
                &format!("{text} hosted at {}!R{host_row}C{host_col}, {kind} {ax} pos={pos} amt={amt} on sheet {op_sheet}: got {displaced}, the cell moved to {want}", sheet_name(host_sheet)),
            );
        }
    }
    out
}

fn gen_rho_kind(ctx: &Ctx, kind: &str, sink: &mut dyn FnMut(String)) {
    let thorough = ctx.tier == Tier::Thorough;
    let mut rng = Rng::new(ctx.seed ^ 0x7268_6f);
    let amts: Vec<i64> = if kind == "mov" { vec![-3, -2, -1, 1, 2, 3] } else { vec![1, 2, 3] };
    let positions: Vec<i64> = if thorough { vec![1, 3, 4, 5, 6] } else { vec![1, 4, 5] };
    let hosts: Vec<(u32, i64, i64)> = vec![(0, 2, 2), (0, 9, 9), (1, 5, 5)];
    for ax in ["r", "c"] {
        let lastv = last(ax);
        let mut xs: Vec<i64> = (1..=10).collect();
        xs.extend([lastv - 3, lastv - 2, lastv - 1, lastv]);
        for &pos in &positions {
            for &amt in &amts {
                if kind == "mov" && pos + amt < 1 {
                    continue;
                }
                for &(hs, hr, hc) in &hosts {
                    // references: same sheet unnamed (only when hosted on it), named same, named other
                    for (sheet, named) in [(0u32, false), (0, true), (1, true)] {
                        if !named && hs != sheet {
                            continue;
                        }
                        for &x in &xs {
                            for flags in 0..4 {
                                let (xa, oa) = (flags & 1 == 1, flags & 2 == 2);
                                let p = if ax == "r" {
                                    Pt { ra: xa, r: x, ca: oa, c: 3 }
                                } else {
                                    Pt { ra: oa, r: 3, ca: xa, c: x }
                                };
                                let a = Atom::Ref { sheet, named, p };
                                sink(format!("c12 rho {ax} {kind} {pos} {amt} 0 {hs} {hr} {hc} {}", atom_fields(&a, " ")));
                            }
                        }
                        // ranges: every ordered pair in the window, a sample of flag combinations
                        for (i, &x1) in xs.iter().enumerate() {
                            for &x2 in &xs[i..] {
                                if !thorough && rng.below(3) != 0 {
                                    continue;
                                }
                                let flags = rng.below(16);
                                let (a1, a2, o1, o2) = (flags & 1 == 1, flags & 2 == 2, flags & 4 == 4, flags & 8 == 8);
                                let (oc1, oc2) = (2 + rng.below(3) as i64, 3 + rng.below(3) as i64);
                                let (pa, pb) = if ax == "r" {
                                    (Pt { ra: a1, r: x1, ca: o1, c: oc1.min(oc2) }, Pt { ra: a2, r: x2, ca: o2, c: oc1.max(oc2) })
                                } else {
                                    (Pt { ra: o1, r: oc1.min(oc2), ca: a1, c: x1 }, Pt { ra: o2, r: oc1.max(oc2), ca: a2, c: x2 })
                                };
                                let a = Atom::Rng { sheet, named, a: pa, b: pb };
                                sink(format!("c12 rho {ax} {kind} {pos} {amt} 0 {hs} {hr} {hc} {}", atom_fields(&a, " ")));
                            }
                        }
                        // whole-column and whole-row ranges, and inverted spellings
                        for (c1, c2) in [(1i64, 1i64), (2, 4), (5, 9)] {
                            for ca in [false, true] {
                                let cols = Atom::Rng {
                                    sheet,
                                    named,
                                    a: Pt { ra: true, r: 1, ca, c: c1 },
                                    b: Pt { ra: true, r: LAST_ROW, ca, c: c2 },
                                };
                                sink(format!("c12 rho {ax} {kind} {pos} {amt} 0 {hs} {hr} {hc} {}", atom_fields(&cols, " ")));
                                let rows = Atom::Rng {
                                    sheet,
                                    named,
                                    a: Pt { ra: ca, r: c1, ca: true, c: 1 },
                                    b: Pt { ra: ca, r: c2, ca: true, c: LAST_COLUMN },
                                };
                                sink(format!("c12 rho {ax} {kind} {pos} {amt} 0 {hs} {hr} {hc} {}", atom_fields(&rows, " ")));
                            }
                        }
                        for (x1, x2) in [(7i64, 2i64), (5, 4), (6, 3)] {
                            let (pa, pb) = if ax == "r" {
                                (Pt { ra: true, r: x1, ca: false, c: 4 }, Pt { ra: false, r: x2, ca: true, c: 2 })
                            } else {
                                (Pt { ra: false, r: 4, ca: true, c: x1 }, Pt { ra: true, r: 2, ca: false, c: x2 })
                            };
                            let a = Atom::Rng { sheet, named, a: pa, b: pb };
                            sink(format!("c12 rho {ax} {kind} {pos} {amt} 0 {hs} {hr} {hc} {}", atom_fields(&a, " ")));
                        }
                    }
                }
            }
        }
    }
}

fn gen_rho_ins(ctx: &Ctx, sink: &mut dyn FnMut(String)) {
    gen_rho_kind(ctx, "ins", sink)
}
fn gen_rho_del(ctx: &Ctx, sink: &mut dyn FnMut(String)) {
    gen_rho_kind(ctx, "del", sink)
}
fn gen_rho_mov(ctx: &Ctx, sink: &mut dyn FnMut(String)) {
    gen_rho_kind(ctx, "mov", sink)
}

// ------------------------------------------------------------------------------------------------
// sigma suite: whole workbooks
// ------------------------------------------------------------------------------------------------

/// (typed input, displayed content, type letter)
const CATALOGUE: &[(&str, &str, &str)] = &[
    ("12.5", "12.5", "n"),
    ("-7", "-7", "n"),
    ("0.1234567890123456789", "0.123456789012346", "n"),
    ("123456789.123456789", "123456789.123457", "n"),
    ("hello", "hello", "t"),
    ("two words", "two words", "t"),
    ("'123", "'123", "t"),
    ("'=1+1", "'=1+1", "t"),
    ("'true", "'true", "t"),
    ("'$5", "'$5", "t"),
    ("'#N/A", "'#N/A", "t"),
    ("''x", "''x", "t"),
    ("'1e5", "'1e5", "t"),
    ("'2024-01-15", "'2024-01-15", "t"),
    ("true", "TRUE", "b"),
    ("FALSE", "FALSE", "b"),
    ("#N/A", "#N/A", "e"),
    ("#DIV/0!", "#DIV/0!", "e"),
    ("http://x.example/a", "http://x.example/a", "t"),
    ("50%", "0.5", "n"),
    ("$5", "5", "n"),
    ("", "", "n"),
];

/// formula templates of the safe fragment (position independent, ranges under blank-ignoring aggregates)
const TEMPLATES: &[(&str, usize, &str)] = &[
    ("{}", 1, "r"),
    ("{}+1", 1, "r"),
    ("{}*2+{}", 2, "rr"),
    ("SUM({})", 1, "g"),
    ("SUM({})+{}", 2, "gr"),
    ("COUNT({})*10+{}", 2, "gr"),
    ("SUM({},{})", 2, "gg"),
    ("MAX({})-{}", 2, "gr"),
    ("IF({}>0,{},0)", 2, "rr"),
];

#[derive(Clone, Debug)]
enum Item {
    Val { s: u32, r: i32, c: i32, obs: String, input: String },
    Fml { s: u32, r: i32, c: i32, tpl: String, obs: String, atoms: Vec<Atom> },
    Row { s: u32, r: i32, hidden: bool, obs: String },
    Col { s: u32, min: i32, max: i32, w: Option<i32>, hidden: bool, style: Option<i32> },
    Link { s: u32, r: i32, c: i32, id: String },
}

fn item_text(it: &Item) -> String {
    match it {
        Item::Val { s, r, c, obs, input } => format!("C:{s},{r},{c},V,{obs},{}", hex(input)),
        Item::Fml { s, r, c, tpl, obs, atoms } => {
            let a = if atoms.is_empty() { "-".to_string() } else { atoms.iter().map(|a| atom_fields(a, "/")).collect::<Vec<_>>().join(";") };
            format!("C:{s},{r},{c},F,{},{obs},{a}", hex(tpl))
        }
        Item::Row { s, r, hidden, obs } => format!("R:{s},{r},{},{obs}", *hidden as u8),
        Item::Col { s, min, max, w, hidden, style } => format!(
            "K:{s},{min},{max},{},{},{}",
            w.map(|x| x.to_string()).unwrap_or_else(|| "d".into()),
            *hidden as u8,
            style.map(|x| x.to_string()).unwrap_or_else(|| "-".into())
        ),
        Item::Link { s, r, c, id } => format!("L:{s},{r},{c},{id}"),
    }
}

fn parse_item(t: &str) -> Option<Item> {
    let (k, body) = t.split_once(':')?;
    let f: Vec<&str> = body.split(',').collect();
    match k {
        "C" if f.len() == 6 && f[3] == "V" => Some(Item::Val {
            s: f[0].parse().ok()?,
            r: f[1].parse().ok()?,
            c: f[2].parse().ok()?,
            obs: f[4].into(),
            input: unhex(f[5])?,
        }),
        "C" if f.len() == 7 && f[3] == "F" => {
            let atoms = if f[6] == "-" {
                vec![]
            } else {
                f[6].split(';').map(|a| parse_atom(&a.split('/').collect::<Vec<_>>())).collect::<Option<Vec<_>>>()?
            };
            Some(Item::Fml { s: f[0].parse().ok()?, r: f[1].parse().ok()?, c: f[2].parse().ok()?, tpl: unhex(f[4])?, obs: f[5].into(), atoms })
        }
        "R" if f.len() == 4 => Some(Item::Row { s: f[0].parse().ok()?, r: f[1].parse().ok()?, hidden: b01(f[2]), obs: f[3].into() }),
        "K" if f.len() == 6 => Some(Item::Col {
            s: f[0].parse().ok()?,
            min: f[1].parse().ok()?,
            max: f[2].parse().ok()?,
            w: if f[3] == "d" { None } else { Some(f[3].parse().ok()?) },
            hidden: b01(f[4]),
            style: if f[5] == "-" { None } else { Some(f[5].parse().ok()?) },
        }),
        "L" if f.len() == 4 => Some(Item::Link { s: f[0].parse().ok()?, r: f[1].parse().ok()?, c: f[2].parse().ok()?, id: f[3].into() }),
        _ => None,
    }
}

pub(crate) fn fill(tpl: &str, parts: &[String]) -> String {
    let mut out = String::new();
    let mut it = parts.iter();
    let mut rest = tpl;
    while let Some(i) = rest.find("{}") {
        out.push_str(&rest[..i]);
        if let Some(p) = it.next() {
            out.push_str(p);
        }
        rest = &rest[i + 2..];
    }
    out.push_str(rest);
    out
}

fn type_letter(t: CellType) -> &'static str {
    match t {
        CellType::Number => "n",
        CellType::Text => "t",
        CellType::LogicalValue => "b",
        CellType::ErrorValue => "e",
        _ => "x",
    }
}

fn value_text(v: Result<CellValue, String>) -> String {
    match v {
        Ok(CellValue::Number(f)) => format!("n{:016x}", f.to_bits()),
        Ok(CellValue::String(s)) => format!("s{}", hex(&s)),
        Ok(CellValue::Boolean(b)) => format!("b{b}"),
        Ok(CellValue::None) => "none".into(),
        Err(e) => format!("ERR:{e}"),
    }
}

struct Built {
    model: Model<'static>,
    default_sz: i32,
}

/// a style index whose font size is `sz` (created through a scratch cell on the third sheet)
fn style_index_for(model: &mut Model, sz: i32) -> i32 {
    let mut st = model.get_style_for_cell(2, 1, 1).unwrap();
    st.font.sz = sz;
    model.set_cell_style(2, 1, 1, &st).unwrap();
    model.get_cell_style_index(2, 1, 1).unwrap()
}

fn build(items: &[Item]) -> Result<Built, String> {
    let mut model = Model::new_empty("c12", "en", "UTC", "en")?;
    model.new_sheet();
    model.new_sheet();
    let default_sz = model.get_style_for_cell(2, 5, 5)?.font.sz;
    // values first, then formulas (so that typed formulas see their inputs)
    for it in items {
        if let Item::Val { s, r, c, obs, input } = it {
            model.set_user_input(*s, *r, *c, input.clone())?;
            // an URL-like string gets a link automatically: drop it, links are generated separately
            model.workbook.worksheets[*s as usize].links.remove(&(*r, *c));
            let sz: i32 = obs.split('.').nth(2).and_then(|x| x.parse().ok()).unwrap_or(0);
            if sz > 0 || input.is_empty() {
                let mut st = model.get_style_for_cell(*s, *r, *c)?;
                st.font.sz = if sz > 0 { sz } else { default_sz };
                st.font.b = input.is_empty();
                model.set_cell_style(*s, *r, *c, &st)?;
            }
        }
    }
    for it in items {
        if let Item::Fml { s, r, c, tpl, obs, atoms } = it {
            let parts: Vec<String> = atoms.iter().map(atom_text).collect();
            model.set_user_input(*s, *r, *c, format!("={}", fill(tpl, &parts)))?;
            let sz: i32 = obs.parse().unwrap_or(0);
            if sz > 0 {
                let mut st = model.get_style_for_cell(*s, *r, *c)?;
                st.font.sz = sz;
                model.set_cell_style(*s, *r, *c, &st)?;
            }
        }
    }
    for it in items {
        match it {
            Item::Row { s, r, hidden, obs } => {
                let mut p = obs.split('.');
                let h: f64 = p.next().and_then(|x| x.parse().ok()).unwrap_or(25.0);
                let sz: i32 = p.next().and_then(|x| x.parse().ok()).unwrap_or(0);
                model.set_row_height(*s, *r, h)?;
                if sz > 0 {
                    let mut st = model.get_style_for_cell(2, 5, 5)?;
                    st.font.sz = sz;
                    model.set_row_style(*s, *r, &st)?;
                }
                if *hidden {
                    model.set_row_hidden(*s, *r, true)?;
                }
            }
            Item::Col { s, min, max, w, hidden, style } => {
                let idx = style.map(|sz| style_index_for(&mut model, sz));
                let width = w.map(|x| x as f64).unwrap_or(90.0);
                model.workbook.worksheets[*s as usize].cols.push(Col {
                    min: *min,
                    max: *max,
                    width: width / ironcalc_base::COLUMN_WIDTH_FACTOR,
                    custom_width: w.is_some(),
                    hidden: *hidden,
                    style: idx,
                });
            }
            Item::Link { s, r, c, id } => {
                model.workbook.worksheets[*s as usize]
                    .links
                    .insert((*r, *c), Link::External { target: format!("http://l{id}.example"), tooltip: None });
            }
            _ => {}
        }
    }
    model.evaluate();
    Ok(Built { model, default_sz })
}

#[derive(Clone, Debug, PartialEq)]
struct CellSnap {
    formula: Option<String>,
    content: String,
    ty: &'static str,
    value: String,
    sz: i32,
    bold: bool,
    quote: bool,
}

struct Snap {
    cells: BTreeMap<(u32, i32, i32), CellSnap>,
    rows: BTreeMap<(u32, i32), String>,
    cols: BTreeMap<(u32, i32), String>,
    links: BTreeMap<(u32, i32, i32), String>,
}

fn snapshot(model: &Model, default_sz: i32) -> Snap {
    let mut cells = BTreeMap::new();
    let mut rows = BTreeMap::new();
    let mut cols = BTreeMap::new();
    let mut links = BTreeMap::new();
    for s in 0..2u32 {
        let ws = &model.workbook.worksheets[s as usize];
        for (r, rd) in &ws.sheet_data {
            for c in rd.keys() {
                let st = model.get_style_for_cell(s, *r, *c).unwrap();
                cells.insert(
                    (s, *r, *c),
                    CellSnap {
                        formula: model.get_cell_formula(s, *r, *c).unwrap(),
                        content: model.get_localized_cell_content(s, *r, *c).unwrap(),
                        ty: type_letter(model.get_cell_type(s, *r, *c).unwrap()),
                        value: value_text(model.get_cell_value_by_index(s, *r, *c)),
                        sz: st.font.sz,
                        bold: st.font.b,
                        quote: st.quote_prefix,
                    },
                );
            }
        }
        for row in &ws.rows {
            // the stored height (row_height() answers 0 for a hidden row)
            let h = row.height * ironcalc_base::ROW_HEIGHT_FACTOR;
            let sz = model.get_style_for_cell(s, row.r, 16000).map(|x| x.font.sz).unwrap_or(-1);
            let szl = if sz == default_sz { 0 } else { sz };
            rows.insert((s, row.r), format!("{},{}.{}", row.hidden as u8, h.round() as i64, szl));
        }
        for c in 1..=COL_WINDOW {
            let w = ws.get_actual_column_width(c).unwrap_or(-1.0).round() as i64;
            let hid = ws.is_column_hidden(c).unwrap_or(false);
            let st = ws.get_column_style(c).unwrap_or(None);
            let label = match st {
                None => "-".to_string(),
                Some(idx) => {
                    // decode the style through an empty cell far below (no row style there)
                    let _ = idx;
                    model.get_style_for_cell(s, 1_048_000, c).map(|x| x.font.sz.to_string()).unwrap_or_else(|_| "?".into())
                }
            };
            if w != 90 || hid || st.is_some() {
                cols.insert((s, c), format!("{w},{},{label}", hid as u8));
            }
        }
        for ((r, c), l) in &ws.links {
            let id = match l {
                Link::External { target, .. } => target
                    .strip_prefix("http://l")
                    .and_then(|t| t.strip_suffix(".example"))
                    .map(|t| t.to_string())
                    .unwrap_or_else(|| format!("?{}", hex(target))),
                Link::Internal { location, .. } => format!("?i{}", hex(location)),
            };
            links.insert((s, *r, *c), id);
        }
    }
    Snap { cells, rows, cols, links }
}

fn cell_obs(c: &CellSnap, default_sz: i32) -> String {
    let szl = if c.sz == default_sz { 0 } else { c.sz };
    match &c.formula {
        Some(f) => format!("F,{},{szl}", hex(f)),
        None => format!("V,{}.{}.{}.{}", hex(&c.content), c.ty, szl, c.quote as u8),
    }
}

fn snap_text(s: &Snap, default_sz: i32) -> String {
    let mut out: Vec<String> = vec![];
    for ((sh, r, c), v) in &s.cells {
        out.push(format!("C:{sh},{r},{c},{}", cell_obs(v, default_sz)));
    }
    for ((sh, r), v) in &s.rows {
        out.push(format!("R:{sh},{r},{v}"));
    }
    for ((sh, c), v) in &s.cols {
        out.push(format!("K:{sh},{c},{v}"));
    }
    for ((sh, r, c), v) in &s.links {
        out.push(format!("L:{sh},{r},{c},{v}"));
    }
    out.join(" ")
}

/// does the formula (its atoms) stay in the fragment the property speaks about for this operation
fn formula_in_domain(kind: &str, ax: &str, op_sheet: u32, pos: i64, n: i64, d: i64, atoms: &[Atom]) -> bool {
    let coord = |p: &Pt| if ax == "r" { p.r } else { p.c };
    for a in atoms {
        match a {
            Atom::Ref { sheet, p, .. } => {
                if *sheet != op_sheet {
                    continue;
                }
                let x = coord(p);
                match kind {
                    "del" => {
                        if x >= pos && x < pos + n {
                            return false;
                        }
                    }
                    "ins" | "insdel" => {
                        if x >= pos && x + n > last(ax) {
                            return false;
                        }
                    }
                    _ => {}
                }
            }
            Atom::Rng { sheet, a, b, .. } => {
                if *sheet != op_sheet {
                    continue;
                }
                let full = if ax == "r" { is_full_rows(a, b) } else { is_full_cols(a, b) };
                if full {
                    // whole columns/rows: same cells before and after for insert/delete of blank or outside
                    // lines; for delete it reads the deleted cells
                    if kind == "del" {
                        return false;
                    }
                    continue;
                }
                let (lo, hi) = (coord(a).min(coord(b)), coord(a).max(coord(b)));
                match kind {
                    "del" => {
                        // reads no deleted cell: the range does not meet the band
                        if !(hi < pos || lo >= pos + n) {
                            return false;
                        }
                    }
                    "ins" | "insdel" => {
                        if hi >= pos && hi + n > last(ax) {
                            return false;
                        }
                    }
                    _ => {
                        let (blo, bhi) = if d > 0 { (pos + n, pos + n + d - 1) } else { (pos + d, pos - 1) };
                        let inside = |l: i64, h: i64| lo >= l && hi <= h;
                        let disjoint = |l: i64, h: i64| hi < l || lo > h;
                        if !(inside(pos, pos + n - 1) || inside(blo, bhi) || (disjoint(pos, pos + n - 1) && disjoint(blo, bhi))) {
                            return false;
                        }
                    }
                }
            }
        }
    }
    true
}

fn eval_sheet(f: &[&str]) -> ImplOut {
    // c12 sheet api ax kind sheet pos n d items…
    let (api, ax, kind) = (f[2], f[3], f[4]);
    let sheet: u32 = f[5].parse().unwrap();
    let pos: i32 = f[6].parse().unwrap();
    let n: i32 = f[7].parse().unwrap();
    let d: i32 = f[8].parse().unwrap();
    let pre = prefix_of(kind);
    let items: Vec<Item> = match f[9..].iter().map(|t| parse_item(t)).collect::<Option<Vec<_>>>() {
        Some(v) => v,
        None => return ImplOut::new("bad-request".into()),
    };
    let built = match build(&items) {
        Ok(b) => b,
        Err(e) => return ImplOut::new(format!("setup-error {e}")).tag("sheet:setup-error"),
    };
    let dsz = built.default_sz;
    let before = snapshot(&built.model, dsz);
    // the workbook must be what the request says it is (catalogue check)
    for it in &items {
        match it {
            Item::Val { s, r, c, obs, .. } => {
                let got = before.cells.get(&(*s, *r, *c)).map(|x| cell_obs(x, dsz)).unwrap_or_default();
                if got != format!("V,{obs}") {
                    return ImplOut::new(format!("setup-mismatch {s},{r},{c} want V,{obs} got {got}")).tag("sheet:setup-mismatch");
                }
            }
            Item::Fml { s, r, c, tpl, atoms, .. } => {
                let want = format!("={}", fill(tpl, &atoms.iter().map(atom_text).collect::<Vec<_>>()));
                let got = before.cells.get(&(*s, *r, *c)).and_then(|x| x.formula.clone()).unwrap_or_default();
                if got != want {
                    return ImplOut::new(format!("setup-mismatch {s},{r},{c} want {want} got {got}")).tag("sheet:setup-mismatch");
                }
            }
            _ => {}
        }
    }
    // the action
    let (res, after): (Result<(), String>, Option<Snap>) = if api == "u" {
        let mut um = UserModel::from_model(built.model);
        let r = match (ax, kind) {
            ("r", "ins") => um.insert_rows(sheet, pos, n),
            ("r", "del") => um.delete_rows(sheet, pos, n),
            ("r", "insdel") => um.insert_rows(sheet, pos, n).and_then(|_| um.delete_rows(sheet, pos, n)),
            ("r", _) => um.move_rows_action(sheet, pos, n, d),
            (_, "ins") => um.insert_columns(sheet, pos, n),
            (_, "del") => um.delete_columns(sheet, pos, n),
            (_, "insdel") => um.insert_columns(sheet, pos, n).and_then(|_| um.delete_columns(sheet, pos, n)),
            (_, _) => um.move_columns_action(sheet, pos, n, d),
        };
        let snap = if r.is_ok() { Some(snapshot(um.get_model(), dsz)) } else { None };
        (r, snap)
    } else {
        let mut m = built.model;
        let r = match (ax, kind) {
            ("r", "ins") => m.insert_rows(sheet, pos, n),
            ("r", "del") => m.delete_rows(sheet, pos, n),
            ("r", "insdel") => m.insert_rows(sheet, pos, n).and_then(|_| m.delete_rows(sheet, pos, n)),
            ("r", _) => m.move_rows_action(sheet, pos, n, d),
            (_, "ins") => m.insert_columns(sheet, pos, n),
            (_, "del") => m.delete_columns(sheet, pos, n),
            (_, "insdel") => m.insert_columns(sheet, pos, n).and_then(|_| m.delete_columns(sheet, pos, n)),
            (_, _) => m.move_columns_action(sheet, pos, n, d),
        };
        m.evaluate();
        let snap = if r.is_ok() { Some(snapshot(&m, dsz)) } else { None };
        (r, snap)
    };
    let after = match (res, after) {
        (Ok(()), Some(a)) => a,
        _ => return ImplOut::new("err".into()).tag(&format!("sheet:{kind}:{ax}:err")).trivial(),
    };
    let mut out = ImplOut::new(format!("ok {}", snap_text(&after, dsz))).tag(&format!("sheet:{kind}:{ax}:{api}"));

    // ---------------- oracle: the property between the two snapshots ----------------
    // effective offset of a move (the user-level action skips hidden lines): read it off a moved cell
    let coord = |k: &(u32, i32, i32)| if ax == "r" { k.1 as i64 } else { k.2 as i64 };
    let with_coord = |k: &(u32, i32, i32), x: i64| if ax == "r" { (k.0, x as i32, k.2) } else { (k.0, k.1, x as i32) };
    let (pos64, n64) = (pos as i64, n as i64);
    let noop_move = kind == "mov" && (n <= 0 || d == 0);
    // the σ-image check (cells, links, row/column attributes) for a given effective offset
    let judge = |d_eff: i64| -> Vec<(String, String)> {
        let mut fails: Vec<(String, String)> = vec![];
        let sig = |x: i64| if noop_move { Some(x) } else { spec_sigma(kind, pos64, n64, d_eff, x) };
        let mut expected_cells = 0usize;
        for (k, v) in &before.cells {
            let target = if k.0 == sheet { sig(coord(k)).map(|y| with_coord(k, y)) } else { Some(*k) };
            let Some(t) = target else { continue };
            expected_cells += 1;
            match after.cells.get(&t) {
                None => {
                    fails.push((format!("{pre}:cell-lost"), format!("cell {k:?} ({}) should be at {t:?}, nothing there", v.content)));
                }
                Some(w) => {
                    if v.formula.is_none() {
                        if w.formula.is_some() || w.content != v.content {
                            fails.push((format!("{pre}:cell-content"), format!("cell {k:?} `{}` is `{}` at {t:?}", v.content, w.content)));
                        } else if w.ty != v.ty {
                            fails.push((format!("{pre}:cell-type"), format!("cell {k:?} `{}` type {} is type {} at {t:?}", v.content, v.ty, w.ty)));
                        } else if w.value != v.value {
                            fails.push((format!("{pre}:cell-value"), format!("cell {k:?} `{}` value {} is {} at {t:?}", v.content, v.value, w.value)));
                        }
                    }
                    if (w.sz, w.bold, w.quote) != (v.sz, v.bold, v.quote) {
                        fails.push((format!("{pre}:cell-style"), format!("cell {k:?} style {:?} is {:?} at {t:?}", (v.sz, v.bold, v.quote), (w.sz, w.bold, w.quote))));
                    }
                }
            }
        }
        if after.cells.len() != expected_cells {
            fails.push((format!("{pre}:extra-cell"), format!("{} cells expected, {} present", expected_cells, after.cells.len())));
        }
        // links
        let mut expected_links = 0usize;
        for (k, id) in &before.links {
            let target = if k.0 == sheet { sig(coord(k)).map(|y| with_coord(k, y)) } else { Some(*k) };
            let Some(t) = target else { continue };
            expected_links += 1;
            if after.links.get(&t) != Some(id) {
                fails.push((format!("{pre}:link"), format!("link {id} of {k:?} should be at {t:?}, found {:?}", after.links.get(&t))));
            }
        }
        if after.links.len() != expected_links {
            fails.push((format!("{pre}:link"), format!("{} links expected, {} present: {:?}", expected_links, after.links.len(), after.links)));
        }
        // row / column attributes (C14, C15 name them; for C12/C13 they are part of the σ-image check)
        if ax == "r" {
            for ((s, r), v) in &before.rows {
                let t = if *s == sheet { sig(*r as i64) } else { Some(*r as i64) };
                if let Some(t) = t {
                    if after.rows.get(&(*s, t as i32)) != Some(v) {
                        fails.push((format!("{pre}:row-attributes"), format!("row {r} ({v}) should be row {t}, found {:?}", after.rows.get(&(*s, t as i32)))));
                    }
                }
            }
        } else {
            for ((s, c), v) in &before.cols {
                let t = if *s == sheet { sig(*c as i64) } else { Some(*c as i64) };
                if let Some(t) = t {
                    if t <= COL_WINDOW as i64 && after.cols.get(&(*s, t as i32)) != Some(v) {
                        fails.push((format!("{pre}:column-attributes"), format!("column {c} ({v}) should be column {t}, found {:?}", after.cols.get(&(*s, t as i32)))));
                    }
                }
            }
        }

        fails
    };
    let mut d_eff = d as i64;
    if kind == "mov" && api == "u" && n > 0 && d != 0 {
        // the user-level action lengthens the offset by the hidden lines it skips; the property does not say by
        // how much: take the first offset (in the direction of the move, at least |d|) under which the result
        // is the permutation the property describes; if there is none, judge against the requested offset
        let sgn = (d as i64).signum();
        if let Some(c) = (0..=12).map(|e| d as i64 + sgn * e).find(|c| judge(*c).is_empty()) {
            d_eff = c;
        }
    }
    for (a, b) in judge(d_eff) {
        out = out.fail(&a, &b);
    }
    let sig = |x: i64| if noop_move { Some(x) } else { spec_sigma(kind, pos64, n64, d_eff, x) };
    // values of the formulas the property speaks about: those that stay in the property's fragment and do
    // not read (directly or through other formulas) a formula that left it
    let mut tainted: std::collections::BTreeSet<(u32, i32, i32)> = Default::default();
    for it in &items {
        if let Item::Fml { s, r, c, atoms, .. } = it {
            if !formula_in_domain(kind, ax, sheet, pos64, n64, d_eff, atoms) {
                tainted.insert((*s, *r, *c));
            }
        }
    }
    loop {
        let mut grew = false;
        for it in &items {
            if let Item::Fml { s, r, c, atoms, .. } = it {
                if tainted.contains(&(*s, *r, *c)) {
                    continue;
                }
                let reads_tainted = atoms.iter().any(|a| match a {
                    Atom::Ref { sheet: rs, p, .. } => tainted.contains(&(*rs, p.r as i32, p.c as i32)),
                    Atom::Rng { sheet: rs, a, b, .. } => tainted.iter().any(|t| {
                        t.0 == *rs
                            && (t.1 as i64) >= a.r.min(b.r)
                            && (t.1 as i64) <= a.r.max(b.r)
                            && (t.2 as i64) >= a.c.min(b.c)
                            && (t.2 as i64) <= a.c.max(b.c)
                    }),
                });
                if reads_tainted {
                    tainted.insert((*s, *r, *c));
                    grew = true;
                }
            }
        }
        if !grew {
            break;
        }
    }
    let mut checked = 0;
    for it in &items {
        if let Item::Fml { s, r, c, .. } = it {
            let k = (*s, *r, *c);
            if tainted.contains(&k) {
                continue;
            }
            let target = if k.0 == sheet { sig(coord(&k)).map(|y| with_coord(&k, y)) } else { Some(k) };
            let Some(t) = target else { continue };
            if let (Some(v), Some(w)) = (before.cells.get(&k), after.cells.get(&t)) {
                checked += 1;
                if v.value != w.value {
                    // F05b (evaluator, not the structural edit): an aggregate over a range that contains a
                    // formula whose result is a reference to an empty cell counts that cell or not depending on
                    // whether it was evaluated before the aggregate (`=COUNT(2:2)` with B2 `=Z9`: 0 in A1, 1 in A3)
                    let empty_result_cells: Vec<(u32, i32, i32)> = items
                        .iter()
                        .filter_map(|e| match e {
                            Item::Fml { s, r, c, atoms, .. }
                                if atoms.iter().any(|a| matches!(a, Atom::Ref { sheet: rs, p, .. } if !before.cells.contains_key(&(*rs, p.r as i32, p.c as i32)))) =>
                            {
                                Some((*s, *r, *c))
                            }
                            _ => None,
                        })
                        .collect();
                    let my_atoms = match it {
                        Item::Fml { atoms, .. } => atoms.clone(),
                        _ => vec![],
                    };
                    let over_empty = my_atoms.iter().any(|a| match a {
                        Atom::Rng { sheet: rs, a, b, .. } => empty_result_cells.iter().any(|t| {
                            t.0 == *rs
                                && (t.1 as i64) >= a.r.min(b.r)
                                && (t.1 as i64) <= a.r.max(b.r)
                                && (t.2 as i64) >= a.c.min(b.c)
                                && (t.2 as i64) <= a.c.max(b.c)
                        }),
                        _ => false,
                    });
                    let what = if over_empty { "formula-value:range-over-empty-reference-result" } else { "formula-value" };
                    out = out.fail(
                        &format!("{pre}:{what}"),
                        &format!("{} at {k:?} = {} ; {} at {t:?} = {}", v.formula.clone().unwrap_or_default(), v.value, w.formula.clone().unwrap_or_default(), w.value),
                    );
                }
            }
        }
    }
    if checked > 0 {
        out = out.tag("sheet:formula-values-checked");
    }
    if kind == "insdel" {
        let (a, b) = (snap_text(&before, dsz), snap_text(&after, dsz));
        if a != b {
            // the one modelled way a range is not restored: an absolute range from line 1 that the insertion
            // stretches to the last line is afterwards indistinguishable from a whole-column/row range
            let coord = |p: &Pt| if ax == "r" { p.r } else { p.c };
            let abs_on_axis = |p: &Pt| if ax == "r" { p.ra } else { p.ca };
            let becomes_whole = |it: &Item| match it {
                Item::Fml { atoms, .. } => atoms.iter().any(|at| match at {
                    Atom::Rng { sheet: rs, a, b, .. } => {
                        let full = if ax == "r" { is_full_rows(a, b) } else { is_full_cols(a, b) };
                        *rs == sheet && !full && abs_on_axis(a) && abs_on_axis(b) && coord(a).min(coord(b)) == 1
                            && coord(a).max(coord(b)) >= pos64 && coord(a).max(coord(b)) + n64 == last(ax)
                    }
                    _ => false,
                }),
                _ => false,
            };
            // only the formulas of such cells may differ
            let mut other = false;
            let mut whole = false;
            for (k, v) in &before.cells {
                if after.cells.get(k) != Some(v) {
                    let it = items.iter().find(|it| matches!(it, Item::Fml { s, r, c, .. } if (*s, *r, *c) == *k));
                    if it.map(becomes_whole).unwrap_or(false) {
                        whole = true;
                    } else {
                        other = true;
                    }
                }
            }
            if before.cells.len() != after.cells.len() || before.rows != after.rows || before.cols != after.cols || before.links != after.links {
                other = true;
            }
            if whole && !other {
                out = out.fail("c14:range-becomes-whole-line", &format!("before: {a} || after: {b}"));
            } else {
                out = out.fail("c14:snapshot-differs", &format!("before: {a} || after: {b}"));
            }
        }
        for (k, v) in &before.cells {
            if after.cells.get(k).map(|w| &w.value) != Some(&v.value) && !tainted.contains(k) {
                out = out.fail("c14:value-differs", &format!("{k:?}: {} -> {:?}", v.value, after.cells.get(k).map(|w| w.value.clone())));
            }
        }
    }
    out
}

fn gen_sheet_kind(ctx: &Ctx, kind: &str, sink: &mut dyn FnMut(String)) {
    let count = match (ctx.tier, kind) {
        (Tier::Quick, _) => 220,
        (Tier::Thorough, _) => 6000,
    };
    let mut top = Rng::new(ctx.seed ^ 0x7369_676d ^ (kind.len() as u64 * 7919) ^ kind.as_bytes()[0] as u64);
    for case in 0..count {
        let mut rng = top.fork();
        let ax = if rng.chance(1, 2) { "r" } else { "c" };
        let api = if rng.chance(1, 3) { "u" } else { "m" };
        let sheet = 0u32;
        // the operation
        let pos = rng.range(1, 9);
        let n = rng.range(1, 3);
        let mut d = 0;
        if kind == "mov" {
            d = if rng.chance(1, 2) { rng.range(1, 5) } else { -rng.range(1, 5) };
            if pos + d < 1 {
                d = rng.range(1, 5);
            }
        }
        // a few invalid / degenerate operations
        let (pos, n, d) = match (case % 41, kind) {
            (40, "mov") => (pos, n, 0),
            (39, _) => (pos, 0, d),
            (38, "del") => (0, n, d),
            _ => (pos, n, d),
        };
        let mut items: Vec<Item> = vec![];
        let mut used: std::collections::BTreeSet<(u32, i32, i32)> = Default::default();
        // value cells on sheet 0 (window 1..14 × 1..8) and a few on sheet 1
        let nvals = rng.range(4, 16);
        for _ in 0..nvals {
            let s = if rng.chance(1, 6) { 1 } else { 0 };
            let (r, c) = (rng.range(1, 14) as i32, rng.range(1, 8) as i32);
            if !used.insert((s, r, c)) {
                continue;
            }
            let (input, content, ty) = *rng.pick(CATALOGUE);
            let sz = if rng.chance(1, 3) { rng.range(14, 19) } else { 0 };
            let quote = input.starts_with('\'') as u8;
            items.push(Item::Val { s, r, c, obs: format!("{}.{ty}.{sz}.{quote}", hex(content)), input: input.into() });
        }
        // formulas on both sheets, referencing sheet 0 (and sometimes sheet 1)
        let nf = rng.range(2, 7);
        for _ in 0..nf {
            let s = if rng.chance(1, 4) { 1 } else { 0 };
            let (r, c) = (rng.range(1, 14) as i32, rng.range(9, 12) as i32);
            if !used.insert((s, r, c)) {
                continue;
            }
            let (tpl, _k, shape) = *rng.pick(TEMPLATES);
            let mut atoms = vec![];
            for ch in shape.chars() {
                let rs = if rng.chance(1, 6) { 1 } else { 0 };
                let named = rs != s || rng.chance(1, 5);
                let pt = |rng: &mut Rng| Pt { ra: rng.chance(1, 3), r: rng.range(1, 14), ca: rng.chance(1, 3), c: rng.range(1, 8) };
                if ch == 'r' {
                    atoms.push(Atom::Ref { sheet: rs, named, p: pt(&mut rng) });
                } else if rng.chance(1, 12) {
                    // whole column / whole row
                    let c1 = rng.range(1, 8);
                    if rng.chance(1, 2) {
                        atoms.push(Atom::Rng { sheet: rs, named, a: Pt { ra: true, r: 1, ca: false, c: c1 }, b: Pt { ra: true, r: LAST_ROW, ca: false, c: c1 } });
                    } else {
                        atoms.push(Atom::Rng { sheet: rs, named, a: Pt { ra: false, r: c1, ca: true, c: 1 }, b: Pt { ra: false, r: c1 + 1, ca: true, c: LAST_COLUMN } });
                    }
                } else {
                    let (a, b) = (pt(&mut rng), pt(&mut rng));
                    let a2 = Pt { ra: a.ra, r: a.r.min(b.r), ca: a.ca, c: a.c.min(b.c) };
                    let b2 = Pt { ra: b.ra, r: a.r.max(b.r), ca: b.ca, c: a.c.max(b.c) };
                    atoms.push(Atom::Rng { sheet: rs, named, a: a2, b: b2 });
                }
            }
            let sz = if rng.chance(1, 4) { rng.range(14, 19) } else { 0 };
            items.push(Item::Fml { s, r, c, tpl: tpl.into(), obs: sz.to_string(), atoms });
        }
        // row descriptors (heights, styles, hidden)
        let mut rows_used = std::collections::BTreeSet::new();
        for _ in 0..rng.range(0, 4) {
            let r = rng.range(1, 16) as i32;
            if !rows_used.insert(r) {
                continue;
            }
            let h = rng.range(30, 70);
            let sz = if rng.chance(1, 2) { rng.range(20, 24) } else { 0 };
            items.push(Item::Row { s: 0, r, hidden: rng.chance(1, 3), obs: format!("{h}.{sz}") });
        }
        // column descriptors: sorted, disjoint; single- and multi-column descriptors with any styles
        // (set_column_width_and_style keeps the requested style when it splits a descriptor: fix F29a)
        let single = rng.chance(1, 3);
        let mut c = rng.range(1, 4) as i32;
        for _ in 0..rng.range(0, 4) {
            let width = if single { 1 } else { rng.range(1, 4) as i32 };
            let style = if rng.chance(1, 2) { Some(rng.range(20, 24) as i32) } else { None };
            let w = if rng.chance(3, 4) { Some(rng.range(40, 200) as i32) } else { None };
            let w = if w == Some(90) { Some(91) } else { w };
            items.push(Item::Col { s: 0, min: c, max: c + width - 1, w, hidden: rng.chance(1, 4), style });
            c += width + rng.range(0, 3) as i32;
        }
        // links on cells (with or without content)
        let mut id = 0;
        for _ in 0..rng.range(0, 5) {
            let (r, cc) = (rng.range(1, 14) as i32, rng.range(1, 8) as i32);
            if items.iter().any(|it| matches!(it, Item::Link { r: r2, c: c2, .. } if *r2 == r && *c2 == cc)) {
                continue;
            }
            id += 1;
            items.push(Item::Link { s: 0, r, c: cc, id: format!("{id}") });
        }
        if kind == "insdel" && case % 50 == 7 && n > 0 {
            // F14a witness family: an absolute range from line 1 that the insertion stretches to the last line
            let lastv = last(ax);
            let (a, b) = if ax == "r" {
                (Pt { ra: true, r: 1, ca: true, c: 2 }, Pt { ra: true, r: lastv - n, ca: true, c: 2 })
            } else {
                (Pt { ra: true, r: 2, ca: true, c: 1 }, Pt { ra: true, r: 2, ca: true, c: lastv - n })
            };
            if used.insert((0, 15, 12)) {
                items.push(Item::Fml { s: 0, r: 15, c: 12, tpl: "SUM({})".into(), obs: "0".into(), atoms: vec![Atom::Rng { sheet: 0, named: false, a, b }] });
            }
        }
        let body: Vec<String> = items.iter().map(item_text).collect();
        sink(format!("c12 sheet {api} {ax} {kind} {sheet} {pos} {n} {d} {}", body.join(" ")));
    }
}

fn gen_sheet_ins(ctx: &Ctx, sink: &mut dyn FnMut(String)) {
    gen_sheet_kind(ctx, "ins", sink)
}
fn gen_sheet_del(ctx: &Ctx, sink: &mut dyn FnMut(String)) {
    gen_sheet_kind(ctx, "del", sink)
}
fn gen_sheet_insdel(ctx: &Ctx, sink: &mut dyn FnMut(String)) {
    gen_sheet_kind(ctx, "insdel", sink)
}
fn gen_sheet_mov(ctx: &Ctx, sink: &mut dyn FnMut(String)) {
    gen_sheet_kind(ctx, "mov", sink)
}

fn eval(req: &str) -> ImplOut {
    let f: Vec<&str> = req.split(' ').collect();
    if f.len() < 3 || f[0] != "c12" {
        return ImplOut::new("bad-request".into());
    }
    let r = std::panic::catch_unwind(|| match f[1] {
        "rho" if f.len() >= 17 => eval_rho(&f),
        "sheet" if f.len() >= 9 => eval_sheet(&f),
        _ => ImplOut::new("bad-request".into()),
    });
    match r {
        Ok(o) => o,
        Err(_) => ImplOut::new("panic".into()).fail("c12:panic", req),
    }
}

const RHO_RULE: &str = "reference rewrite: real Parser::parse at the host + to_string_displaced + re-parse/print vs the model's rho, for every displacement position/count in a window, every target position 1..10 and the last four lines, all abs/rel combinations, hosts before/after the band and on the other sheet, unnamed/named/other-sheet references, ranges (all ordered pairs; flag combinations sampled in quick, all pairs in thorough), whole-row/column ranges, inverted spellings; non-trivial = every case (distinct requests)";
const SIGMA_RULE: &str = "random two-sheet workbooks (catalogue of numbers, long-precision numbers, strings, quote-prefixed look-alikes, booleans, errors, URL-like strings, styled empty cells; safe-fragment formulas with relative/absolute/cross-sheet refs, ranges, whole row/column ranges; row descriptors; single and multi-column descriptors; hidden rows/columns; links), the real action through Model (2/3) or UserModel (1/3), whole resulting layout vs the model; oracle: the property between the snapshots before/after; non-trivial = the action succeeded";

pub fn suites_c12() -> Vec<Suite> {
    vec![
        Suite { name: "c12-rho", rule: RHO_RULE, modelled: true, gen: gen_rho_ins, eval, exhaustive: never },
        Suite { name: "c12-sigma", rule: SIGMA_RULE, modelled: true, gen: gen_sheet_ins, eval, exhaustive: never },
    ]
}
pub fn suites_c13() -> Vec<Suite> {
    vec![
        Suite { name: "c13-rho", rule: RHO_RULE, modelled: true, gen: gen_rho_del, eval, exhaustive: never },
        Suite { name: "c13-sigma", rule: SIGMA_RULE, modelled: true, gen: gen_sheet_del, eval, exhaustive: never },
    ]
}
pub fn suites_c14() -> Vec<Suite> {
    vec![Suite { name: "c14-roundtrip", rule: SIGMA_RULE, modelled: true, gen: gen_sheet_insdel, eval, exhaustive: never }]
}
pub fn suites_c15() -> Vec<Suite> {
    vec![
        Suite { name: "c15-rho", rule: RHO_RULE, modelled: true, gen: gen_rho_mov, eval, exhaustive: never },
        Suite { name: "c15-sigma", rule: SIGMA_RULE, modelled: true, gen: gen_sheet_mov, eval, exhaustive: never },
    ]
}
