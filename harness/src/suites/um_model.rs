//! Correspondence suites for the user-model history machine (C01–C04, C27): the MODELLED subset of
//! operations (attribute operations, see lean/IronCalc/User/Diffs.lean) run as whole histories on
//! the real `UserModel` and on the Lean model driver (`lean/Driver/Um.lean`).
//!
//! request:  `<cXX> m <cmd> <cmd> …`  (command tokens documented in Driver/Um.lean)
//! answer:   `<step>,<step>,… | <primary state> ~ <replica ok><replica state> | wf=<0|1>`
//!   step = `o|e` + `undo depth/redo depth/queue length` after the command.
//! The replica is `UserModel::from_bytes` of the initial bytes, fed with every flushed batch and
//! the final flush through `apply_external_diffs`.
use crate::prng::Rng;
use crate::proto::{hex, unhex};
use crate::run::{never, Ctx, ImplOut, Suite, Tier};
use ironcalc_base::types::{Color, SheetState};
use ironcalc_base::UserModel;
use std::collections::BTreeSet;

const TZS: [&str; 4] = ["UTC", "Europe/Berlin", "America/New_York", "Asia/Tokyo"];
const LOCALES: [&str; 4] = ["en", "de", "es", "fr"];

fn color_text(c: &Color) -> String {
    match c {
        Color::None => String::new(),
        Color::Rgb(s) => s.clone(),
        Color::Theme(i, t) => format!("[{i},{t}]"),
    }
}

/// canonical text of the modelled part of the workbook (must match `Driver.bookStr`)
pub fn model_state(m: &UserModel) -> String {
    let wb = &m.get_model().workbook;
    let mut out = format!(
        "n={};l={};t={};",
        hex(&wb.name),
        hex(&wb.settings.locale),
        hex(&wb.settings.tz)
    );
    for ws in &wb.worksheets {
        let st = match ws.state {
            SheetState::Visible => "v",
            SheetState::Hidden => "h",
            SheetState::VeryHidden => "x",
        };
        // per-column view
        let mut cols: BTreeSet<i32> = BTreeSet::new();
        for c in &ws.cols {
            if c.max - c.min < 4096 {
                for x in c.min..=c.max {
                    cols.insert(x);
                }
            }
        }
        let mut cs = vec![];
        for c in cols {
            let w = ws.get_actual_column_width(c).unwrap_or(-1.0).round() as i64;
            let h = ws.is_column_hidden(c).unwrap_or(false);
            let styled = ws.get_column_style(c).unwrap_or(None).is_some();
            if w != 90 || h || styled {
                cs.push(format!("{}:{}:{}{}", c, w, h as u8, if styled { ":styled" } else { "" }));
            }
        }
        let mut rows: Vec<_> = ws.rows.iter().collect();
        rows.sort_by_key(|r| r.r);
        let mut rs = vec![];
        let mut seen = BTreeSet::new();
        for r in rows {
            if !seen.insert(r.r) {
                continue; // first match wins in the engine's lookups
            }
            let h = (r.height * 1.5625).round() as i64;
            if h != 25 || r.hidden || r.s != 0 {
                rs.push(format!("{}:{}:{}{}", r.r, h, r.hidden as u8, if r.s != 0 { ":styled" } else { "" }));
            }
        }
        // plain cell contents (empty cells and empty strings are not listed)
        let mut xs = vec![];
        let mut keys: Vec<(i32, i32)> = vec![];
        for (r, data) in &ws.sheet_data {
            for c in data.keys() {
                keys.push((*r, *c));
            }
        }
        keys.sort();
        let sheet_index = wb.worksheets.iter().position(|w| w.sheet_id == ws.sheet_id).unwrap_or(0) as u32;
        for (r, c) in keys {
            let t = m.get_cell_content(sheet_index, r, c).unwrap_or_default();
            if !t.is_empty() {
                xs.push(format!("{},{}={}", r, c, hex(&t)));
            }
        }
        out.push_str(&format!(
            "S[{},{},{},{},{},{},g{},C{{{}}},R{{{}}},X{{{}}}]",
            hex(&ws.name),
            ws.sheet_id,
            st,
            hex(&color_text(&ws.color)),
            ws.frozen_rows,
            ws.frozen_columns,
            ws.show_grid_lines as u8,
            cs.join(" "),
            rs.join(" "),
            xs.join(" ")
        ));
    }
    out
}

/// the clauses of C27 the attribute model expresses (must match `Driver.wfBook`)
fn wf_attr(m: &UserModel) -> bool {
    let wb = &m.get_model().workbook;
    if wb.worksheets.is_empty() {
        return false;
    }
    let bad = ['\\', '/', '*', '?', ':', '[', ']'];
    let mut names = BTreeSet::new();
    let mut ids = BTreeSet::new();
    for ws in &wb.worksheets {
        if ws.name.is_empty() || ws.name.chars().count() > 31 || ws.name.contains(&bad[..]) {
            return false;
        }
        if !names.insert(ws.name.to_uppercase()) || !ids.insert(ws.sheet_id) {
            return false;
        }
    }
    true
}

fn apply_tok(m: &mut UserModel<'static>, tok: &str) -> Option<Result<(), String>> {
    let f: Vec<&str> = tok.split(':').collect();
    let u = |s: &str| s.parse::<u32>().ok();
    let i = |s: &str| s.parse::<i32>().ok();
    let b = |s: &str| match s {
        "1" => Some(true),
        "0" => Some(false),
        _ => None,
    };
    Some(match f.as_slice() {
        ["name", h] => {
            m.set_name(&unhex(h)?);
            Ok(())
        }
        ["tz", h] => m.set_timezone(&unhex(h)?),
        ["loc", h] => m.set_locale(&unhex(h)?),
        ["fr", s, n] => m.set_frozen_rows_count(u(s)?, i(n)?),
        ["fc", s, n] => m.set_frozen_columns_count(u(s)?, i(n)?),
        ["grid", s, v] => m.set_show_grid_lines(u(s)?, b(v)?),
        ["color", s, h] => {
            let t = unhex(h)?;
            let c = if t.is_empty() { Color::None } else { Color::Rgb(t) };
            m.set_sheet_color(u(s)?, &c)
        }
        ["hide", s] => m.hide_sheet(u(s)?),
        ["unhide", s] => m.unhide_sheet(u(s)?),
        ["rename", s, h] => m.rename_sheet(u(s)?, &unhex(h)?),
        ["newsheet"] => m.new_sheet(),
        ["delsheet", s] => m.delete_sheet(u(s)?),
        ["cw", s, a, z, w] => m.set_columns_width(u(s)?, i(a)?, i(z)?, i(w)? as f64),
        ["rh", s, a, z, w] => m.set_rows_height(u(s)?, i(a)?, i(z)?, i(w)? as f64),
        ["ch", s, a, z, v] => m.set_columns_hidden(u(s)?, i(a)?, i(z)?, b(v)?),
        ["rhid", s, a, z, v] => m.set_rows_hidden(u(s)?, i(a)?, i(z)?, b(v)?),
        ["mr", s, r, n, d] => m.move_rows_action(u(s)?, i(r)?, i(n)?, i(d)?),
        ["mc", s, r, n, d] => m.move_columns_action(u(s)?, i(r)?, i(n)?, i(d)?),
        ["in", s, r, c, h] => m.set_user_input(u(s)?, i(r)?, i(c)?, &unhex(h)?),
        ["clr", s, r, c, w, h] => m.range_clear_contents(&ironcalc_base::expressions::types::Area {
            sheet: u(s)?,
            row: i(r)?,
            column: i(c)?,
            width: i(w)?,
            height: i(h)?,
        }),
        _ => return None,
    })
}

pub fn eval_model(req: &str) -> ImplOut {
    let f: Vec<&str> = req.split(' ').collect();
    if f.len() < 2 || f[1] != "m" {
        return ImplOut::new("bad-op".into());
    }
    let mut m = match UserModel::new_empty("model", "en", "UTC", "en") {
        Ok(m) => m,
        Err(e) => return ImplOut::new(format!("init-failed {e}")),
    };
    let mut replica = match UserModel::from_bytes(&m.to_bytes(), "en") {
        Ok(r) => r,
        Err(e) => return ImplOut::new(format!("replica-init-failed {e}")),
    };
    let mut rep_ok = true;
    let mut steps = vec![];
    let mut wf = true;
    let mut tags = vec![];
    let mut n_err = 0;
    for tok in &f[2..] {
        let ok = match *tok {
            "U" => m.undo().is_ok(),
            "R" => m.redo().is_ok(),
            "F" => {
                let q = m.flush_send_queue();
                if rep_ok && replica.apply_external_diffs(&q).is_err() {
                    rep_ok = false;
                }
                true
            }
            t => match apply_tok(&mut m, t) {
                Some(r) => r.is_ok(),
                None => return ImplOut::new("bad-op".into()),
            },
        };
        let kind = tok.split(':').next().unwrap_or("");
        tags.push(format!("{}:{}", kind, if ok { "ok" } else { "err" }));
        if !ok {
            n_err += 1;
        }
        let (u, r) = m.verif_history_len();
        steps.push(format!("{}{}/{}/{}", if ok { "o" } else { "e" }, u, r, m.verif_queue_len()));
        wf = wf && wf_attr(&m);
    }
    let q = m.flush_send_queue();
    if rep_ok && replica.apply_external_diffs(&q).is_err() {
        rep_ok = false;
    }
    let ans = format!(
        "{} | {} ~ {}{} | wf={}",
        steps.join(","),
        model_state(&m),
        rep_ok as u8,
        model_state(&replica),
        wf as u8
    );
    let mut out = ImplOut::new(ans);
    out.tags = tags;
    out.nontrivial = f.len() > 3;
    if n_err > 0 {
        out = out.tag("history:with-failed-op");
    }
    if !wf && f[0] == "c27" {
        // C27 evaluated directly on the implementation: names valid + unique ignoring case, ids unique
        out = out.fail(
            "c27:sheet-names-or-ids-not-well-formed",
            &format!("after some command of this history the sheet names/ids were not well-formed ;; replay: {req}"),
        );
    }
    out
}

fn name_pool(rng: &mut Rng) -> String {
    let valid = ["Data", "Sheet2", "sheet1", "SHEET3", "Summary", "Q1 2024", "a", "Sheet1"];
    let invalid = ["", "a[b", "x/y", "q?", "0123456789012345678901234567890123"];
    if rng.chance(1, 5) {
        rng.pick(&invalid).to_string()
    } else {
        rng.pick(&valid).to_string()
    }
}

/// one modelled command; `sheets` is a rough guess of the sheet count (only steers validity)
fn gen_cmd(rng: &mut Rng, sheets: &mut i64, depth: &mut i64) -> String {
    let sheet = |rng: &mut Rng, sheets: i64| -> i64 {
        if rng.chance(1, 12) {
            sheets + rng.range(0, 5)
        } else {
            rng.range(0, (sheets - 1).max(0))
        }
    };
    let range = |rng: &mut Rng, last: i64| -> (i64, i64) {
        match rng.below(14) {
            0 => (last - 1, last + 1), // crosses the grid edge
            1 => (0, 2),               // starts off the grid
            2 => (-3, -1),
            3 => (last, last),
            4 => (5, 3), // empty range
            _ => {
                let a = rng.range(1, 7);
                (a, a + rng.range(0, 3))
            }
        }
    };
    match rng.below(36) {
        0 | 1 | 2 => {
            *depth -= 1;
            "U".into()
        }
        3 | 4 => "R".into(),
        5 => "F".into(),
        6 => format!("name:{}", hex(*rng.pick(&["model", "Book", "Plan 2025", ""]))),
        7 => {
            let tz = if rng.chance(1, 4) { *rng.pick(&["Nowhere/Land", "", "utc"]) } else { *rng.pick(&TZS) };
            format!("tz:{}", hex(tz))
        }
        8 => {
            let l = if rng.chance(1, 4) { *rng.pick(&["xx", "", "EN"]) } else { *rng.pick(&LOCALES) };
            format!("loc:{}", hex(l))
        }
        9 => format!("fr:{}:{}", sheet(rng, *sheets), *rng.pick(&[0i64, 1, 2, 5, 1048575, -1, 1048576, 2000000])),
        10 => format!("fc:{}:{}", sheet(rng, *sheets), *rng.pick(&[0i64, 1, 3, 16383, -2, 16384, 50000])),
        11 => format!("grid:{}:{}", sheet(rng, *sheets), rng.below(2)),
        12 => format!("color:{}:{}", sheet(rng, *sheets), hex(*rng.pick(&["#FF0000", "#00aa11", "", "#123456"]))),
        13 => format!("hide:{}", sheet(rng, *sheets)),
        14 => format!("unhide:{}", sheet(rng, *sheets)),
        15 | 16 => format!("rename:{}:{}", sheet(rng, *sheets), hex(&name_pool(rng))),
        17 | 18 => {
            *sheets += 1;
            "newsheet".into()
        }
        19 => {
            let s = sheet(rng, *sheets);
            if *sheets > 1 && s < *sheets {
                *sheets -= 1;
            }
            format!("delsheet:{s}")
        }
        20 => {
            let (a, z) = range(rng, 16384);
            format!("cw:{}:{}:{}:{}", sheet(rng, *sheets), a, z, *rng.pick(&[120i64, 40, 90, 0, 250, -5]))
        }
        21 => {
            let (a, z) = range(rng, 1048576);
            format!("rh:{}:{}:{}:{}", sheet(rng, *sheets), a, z, *rng.pick(&[40i64, 25, 10, 0, 100, -1]))
        }
        22 => {
            let (a, z) = range(rng, 16384);
            format!("ch:{}:{}:{}:{}", sheet(rng, *sheets), a, z, rng.below(2))
        }
        23 => {
            let (a, z) = range(rng, 1048576);
            format!("rhid:{}:{}:{}:{}", sheet(rng, *sheets), a, z, rng.below(2))
        }
        30..=33 => {
            // plain typed text (implies no format): valid and off-grid targets
            let r = *rng.pick(&[1i64, 2, 3, 4, 5, 6, 2, 3, 0, 1048577]);
            let c = *rng.pick(&[1i64, 2, 3, 4, 1, 2, 0, 16385]);
            format!("in:{}:{}:{}:{}", sheet(rng, *sheets), r, c, hex(*rng.pick(&["alpha", "beta", "x y", "Total"])))
        }
        34..=35 => {
            let (r, c, w, h) = *rng.pick(&[(1i64, 1i64, 3i64, 3i64), (2, 2, 2, 1), (3, 1, 4, 2), (1, 1, 1, 1), (1048576, 1, 1, 2), (1, 16384, 2, 1), (2, 2, 0, 3), (0, 1, 2, 2), (2, 1, -1, 2)]);
            format!("clr:{}:{}:{}:{}:{}", sheet(rng, *sheets), r, c, w, h)
        }
        27..=29 => {
            // column moves (both directions, landing zones that may contain hidden columns, off-grid targets)
            let col = *rng.pick(&[1i64, 2, 3, 4, 5, 6, 8, 0, 16383]);
            let count = *rng.pick(&[1i64, 1, 2, 3, 0, -1]);
            let delta = *rng.pick(&[1i64, 2, 3, -1, -2, -3, 0, 4]);
            format!("mc:{}:{}:{}:{}", sheet(rng, *sheets), col, count, delta)
        }
        _ => {
            // row moves (both directions, landing zones that may contain hidden rows, off-grid targets)
            let row = *rng.pick(&[1i64, 2, 3, 4, 5, 6, 8, 0, 1048575]);
            let count = *rng.pick(&[1i64, 1, 2, 3, 0, -1]);
            let delta = *rng.pick(&[1i64, 2, 3, -1, -2, -3, 0, 4]);
            format!("mr:{}:{}:{}:{}", sheet(rng, *sheets), row, count, delta)
        }
    }
}

pub fn gen_histories(prefix: &str, ctx: &Ctx, sink: &mut dyn FnMut(String)) {
    // regression corpus first: the witnesses of the fixed defects and of F01c
    let h = |s: &str| hex(s);
    let corpus = [
        format!("tz:{}", h("Nowhere/Land")),
        format!("loc:{}", h("xx")),
        "fr:0:-1".to_string(),
        "fc:0:16384".to_string(),
        "delsheet:0".to_string(),
        "hide:7".to_string(),
        "unhide:3".to_string(),
        "cw:0:16383:16385:30".to_string(),
        "rh:0:1048575:1048577:30".to_string(),
        "ch:0:16383:16385:1".to_string(),
        "rhid:0:1048575:1048577:1".to_string(),
        "cw:0:3:3:200 ch:0:3:3:1 cw:0:3:3:50 U U U".to_string(),
        "rh:0:3:3:60 rhid:0:3:3:1 rh:0:3:3:10 U U U".to_string(),
        format!("newsheet newsheet rename:1:{} rename:2:{} U U delsheet:1 U R F U", h("Data"), h("data")),
        format!("newsheet delsheet:0 U U R R rename:0:{} U", h("Sheet2")),
        "cw:0:5:3:10 U R cw:0:5:3:-1".to_string(),
        // row moves over hidden rows: the recorded delta is the effective one (seeded defect C03)
        "rh:0:2:2:40 rhid:0:3:3:1 mr:0:2:1:1 U R U".to_string(),
        "rh:0:6:6:50 rhid:0:4:5:1 mr:0:6:1:-1 F U R".to_string(),
        "rhid:0:3:4:1 rh:0:1:2:33 mr:0:1:2:2 U U R R".to_string(),
        "mr:0:1:1:-1 mr:0:0:1:1 mr:0:1048575:1:3 mr:0:2:0:1 mr:0:2:1:0".to_string(),
        // plain cells: input (with auto-fit of a low row), clear, undo/redo, cells riding on moves
        format!("in:0:2:1:{} in:0:3:2:{} clr:0:1:1:3:3 U R U U U", h("alpha"), h("beta")),
        format!("rh:0:2:2:10 in:0:2:1:{} U R F", h("alpha")),
        format!("in:0:2:1:{} rhid:0:3:3:1 mr:0:2:1:1 U R mc:0:1:1:2 U U", h("alpha")),
        format!("in:0:1:1:{} newsheet delsheet:0 U U R R", h("Total")),
        "clr:0:1048576:1:1:2 clr:0:2:2:0:3 clr:7:1:1:1:1".to_string(),
        // column moves over hidden columns (twin)
        "cw:0:2:2:40 ch:0:3:3:1 mc:0:2:1:1 U R U".to_string(),
        "cw:0:6:6:50 ch:0:4:5:1 mc:0:6:1:-1 F U R".to_string(),
        "ch:0:3:4:1 cw:0:1:2:33 mc:0:1:2:2 U U R R".to_string(),
        "mc:0:1:1:-1 mc:0:0:1:1 mc:0:16383:1:3 mc:0:2:0:1 mc:0:2:1:0".to_string(),
    ];
    for c in corpus.iter() {
        sink(format!("{prefix} m {c}"));
    }
    let n = if ctx.tier == Tier::Quick { 400 } else { 6000 };
    let mut rng = Rng::new(ctx.seed ^ 0x5EED_0001);
    for _ in 0..n {
        let len = rng.range(1, if ctx.tier == Tier::Quick { 30 } else { 80 });
        let mut sheets = 1i64;
        let mut depth = 0i64;
        let mut toks = vec![];
        for _ in 0..len {
            toks.push(gen_cmd(&mut rng, &mut sheets, &mut depth));
        }
        sink(format!("{prefix} m {}", toks.join(" ")));
    }
}

macro_rules! model_suite {
    ($fname:ident, $gname:ident, $prefix:expr, $sname:expr) => {
        fn $gname(ctx: &Ctx, sink: &mut dyn FnMut(String)) {
            gen_histories($prefix, ctx, sink)
        }
        pub fn $fname() -> Suite {
            Suite {
                name: $sname,
                rule: "whole histories over the modelled attribute operations (workbook name, timezone, locale, frozen rows/columns, grid lines, tab colour, hide/unhide/rename/new/delete sheet, column widths, row heights, hidden columns/rows, row and column moves with the hidden-adjusted effective delta, plain typed text and range_clear_contents; valid and invalid arguments) interleaved with undo/redo/flush, run on the real UserModel + a from_bytes replica fed by apply_external_diffs, and on the Lean model; compared: per command Ok/Err, undo/redo stack depths and queue length (hooks), final modelled state of primary and replica, well-formedness flag; a fixed corpus of the witnesses of the repaired defects first, then seeded random histories (quick 400 x <=30 commands, thorough 6000 x <=80); non-trivial = at least two commands",
                modelled: true,
                gen: $gname,
                eval: eval_model,
                exhaustive: never,
            }
        }
    };
}

model_suite!(c01_model, gen_c01, "c01", "c01-model");
model_suite!(c02_model, gen_c02, "c02", "c02-model");
model_suite!(c03_model, gen_c03, "c03", "c03-model");
model_suite!(c04_model, gen_c04, "c04", "c04-model");
model_suite!(c27_model, gen_c27, "c27", "c27-model");
