//! verif_harness: correspondence (implementation vs Lean model driver) and property oracles.
//!   verif_harness run <Cxx> --tier quick|thorough --seed N --driver <exe> --work <dir> --out <json>
//!   verif_harness replay <Cxx> <suite> <request line…>
//!   verif_harness extract <out-dir>
mod fbridge;
mod prng;
mod proto;
mod run;
mod suites;
mod wbgen;

use run::{Ctx, Tier};
use serde_json::json;
use std::path::PathBuf;

fn arg_after(args: &[String], key: &str) -> Option<String> {
    args.iter().position(|a| a == key).and_then(|i| args.get(i + 1).cloned())
}

fn main() {
    let args: Vec<String> = std::env::args().collect();
    if args.len() < 2 {
        eprintln!("usage: verif_harness run|replay|extract …");
        std::process::exit(2);
    }
    // panics inside the implementation are caught per case by the suites that care (C11/C25);
    // keep the default hook quiet so that output stays readable.
    std::panic::set_hook(Box::new(|_| {}));
    match args[1].as_str() {
        "run" => {
            let prop = args[2].clone();
            let tier = match arg_after(&args, "--tier").as_deref() {
                Some("thorough") => Tier::Thorough,
                _ => Tier::Quick,
            };
            let seed = arg_after(&args, "--seed").and_then(|s| s.parse().ok()).unwrap_or(1u64);
            let driver = PathBuf::from(arg_after(&args, "--driver").expect("--driver"));
            let work = PathBuf::from(arg_after(&args, "--work").expect("--work"));
            let out = PathBuf::from(arg_after(&args, "--out").expect("--out"));
            let ctx = Ctx { tier, seed, driver, work };
            let suites = suites::for_property(&prop);
            if suites.is_empty() {
                eprintln!("no suites for {prop}");
                std::process::exit(2);
            }
            let results: Vec<_> = suites.iter().map(|s| run::run_suite(&ctx, s)).collect();
            let v = json!({"property": prop, "seed": seed,
                           "tier": if tier == Tier::Quick {"quick"} else {"thorough"},
                           "suites": results});
            std::fs::write(&out, serde_json::to_string_pretty(&v).unwrap()).expect("write out");
        }
        "replay" => {
            let prop = args[2].clone();
            let suite = args[3].clone();
            let req = args[4..].join(" ");
            let suites = suites::for_property(&prop);
            match suites.iter().find(|s| s.name == suite) {
                Some(s) => println!("{}", serde_json::to_string_pretty(&run::replay_suite(s, &req)).unwrap()),
                None => {
                    eprintln!("unknown suite {suite} for {prop}");
                    std::process::exit(2);
                }
            }
        }
        "extract" => {
            let dir = PathBuf::from(&args[2]);
            suites::extract_all(&dir);
        }
        _ => {
            eprintln!("unknown command");
            std::process::exit(2);
        }
    }
}
