//! Line protocol helpers: hex-encoded strings (`-` is the empty string).
pub fn hex(s: &str) -> String {
    hex_bytes(s.as_bytes())
}
pub fn hex_bytes(b: &[u8]) -> String {
    if b.is_empty() {
        return "-".to_string();
    }
    let mut out = String::with_capacity(b.len() * 2);
    for x in b {
        out.push_str(&format!("{:02x}", x));
    }
    out
}
pub fn unhex(s: &str) -> Option<String> {
    if s == "-" {
        return Some(String::new());
    }
    let b = s.as_bytes();
    if b.len() % 2 != 0 {
        return None;
    }
    let mut out = Vec::with_capacity(b.len() / 2);
    for i in (0..b.len()).step_by(2) {
        let h = (b[i] as char).to_digit(16)?;
        let l = (b[i + 1] as char).to_digit(16)?;
        out.push((h * 16 + l) as u8);
    }
    String::from_utf8(out).ok()
}
