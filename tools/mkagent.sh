#!/bin/bash
# usage: mkagent.sh <name>   — scratch worktrees of /verif and /repo for a parallel builder
set -e
n=$1
mkdir -p /tmp/agents/$n
git -C /verif worktree add -q -b agent-$n /tmp/agents/$n/verif HEAD
git -C /repo worktree add -q -b agent-$n /tmp/agents/$n/repo HEAD
cd /tmp/agents/$n/verif
sed -i "s#/repo/base#/tmp/agents/$n/repo/base#; s#/repo/xlsx#/tmp/agents/$n/repo/xlsx#" harness/Cargo.toml
git update-index --assume-unchanged harness/Cargo.toml
# warm caches: Lean build products and cargo target
cp -r /verif/lean/.lake lean/.lake
mkdir -p .build && cp -r /verif/.build/cargo .build/cargo
echo ready /tmp/agents/$n
