#!/bin/bash
# usage: eval_seed.sh <seed dir name under /verif/seeded> <property> [more properties]
# applies seeded/<name>/patch.diff to /repo, runs the quick checks, reverts.
name=$1; shift
cd /verif
if ! git -C /repo diff --quiet; then echo "/repo is dirty"; exit 2; fi
git -C /repo apply /verif/seeded/$name/patch.diff || { echo "patch does not apply"; exit 2; }
: > seeded/$name/detect.log
for p in "$@"; do
  echo "=== ./check $p (seed $name applied) $(date +%T)" >> seeded/$name/detect.log
  timeout 3000 ./check $p 2>&1 | cut -c1-400 >> seeded/$name/detect.log
  echo "exit=${PIPESTATUS[0]}" >> seeded/$name/detect.log
  for f in replays/$p-*.json; do [ -f "$f" ] && { echo "--- $f" >> seeded/$name/detect.log; head -c 1500 $f >> seeded/$name/detect.log; echo >> seeded/$name/detect.log; }; done
  rm -rf replays
done
git -C /repo checkout -- .
# evidence and regenerated tables written while the seed was applied are not evidence about /repo
git -C /verif checkout -- evidence lean/IronCalc/Generated 2>/dev/null
echo "evaluated $name"
