#!/bin/bash
# usage: runthorough.sh C05 C07 ...   → /verif/.build/thorough.log
cd /verif
for p in "$@"; do
  echo "=== $p $(date +%T)" >> .build/thorough.log
  s=$(date +%s)
  timeout 5400 ./check $p --tier thorough 2>&1 | cut -c1-300 | tail -5 >> .build/thorough.log
  echo "rc=${PIPESTATUS[0]} secs=$(( $(date +%s) - s ))" >> .build/thorough.log
done
echo "=== DONE $(date +%T)" >> .build/thorough.log
