#!/bin/bash
# usage: merge_agent.sh <branch>  — merge, auto-resolving generated files (evidence, MANIFEST, known_findings.json) to ours
cd /verif
git merge --no-edit $1 > /tmp/merge.out 2>&1
for f in $(git status --short | grep -E "^(UU|AA)" | awk '{print $2}'); do
  case $f in
    evidence/*|MANIFEST.json|known_findings.json) git checkout --ours $f; git add $f;;
    *) echo "REAL CONFLICT: $f";;
  esac
done
if git status --short | grep -qE "^(UU|AA)"; then echo "unresolved"; exit 1; fi
git commit -qm "merge $1" 2>/dev/null
./check --manifest > /dev/null
git add -A; git commit -qm "manifest after merging $1" -q 2>/dev/null
echo "merged $1"
