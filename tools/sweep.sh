#!/bin/bash
# usage: sweep.sh "<seeds>" C01 C02 ...  → .build/sweep.log (quick tier, several seeds)
cd /verif
seeds=$1; shift
for p in "$@"; do
  for s in $seeds; do
    out=$(timeout 3000 ./check $p --seed $s 2>&1 | grep -E "^OK|^VIOLATION" | cut -c1-200 | tr '\n' ' ')
    echo "$p seed=$s $out" >> .build/sweep.log
    if echo "$out" | grep -q VIOLATION; then mkdir -p .build/sweep_replays; cp replays/$p-*.json .build/sweep_replays/ 2>/dev/null; for f in replays/$p-*.json; do cp $f .build/sweep_replays/$(basename $f .json)-seed$s.json; done; fi
  done
done
echo "DONE $(date +%T)" >> .build/sweep.log
