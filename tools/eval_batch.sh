#!/bin/bash
# usage: eval_batch.sh "C02:C01 C02" "C03:C03" ...
cd /verif
for item in "$@"; do
  s=${item%%:*}; props=${item#*:}
  .build/eval_seed.sh $s $props >> .build/eval_batch.log 2>&1
  grep -E "^=== |^VIOLATION|^exit=" seeded/$s/detect.log | cut -c1-160 >> .build/eval_batch.log
done
echo "DONE $(date +%T)" >> .build/eval_batch.log
