#!/usr/bin/env python3
"""known_findings.d/*.json record the builders' commit ids; /repo main carries cherry-picks with
other ids. Remap every recorded id to the id on main with the same subject line."""
import json,subprocess,glob,re
def sh(*a): return subprocess.check_output(a,text=True)
allc={}
for line in sh('git','-C','/repo','log','--all','--format=%h\t%H\t%s').splitlines():
    h,H,s=line.split('\t',2); allc[h]=s; allc[H]=s
main={}
for line in sh('git','-C','/repo','log','main','--format=%h\t%s').splitlines():
    h,s=line.split('\t',1); main.setdefault(s,h)
def remap(h):
    # accept abbreviated ids of any length >= 7
    subj=None
    for k,s in allc.items():
        if k.startswith(h) or h.startswith(k): subj=s;break
    if subj is None: return None
    return main.get(subj)
changed=0
for p in glob.glob('/verif/known_findings.d/*.json'):
    txt=open(p).read(); new=txt
    for h in set(re.findall(r'\b[0-9a-f]{7,12}\b',txt)):
        if h in main.values(): continue
        r=remap(h)
        if r and r!=h: new=new.replace(h,r)
    if new!=txt: open(p,'w').write(new); changed+=1
print('files changed',changed)
