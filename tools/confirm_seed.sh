#!/bin/bash
# usage: confirm_seed.sh <Cxx>  — confirm a seeded defect in its scratch worktree /tmp/seed/<Cxx>
id=$1; wt=/tmp/seed/$id; out=/verif/seeded/$id
mkdir -p $out; cp $wt/seed/patch.diff $wt/seed/seed_demo.rs $wt/seed/meta.json $out/ 2>/dev/null
cd $wt || exit 2
crate=base; grep -q "^diff --git a/xlsx" seed/patch.diff && crate=xlsx
pkg=ironcalc_base; [ $crate = xlsx ] && pkg=ironcalc
mkdir -p $crate/tests; cp seed/seed_demo.rs $crate/tests/seed_demo.rs
export CARGO_BUILD_JOBS=6
{
echo "== demo WITHOUT the change"; cargo test -p $pkg --offline --test seed_demo 2>&1 | grep -E "^test result|FAILED|panicked" | head -5
git apply seed/patch.diff && echo "== patch applied"
echo "== demo WITH the change"; cargo test -p $pkg --offline --test seed_demo 2>&1 | grep -E "^test result|FAILED|panicked" | head -5
rm -f $crate/tests/seed_demo.rs
echo "== existing test suite WITH the change"; cargo test -p ironcalc_base --offline 2>&1 | grep -E "^test result|FAILED" | head -8
[ $crate = xlsx ] && cargo test -p ironcalc --offline 2>&1 | grep -E "^test result|FAILED" | head -20
git checkout -- . ; git status --short | head -3
} > $out/confirm.log 2>&1
echo "confirmed $id"
