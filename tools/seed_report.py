#!/usr/bin/env python3
"""Update seeded/<id>/meta.json with the confirmation/detection facts and write seeded/README.md"""
import json,os,re,glob
rows=[]
for d in sorted(glob.glob('/verif/seeded/C*')):
    sid=os.path.basename(d)
    try: meta=json.load(open(d+'/meta.json'))
    except Exception as e: meta={'property':sid,'error':str(e)}
    conf=open(d+'/confirm.log').read() if os.path.exists(d+'/confirm.log') else ''
    det=open(d+'/detect.log').read() if os.path.exists(d+'/detect.log') else ''
    demo_fails_with = bool(re.search(r'== demo WITH the change\n(?:.*\n)*?test result: FAILED', conf))
    demo_passes_without = bool(re.search(r'== demo WITHOUT the change\ntest result: ok', conf))
    suite_ok = 'test result: FAILED' not in conf.split('== existing test suite WITH the change')[-1] and 'test result: ok' in conf.split('== existing test suite WITH the change')[-1]
    checks=re.findall(r'=== \./check (C\d+) \(seed',det)
    results={}
    for blk in det.split('=== ./check ')[1:]:
        p=blk.split(' ')[0]
        viol=re.findall(r'VIOLATION property=\S+ replay=\S+( no-failing-input-found)?',blk)
        concrete=any(v=='' for v in viol)
        results[p]={'exit':int(re.search(r'exit=(\d+)',blk).group(1)) if re.search(r'exit=(\d+)',blk) else None,
                    'violations':len(viol),'concrete_replay':concrete,
                    'signatures':sorted(set(re.findall(r'"signature": "([^"]+)"',blk)))[:6]}
    meta['confirmed_by_integrator']={'demo_passes_without_change':demo_passes_without,'demo_fails_with_change':demo_fails_with,'existing_tests_pass_with_change':suite_ok,'how':'.build/confirm_seed.sh in the scratch worktree /tmp/seed/'+sid}
    meta['detection']={'checks_run':checks,'results':results,'how':'.build/eval_seed.sh: git -C /repo apply patch.diff; ./check <id>; git -C /repo checkout -- .'}
    json.dump(meta,open(d+'/meta.json','w'),indent=1,ensure_ascii=False)
    caught=[p for p,r in results.items() if r['exit']==1]
    rows.append((sid,meta.get('files_changed'),(meta.get('needs_to_manifest') or '')[:160].replace('\n',' '),'yes' if demo_passes_without and demo_fails_with and suite_ok else 'NO',', '.join(f"{p}{'' if results[p]['concrete_replay'] else ' (no-failing-input-found)'}" for p in caught) or 'MISSED',', '.join(results.get(sid,{}).get('signatures',[])[:2])))
with open('/verif/seeded/README.md','w') as f:
    f.write('# Seeded defects\n\nEach directory holds a defect produced by a fresh sub-agent that was given only the property text and a scratch worktree of the repository: `patch.diff`, `seed_demo.rs` (fails with the change, passes without), `meta.json` (what it needs to manifest, what was run, confirmation and detection results), `confirm.log`, `detect.log`.\n\n| seed | files | needs | confirmed | caught by | signature(s) |\n|---|---|---|---|---|---|\n')
    for r in rows: f.write('| '+' | '.join(str(x) for x in r)+' |\n')
d=open('/verif/DESIGN.md').read()
b,e='<!-- SEEDED-TABLE-BEGIN -->','<!-- SEEDED-TABLE-END -->'
if b in d and e in d:
    tab='\n| seed | changed file | caught by (concrete replay unless noted) | first signature |\n|---|---|---|---|\n'
    for r in rows:
        files=', '.join(x.split('/')[-1] for x in (r[1] or []))
        tab+=f'| {r[0]} | {files} | {r[4]} | {r[5].split(", ")[0] if r[5] else ""} |\n'
    d=d[:d.index(b)+len(b)]+tab+d[d.index(e):]
    open('/verif/DESIGN.md','w').write(d)
print(open('/verif/seeded/README.md').read()[:3000])
