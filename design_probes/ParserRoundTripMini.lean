/-
Feasibility probe backing DESIGN.md §7 C09 (NOT part of the checks, no MANIFEST entry;
it will be superseded by lean/IronCalc/Formula/*.lean).

A 4-level miniature of IronCalc's grammar (compare < sum < prefix minus / postfix % <
primary, left-associative loops, parentheses) with a printer whose parenthesisation is an
arbitrary table `T : Slot → Kind → Bool`, a fuel-driven recursive-descent parser shaped
like parser/mod.rs, and the theorem

    roundtrip : TableOK T → ∀ e, ∃ fuel, P fuel 0 (pr T e) = some (e, [])

where `TableOK T` only says "T parenthesises wherever the grammar needs it" (`needs` is
derived from the parser).  Proof architecture that worked (checked by `lean` in ≈ 5 s,
axioms: propext, Classical.choice, Quot.sound):
  1. unfolding lemmas per parser clause (`rw [P]` + side conditions);
  2. fuel monotonicity by one induction over the mutual block;
  3. a fuel-free relational layer  R L ts res := ∃ f, P f L ts = some res,  RL for loops,
     RK l L = "run the loops of levels l, l-1, …, L" as an inductive chain;
  4. `NoTighter q rest` (no operator binding tighter than q follows) as the side condition;
  5. one `item` lemma for "a child printed in a slot that needs level q, wrapped or not";
  6. structural induction over the tree, one short case per node kind.
-/
inductive Tok where
  | num (n : Nat) | plus | minus | cmp | pct | lp | rp
  deriving DecidableEq, Repr

inductive E where
  | num (n : Nat)
  | sum (isMinus : Bool) (l r : E)
  | cmp (l r : E)
  | neg (e : E)
  | pct (e : E)
  deriving DecidableEq, Repr

inductive Kind where | num | sum | cmp | neg | pct deriving DecidableEq, Repr
inductive Slot where | cmpL | cmpR | plusL | plusR | minusL | minusR | neg | pct
  deriving DecidableEq, Repr

def E.kind : E → Kind
  | .num _ => .num | .sum .. => .sum | .cmp .. => .cmp | .neg _ => .neg | .pct _ => .pct

-- grammar levels: 0 cmp, 1 sum, 2 unary (prefix - then postfix %*), 3 primary
def Kind.level : Kind → Nat
  | .cmp => 0 | .sum => 1 | .neg => 2 | .pct => 2 | .num => 3

abbrev Table := Slot → Kind → Bool

def wrap (b : Bool) (ts : List Tok) : List Tok := if b then Tok.lp :: ts ++ [Tok.rp] else ts

def pr (T : Table) : E → List Tok
  | .num n => [.num n]
  | .sum m l r =>
      wrap (T (if m then .minusL else .plusL) l.kind) (pr T l) ++
      (if m then Tok.minus else Tok.plus) ::
      wrap (T (if m then .minusR else .plusR) r.kind) (pr T r)
  | .cmp l r => wrap (T .cmpL l.kind) (pr T l) ++ Tok.cmp :: wrap (T .cmpR r.kind) (pr T r)
  | .neg e => Tok.minus :: wrap (T .neg e.kind) (pr T e)
  | .pct e => wrap (T .pct e.kind) (pr T e) ++ [Tok.pct]

-- what the grammar requires (derived from the parser, not from the printer)
def needs : Slot → Kind → Bool
  | .cmpL, _ => false                 -- left-assoc: anything ≥ level 0
  | .cmpR, k => k.level < 1
  | .plusL, k | .minusL, k => k.level < 1
  | .plusR, k | .minusR, k => k.level < 2
  | .neg, k => k.level < 3            -- sign* primary  (then %*: pct(neg x) is what -x% parses to)
  | .pct, k => k.level < 2 -- operand of % : a unary-level thing (neg or pct) or primary

def TableOK (T : Table) : Prop := ∀ s k, needs s k = true → T s k = true

mutual
def P : Nat → Nat → List Tok → Option (E × List Tok)
  | 0, _, _ => none
  | f+1, 0, ts => match P f 1 ts with
      | some (a, r) => L0 f a r
      | none => none
  | f+1, 1, ts => match P f 2 ts with
      | some (a, r) => L1 f a r
      | none => none
  | f+1, 2, ts => match ts with
      | Tok.minus :: r => match P f 3 r with
          | some (a, r') => L2 f (E.neg a) r'
          | none => none
      | _ => match P f 3 ts with
          | some (a, r') => L2 f a r'
          | none => none
  | f+1, _, ts => match ts with
      | Tok.num n :: r => some (E.num n, r)
      | Tok.lp :: r => match P f 0 r with
          | some (a, Tok.rp :: r') => some (a, r')
          | _ => none
      | _ => none
def L0 : Nat → E → List Tok → Option (E × List Tok)
  | 0, _, _ => none
  | f+1, acc, Tok.cmp :: r => match P f 1 r with
      | some (b, r') => L0 f (E.cmp acc b) r'
      | none => none
  | _+1, acc, r => some (acc, r)
def L1 : Nat → E → List Tok → Option (E × List Tok)
  | 0, _, _ => none
  | f+1, acc, Tok.plus :: r => match P f 2 r with
      | some (b, r') => L1 f (E.sum false acc b) r'
      | none => none
  | f+1, acc, Tok.minus :: r => match P f 2 r with
      | some (b, r') => L1 f (E.sum true acc b) r'
      | none => none
  | _+1, acc, r => some (acc, r)
def L2 : Nat → E → List Tok → Option (E × List Tok)
  | 0, _, _ => none
  | f+1, acc, Tok.pct :: r => L2 f (E.pct acc) r
  | _+1, acc, r => some (acc, r)
end



theorem P_0 (f ts) : P (f+1) 0 ts = (match P f 1 ts with | some (a, r) => L0 f a r | none => none) := by rw [P]
theorem P_1 (f ts) : P (f+1) 1 ts = (match P f 2 ts with | some (a, r) => L1 f a r | none => none) := by rw [P]
theorem P_2m (f r) : P (f+1) 2 (Tok.minus :: r) = (match P f 3 r with | some (a, r') => L2 f (E.neg a) r' | none => none) := by rw [P]
theorem P_2o (f ts) (h : ∀ r, ts ≠ Tok.minus :: r) : P (f+1) 2 ts = (match P f 3 ts with | some (a, r') => L2 f a r' | none => none) := by
  rw [P]; exact fun r hr => h r hr
theorem P_3n (f L n r) : P (f+1) (L+3) (Tok.num n :: r) = some (E.num n, r) := by rw [P] <;> omega
theorem P_3p (f L r) : P (f+1) (L+3) (Tok.lp :: r) = (match P f 0 r with | some (a, Tok.rp :: r') => some (a, r') | _ => none) := by rw [P] <;> omega
theorem L0_c (f acc r) : L0 (f+1) acc (Tok.cmp :: r) = (match P f 1 r with | some (b, r') => L0 f (E.cmp acc b) r' | none => none) := by rw [L0]
theorem L0_s (f acc r) (h : ∀ r', r ≠ Tok.cmp :: r') : L0 (f+1) acc r = some (acc, r) := by
  rw [L0]; exact fun r' hr => h r' hr
theorem L2_p (f acc r) : L2 (f+1) acc (Tok.pct :: r) = L2 f (E.pct acc) r := by rw [L2]
theorem L1_p (f acc r) : L1 (f+1) acc (Tok.plus :: r) = (match P f 2 r with | some (b, r') => L1 f (E.sum false acc b) r' | none => none) := by rw [L1]
theorem L1_m (f acc r) : L1 (f+1) acc (Tok.minus :: r) = (match P f 2 r with | some (b, r') => L1 f (E.sum true acc b) r' | none => none) := by rw [L1]
theorem L1_s (f acc r) (h1 : ∀ r', r ≠ Tok.plus :: r') (h2 : ∀ r', r ≠ Tok.minus :: r') : L1 (f+1) acc r = some (acc, r) := by
  rw [L1]
  · exact fun r' hr => h1 r' hr
  · exact fun r' hr => h2 r' hr
theorem L2_s (f acc r) (h : ∀ r', r ≠ Tok.pct :: r') : L2 (f+1) acc r = some (acc, r) := by
  rw [L2]; exact fun r' hr => h r' hr

theorem mono : ∀ f,
    (∀ L ts res, P f L ts = some res → P (f+1) L ts = some res) ∧
    (∀ a ts res, L0 f a ts = some res → L0 (f+1) a ts = some res) ∧
    (∀ a ts res, L1 f a ts = some res → L1 (f+1) a ts = some res) ∧
    (∀ a ts res, L2 f a ts = some res → L2 (f+1) a ts = some res) := by
  intro f
  induction f with
  | zero => simp [P, L0, L1, L2]
  | succ f ih =>
    obtain ⟨ihP, ih0, ih1, ih2⟩ := ih
    refine ⟨?_, ?_, ?_, ?_⟩
    · intro L ts res h
      match L with
      | 0 =>
        rw [P_0] at h ⊢
        split at h
        · next a r h1 => rw [ihP _ _ _ h1]; exact ih0 _ _ _ h
        · simp at h
      | 1 =>
        rw [P_1] at h ⊢
        split at h
        · next a r h1 => rw [ihP _ _ _ h1]; exact ih1 _ _ _ h
        · simp at h
      | 2 =>
        by_cases hm : ∃ r, ts = Tok.minus :: r
        · obtain ⟨r, rfl⟩ := hm
          rw [P_2m] at h ⊢
          split at h
          · next a r' h1 => rw [ihP _ _ _ h1]; exact ih2 _ _ _ h
          · simp at h
        · have hm' : ∀ r, ts ≠ Tok.minus :: r := fun r hr => hm ⟨r, hr⟩
          rw [P_2o _ _ hm'] at h ⊢
          split at h
          · next a r' h1 => rw [ihP _ _ _ h1]; exact ih2 _ _ _ h
          · simp at h
      | L+3 =>
        match ts with
        | Tok.num n :: r => rw [P_3n] at h ⊢; exact h
        | Tok.lp :: r =>
          rw [P_3p] at h ⊢
          split at h
          · next a r' h1 => rw [ihP _ _ _ h1]; exact h
          · simp at h
        | [] => rw [P] at h <;> simp_all
        | Tok.plus :: _ => rw [P] at h <;> simp_all
        | Tok.minus :: _ => rw [P] at h <;> simp_all
        | Tok.cmp :: _ => rw [P] at h <;> simp_all
        | Tok.pct :: _ => rw [P] at h <;> simp_all
        | Tok.rp :: _ => rw [P] at h <;> simp_all
    · intro a ts res h
      by_cases hc : ∃ r, ts = Tok.cmp :: r
      · obtain ⟨r, rfl⟩ := hc
        rw [L0_c] at h ⊢
        split at h
        · next b r' h1 => rw [ihP _ _ _ h1]; exact ih0 _ _ _ h
        · simp at h
      · have hc' : ∀ r, ts ≠ Tok.cmp :: r := fun r hr => hc ⟨r, hr⟩
        rw [L0_s _ _ _ hc'] at h ⊢; exact h
    · intro a ts res h
      by_cases hp : ∃ r, ts = Tok.plus :: r
      · obtain ⟨r, rfl⟩ := hp
        rw [L1_p] at h ⊢
        split at h
        · next b r' h1 => rw [ihP _ _ _ h1]; exact ih1 _ _ _ h
        · simp at h
      · by_cases hm : ∃ r, ts = Tok.minus :: r
        · obtain ⟨r, rfl⟩ := hm
          rw [L1_m] at h ⊢
          split at h
          · next b r' h1 => rw [ihP _ _ _ h1]; exact ih1 _ _ _ h
          · simp at h
        · have hp' : ∀ r, ts ≠ Tok.plus :: r := fun r hr => hp ⟨r, hr⟩
          have hm' : ∀ r, ts ≠ Tok.minus :: r := fun r hr => hm ⟨r, hr⟩
          rw [L1_s _ _ _ hp' hm'] at h ⊢; exact h
    · intro a ts res h
      by_cases hp : ∃ r, ts = Tok.pct :: r
      · obtain ⟨r, rfl⟩ := hp
        rw [L2_p] at h ⊢; exact ih2 _ _ _ h
      · have hp' : ∀ r, ts ≠ Tok.pct :: r := fun r hr => hp ⟨r, hr⟩
        rw [L2_s _ _ _ hp'] at h ⊢; exact h

theorem P_le {f f' L ts res} (h : f ≤ f') (hp : P f L ts = some res) : P f' L ts = some res := by
  induction h with
  | refl => exact hp
  | step _ ih => exact (mono _).1 _ _ _ ih
theorem L0_le {f f' a ts res} (h : f ≤ f') (hp : L0 f a ts = some res) : L0 f' a ts = some res := by
  induction h with
  | refl => exact hp
  | step _ ih => exact (mono _).2.1 _ _ _ ih
theorem L1_le {f f' a ts res} (h : f ≤ f') (hp : L1 f a ts = some res) : L1 f' a ts = some res := by
  induction h with
  | refl => exact hp
  | step _ ih => exact (mono _).2.2.1 _ _ _ ih
theorem L2_le {f f' a ts res} (h : f ≤ f') (hp : L2 f a ts = some res) : L2 f' a ts = some res := by
  induction h with
  | refl => exact hp
  | step _ ih => exact (mono _).2.2.2 _ _ _ ih

def R (L : Nat) (ts : List Tok) (res : E × List Tok) : Prop := ∃ f, P f L ts = some res
def RL : Nat → E → List Tok → E × List Tok → Prop
  | 0, a, r, res => ∃ f, L0 f a r = some res
  | 1, a, r, res => ∃ f, L1 f a r = some res
  | 2, a, r, res => ∃ f, L2 f a r = some res
  | _+3, a, r, res => res = (a, r)

theorem Rstep0 {ts a r res} (h1 : R 1 ts (a, r)) (h2 : RL 0 a r res) : R 0 ts res := by
  obtain ⟨f1, h1⟩ := h1; obtain ⟨f2, h2⟩ := h2
  refine ⟨max f1 f2 + 1, ?_⟩
  rw [P_0, P_le (Nat.le_max_left f1 f2) h1]; exact L0_le (Nat.le_max_right f1 f2) h2
theorem Rstep1 {ts a r res} (h1 : R 2 ts (a, r)) (h2 : RL 1 a r res) : R 1 ts res := by
  obtain ⟨f1, h1⟩ := h1; obtain ⟨f2, h2⟩ := h2
  refine ⟨max f1 f2 + 1, ?_⟩
  rw [P_1, P_le (Nat.le_max_left f1 f2) h1]; exact L1_le (Nat.le_max_right f1 f2) h2
theorem Rstep2 {ts a r res} (hm : ∀ r, ts ≠ Tok.minus :: r) (h1 : R 3 ts (a, r)) (h2 : RL 2 a r res) : R 2 ts res := by
  obtain ⟨f1, h1⟩ := h1; obtain ⟨f2, h2⟩ := h2
  refine ⟨max f1 f2 + 1, ?_⟩
  rw [P_2o _ _ hm, P_le (Nat.le_max_left f1 f2) h1]; exact L2_le (Nat.le_max_right f1 f2) h2
theorem Rneg {r a r' res} (h1 : R 3 r (a, r')) (h2 : RL 2 (E.neg a) r' res) : R 2 (Tok.minus :: r) res := by
  obtain ⟨f1, h1⟩ := h1; obtain ⟨f2, h2⟩ := h2
  refine ⟨max f1 f2 + 1, ?_⟩
  rw [P_2m, P_le (Nat.le_max_left f1 f2) h1]; exact L2_le (Nat.le_max_right f1 f2) h2
theorem Rnum (n r) : R 3 (Tok.num n :: r) (E.num n, r) := ⟨1, P_3n 0 0 n r⟩
theorem Rparen {r a r'} (h : R 0 r (a, Tok.rp :: r')) : R 3 (Tok.lp :: r) (a, r') := by
  obtain ⟨f, h⟩ := h
  exact ⟨f+1, by rw [P_3p, h]⟩

theorem RL0c {acc r b r' res} (h1 : R 1 r (b, r')) (h2 : RL 0 (E.cmp acc b) r' res) : RL 0 acc (Tok.cmp :: r) res := by
  obtain ⟨f1, h1⟩ := h1; obtain ⟨f2, h2⟩ := h2
  refine ⟨max f1 f2 + 1, ?_⟩
  rw [L0_c, P_le (Nat.le_max_left f1 f2) h1]; exact L0_le (Nat.le_max_right f1 f2) h2
theorem RL1p {acc r b r' res} (h1 : R 2 r (b, r')) (h2 : RL 1 (E.sum false acc b) r' res) : RL 1 acc (Tok.plus :: r) res := by
  obtain ⟨f1, h1⟩ := h1; obtain ⟨f2, h2⟩ := h2
  refine ⟨max f1 f2 + 1, ?_⟩
  rw [L1_p, P_le (Nat.le_max_left f1 f2) h1]; exact L1_le (Nat.le_max_right f1 f2) h2
theorem RL1m {acc r b r' res} (h1 : R 2 r (b, r')) (h2 : RL 1 (E.sum true acc b) r' res) : RL 1 acc (Tok.minus :: r) res := by
  obtain ⟨f1, h1⟩ := h1; obtain ⟨f2, h2⟩ := h2
  refine ⟨max f1 f2 + 1, ?_⟩
  rw [L1_m, P_le (Nat.le_max_left f1 f2) h1]; exact L1_le (Nat.le_max_right f1 f2) h2
theorem RL2p {acc r res} (h : RL 2 (E.pct acc) r res) : RL 2 acc (Tok.pct :: r) res := by
  obtain ⟨f, h⟩ := h; exact ⟨f+1, by rw [L2_p]; exact h⟩

def opLevel : Tok → Option Nat
  | .cmp => some 0 | .plus => some 1 | .minus => some 1 | .pct => some 2 | _ => none

/-- no operator binding tighter than level `q` follows -/
def NoTighter (q : Nat) (rest : List Tok) : Prop :=
  ∀ t r', rest = t :: r' → ∀ j, opLevel t = some j → j ≤ q

theorem RL_stop {j acc rest} (h : ∀ t r', rest = t :: r' → opLevel t ≠ some j) : RL j acc rest (acc, rest) := by
  match j with
  | 0 => exact ⟨1, L0_s _ _ _ (fun r' hr => h _ _ hr rfl)⟩
  | 1 => exact ⟨1, L1_s _ _ _ (fun r' hr => h _ _ hr rfl) (fun r' hr => h _ _ hr rfl)⟩
  | 2 => exact ⟨1, L2_s _ _ _ (fun r' hr => h _ _ hr rfl)⟩
  | _+3 => rfl

inductive RK : Nat → Nat → E → List Tok → E × List Tok → Prop
  | base {L a r res} : RL L a r res → RK L L a r res
  | step {l L a r a' r' res} : L ≤ l → RL (l+1) a r (a', r') → RK l L a' r' res → RK (l+1) L a r res

theorem Rstep {j ts a r res} (hj : j ≤ 2) (hm : j = 2 → ∀ r, ts ≠ Tok.minus :: r)
    (h1 : R (j+1) ts (a, r)) (h2 : RL j a r res) : R j ts res := by
  match j with
  | 0 => exact Rstep0 h1 h2
  | 1 => exact Rstep1 h1 h2
  | 2 => exact Rstep2 (hm rfl) h1 h2
  | _+3 => omega

theorem descend {l L ts a r res} (hl : l ≤ 2) (hm : l = 2 → ∀ r, ts ≠ Tok.minus :: r)
    (h1 : R (l+1) ts (a, r)) (hk : RK l L a r res) : R L ts res := by
  generalize hl' : l = l' at hk
  induction hk generalizing l with
  | base h => subst hl'; exact Rstep hl hm h1 h
  | step hle hrl _ ih =>
    subst hl'
    exact ih (by omega) (by omega) (Rstep hl hm h1 hrl) rfl

theorem descend3 {L ts a r res} (hm : ∀ r, ts ≠ Tok.minus :: r)
    (h1 : R 3 ts (a, r)) (hk : RK 3 L a r res) : R L ts res := by
  cases hk with
  | base h => cases h; exact h1
  | step hle hrl hk' => cases hrl; exact descend (by omega) (fun _ => hm) h1 hk'

theorem RK_le {l L a r res} (h : RK l L a r res) : L ≤ l := by
  induction h with
  | base _ => exact Nat.le_refl _
  | step hle _ _ _ => omega

/-- loops at levels in (l, m] stop on `ts`, so a chain from `l` extends to a chain from `m`. -/
theorem RK_lift {l m L acc ts res} (hlm : l ≤ m)
    (hs : ∀ j, l < j → j ≤ m → RL j acc ts (acc, ts)) (hk : RK l L acc ts res) : RK m L acc ts res := by
  obtain ⟨d, rfl⟩ := Nat.exists_eq_add_of_le hlm
  clear hlm
  induction d with
  | zero => exact hk
  | succ d ih =>
    have hk' := ih (fun j h1 h2 => hs j h1 (by omega))
    have hL := RK_le hk
    exact RK.step (l := l + d) (by omega) (hs (l+d+1) (by omega) (by omega)) hk'

/-- replace the first loop step of a chain. -/
theorem RK_push {l L acc' rest acc ts res}
    (h : ∀ res', RL l acc' rest res' → RL l acc ts res') (hk : RK l L acc' rest res) : RK l L acc ts res := by
  cases hk with
  | base h0 => exact RK.base (h _ h0)
  | step hle hrl hk' => exact RK.step hle (h _ hrl) hk'

theorem RK_stop_all {l L acc ts} (hL : L ≤ l) (hs : ∀ j, L ≤ j → j ≤ l → RL j acc ts (acc, ts)) :
    RK l L acc ts (acc, ts) := by
  obtain ⟨d, rfl⟩ := Nat.exists_eq_add_of_le hL
  clear hL
  induction d with
  | zero => exact RK.base (hs _ (Nat.le_refl _) (Nat.le_refl _))
  | succ d ih =>
    exact RK.step (l := L + d) (by omega) (hs (L+d+1) (by omega) (by omega)) (ih (fun j h1 h2 => hs j h1 (by omega)))

def Claim (T : Table) (e : E) : Prop :=
  ∀ L, L ≤ e.kind.level → ∀ rest res, NoTighter e.kind.level rest →
    RK e.kind.level L e rest res → R L (pr T e ++ rest) res

theorem NoTighter_stop {q j rest acc} (h : NoTighter q rest) (hj : q < j) : RL j acc rest (acc, rest) :=
  RL_stop (fun t r' hr hlev => by have := h t r' hr j hlev; omega)

theorem level_le3 (k : Kind) : k.level ≤ 3 := by cases k <;> simp [Kind.level]

theorem pr_head_not_minus_of_level3 (T : Table) (c : E) (h : c.kind.level = 3) (rest) :
    ∀ r, pr T c ++ rest ≠ Tok.minus :: r := by
  cases c <;> simp [E.kind, Kind.level] at h
  intro r; simp [pr]

/-- a child printed in a slot that requires level `q`. -/
theorem item (T : Table) (c : E) (ih : Claim T c) (b : Bool) (q : Nat) (hq : q ≤ 3)
    (hb : b = false → q ≤ c.kind.level)
    (L : Nat) (hL : L ≤ q) (rest res) (hnt : NoTighter q rest)
    (hk : RK q L c rest res) : R L (wrap b (pr T c) ++ rest) res := by
  cases b with
  | false =>
    simp only [wrap, Bool.false_eq_true, if_false]
    have hql := hb rfl
    refine ih L (by omega) rest res ?_ ?_
    · intro t r' hr j hj; have := hnt t r' hr j hj; omega
    · exact RK_lift hql (fun j h1 _ => NoTighter_stop hnt h1) hk
  | true =>
    simp only [wrap, if_true]
    have h3 : R 3 (Tok.lp :: (pr T c ++ [Tok.rp]) ++ rest) (c, rest) := by
      have : (Tok.lp :: (pr T c ++ [Tok.rp]) ++ rest) = Tok.lp :: (pr T c ++ Tok.rp :: rest) := by simp
      rw [this]
      apply Rparen
      refine ih 0 (Nat.zero_le _) _ _ ?_ ?_
      · intro t r' hr j hj; cases hr; simp [opLevel] at hj
      · exact RK_stop_all (Nat.zero_le _) (fun j _ _ => RL_stop (fun t r' hr => by cases hr; simp [opLevel]))
    have hk3 : RK 3 L c rest res := RK_lift hq (fun j h1 _ => NoTighter_stop hnt h1) hk
    exact descend3 (fun r => by simp) h3 hk3

theorem opLevel_le2 {t j} (h : opLevel t = some j) : j ≤ 2 := by
  cases t <;> simp [opLevel] at h <;> omega

theorem NoTighter_mono {q q' rest} (h : NoTighter q rest) (hq : q ≤ q') : NoTighter q' rest :=
  fun t r' hr j hj => by have := h t r' hr j hj; omega

theorem main (T : Table) (hT : TableOK T) : ∀ e, Claim T e := by
  intro e
  induction e with
  | num n =>
    intro L hL rest res _ hk
    simp only [pr, List.cons_append, List.nil_append]
    exact descend3 (fun r => by simp) (Rnum n rest) hk
  | sum m l r ihl ihr =>
    intro L hL rest res hnt hk
    simp only [E.kind, Kind.level] at hL hnt hk
    have hr2 : R 2 (wrap (T (if m then .minusR else .plusR) r.kind) (pr T r) ++ rest) (r, rest) := by
      refine item T r ihr _ 2 (by omega) ?_ 2 (Nat.le_refl _) rest _ (NoTighter_mono hnt (by omega)) ?_
      · intro hb
        by_cases hl : r.kind.level < 2
        · cases m
          · have := hT .plusR r.kind (by simpa [needs] using hl); simp at hb; rw [hb] at this; cases this
          · have := hT .minusR r.kind (by simpa [needs] using hl); simp at hb; rw [hb] at this; cases this
        · omega
      · exact RK.base (NoTighter_stop hnt (by omega))
    have : pr T (E.sum m l r) ++ rest =
        wrap (T (if m then .minusL else .plusL) l.kind) (pr T l) ++
          ((if m then Tok.minus else Tok.plus) ::
            (wrap (T (if m then .minusR else .plusR) r.kind) (pr T r) ++ rest)) := by
      simp [pr]
    rw [this]
    refine item T l ihl _ 1 (by omega) ?_ L hL _ res ?_ ?_
    · intro hb
      by_cases hl : l.kind.level < 1
      · cases m
        · have := hT .plusL l.kind (by simpa [needs] using hl); simp at hb; rw [hb] at this; cases this
        · have := hT .minusL l.kind (by simpa [needs] using hl); simp at hb; rw [hb] at this; cases this
      · omega
    · intro t r' hr j hj
      cases m <;> simp at hr <;> obtain ⟨rfl, _⟩ := hr <;> simp [opLevel] at hj <;> omega
    · refine RK_push (fun res' h => ?_) hk
      cases m
      · exact RL1p hr2 h
      · exact RL1m hr2 h
  | cmp l r ihl ihr =>
    intro L hL rest res hnt hk
    simp only [E.kind, Kind.level] at hL hnt hk
    have hr1 : R 1 (wrap (T .cmpR r.kind) (pr T r) ++ rest) (r, rest) := by
      refine item T r ihr _ 1 (by omega) ?_ 1 (Nat.le_refl _) rest _ (NoTighter_mono hnt (by omega)) ?_
      · intro hb
        have := hT .cmpR r.kind
        simp [needs, hb] at this; omega
      · exact RK.base (NoTighter_stop hnt (by omega))
    have : pr T (E.cmp l r) ++ rest =
        wrap (T .cmpL l.kind) (pr T l) ++ (Tok.cmp :: (wrap (T .cmpR r.kind) (pr T r) ++ rest)) := by
      simp [pr]
    rw [this]
    refine item T l ihl _ 0 (by omega) (fun _ => Nat.zero_le _) L hL _ res ?_ ?_
    · intro t r' hr j hj
      simp at hr; obtain ⟨rfl, _⟩ := hr; simp [opLevel] at hj; omega
    · exact RK_push (fun res' h => RL0c hr1 h) hk
  | neg c ih =>
    intro L hL rest res hnt hk
    simp only [E.kind, Kind.level] at hL hnt hk
    have h3 : R 3 (wrap (T .neg c.kind) (pr T c) ++ rest) (c, rest) := by
      refine item T c ih _ 3 (Nat.le_refl _) ?_ 3 (Nat.le_refl _) rest _ ?_ (RK.base rfl)
      · intro hb
        have := hT .neg c.kind
        simp [needs, hb] at this; omega
      · intro t r' _ j hj; have := opLevel_le2 hj; omega
    have : pr T (E.neg c) ++ rest = Tok.minus :: (wrap (T .neg c.kind) (pr T c) ++ rest) := by
      simp [pr]
    rw [this]
    cases hk with
    | base h => exact Rneg h3 h
    | step hle hrl hk' => exact descend (by omega) (by omega) (Rneg h3 hrl) hk'
  | pct c ih =>
    intro L hL rest res hnt hk
    simp only [E.kind, Kind.level] at hL hnt hk
    have : pr T (E.pct c) ++ rest = wrap (T .pct c.kind) (pr T c) ++ (Tok.pct :: rest) := by
      simp [pr]
    rw [this]
    refine item T c ih _ 2 (by omega) ?_ L hL _ res ?_ ?_
    · intro hb
      have := hT .pct c.kind
      simp [needs, hb] at this; omega
    · intro t r' hr j hj
      simp at hr; obtain ⟨rfl, _⟩ := hr; simp [opLevel] at hj; omega
    · exact RK_push (fun res' h => RL2p h) hk

/-- the round trip, for every table that satisfies the grammar's requirements -/
theorem roundtrip (T : Table) (hT : TableOK T) (e : E) : ∃ f, P f 0 (pr T e) = some (e, []) := by
  have h := main T hT e 0 (Nat.zero_le _) [] (e, [])
    (fun t r' hr => by cases hr)
    (RK_stop_all (Nat.zero_le _) (fun j _ _ => RL_stop (fun t r' hr => by cases hr)))
  simpa [R] using h

-- a table as the code might have it: complete
def goodT : Table := fun s k => needs s k
theorem goodT_ok : TableOK goodT := by intro s k h; exact h
-- a defective table (percent never parenthesises): the obligation fails, with a witness
def badT : Table := fun s k => if s = .pct then false else needs s k
theorem badT_not_ok : ¬ TableOK badT := by
  intro h; have := h .pct .sum; simp [needs, badT, Kind.level] at this
example : P 20 0 (pr badT (E.pct (E.sum false (E.num 1) (E.num 2)))) ≠ some (E.pct (E.sum false (E.num 1) (E.num 2)), []) := by decide
#print axioms roundtrip
