-- Root of the `IronCalc` library: models, generated tables, property theorems.
import IronCalc.Basic.Range
