import Driver.Proto
import IronCalc.Codec.Lex
import IronCalc.Codec.CharClassTable
open IronCalc.Codec
namespace Driver

private def b (x : Bool) : String := if x then "1" else "0"
private def showSheet : Option (List Char) → String
  | none => "~"
  | some n => hexEncode (String.ofList n)
private def showRef (r : PRef) : String := s!"{r.column} {r.row} {b r.absCol} {b r.absRow}"
private def showTok : RefTok × List Char → String
  | (.ref sh r, rest) => s!"ref {showSheet sh} {showRef r} {rest.length}"
  | (.range sh l r, rest) => s!"range {showSheet sh} {showRef l} {showRef r} {rest.length}"
  | (.other, _) => "other"
private def showPRef : Option PRef → String
  | some r => showRef r
  | none => "none"

def isBoolEn (u : List Char) : Bool := u == "TRUE".toList || u == "FALSE".toList

private def lexA1 (s : List Char) := nextTokenRef unicodeCC true isBoolEn s
private def lexRC (s : List Char) := nextTokenRef unicodeCC false isBoolEn s

private def flag (s : String) : Bool := s == "1"
private def sheetArg (s : String) : Option (Option (List Char)) :=
  if s == "~" then some none else (hexDecode s).map (fun x => some x.toList)

private def prefixOf (sh : Option (List Char)) : List Char :=
  match sh with
  | none => []
  | some n => quoteName unicodeCC n ++ ['!']

/-- token → node coordinates as the parser stores them (A1 mode) -/
private def nodeOfTok (cr cc : Int) : RefTok × List Char → String
  | (.ref sh r, []) => s!"n {showSheet sh} {showRef (tokenToNode cr cc r)}"
  | (.range sh l r, []) =>
    let p := rangeTokenToNode cr cc l r
    s!"n2 {showSheet sh} {showRef p.1} {showRef p.2}"
  | _ => "-"     -- the parser needs the whole text to be one reference

def c22 (args : List String) : String :=
  match args with
  | ["n2c", n] =>
    match n.toInt? with
    | some i => match numberToColumn i with
      | some s => hexEncode (String.ofList s)
      | none => "none"
    | none => "bad-op"
  | ["c2n", h] =>
    match hexDecode h with
    | some s => match columnToNumber s.toList with
      | some n => toString n
      | none => "err"
    | none => "bad-op"
  | ["pa1", h] => match hexDecode h with
    | some s => showPRef (parseReferenceA1 s.toList)
    | none => "bad-op"
  | ["prc", h] => match hexDecode h with
    | some s => showPRef (parseReferenceR1C1 s.toList)
    | none => "bad-op"
  | ["lex", mode, h] => match hexDecode h with
    | some s => showTok (if mode == "a1" then lexA1 s.toList else lexRC s.toList)
    | none => "bad-op"
  | ["a1", sh, cr, cc, row, col, ar, ac] =>
    match sheetArg sh, cr.toInt?, cc.toInt?, row.toInt?, col.toInt? with
    | some sh, some cr, some cc, some row, some col =>
      let r : PRef := { column := col, row := row, absCol := flag ac, absRow := flag ar }
      let text := printA1 (prefixOf sh) cr cc r false false
      let tok := lexA1 text
      s!"{hexEncode (String.ofList text)} | {showTok tok} | {nodeOfTok cr cc tok}"
    | _, _, _, _, _ => "bad-op"
  | ["a1r", sh, cr, cc, row1, col1, ar1, ac1, row2, col2, ar2, ac2] =>
    match sheetArg sh, cr.toInt?, cc.toInt?, row1.toInt?, col1.toInt?, row2.toInt?, col2.toInt? with
    | some sh, some cr, some cc, some row1, some col1, some row2, some col2 =>
      let r1 : PRef := { column := col1, row := row1, absCol := flag ac1, absRow := flag ar1 }
      let r2 : PRef := { column := col2, row := row2, absCol := flag ac2, absRow := flag ar2 }
      let text := printRangeA1 (prefixOf sh) cr cc r1 r2
      let tok := lexA1 text
      s!"{hexEncode (String.ofList text)} | {showTok tok} | {nodeOfTok cr cc tok}"
    | _, _, _, _, _, _, _ => "bad-op"
  | ["rc", sh, row, col, ar, ac] =>
    match sheetArg sh, row.toInt?, col.toInt? with
    | some sh, some row, some col =>
      let r : PRef := { column := col, row := row, absCol := flag ac, absRow := flag ar }
      let text := printR1C1 (prefixOf sh) r
      s!"{hexEncode (String.ofList text)} | {showTok (lexRC text)}"
    | _, _, _ => "bad-op"
  | ["rcr", sh, row1, col1, ar1, ac1, row2, col2, ar2, ac2] =>
    match sheetArg sh, row1.toInt?, col1.toInt?, row2.toInt?, col2.toInt? with
    | some sh, some row1, some col1, some row2, some col2 =>
      let r1 : PRef := { column := col1, row := row1, absCol := flag ac1, absRow := flag ar1 }
      let r2 : PRef := { column := col2, row := row2, absCol := flag ac2, absRow := flag ar2 }
      let text := printRangeR1C1 (prefixOf sh) r1 r2
      s!"{hexEncode (String.ofList text)} | {showTok (lexRC text)}"
    | _, _, _, _, _ => "bad-op"
  | ["quote", h] => match hexDecode h with
    | some s =>
      let q := quoteName unicodeCC s.toList
      s!"{hexEncode (String.ofList q)} | {showTok (lexA1 (q ++ "!A1".toList))} | {showTok (lexRC (q ++ "!R1C1".toList))}"
    | none => "bad-op"
  | ["sheet", h] => match hexDecode h with
    | some s => hexEncode (String.ofList ('=' :: quoteName unicodeCC s.toList ++ "!A1".toList))
    | none => "bad-op"
  | _ => "bad-op"

end Driver
