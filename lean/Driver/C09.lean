import Driver.Proto
import IronCalc.Formula.Parse
import IronCalc.Generated.ParenStringify
/-
  Driver side of C09: decode a tree (prefix notation, `;`-separated), print it with the
  extracted table, render the model tokens, re-parse.
-/
open IronCalc.Formula
namespace Driver

def litClassOf : Nat → LitClass
  | 0 => .number | 1 => .string | 2 => .error | 3 => .ref | 4 => .range
  | 5 => .wrongRef | 6 => .wrongRange | _ => .array

def binOpOf (c k : Nat) : BinOp :=
  match c with
  | 0 => .cmp k | 1 => .cat | 2 => .add | 3 => .sub | 4 => .mul | 5 => .div | _ => .pow

def decParams : Nat → List String → Option (List (Nat × Bool) × List String)
  | 0, ts => some ([], ts)
  | n+1, x :: o :: ts =>
    match x.toNat?, decParams n ts with
    | some x, some (ps, r) => some ((x, o == "1") :: ps, r)
    | _, _ => none
  | _, _ => none

mutual
def decNode : Nat → List String → Option (Node × List String)
  | 0, _ => none
  | f+1, ts =>
    match ts with
    | "lit" :: c :: a :: r =>
      match c.toNat?, a.toNat? with
      | some c, some a => some (Node.lit (litClassOf c) a, r)
      | _, _ => none
    | "name" :: x :: r => x.toNat?.map fun x => (Node.name x, r)
    | "bin" :: c :: k :: r =>
      match c.toNat?, k.toNat? with
      | some c, some k =>
        match decNode f r with
        | some (a, r1) =>
          match decNode f r1 with
          | some (b, r2) => some (Node.bin (binOpOf c k) a b, r2)
          | none => none
        | none => none
      | _, _ => none
    | "neg" :: r => (decNode f r).map fun (a, r) => (Node.neg a, r)
    | "pct" :: r => (decNode f r).map fun (a, r) => (Node.pct a, r)
    | "at" :: r => (decNode f r).map fun (a, r) => (Node.at a, r)
    | "spill" :: r => (decNode f r).map fun (a, r) => (Node.spill a, r)
    | "rng" :: r =>
      match decNode f r with
      | some (a, r1) =>
        match decNode f r1 with
        | some (b, r2) => some (Node.rng a b, r2)
        | none => none
      | none => none
    | "call" :: x :: n :: r =>
      match x.toNat?, n.toNat? with
      | some x, some n => (decArgs f n r).map fun (as, r) => (Node.call x as, r)
      | _, _ => none
    | "lam" :: n :: r =>
      match n.toNat? with
      | some n =>
        match decParams n r with
        | some (ps, r1) => (decNode f r1).map fun (b, r2) => (Node.lam ps b, r2)
        | none => none
      | none => none
    | "lamcall" :: n :: r =>
      match n.toNat? with
      | some n =>
        match decParams n r with
        | some (ps, r1) =>
          match decNode f r1 with
          | some (b, m :: r2) =>
            match m.toNat? with
            | some m => (decArgs f m r2).map fun (as, r3) => (Node.lamcall ps b as, r3)
            | none => none
          | _ => none
        | none => none
      | none => none
    | _ => none
def decArgs : Nat → Nat → List String → Option (Args × List String)
  | 0, _, _ => none
  | _+1, 0, ts => some (Args.nil, ts)
  | f+1, n+1, "E" :: r => (decArgs f n r).map fun (as, r) => (Args.consE as, r)
  | f+1, n+1, ts =>
    match decNode f ts with
    | some (a, r) => (decArgs f n r).map fun (as, r) => (Args.consN a as, r)
    | none => none
end

def decodeTree (s : String) : Option Node :=
  let parts := s.splitOn ";"
  match decNode (parts.length + 5) parts with
  | some (n, []) => some n
  | _ => none

def opName : BinOp → String
  | .cmp k => s!"op:cmp:{k}" | .cat => "op:cat" | .add => "op:add" | .sub => "op:sub"
  | .mul => "op:mul" | .div => "op:div" | .pow => "op:pow"

def tokName : Tok → String
  | .op o => opName o
  | .pct => "pct" | .colon => "colon" | .at => "at" | .hash => "hash" | .lp => "lp" | .rp => "rp"
  | .lbk => "lbk" | .rbk => "rbk" | .sep => "sep"
  | .lit .number a => s!"lit:0:{a % 14}"
  | .lit .string a => s!"lit:1:{a % 8}"
  | .lit .error a => s!"lit:2:{a % 12}"
  | .lit .ref _ => "lit:ref" | .lit .wrongRef _ => "lit:ref"
  | .lit .range _ => "lit:range" | .lit .wrongRange _ => "lit:range"
  | .lit .array a => s!"lit:7:{a % 3}"
  | .ident x => s!"ident:{x}"

mutual
def nodeEq : Node → Node → Bool
  | .lit c a, .lit c' a' => c == c' && a == a'
  | .name x, .name y => x == y
  | .bin o a b, .bin o' a' b' => o == o' && nodeEq a a' && nodeEq b b'
  | .neg a, .neg a' => nodeEq a a'
  | .pct a, .pct a' => nodeEq a a'
  | .rng a b, .rng a' b' => nodeEq a a' && nodeEq b b'
  | .at a, .at a' => nodeEq a a'
  | .spill a, .spill a' => nodeEq a a'
  | .call x as, .call y bs => x == y && argsEq as bs
  | .lam ps b, .lam ps' b' => ps == ps' && nodeEq b b'
  | .lamcall ps b as, .lamcall ps' b' bs => ps == ps' && nodeEq b b' && argsEq as bs
  | _, _ => false
def argsEq : Args → Args → Bool
  | .nil, .nil => true
  | .consE r, .consE r' => argsEq r r'
  | .consN n r, .consN n' r' => nodeEq n n' && argsEq r r'
  | _, _ => false
end

/-- names of class 0 (index multiple of 4) are plain variables -/
def isVarIdx (x : Nat) : Bool := x % 4 == 0

def slotOf (s : String) : Option Slot :=
  let cls : String → Option OpClass := fun c =>
    match c with
    | "cmp" => some .cmp | "cat" => some .cat | "add" => some .add | "sub" => some .sub
    | "mul" => some .mul | "div" => some .div | "pow" => some .pow | _ => none
  match s.splitOn "." with
  | ["binL", c] => (cls c).map Slot.binL
  | ["binR", c] => (cls c).map Slot.binR
  | ["neg"] => some .neg | ["pct"] => some .pct | ["rngL"] => some .rngL | ["rngR"] => some .rngR
  | ["at"] => some .at | ["spill"] => some .spill
  | _ => none

def kindOf (s : String) : Option Kind :=
  match s.splitOn "." with
  | ["lit", "number"] => some (.lit .number) | ["lit", "string"] => some (.lit .string)
  | ["lit", "error"] => some (.lit .error) | ["lit", "ref"] => some (.lit .ref)
  | ["lit", "range"] => some (.lit .range) | ["lit", "wrongRef"] => some (.lit .wrongRef)
  | ["lit", "wrongRange"] => some (.lit .wrongRange) | ["lit", "array"] => some (.lit .array)
  | ["name"] => some .name
  | ["bin", "cmp"] => some (.bin .cmp) | ["bin", "cat"] => some (.bin .cat)
  | ["bin", "add"] => some (.bin .add) | ["bin", "sub"] => some (.bin .sub)
  | ["bin", "mul"] => some (.bin .mul) | ["bin", "div"] => some (.bin .div)
  | ["bin", "pow"] => some (.bin .pow)
  | ["neg"] => some .neg | ["pct"] => some .pct | ["rng"] => some .rng | ["at"] => some .at
  | ["spill"] => some .spill | ["call"] => some .call | ["lam"] => some .lam
  | ["lamcall"] => some .lamcall
  | _ => none

/-- `c09 entry <slot> <kind> <tree>` → wrapped|bare (the extracted table's entry);
    `c09 rt <tree>` → `<tokens>|same` or `…|diff` -/
def c09 (T : Table) (args : List String) : String :=
  match args with
  | ["entry", s, k, _] =>
    match slotOf s, kindOf k with
    | some s, some k => if T s k then "wrapped" else "bare"
    | _, _ => "bad-op"
  | ["rt", t] =>
    match decodeTree t with
    | some n =>
      let ts := pr T n
      let toks := ",".intercalate (ts.map tokName)
      let same := match parse isVarIdx ts with
        | some (m, []) => nodeEq m n
        | _ => false
      toks ++ "|" ++ (if same then "same" else "diff")
    | none => "bad-op"
  | _ => "bad-op"

/-- `c16 mv <tree>`: the tree is first displayed and re-parsed (that is what the engine holds in
    the cell), then printed by the cut/paste printer `Tm` and parsed again -/
def c16 (Ts Tm : Table) (args : List String) : String :=
  match args with
  | ["entry", s, k, t] => c09 Tm ["entry", s, k, t]
  | ["mv", t] =>
    match decodeTree t with
    | some n =>
      match parse isVarIdx (pr Ts n) with
      | some (n0, []) =>
        let ts := pr Tm n0
        let toks := ",".intercalate (ts.map tokName)
        let same := match parse isVarIdx ts with
          | some (m, []) => nodeEq m n0
          | _ => false
        toks ++ "|" ++ (if same then "same" else "diff")
      | _ => "display-does-not-parse"
    | none => "bad-op"
  | _ => "bad-op"

end Driver
