import Driver.Proto
import IronCalc.Sheet.Styles
import IronCalc.Generated.NumFmts
/-
  C30 driver: one request = a style pool + a sequence of steps.
    c30 seq <fonts>/<fills>/<borders>/<numfmts>/<xfs> <steps>
  fonts, fills, borders: comma-separated opaque tokens (hex of the component's JSON) or `-`;
  numfmts: `id:hexcode,…`; xfs: `xfid:numfmt:font:fill:border:qp:align` (align = token or `n`);
  steps (`;`-separated): `I=align:hexcode:fill:font:border:qp` interns a style,
  `G=index` reads a style index.  Answer: per step the index (or fault) / the decoded style, then
  the final pool in the request's format, then the decoding of every index of the final pool.
-/
namespace Driver
open IronCalc.Sheet.Styles

/-- the variant of get_num_fmt_index the check runs against -/
def c30ShadowFix : Bool := true

abbrev SPool := Pool String String String String
abbrev SStyle := Style String String String String

private def splitList (sep : String) (s : String) : List String :=
  if s == "-" then [] else s.splitOn sep

private def boolOf30 (s : String) : Option Bool := if s == "1" then some true else if s == "0" then some false else none
private def showB30 (b : Bool) : String := if b then "1" else "0"

private def parseNumFmt (s : String) : Option NumFmt :=
  match s.splitOn ":" with
  | [i, c] => do pure ⟨← i.toInt?, ← hexDecode c⟩
  | _ => none

private def parseXf (s : String) : Option (CellXf String) :=
  match s.splitOn ":" with
  | [x, n, f, l, b, q, a] => do
    pure ⟨← x.toInt?, ← n.toInt?, ← f.toInt?, ← l.toInt?, ← b.toInt?, ← boolOf30 q, if a == "n" then none else some a⟩
  | _ => none

private def parsePool (s : String) : Option SPool :=
  match s.splitOn "/" with
  | [fo, fi, bo, nf, xf] => do
    let nfs ← (splitList "," nf).mapM parseNumFmt
    let xfs ← (splitList "," xf).mapM parseXf
    pure ⟨splitList "," fo, splitList "," fi, splitList "," bo, nfs, xfs⟩
  | _ => none

private def parseStyle (s : String) : Option SStyle :=
  match s.splitOn ":" with
  | [a, n, l, f, b, q] => do
    pure ⟨if a == "n" then none else some a, ← hexDecode n, l, f, b, ← boolOf30 q⟩
  | _ => none

private def showList (l : List String) : String := if l.isEmpty then "-" else ",".intercalate l

private def showStyle (s : SStyle) : String :=
  s!"{s.alignment.getD "n"}:{hexEncode s.numFmt}:{s.fill}:{s.font}:{s.border}:{showB30 s.quotePrefix}"

private def showPool (p : SPool) : String :=
  let nfs := p.numFmts.map fun nf => s!"{nf.numFmtId}:{hexEncode nf.formatCode}"
  let xfs := p.cellXfs.map fun x =>
    s!"{x.xfId}:{x.numFmtId}:{x.fontId}:{x.fillId}:{x.borderId}:{showB30 x.quotePrefix}:{x.alignment.getD "n"}"
  s!"{showList p.fonts}/{showList p.fills}/{showList p.borders}/{showList nfs}/{showList xfs}"

private def showRes : Except Fault SStyle → String
  | .ok s => showStyle s
  | .error .invalidIndex => "invalid-index"
  | .error .panic => "panic"

def c30 (args : List String) : String :=
  let T := IronCalc.Generated.builtinNumFmts
  match args with
  | "seq" :: pool :: steps :: _ =>
    match parsePool pool with
    | none => "bad-op"
    | some p0 =>
      -- a panic aborts the whole request on the implementation side (catch_unwind around the case)
      let rec go (p : SPool) (steps : List String) (acc : List String) : Option (SPool × List String) :=
        match steps with
        | [] => some (p, acc.reverse)
        | st :: rest =>
          match st.splitOn "=" with
          | ["I", s] =>
            match parseStyle s with
            | none => none
            | some sty =>
              match intern T c30ShadowFix p sty with
              | .ok (q, i) => go q rest (s!"{i}/{showRes (getStyle T q i)}" :: acc)
              | .error _ => some (p, ["panic"])
          | ["G", i] =>
            match i.toInt? with
            | none => none
            | some i =>
              match getStyle T p i with
              | .error .panic => some (p, ["panic"])
              | r => go p rest (showRes r :: acc)
          | _ => none
      match go p0 (splitList ";" steps) [] with
      | none => "bad-op"
      | some (p, outs) =>
        if outs == ["panic"] then "panic"
        else
          let n := p.cellXfs.length
          let all := (List.range n).map fun (i : Nat) => showRes (getStyle T p (Int.ofNat i))
          if all.contains "panic" then "|".intercalate (outs ++ ["panic"])
          else "|".intercalate (outs ++ [showPool p, showList all])
  | _ => "bad-op"

end Driver
