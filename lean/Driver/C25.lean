import IronCalc.Io.XlsxSkeleton
import Driver.Proto
open IronCalc.XlsxSkeleton
namespace Driver

/-- local name of a qualified element name -/
def localName (q : String) : String :=
  match q.splitOn ":" with
  | [_, l] => l
  | _ => q

/-- node := `E <qname> <nattr> (<aqname> <value-hex>)* <nkids> node*` | `T <text-hex>` -/
partial def parseNode (t : List String) : Option (Xml × List String) :=
  match t with
  | "T" :: h :: rest => (hexDecode h).map (fun s => (Xml.text s, rest))
  | "E" :: name :: na :: rest =>
    match na.toNat? with
    | none => none
    | some na =>
      let rec attrs (n : Nat) (t : List String) (acc : List (String × String)) :
          Option (List (String × String) × List String) :=
        match n, t with
        | 0, t => some (acc.reverse, t)
        | n + 1, k :: v :: t => (hexDecode v).bind (fun s => attrs n t ((k, s) :: acc))
        | _, _ => none
      match attrs na rest [] with
      | none => none
      | some (as, rest) =>
        match rest with
        | nk :: rest =>
          match nk.toNat? with
          | none => none
          | some nk =>
            let rec kids (n : Nat) (t : List String) (acc : List Xml) : Option (List Xml × List String) :=
              match n with
              | 0 => some (acc.reverse, t)
              | n + 1 =>
                match parseNode t with
                | some (k, t) => kids n t (k :: acc)
                | none => none
            (kids nk rest []).map (fun (ks, rest) => (Xml.elem (localName name) as ks, rest))
        | [] => none
  | _ => none

partial def parsePackage (t : List String) (acc : Package) : Option Package :=
  match t with
  | [] => some acc.reverse
  | "P" :: h :: rest =>
    match hexDecode h, parseNode rest with
    | some path, some (x, rest) => parsePackage rest ((path, x) :: acc)
    | _, _ => none
  | _ => none

def showR (r : R Unit) : String :=
  match r with
  | .ok _ => "ok"
  | .error .err => "err"
  | .error (.panic s) => "panic " ++ s

/-- `c25 tree <package tokens>` → `ok` | `err` | `panic <site>` on the current tree;
    `c25 pinned <package tokens>` → the same for the pinned tree -/
def c25 (args : List String) : String :=
  match args with
  | "tree" :: t =>
    match parsePackage t [] with
    | some p => showR (importSkel current p)
    | none => "bad-request"
  | "pinned" :: t =>
    match parsePackage t [] with
    | some p => showR (importSkel pinned p)
    | none => "bad-request"
  | _ => "bad-op"

end Driver
