import IronCalc.Text.Dates
open IronCalc.Dates
namespace Driver

/-- `c21 from <serial:int>` → `y m d wd iso` | `err`;  `c21 to <y> <m> <d>` → serial | `err` -/
def c21 (args : List String) : String :=
  match args with
  | ["from", s] =>
    match s.toInt? with
    | some (Int.ofNat n) =>
      match fromSerial n with
      | some t => s!"{t.y} {t.m} {t.d} {weekdayFromMonday n} {iso t}"
      | none => "err"
    | some _ => "err"
    | none => "bad-op"
  | ["fmt", s] =>
    let bad := String.intercalate "|" (List.replicate 16 "E:#VALUE!")
    match s.toInt? with
    | some (Int.ofNat n) =>
      match fromSerial n with
      | some t =>
        let d := showDigits (tokD t); let dd := showDigits (tokDD t)
        let ddd := dayNamesShortEn.getD (dayIndexFromSunday n) "?"
        let dddd := dayNamesEn.getD (dayIndexFromSunday n) "?"
        let m := showDigits (tokM t); let mm := showDigits (tokMM t)
        let mmm := monthsShortEn.getD (t.m - 1) "?"
        let mmmm := monthsEn.getD (t.m - 1) "?"
        let mmmmm := monthsLetterEn.getD (t.m - 1) "?"
        let yy := showDigits (tokYY t); let yyyy := showDigits (tokYYYY t)
        String.intercalate "|" [d, dd, ddd, dddd, m, mm, mmm, mmmm, mmmmm, yy, yyyy,
          s!"{dd}/{mm}/{yyyy}", s!"{d}/{m}/{yy}", s!"{mm}-{dd}-{yy}", s!"{d}-{mmm}-{yyyy}",
          s!"{dddd}, {mmmm} {d}, {yyyy}"]
      | none => bad
    | some _ => bad
    | none => "bad-op"
  | ["engine", s] =>
    -- YEAR MONTH DAY WEEKDAY(type 1: Sunday = 1) DATE(y,m,d) typed-ISO-value
    match s.toInt? with
    | some (Int.ofNat n) =>
      match fromSerial n with
      | some t => s!"{t.y} {t.m} {t.d} {(weekdayFromMonday n + 1) % 7 + 1} {n} {n}"
      | none => "'#NUM! '#NUM! '#NUM! '#NUM! '#NUM! -"
    | some _ => "'#NUM! '#NUM! '#NUM! '#NUM! '#NUM! -"
    | none => "bad-op"
  | ["to", y, m, d] =>
    match y.toNat?, m.toNat?, d.toNat? with
    | some y, some m, some d =>
      match toSerial ⟨y, m, d⟩ with
      | some s => toString s
      | none => "err"
    | _, _, _ => "bad-op"
  | _ => "bad-op"

end Driver
