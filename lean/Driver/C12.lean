import Driver.Proto
import IronCalc.Sheet.StructureSheet
open IronCalc.Structure
namespace Driver

/-
  Model side of the C12–C15 (and C33 links) correspondence.

  `c12 rho <ax r|c> <kind ins|del|mov> <pos> <amt> <opsheet> <hostsheet> <hostrow> <hostcol> <atom…>`
      atom = `ref <sheet> <named> <absr> <row> <absc> <col>` | `rng <sheet> <named> <absr1> <r1> <absc1> <c1> <absr2> <r2> <absc2> <c2>`
      (A1 coordinates as written) → `<to_string_displaced text> <text after re-parse at the host>`
  `c12 sigma <ax> <kind> <pos> <amt> <x>` → σ x (`none` | int)     (cell map, one step)
  `c12 block <r> <n> <d> <x>` → fold of the single moves, closed form (must agree)
  `c12 udelta <ax> <r> <n> <d> <hidden list a,b,c|->` → adjusted delta | `err`
  `c12 sheet <api m|u> <ax> <kind> <sheet> <pos> <n> <d> <items…>` → `err` | `ok <items…>` (sorted)
-/

def pInt (s : String) : Int := s.toInt?.getD 0
def pNat (s : String) : Nat := s.toNat?.getD 0
def pBool (s : String) : Bool := s == "1"

def pAxis (s : String) : Axis := if s == "c" then .col else .row

def pOp (kind : String) (pos amt : Int) : Op :=
  if kind == "ins" then .insert pos amt else if kind == "del" then .delete pos amt else .move1 pos amt

def pAtom (h : Host) (fs : List String) : Option Atom :=
  match fs with
  | ["ref", s, n, ar, r, ac, c] => some (.ref (mkRef h (pNat s) (pBool n) (pBool ar) (pInt r) (pBool ac) (pInt c)))
  | ["rng", s, n, ar1, r1, ac1, c1, ar2, r2, ac2, c2] =>
    some (.range (mkRange h (pNat s) (pBool n) (pBool ar1) (pInt r1) (pBool ac1) (pInt c1)
      (pBool ar2) (pInt r2) (pBool ac2) (pInt c2)))
  | _ => none

def showOpt (o : Option Int) : String := match o with | some x => toString x | none => "none"

/-! ### sheet requests -/

def fillTemplate (tpl : String) (parts : List String) : String :=
  let segs := tpl.splitOn "{}"
  let rec go : List String → List String → String
    | [], _ => ""
    | [s], _ => s
    | s :: rest, p :: ps => s ++ p ++ go rest ps
    | s :: rest, [] => s ++ go rest []
  go segs parts

structure Parsed where
  book : Book := ⟨[], [], [], []⟩
  bad : Bool := false

def pItem (p : Parsed) (item : String) : Parsed :=
  match item.splitOn ":" with
  | [k, body] =>
    let f := body.splitOn ","
    match k, f with
    | "C", [s, r, c, "V", obs, _input] =>
      { p with book := { p.book with cells := p.book.cells ++ [⟨pNat s, pInt r, pInt c, .val obs⟩] } }
    | "C", [s, r, c, "F", tpl, obs, atoms] =>
      let h : Host := ⟨pNat s, pInt r, pInt c⟩
      let as := (if atoms == "-" then [] else atoms.splitOn ";").map (fun a => pAtom h (a.splitOn "/"))
      if as.any Option.isNone then { p with bad := true } else
      let tplS := (hexDecode tpl).getD ""
      { p with book := { p.book with cells := p.book.cells ++ [⟨pNat s, pInt r, pInt c, .fml tplS (as.filterMap id) obs⟩] } }
    | "R", [s, r, hid, obs] =>
      { p with book := { p.book with rows := p.book.rows ++ [⟨pNat s, pInt r, pBool hid, obs⟩] } }
    | "K", [s, mn, mx, w, hid, st] =>
      let att : CAtt := ⟨if w == "d" then none else some (pInt w), pBool hid, if st == "-" then none else some st⟩
      { p with book := { p.book with cols := p.book.cols ++ [(pNat s, ⟨pInt mn, pInt mx, att⟩)] } }
    | "L", [s, r, c, id] =>
      { p with book := { p.book with links := p.book.links ++ [⟨pNat s, pInt r, pInt c, id⟩] } }
    | _, _ => { p with bad := true }
  | _ => { p with bad := true }

def lexLe : List Int → List Int → Bool
  | [], _ => true
  | _ :: _, [] => false
  | a :: as, b :: bs => if a < b then true else if a > b then false else lexLe as bs

def colWindow : Nat := 60

def showBook (b : Book) : String :=
  let cells := b.cells.map fun c =>
    let key : List Int := [0, c.sheet, c.row, c.col]
    match c.body with
    | .val obs => (key, s!"C:{c.sheet},{c.row},{c.col},V,{obs}")
    | .fml tpl atoms obs =>
      let txt := "=" ++ fillTemplate tpl (atoms.map (printAtom c.host))
      (key, s!"C:{c.sheet},{c.row},{c.col},F,{hexEncode txt},{obs}")
  let rows := b.rows.map fun r =>
    (([1, r.sheet, r.r, 0] : List Int), s!"R:{r.sheet},{r.r},{if r.hidden then 1 else 0},{r.obs}")
  let sheets : List Nat := [0, 1]
  let cols := sheets.flatMap fun s =>
    let cs := colsOf b s
    (List.range colWindow).filterMap fun (i : Nat) =>
      let x : Int := (i : Int) + 1
      let w := actualWidth cs x
      let hid := colHidden cs x
      let st := colStyle cs x
      if w = 90 ∧ hid = false ∧ st = none then none
      else some (([2, s, x, 0] : List Int),
        s!"K:{s},{x},{w},{if hid then 1 else 0},{st.getD "-"}")
  let links := b.links.map fun l =>
    (([3, l.sheet, l.row, l.col] : List Int), s!"L:{l.sheet},{l.row},{l.col},{l.id}")
  let all := (cells ++ rows ++ cols ++ links).mergeSort (fun a b => lexLe a.1 b.1)
  " ".intercalate (all.map (·.2))

def c12 (args : List String) : String :=
  match args with
  | "rho" :: ax :: kind :: pos :: amt :: os :: hs :: hr :: hc :: atom =>
    let h : Host := ⟨pNat hs, pInt hr, pInt hc⟩
    let d : Disp := ⟨pAxis ax, pNat os, pOp kind (pInt pos) (pInt amt)⟩
    match pAtom h atom with
    | some a => printAtomDisp d h a ++ " " ++ printAtom h (rhoAtom d h a)
    | none => "bad-op"
  | ["sigma", _ax, kind, pos, amt, x] => showOpt (sigma (pOp kind (pInt pos) (pInt amt)) (pInt x))
  | ["block", r, n, d, x] =>
    let viaFold := sigmaList (blockOps (pInt r) (pNat n) (pInt d)) (pInt x)
    let viaRho := rhoList (blockOps (pInt r) (pNat n) (pInt d)) (pInt x)
    s!"{showOpt viaFold} {showOpt viaRho} {sigmaBlock (pInt r) (pNat n) (pInt d) (pInt x)}"
  | ["udelta", ax, r, n, d, hid] =>
    let hs : List Int := if hid == "-" then [] else (hid.splitOn ",").map pInt
    match userDelta (pAxis ax) (fun x => hs.contains x) (pInt r) (pInt n) (pInt d) with
    | some x => toString x
    | none => "err"
  | "sheet" :: api :: ax :: kind :: s :: pos :: n :: d :: items =>
    let p := items.foldl pItem {}
    if p.bad then "bad-op" else
    let axis := pAxis ax
    let res :=
      if kind == "ins" then insertAction axis (pNat s) (pInt pos) (pInt n) p.book
      else if kind == "del" then deleteAction axis (pNat s) (pInt pos) (pInt n) p.book
      else if kind == "insdel" then
        (insertAction axis (pNat s) (pInt pos) (pInt n) p.book).bind (deleteAction axis (pNat s) (pInt pos) (pInt n))
      else if api == "u" then userMoveAction axis (pNat s) (pInt pos) (pInt n) (pInt d) p.book
      else moveAction axis (pNat s) (pInt pos) (pInt n) (pInt d) p.book
    match res with
    | none => "err"
    | some b => "ok " ++ showBook b
  | _ => "bad-op"

end Driver
