import Driver.Proto
import IronCalc.Sheet.StructureSheet
/-
  C27 descriptor driver: the raw `worksheet.cols` / `worksheet.rows` lists after one structural
  action, predicted by the structure model (Sheet/Structure*.lean: insertAction / deleteAction /
  moveAction with their argument checks) on a sheet that holds descriptors only.
    c27d cols <min:max:w:hid:style;…|-> <ins|del|mov> <pos> <n> <d>
    c27d rows <r,r,…|-> <ins|del|mov> <pos> <n> <d>
  `w` = width in pixels or `d` (no custom width); answer `err` or `ok <list>`.
-/
namespace Driver
open IronCalc.Structure

private def dInt (s : String) : Int := s.toInt?.getD 0

private def parseColD (s : String) : Option (ColD CAtt) :=
  match s.splitOn ":" with
  | [mn, mx, w, hid, st] => do
    let mn ← mn.toInt?; let mx ← mx.toInt?
    let w : Option Int ← (if w == "d" then some none else w.toInt?.map some)
    pure ⟨mn, mx, ⟨w, hid == "1", if st == "-" then none else some st⟩⟩
  | _ => none

private def showColD (c : ColD CAtt) : String :=
  let w := match c.att.width with | some w => toString w | none => "d"
  s!"{c.min}:{c.max}:{w}:{if c.att.hidden then 1 else 0}:{c.att.style.getD "-"}"

private def runAction (ax : Axis) (kind : String) (pos n d : Int) (b : Book) : Option Book :=
  if kind == "ins" then insertAction ax 0 pos n b
  else if kind == "del" then deleteAction ax 0 pos n b
  else moveAction ax 0 pos n d b

def c27d (args : List String) : String :=
  match args with
  | ["cols", layout, kind, pos, n, d] =>
    match (if layout == "-" then some [] else (layout.splitOn ";").mapM parseColD) with
    | none => "bad-op"
    | some cols =>
      let b : Book := ⟨[], [], cols.map (fun c => (0, c)), []⟩
      match runAction .col kind (dInt pos) (dInt n) (dInt d) b with
      | none => "err"
      | some b' =>
        let cs := colsOf b' 0
        "ok " ++ (if cs.isEmpty then "-" else ";".intercalate (cs.map showColD))
  | ["rows", layout, kind, pos, n, d] =>
    let rs : List Int := if layout == "-" then [] else (layout.splitOn ",").map dInt
    let b : Book := ⟨[], rs.map (fun r => ⟨0, r, false, ""⟩), [], []⟩
    match runAction .row kind (dInt pos) (dInt n) (dInt d) b with
    | none => "err"
    | some b' =>
      let out := (b'.rows.filter (·.sheet = 0)).map (fun r => toString r.r)
      "ok " ++ (if out.isEmpty then "-" else ",".intercalate out)
  | _ => "bad-op"

end Driver
