import Driver.Proto
import Driver.C19
import IronCalc.Text.Reenter
import IronCalc.Generated.C18Languages
open IronCalc.Number IronCalc.Reenter
namespace Driver

/-- `N(s) = round_half_even(p/q · 10^(−s))` -/
def scaled10 (p q : Nat) (s : Int) : Nat :=
  if s ≤ 0 then divRoundEven (p * 10 ^ (-s).toNat) q else divRoundEven p (q * 10 ^ s.toNat)

def stripTrailingZeros (ds : List Char) : List Char × Nat :=
  let r := ds.reverse
  let z := (r.takeWhile (· == '0')).length
  ((r.dropWhile (· == '0')).reverse, z)

/-- the 15-significant-digit decimal of a finite double given by its bit pattern (what
    `format!("{:.14e}")` prints, trailing zeros removed).  Executable driver only; exact integer
    arithmetic; validated against the engine by the `c18-shownum` suite.  Normal doubles only. -/
def shownOfBits (bits : Nat) : Shown :=
  let neg := bits / 2 ^ 63 == 1
  let ef := (bits / 2 ^ 52) % 2048
  let mf := bits % 2 ^ 52
  if ef == 0 && mf == 0 then ⟨neg, ['0'], 0⟩
  else
    let m := if ef == 0 then mf else mf + 2 ^ 52
    let efn : Nat := if ef == 0 then 1 else ef
    let e2 : Int := (efn : Int) - 1075
    let p := if e2 ≥ 0 then m * 2 ^ e2.toNat else m
    let q := if e2 ≥ 0 then 1 else 2 ^ (-e2).toNat
    let l2 : Int := (Nat.log2 p : Int) - (Nat.log2 q : Int)
    let s0 : Int := (l2 * 30103) / 100000 - 14
    -- adjust so that 10^14 ≤ N < 10^15
    let fix (s : Int) : Int :=
      let n := scaled10 p q s
      if n ≥ 10 ^ 15 then s + 1 else if n < 10 ^ 14 then s - 1 else s
    let s := fix (fix (fix (fix s0)))
    let n := scaled10 p q s
    let (n, s) := if n ≥ 10 ^ 15 then (scaled10 p q (s + 1), s + 1) else (n, s)
    let (ds, z) := stripTrailingZeros (Nat.toDigits 10 n)
    ⟨neg, ds, s + z⟩

/-- the displayed content of a number cell holding the double with these bits: when the 15-digit
    rounding of the value overflows a double (the largest doubles) `to_precision_str` parses it back to
    infinity and prints `inf` (defect F18d); otherwise the `ryu` layout of the 15-digit decimal -/
def contentOfBits (dec : Char) (bits : Nat) : List Char :=
  let d := shownOfBits bits
  if overflowsF64 (digitsVal d.digits) d.k then (if d.neg then "-inf".toList else "inf".toList)
  else printShown dec d

def findLang (name : String) : Option Lang := IronCalc.Generated.C18.languages.lookup name

def hexL (cs : List Char) : String := hexEncode (String.ofList cs)

def fmtOf (k : Kind) : String := fmtHex k

def isDateKind : Kind → Bool
  | .date _ => true
  | _ => false

/-- canonical description of what typing `x` into a fresh cell gives -/
def describe (i : Input) : String :=
  match i with
  | .empty => "empty"
  | .quoted t => s!"quoted {hexL t}"
  | .formula _ => "formula"
  | .number v k => s!"num {hex16 (valueBits v)} {fmtOf k}"
  | .boolean b => if b then "bool 1" else "bool 0"
  | .error i => s!"err {i}"
  | .text s => s!"text {hexL s}"

/-- re-enter the displayed content of the cell that input `x` produced; which observable fields change -/
def reenter (ℓ : Locale) (lang : Lang) (x : List Char) : String :=
  match classify ℓ lang x with
  | .formula _ => "formula"
  | .number v k =>
    if isDateKind k then "date"
    else
      let bits := valueBits v
      let c1 := contentOfBits ℓ.dec bits
      match classify ℓ lang c1 with
      | .number v2 k2 =>
        let bits2 := valueBits v2
        let c2 := contentOfBits ℓ.dec bits2
        let style := match k2.format with
          | none => false
          | some f => some f != k.format
        let ch := (if c2 != c1 then ["content"] else []) ++ (if style then ["style"] else []) ++
                  (if shownOfBits bits2 != shownOfBits bits then ["value"] else [])
        if ch.isEmpty then "same" else "changed:" ++ "+".intercalate ch
      | _ => "changed:type"
  | i =>
    match cellOf i with
    | none => "formula"
    | some c =>
      let c1 := display ℓ lang c
      let i2 := classify ℓ lang c1
      if i2 == i then "same"
      else
        match i2, cellOf i2 with
        | .number _ _, _ => "changed:type"
        | .formula _, _ => "changed:type"
        | _, some c2 =>
          let sameType := match c, c2 with
            | .text _ _, .text _ _ => true
            | .boolean _, .boolean _ => true
            | .error _, .error _ => true
            | .empty, .empty => true
            | _, _ => false
          if sameType then "changed:content" else "changed:type"
        | _, none => "changed:type"

def hexNat (b : String) : Option Nat :=
  b.toList.foldl (fun acc c => acc.bind fun a => (hexVal c).map (a * 16 + ·)) (some 0)

def shownOfValue (v : Value) : Shown := shownOfBits (valueBits v)

def fmtOfString (f : String) : Option (List Char) := if f == "general" then none else some f.toList

/-- the style a prior-state descriptor stands for: `fresh` | `q` (explicit quote-prefix style) |
    `fmt:<hex>` (explicit number format) | `in:<hex>` (a previous input typed into the fresh cell) -/
def priorStyle (ℓ : Locale) (lang : Lang) (p : String) : Option Style :=
  if p == "fresh" then some ⟨false, none⟩
  else if p == "q" then some ⟨true, none⟩
  else match p.splitOn ":" with
    | ["fmt", h] => (hexDecode h).map fun f => ⟨false, fmtOfString f⟩
    | ["in", h] => (hexDecode h).map fun x => (applyInput ℓ lang shownOfValue ⟨false, none⟩ x.toList).2
    | _ => none

/-- the cell an action leaves on a cell with style `st`: `in:<hex>` (`set_user_input`),
    `bool:<0|1>` (`update_cell_with_bool`), `num:<bits>` (`update_cell_with_number`),
    `text:<hex>` (`update_cell_with_text`) -/
def applyAction (ℓ : Locale) (lang : Lang) (st : Style) (a : String) : Option (Content × Style) :=
  match a.splitOn ":" with
  | ["in", h] => (hexDecode h).map fun x => applyInput ℓ lang shownOfValue st x.toList
  | ["bool", b] => some (.bool (b == "1"), { st with quote := false })
  | ["num", b] => (hexNat b).map fun bits => (.num (shownOfBits bits), { st with quote := false })
  | ["text", h] => (hexDecode h).map fun x => (.str x.toList, { st with quote := needsQuote lang x.toList })
  | _ => none

def contentTag : Content → Nat
  | .empty => 0 | .str _ => 1 | .num _ => 2 | .bool _ => 3 | .err _ => 4 | .formula => 5

/-- the number content of a double whose 15-digit rounding overflows is shown as `inf` (F18d): the
    driver's `contentOfBits` handles it; here a `Shown` that overflows prints `inf` -/
def displayD (ℓ : Locale) (lang : Lang) (c : Content) (st : Style) : Option (List Char) :=
  match c, displayS ℓ lang c st with
  | .num d, some _ =>
    let body := if overflowsF64 (digitsVal d.digits) d.k then (if d.neg then "-inf".toList else "inf".toList)
                else printShown ℓ.dec d
    some (if st.quote then '\'' :: body else body)
  | _, r => r

/-- re-entry on a cell with a prior state -/
def reenterPrior (ℓ : Locale) (lang : Lang) (prior action : String) : String :=
  match priorStyle ℓ lang prior with
  | none => "bad-op"
  | some st0 =>
    match applyAction ℓ lang st0 action with
    | none => "bad-op"
    | some (c1, st1) =>
      match displayD ℓ lang c1 st1 with
      | none => if c1 == .formula then "formula" else "date"
      | some d =>
        let (c2, st2) := applyInput ℓ lang shownOfValue st1 d
        if contentTag c2 != contentTag c1 then "changed:type"
        else
          let d2 := displayD ℓ lang c2 st2
          let ch := (if d2 != some d then ["content"] else []) ++ (if st2 != st1 then ["style"] else []) ++
                    (if c2 != c1 then ["value"] else [])
          if ch.isEmpty then "same" else "changed:" ++ "+".intercalate ch

/-- `c18 classify <locale> <lang> <hex>` → description of the resulting cell
    `c18 reenter <locale> <lang> <hex>`  → `same` | `changed:<fields>` | `formula` | `date`
    `c18 shownum <locale> <bits>`        → hex of the displayed content of that double
    `c18 settext <locale> <lang> <hex>`  → `quoted`|`plain` then `same`|`changed` (update_cell_with_text, then re-enter) -/
def c18 (args : List String) : String :=
  match args with
  | ["classify", loc, la, h] =>
    match findLocale loc, findLang la, hexDecode h with
    | some ℓ, some lang, some s => describe (classify ℓ lang s.toList)
    | _, _, _ => "bad-op"
  | ["reenter", loc, la, h] =>
    match findLocale loc, findLang la, hexDecode h with
    | some ℓ, some lang, some s => reenter ℓ lang s.toList
    | _, _, _ => "bad-op"
  | ["shownum", loc, b] =>
    match findLocale loc, (String.toNat? ("0" ++ b)), b.toList.foldl (fun acc c => acc.bind fun a => (hexVal c).map (a * 16 + ·)) (some 0) with
    | some ℓ, _, some bits => hexL (contentOfBits ℓ.dec bits)
    | _, _, _ => "bad-op"
  | ["prior", loc, la, pr, act] =>
    match findLocale loc, findLang la with
    | some ℓ, some lang => reenterPrior ℓ lang pr act
    | _, _ => "bad-op"
  | ["settext", loc, la, h] =>
    match findLocale loc, findLang la, hexDecode h with
    | some ℓ, some lang, some s =>
      let x := s.toList
      let q := needsQuote lang x
      let c := CellC.text x q
      let i2 := classify ℓ lang (display ℓ lang c)
      let same := if q then i2 == .quoted x else i2 == .text x
      (if q then "quoted " else "plain ") ++ (if same then "same" else "changed")
    | _, _, _ => "bad-op"
  | _ => "bad-op"

end Driver
