import Driver.Proto
import IronCalc.Book.Sheets
open IronCalc.Book IronCalc.RefTree
namespace Driver

/-- `char::to_uppercase` / `to_lowercase` on ASCII and the Latin-1 Supplement letters that map one-to-one
    inside Latin-1 (U+00C0–U+00DE ↔ U+00E0–U+00FE, without × and ÷).  ß, ÿ and µ (whose upper case leaves
    Latin-1) and everything above U+00FF are left unchanged: the generators do not emit cased letters
    outside this fragment (stated in notes/C32.md). -/
def latin1Up (c : Char) : Char :=
  if 0xE0 ≤ c.toNat ∧ c.toNat ≤ 0xFE ∧ c.toNat ≠ 0xF7 then Char.ofNat (c.toNat - 32) else c.toUpper
def latin1Low (c : Char) : Char :=
  if 0xC0 ≤ c.toNat ∧ c.toNat ≤ 0xDE ∧ c.toNat ≠ 0xD7 then Char.ofNat (c.toNat + 32) else c.toLower
def asciiFold : Fold := ⟨fun s => s.map latin1Up, fun s => s.map latin1Low⟩

def optName (s : String) : Option (Option String) :=
  if s == "~" then some none else (hexDecode s).map some

/-- one stored tree from its prefix token list -/
partial def parseTree (toks : List String) : Option (SNode × List String) :=
  match toks with
  | [] => none
  | t :: rest =>
    match t.splitOn "|" with
    | ["rc", n, p] => (optName n).map fun n => (.ref .cell n p, rest)
    | ["rg", n, p] => (optName n).map fun n => (.ref .range n p, rest)
    | ["i", n] => (hexDecode n).map fun n => (.ident () n, rest)
    | ["l", tag] => some (.leaf tag, rest)
    | ["o", tag, k] =>
      match k.toNat? with
      | none => none
      | some k =>
        let rec kids (k : Nat) (toks : List String) (acc : List SNode) : Option (List SNode × List String) :=
          match k with
          | 0 => some (acc.reverse, toks)
          | k + 1 =>
            match parseTree toks with
            | some (c, r) => kids k r (c :: acc)
            | none => none
        (kids k rest []).map fun (cs, r) => (.op tag cs, r)
    | _ => none

def parseFormula (s : String) : Option SNode :=
  match parseTree (s.splitOn ",") with
  | some (t, []) => some t
  | _ => none

def parseFormulas (s : String) : Option (List SNode) :=
  if s == "-" then some [] else (s.splitOn ";").mapM parseFormula

def hexOpt (o : Option String) : String :=
  match o with
  | some n => hexEncode n
  | none => "~"

partial def serNode : Node → List String
  | .ref k r p =>
    let kk := match k with | .cell => "c" | .range => "g"
    let i := match r.idx with | some i => toString i | none => "!"
    [s!"r{kk}|{hexOpt r.name}|{i}|{p}"]
  | .ident v n =>
    let res := match v with | none => "~" | some none => "g" | some (some i) => toString i
    [s!"i|{hexEncode n}|{res}"]
  | .leaf t => [s!"l|{t}"]
  | .op t args => s!"o|{t}|{args.length}" :: args.flatMap serNode

def serStr (n : Node) : String := ",".intercalate (serNode n)

def parseName (e : String) : Option DefName :=
  match e.splitOn ":" with
  | [n, sc, t] => do
    let n ← hexDecode n
    let sc ← (if sc == "~" then some none else sc.toNat?.map some : Option (Option Nat))
    let t ← parseFormula t
    pure ({ name := n, scope := sc, formula := t } : DefName)
  | _ => none

def parseNames (names : String) : Option (List DefName) :=
  if names == "-" then some [] else (names.splitOn ";").mapM parseName

def parseBook (sheets formulas names : String) : Option Book := do
  let sh ← (sheets.splitOn ",").mapM fun e =>
    match e.splitOn ":" with
    | [n, id] => do
      let n ← hexDecode n
      let id ← id.toNat?
      pure (n, id)
    | _ => none
  let fs ← (formulas.splitOn "/").mapM parseFormulas
  if sh.length != fs.length then none
  let ns ← parseNames names
  pure { sheets := (sh.zip fs).map fun ((n, id), f) => { name := n, id := id, formulas := f }, names := ns }

/-- `sheets formulas names` with every tree resolved against the book (what the real parser answers) -/
def stateStr (F : Fold) (b : Book) : String :=
  let sheets := ",".intercalate (b.sheets.map fun s => s!"{hexEncode s.name}:{s.id}")
  let forms := "/".intercalate ((b.parsed F).map fun fs =>
    if fs.isEmpty then "-" else ";".intercalate (fs.map serStr))
  let ctx := match b.sheets.head? with | some s => s.name | none => ""
  let names := if b.names.isEmpty then "-" else
    ";".intercalate (b.names.map fun d =>
      let sc := match d.scope with | some s => toString s | none => "~"
      s!"{hexEncode d.name}:{sc}:{serStr (resolve F b.sheetNames b.namesWithScope ctx d.formula)}")
  s!"{sheets} {forms} {names}"

def errStr : OpErr → String
  | .invalidName => "invalidName" | .nameExists => "nameExists" | .badIndex => "badIndex"
  | .badTarget => "badTarget" | .onlySheet => "onlySheet" | .noName => "noName"

/-- `c17 <op> <level> <spec> <sheets> <formulas> <names>` → `ok <state>` | `err <kind>` -/
def c17 (args : List String) : String :=
  match args with
  | [op, level, _spec, sheets, formulas, names] =>
    match parseBook sheets formulas names with
    | none => "bad-book"
    | some b =>
      let F := asciiFold
      let n := b.sheets.length
      let res : Option (Except OpErr Book) :=
        match op.splitOn ":" with
        | ["rename", i, new] =>
          match i.toNat?, hexDecode new with
          | some i, some new =>
            -- `UserModel::rename_sheet` looks the sheet up before `Model::rename_sheet_by_index` validates the name
            if level == "u" && i ≥ n then some (.error .badIndex) else some (renameSheet true F b i new)
          | _, _ => none
        | ["move", i, j] =>
          match i.toNat?, j.toNat? with
          | some i, some j => some (moveSheet b i j)
          | _, _ => none
        | ["dup", i] => i.toNat?.map fun i => (duplicateSheet true F b i).map (·.1)
        | ["delete", i] =>
          i.toNat?.map fun i =>
            if level == "u" && i ≥ n then .error .badIndex else deleteSheet b i
        | _ => none
      match res with
      | none => "bad-op"
      | some (.error e) => s!"err {errStr e}"
      | some (.ok b') => s!"ok {stateStr F b'}"
  | _ => "bad-op"

end Driver
