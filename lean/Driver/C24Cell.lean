import IronCalc.Io.XlsxCell
import Driver.Proto
/-
  Model side of the `c24-cell` suite: `writeCell` on the cell of the request, `readCell` on the
  element the REAL exporter wrote (also in the request).
  Numbers are their printed text (`N := Txt`), formulas their exported text (`F := Txt`).
-/
open IronCalc.XlsxCell IronCalc.Codec
namespace Driver.Cell

def toS (l : List Nat) : String := String.ofList (l.map Char.ofNat)
def ofS (s : String) : List Nat := s.toList.map Char.toNat
def hx (l : List Nat) : String := hexEncode (toS l)
def unhx (h : String) : Option (List Nat) := (hexDecode h).map ofS

def nc : NumCodec Txt := { show_ := id, parse := some, zero := [48] }
def fc : FCodec Txt := { print := fun _ f => f, parse := fun _ t => t }

abbrev C := IronCalc.XlsxCell.Cell Txt Txt

def errOfHex (h : String) : Option ErrK := (unhx h).bind errOfTxt
def errHex (e : ErrK) : String := hx (txt (errText e))

def parseVal (t : List String) : Option (FVal Txt × List String) :=
  match t with
  | "U" :: r => some (.unevaluated, r)
  | "B" :: b :: r => some (.bool (b == "1"), r)
  | "N" :: h :: r => (unhx h).map (fun n => (.num n, r))
  | "T" :: h :: r => (unhx h).map (fun s => (.text s, r))
  | "E" :: e :: o :: m :: r =>
    match errOfHex e, unhx o, unhx m with
    | some e, some o, some m => some (.err e o m, r)
    | _, _, _ => none
  | _ => none

def parseSVal (t : List String) : Option (SVal Txt × List String) :=
  match t with
  | "B" :: b :: r => some (.bool (b == "1"), r)
  | "N" :: h :: r => (unhx h).map (fun n => (.num n, r))
  | "T" :: h :: r => (unhx h).map (fun s => (.text s, r))
  | "E" :: e :: r => (errOfHex e).map (fun e => (.err e, r))
  | _ => none

def parseCell (t : List String) : Option (C × List String) :=
  match t with
  | "Empty" :: s :: r => s.toInt?.map (fun s => (.empty s, r))
  | "Bool" :: b :: s :: r => s.toInt?.map (fun s => (.boolean (b == "1") s, r))
  | "Num" :: h :: s :: r =>
    match unhx h, s.toInt? with
    | some n, some s => some (.number n s, r)
    | _, _ => none
  | "Err" :: e :: s :: r =>
    match errOfHex e, s.toInt? with
    | some e, some s => some (.error e s, r)
    | _, _ => none
  | "Shared" :: si :: s :: r =>
    match si.toInt?, s.toInt? with
    | some si, some s => some (.shared si s, r)
    | _, _ => none
  | "Formula" :: f :: s :: r =>
    match unhx f, s.toInt?, parseVal r with
    | some f, some s, some (v, r) => some (.formula f s v, r)
    | _, _, _ => none
  | "Array" :: f :: s :: w :: h :: k :: r =>
    match unhx f, s.toInt?, w.toInt?, h.toInt?, parseVal r with
    | some f, some s, some w, some h, some (v, r) =>
      some (.array f s (w, h) (if k == "dynamic" then .dynamic else .cse) v, r)
    | _, _, _, _, _ => none
  | "Spill" :: r =>
    match parseSVal r with
    | some (v, s :: ar :: ac :: r) =>
      match s.toInt?, ar.toInt?, ac.toInt? with
      | some s, some ar, some ac => some (.spill v s (ar, ac), r)
      | _, _, _ => none
    | _ => none
  | _ => none

def showVal : FVal Txt → String
  | .unevaluated => "U"
  | .bool b => "B " ++ (if b then "1" else "0")
  | .num n => "N " ++ hx n
  | .text s => "T " ++ hx s
  | .err e o m => "E " ++ errHex e ++ " " ++ hx o ++ " " ++ hx m

def showSVal : SVal Txt → String
  | .bool b => "B " ++ (if b then "1" else "0")
  | .num n => "N " ++ hx n
  | .text s => "T " ++ hx s
  | .err e => "E " ++ errHex e

def showCell : C → String
  | .empty s => s!"Empty {s}"
  | .boolean v s => s!"Bool {if v then 1 else 0} {s}"
  | .number v s => s!"Num {hx v} {s}"
  | .error e s => s!"Err {errHex e} {s}"
  | .shared si s => s!"Shared {si} {s}"
  | .formula f s v => s!"Formula {hx f} {s} {showVal v}"
  | .array f s (w, h) k v =>
    s!"Array {hx f} {s} {w} {h} {if k == Kind.dynamic then "dynamic" else "cse"} {showVal v}"
  | .spill v s (ar, ac) => s!"Spill {showSVal v} {s} {ar} {ac}"

partial def showNode : Node → String
  | .text s => "T " ++ hx s
  | .elem tag attrs kids =>
    let a := attrs.map (fun (k, v) => k ++ " " ++ hexEncode (String.ofList v))
    let ks := kids.map showNode
    String.intercalate " " (["E", tag, toString attrs.length] ++ a ++ [toString kids.length] ++ ks)

def localName (q : String) : String :=
  match q.splitOn ":" with
  | [_, l] => l
  | _ => q

partial def parseNode (t : List String) : Option (Node × List String) :=
  match t with
  | "T" :: h :: rest => (unhx h).map (fun s => (Node.text s, rest))
  | "E" :: name :: na :: rest =>
    match na.toNat? with
    | none => none
    | some na =>
      let rec attrs (n : Nat) (t : List String) (acc : List (String × List Char)) :
          Option (List (String × List Char) × List String) :=
        match n, t with
        | 0, t => some (acc.reverse, t)
        | n + 1, k :: v :: t => (hexDecode v).bind (fun s => attrs n t ((k, s.toList) :: acc))
        | _, _ => none
      match attrs na rest [] with
      | none => none
      | some (as, rest) =>
        match rest with
        | nk :: rest =>
          match nk.toNat? with
          | none => none
          | some nk =>
            let rec kids (n : Nat) (t : List String) (acc : List Node) : Option (List Node × List String) :=
              match n with
              | 0 => some (acc.reverse, t)
              | n + 1 =>
                match parseNode t with
                | some (k, t) => kids n t (k :: acc)
                | none => none
            (kids nk rest []).map (fun (ks, rest) => (Node.elem (localName name) as ks, rest))
        | [] => none
  | _ => none

def parseAnchor (s : String) : Option (Option (Int × Int)) :=
  if s == "-" then some none
  else match s.splitOn "," with
    | [a, b] =>
      match a.toInt?, b.toInt? with
      | some a, some b => some (some (a, b))
      | _, _ => none
    | _ => none

/-- `c24 cell <seed> <sheet> <row> <col> <arm> <sheetname-hex> <anchor> CELL <cell…> ELEM <elem…>` -/
def cell (args : List String) : String :=
  match args with
  | _seed :: _sheet :: row :: col :: _arm :: sn :: anchor :: "CELL" :: rest =>
    match row.toNat?, col.toNat?, unhx sn, parseAnchor anchor, parseCell rest with
    | some row, some col, some sn, some anchor, some (c, "ELEM" :: et) =>
      match parseNode et with
      | some (e, []) =>
        let w := match writeCell nc fc row col c with
          | .node n => "W " ++ showNode n
          | .skip => "W skip"
          | .panic => "W panic"
        let r := if e.tag == "missing" then "R skipped" else
          match readCell nc fc { sheetName := sn, anchor := anchor, sst := [] } e with
          | .ok c _ => "R " ++ showCell c
          | .err => "R err"
          | .unmodelled => "R unmodelled"
        w ++ " | " ++ r
      | _ => "bad-request"
    | _, _, _, _, _ => "bad-request"
  | _ => "bad-request"

end Driver.Cell
