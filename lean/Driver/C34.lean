import Driver.Proto
import IronCalc.Text.F4
import IronCalc.Text.F4Lex
import IronCalc.Formula.LexCfgs
import IronCalc.Codec.CharClassTable
open IronCalc.Codec IronCalc.F4 IronCalc.Formula
namespace Driver

private def parseSpans (s : String) : Option (List (Nat × Nat)) :=
  if s == "-" then some [] else
  (s.splitOn ",").mapM fun p =>
    match p.splitOn "-" with
    | [a, b] => do
      let a ← a.toNat?
      let b ← b.toNat?
      pure (a, b)
    | _ => none

/-- `c34 cyc <hex value> <start> <end> <spans>` → `<hex text> <start> <end>` | `err`;
    `c34 endpoint <hex>` → hex;  `c34 token <hex>` → hex -/
def c34 (args : List String) : String :=
  match args with
  | ["cyc", h, s, e, sp] =>
    match hexDecode h, s.toNat?, e.toNat?, parseSpans sp with
    | some v, some s, some e, some sp =>
      match cycleReference unicodeCC sp v.toList s e with
      | some (t, a, b) => s!"{hexEncode (String.ofList t)} {a} {b}"
      | none => "err"
    | _, _, _, _ => "bad-op"
  | ["lexcyc", h, s, e] =>
    -- the spans come from the Lean lexer (en language, `.` decimal: the harness model's settings)
    match hexDecode h, s.toNat?, e.toNat? with
    | some v, some s, some e =>
      let sp := valueSpans cfgEn v.toList
      let spStr := if sp.isEmpty then "-" else ",".intercalate (sp.map fun p => s!"{p.1}-{p.2}")
      match cycleReferenceLex cfgEn v.toList s e with
      | some (t, a, b) => s!"{hexEncode (String.ofList t)} {a} {b} | {spStr}"
      | none => s!"err | {spStr}"
    | _, _, _ => "bad-op"
  | ["endpoint", h] =>
    match hexDecode h with
    | some v => hexEncode (String.ofList (cycleEndpoint v.toList))
    | none => "bad-op"
  | ["token", h] =>
    match hexDecode h with
    | some v => hexEncode (String.ofList (cycleTokenText unicodeCC v.toList))
    | none => "bad-op"
  | _ => "bad-op"

end Driver
