import Driver.Proto
import IronCalc.Text.Number
import IronCalc.Generated.C19Locales
open IronCalc.Number
namespace Driver

/-- round-half-even of `a / b` (b > 0) -/
def divRoundEven (a b : Nat) : Nat :=
  let d := a / b
  let r := a % b
  if 2 * r > b || (2 * r == b && d % 2 == 1) then d + 1 else d

/-- `x = p/q · 2^k` rounded half-even to an integer -/
def scaledRound (p q : Nat) (k : Int) : Nat :=
  if k ≥ 0 then divRoundEven (p * 2 ^ k.toNat) q else divRoundEven p (q * 2 ^ (-k).toNat)

/-- IEEE-754 binary64 bit pattern (magnitude) of the real `mant × 10^e10`, rounded to nearest,
    ties to even — what Rust's correctly rounded `str::parse::<f64>` returns.  Executable driver
    only (never used in a theorem); validated against Rust on every case of the `c19` suites.
    The caller guarantees the value does not overflow (`overflowsF64`). -/
def f64Bits (mant : Nat) (e10 : Int) : Nat :=
  if mant == 0 then 0
  else if (numDigits mant : Int) + e10 < -330 then 0
  else
    let p := if e10 ≥ 0 then mant * 10 ^ e10.toNat else mant
    let q := if e10 ≥ 0 then 1 else 10 ^ (-e10).toNat
    -- binary exponent e with 2^e ≤ p/q < 2^(e+1)
    let e0 : Int := (Nat.log2 p : Int) - (Nat.log2 q : Int)
    let e : Int := if (if e0 ≥ 0 then decide (p ≥ q * 2 ^ e0.toNat) else decide (p * 2 ^ (-e0).toNat ≥ q)) then e0 else e0 - 1
    if e < -1022 then
      scaledRound p q 1074           -- subnormal (or rounds up to the least normal)
    else
      let m := scaledRound p q (52 - e)
      let (m, e) := if m == 2 ^ 53 then (2 ^ 52, e + 1) else (m, e)
      ((e + 1023).toNat) * 2 ^ 52 + (m - 2 ^ 52)

def hex16 (n : Nat) : String :=
  let ds := (Nat.toDigits 16 n)
  String.ofList (List.replicate (16 - ds.length) '0' ++ ds)

/-- bits of the stored double for a recognised value -/
def valueBits (v : Value) : Nat :=
  match v with
  | .serial s => f64Bits s 0
  | .num n negated pct =>
    let mag := f64Bits n.mant n.e10
    let mag :=
      if pct then ((Float.ofBits (UInt64.ofNat mag)) / 100.0).toBits.toNat else mag
    if n.neg != negated then mag + 2 ^ 63 else mag

def fmtHex (k : Kind) : String :=
  match k.format with
  | none => "none"
  | some f => hexEncode (String.ofList f)

def findLocale (name : String) : Option Locale := (IronCalc.Generated.C19.locales.lookup name)

/-- `c19 pfn <locale> <hex>`   → `ok <bits> <fmt>` | `err`      (the hook, currencies of set_user_input)
    `c19 input <locale> <hex>` → `num <bits> <fmt>` | `not`     (through `Model::set_user_input`)
    `c19 float <hex>`          → `1`|`0`                        (Rust `parse::<f64>` succeeds) -/
def c19 (args : List String) : String :=
  match args with
  | ["pfn", loc, h] =>
    match findLocale loc, hexDecode h with
    | some ℓ, some s =>
      match parseFormattedNumber ℓ (currencies ℓ) s.toList with
      | some (v, k) => s!"ok {hex16 (valueBits v)} {fmtHex k}"
      | none => "err"
    | _, _ => "bad-op"
  | ["input", loc, h] =>
    match findLocale loc, hexDecode h with
    | some ℓ, some s =>
      match typedNumber ℓ s.toList with
      | some (v, k) => s!"num {hex16 (valueBits v)} {fmtHex k}"
      | none => "not"
    | _, _ => "bad-op"
  | ["float", h] =>
    match hexDecode h with
    | some s => if rustFloatOk s.toList then "1" else "0"
    | none => "bad-op"
  | _ => "bad-op"

end Driver
