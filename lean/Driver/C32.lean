import Driver.C17
import IronCalc.Book.Names
open IronCalc.Book IronCalc.RefTree
namespace Driver

def parseScope (s : String) : Option (Option Nat) :=
  if s == "~" then some none else s.toNat?.map some

def nameErrStr : NameErr → String
  | .badIdent => "badIdent" | .badScope => "badScope" | .dnExists => "dnExists"
  | .dnNotFound => "dnNotFound" | .badIndex => "badIndex"

/-- does a stored name with that spelling and scope index exist (what `get_defined_name_formula` finds) -/
def hasName (F : Fold) (b : Book) (name : String) (scope : Option Nat) : Bool :=
  match scopeId b scope with
  | none => false
  | some sid => (findNameIdx F b.names name sid).isSome

/-- `c32 <op> <level> <spec> <sheets> <formulas> <names> <twin-op> <twin-spec> <op-tree> <valid>` -/
def c32 (args : List String) : String :=
  match args with
  | [op, level, spec, sheets, formulas, names, _top, _tspec, optree, valid] =>
    match op.splitOn ":" with
    | "newname" :: n :: sc :: _ =>
      match parseBook sheets formulas names, hexDecode n, parseScope sc, parseFormula optree with
      | some b, some n, some sc, some t =>
        match newDefinedName asciiFold b (valid == "v1") n sc t with
        | .ok b' => s!"ok {stateStr asciiFold b'}"
        | .error e => s!"err {nameErrStr e}"
      | _, _, _, _ => "bad-op"
    | ["delname", n, sc] =>
      match parseBook sheets formulas names, hexDecode n, parseScope sc with
      | some b, some n, some sc =>
        match deleteDefinedName asciiFold b n sc with
        | .ok b' => s!"ok {stateStr asciiFold b'}"
        | .error e => s!"err {nameErrStr e}"
      | _, _, _ => "bad-op"
    | ["updname", n, sc, n2, sc2, f] =>
      match parseBook sheets formulas names, hexDecode n, parseScope sc, hexDecode n2, parseScope sc2 with
      | some b, some n, some sc, some n2, some sc2 =>
        let F := asciiFold
        -- the formula: the given tree, or the stored one ("keep")
        let stored : Option SNode := (scopeId b sc).bind fun sid =>
          (findNameIdx F b.names n sid).bind fun i => (b.names[i]?).map (·.formula)
        let t : Option SNode := if f == "~" then stored else parseFormula optree
        match t with
        | none => "err dnNotFound"   -- the harness cannot fetch the stored formula either
        | some t =>
          -- `UserModel::update_defined_name` fetches the old formula before anything is validated
          if level == "u" && !hasName F b n sc then "err dnNotFound"
          else match updateDefinedName F b (valid == "v1") n sc n2 sc2 t with
            | .ok b' => s!"ok {stateStr F b'}"
            | .error e => s!"err {nameErrStr e}"
      | _, _, _, _, _ => "bad-op"
    | ["bytes"] =>
      match parseBook sheets formulas names with
      | some b => s!"ok {stateStr asciiFold b}"
      | none => "bad-book"
    | _ => c17 [op, level, spec, sheets, formulas, names]
  | _ => "bad-op"

end Driver
