import IronCalc.Basic.F64
import IronCalc.Eval.Core
/-
  The driver's number instance: hardware doubles (`Float`: the same IEEE-754 operations as Rust's
  `f64` for + − × ÷, libm for `pow`), with text conversions done exactly on bit patterns
  (Basic/F64.lean).  Executable only — no theorem mentions `Float`.
-/
namespace Driver.Num
open IronCalc IronCalc.F64

def fbits (f : Float) : UInt64 := f.toBits
def ofBits (b : UInt64) : Float := Float.ofBits b

def isDigit (c : Char) : Bool := '0' ≤ c && c ≤ '9'

def digitsVal (cs : List Char) : Nat := cs.foldl (fun acc c => acc * 10 + (c.toNat - 48)) 0

def clampExp (e : Int) : Int := if e > 100000 then 100000 else if e < -100000 then -100000 else e

/-- models Rust `str::parse::<f64>` (core::num::dec2flt grammar), as a bit pattern -/
def rustParse (s : String) : Option UInt64 :=
  let cs := s.toList
  let (neg, cs) := match cs with
    | '-' :: t => (true, t)
    | '+' :: t => (false, t)
    | _ => (false, cs)
  let sgn : UInt64 := if neg then signBit else 0
  let low := String.ofList (cs.map Char.toLower)
  if low == "inf" || low == "infinity" then some (sgn ||| infBits)
  else if low == "nan" then some nanBits
  else
    let ip := cs.takeWhile isDigit
    let r1 := cs.dropWhile isDigit
    let (fp, r2) := match r1 with
      | '.' :: t => (t.takeWhile isDigit, t.dropWhile isDigit)
      | _ => ([], r1)
    if ip.isEmpty && fp.isEmpty then none else
    let expPart : Option (Int × List Char) := match r2 with
      | c :: t =>
        if c == 'e' || c == 'E' then
          let (eneg, t) := match t with
            | '-' :: u => (true, u)
            | '+' :: u => (false, u)
            | _ => (false, t)
          let ed := t.takeWhile isDigit
          if ed.isEmpty then none
          else
            -- very long exponents saturate (leading zeros do not count: `1e00000000` is 1)
            let sig := ed.dropWhile (· == '0')
            let ev : Int := if sig.length > 7 then 100000 else (digitsVal sig : Int)
            some (if eneg then -ev else ev, t.dropWhile isDigit)
        else some (0, r2)
      | [] => some (0, [])
    match expPart with
    | none => none
    | some (e, rest) =>
      if !rest.isEmpty then none
      else some (ofDecimal neg (digitsVal (ip ++ fp)) (clampExp (e - (fp.length : Int))))

def trimAscii (s : String) : String := s.trimAscii.toString

/-- models base/src/formatter/format.rs::parse_number with '.' decimal and ',' group separators:
    `some (bits, isScientific)` -/
def parseNumber (s : String) : Option (UInt64 × Bool) :=
  let cs := s.toList
  if cs.isEmpty then none else
  let (neg, cs) := match cs with
    | '-' :: t => (true, t)
    | '+' :: t => (false, t)
    | _ => (false, cs)
  match cs with
  | [] => none
  | c0 :: _ =>
    if c0 == ',' then none else
    -- integer part: digits and group separators
    let rec intPart (cs : List Char) (digits : List Char) (groups : List Nat) : List Char × List Nat × List Char :=
      match cs with
      | c :: t =>
        if isDigit c then intPart t (digits ++ [c]) groups
        else if c == ',' then intPart t digits (groups ++ [digits.length])
        else (digits, groups, cs)
      | [] => (digits, groups, [])
    let (ip, groups, r1) := intPart cs [] []
    if groups.any (fun g => (ip.length - g) % 3 != 0) then none else
    let (hasDot, fp, r2) := match r1 with
      | '.' :: t => (true, t.takeWhile isDigit, t.dropWhile isDigit)
      | _ => (false, [], r1)
    let _ := hasDot
    -- exponent: needs at least one more character after e/E
    let (sci, expTxt, r3) : Bool × Option (Bool × List Char) × List Char := match r2 with
      | c :: x :: t =>
        if c == 'e' || c == 'E' then
          if x == '-' then (true, some (true, t.takeWhile isDigit), t.dropWhile isDigit)
          else if x == '+' then (true, some (false, t.takeWhile isDigit), t.dropWhile isDigit)
          else if isDigit x then (true, some (false, x :: t.takeWhile isDigit), t.dropWhile isDigit)
          else (true, none, r2)
        else (false, none, r2)
      | _ => (false, none, r2)
    if !r3.isEmpty then none else
    -- `chars.parse::<f64>()`
    if ip.isEmpty && fp.isEmpty then none else
    match expTxt with
    | some (_, []) => none
    | some (eneg, ed) =>
      let ev : Int := if ed.length > 7 then 100000 else (digitsVal ed : Int)
      let e := if eneg then -ev else ev
      some (ofDecimal neg (digitsVal (ip ++ fp)) (clampExp (e - (fp.length : Int))), sci)
    | none => some (ofDecimal neg (digitsVal (ip ++ fp)) (-(fp.length : Int)), sci)

def fneg (b : UInt64) : UInt64 := b ^^^ signBit

def stripSuffix? (s suf : String) : Option String :=
  if s.endsWith suf then some (String.ofList (s.toList.take (s.length - suf.length))) else none
def stripPrefix? (s pre : String) : Option String :=
  if s.startsWith pre then some (String.ofList (s.toList.drop pre.length)) else none

/-- models base/src/formatter/format.rs::parse_formatted_number for locale `en` (currencies $ and €),
    WITHOUT the date branch (inputs with two '/', '-' or '.' separators are outside this model) -/
def parseFormatted (original : String) : Option UInt64 :=
  let value := trimAscii original
  match stripSuffix? value "%" with
  | some p =>
    (parseNumber (trimAscii p)).map fun (b, _) => fbits (ofBits b / 100.0)
  | none =>
    let cur (c : String) : Option (Option UInt64) :=
      match stripPrefix? value ("-" ++ c) with
      | some p => some ((parseNumber (trimAscii p)).map fun (b, sci) => if sci then b else fneg b)
      | none =>
        match stripPrefix? value c with
        | some p => some ((parseNumber (trimAscii p)).map (·.1))
        | none =>
          match stripSuffix? value c with
          | some p => some ((parseNumber (trimAscii p)).map (·.1))
          | none => none
    match cur "$" with
    | some r => r
    | none =>
      match cur "€" with
      | some r => r
      | none => (parseNumber value).map (·.1)

/-- models base/src/cast.rs::cast_number -/
def castNumber (s : String) : Option UInt64 :=
  match rustParse (trimAscii s) with
  | some b => some b
  | none => parseFormatted s

def eps : Float := ofBits 0x3CB0000000000000   -- f64::EPSILON = 2^-52

def fmin (a b : Float) : Float := if a.isNaN then b else if b.isNaN then a else if a < b then a else b
def fmax (a b : Float) : Float := if a.isNaN then b else if b.isNaN then a else if a > b then a else b

def round15 (x : Float) : Float := ofBits (roundSig (fbits x) 15)

/-- models mathematical.rs::fn_round -/
def fround (x d : Float) : Float :=
  let value := round15 x
  let nd := if d > 0.0 then d.floor else d.ceil
  let scale := Float.pow 10.0 nd
  (value * scale).round / scale

/-- the PINNED functions/util.rs::compare_values on two numbers (extra absolute epsilon; finding F06b) -/
def fcmp (a b : Float) : Ordering :=
  let v1 := round15 a
  let v2 := round15 b
  if (v2 - v1).abs < eps then .eq else if v1 < v2 then .lt else .gt

/-- models functions/util.rs::compare_values on two numbers (repaired code = the reference rule):
    15 significant digits, then exact -/
def fcmpRef (a b : Float) : Ordering :=
  let v1 := round15 a
  let v2 := round15 b
  if v1 == v2 then .eq else if v1 < v2 then .lt else .gt

def floatOps : Core.NumOps Float where
  zero := 0.0
  one := 1.0
  add := (· + ·)
  sub := (· - ·)
  mul := (· * ·)
  div := (· / ·)
  pow := Float.pow
  neg := fun x => -x
  div100 := fun x => x / 100.0
  abs := Float.abs
  round := fround
  isZero := fun x => x == 0.0
  cmp := fcmpRef
  min := fmin
  max := fmax
  finite := Float.isFinite
  ofNat := fun n => n.toFloat
  ofText := fun s => (castNumber s).map ofBits
  ofTextElem := fun s => (rustParse s).map ofBits
  toText := fun x => display (fbits x)

def hex16 (b : UInt64) : String :=
  let rec go (n : Nat) (k : Nat) (acc : List Char) : List Char :=
    match k with
    | 0 => acc
    | k + 1 =>
      let d := n % 16
      go (n / 16) k ((if d < 10 then Char.ofNat (48 + d) else Char.ofNat (87 + d)) :: acc)
  String.ofList (go b.toNat 16 [])

def parseHex64 (s : String) : Option UInt64 :=
  s.toList.foldl (fun acc c =>
    match acc with
    | none => none
    | some v =>
      let d : Option Nat :=
        if '0' ≤ c && c ≤ '9' then some (c.toNat - 48)
        else if 'a' ≤ c && c ≤ 'f' then some (c.toNat - 87)
        else if 'A' ≤ c && c ≤ 'F' then some (c.toNat - 55)
        else none
      d.map fun d => v * 16 + d) (some 0) |>.map UInt64.ofNat

end Driver.Num
