import Driver.Proto
import IronCalc.Text.Names
open IronCalc.Names IronCalc.Generated.Names
namespace Driver

private def bytesOfHex (h : String) : Option (List Nat) :=
  (hexDecodeBytes h).map fun b => b.toList.map (·.toNat)

private def hexOfBytes (l : List Nat) : String :=
  hexEncodeBytes (ByteArray.mk (l.map UInt8.ofNat).toArray)

private def cpsOfHex (h : String) : Option (List Nat) :=
  (hexDecode h).map fun s => s.toList.map Char.toNat

private def hexOfCps (l : List Nat) : String :=
  hexEncode (String.ofList (l.map Char.ofNat))

private def showOpt : Option Nat → String
  | some i => toString i
  | none => "none"

/-- model side of the `c23` requests (see harness/src/suites/c23.rs) -/
def c23 (args : List String) : String :=
  match args with
  | ["fn", l, i] =>
    match l.toNat?, i.toNat? with
    | some L, some i =>
      if L < nLanguages ∧ i < (names L).length then
        let raw := bytesOf (nameOf L i)
        s!"{hexOfBytes raw} {hexOfBytes (upperAscii raw)} {showOpt (lookupKey L raw)} {callKind L raw 0} {callKind L raw 1}"
      else "none"
    | _, _ => "bad-op"
  | ["xlsx", i] =>
    match i.toNat? with
    | some i =>
      if i < xlsxNames.length then
        let raw := bytesOf (xlsxOf i)
        s!"{hexOfBytes raw} {callKind enIdx raw 0} {callKind enIdx raw 1}"
      else "none"
    | none => "bad-op"
  | ["key", l, k] =>
    match l.toNat?, bytesOfHex k with
    | some L, some key => showOpt (lookupKey L key)
    | _, _ => "bad-op"
  | ["keyu", l, _, u] =>
    match l.toNat?, bytesOfHex u with
    | some L, some up => showOpt (lookupU L (codeOf up))
    | _, _ => "bad-op"
  | ["call", l, n, k] =>
    match l.toNat?, n.toNat?, bytesOfHex k with
    | some L, some nargs, some key => toString (callKind L key nargs)
    | _, _, _ => "bad-op"
  | ["err", l, e] =>
    match l.toNat?, e.toNat? with
    | some L, some e =>
      if L < nLanguages ∧ e < nErrors then
        let s := errName L e
        let lx := match lexError L s with
          | some (x, n) => s!"{x}:{n}"
          | none => "none:1"
        s!"{hexOfCps s} {showOpt (errorOfName L s)} {lx}"
      else "none"
    | _, _ => "bad-op"
  | ["disp", e] =>
    match e.toNat? with
    | some e =>
      if e < nErrors then s!"{hexOfCps (display e)} {showOpt (errorOfEnglish (display e))}" else "none"
    | none => "bad-op"
  | ["byname", l, h] =>
    match l.toNat?, cpsOfHex h with
    | some L, some s => showOpt (errorOfName L s)
    | _, _ => "bad-op"
  | ["english", h] =>
    match cpsOfHex h with
    | some s => showOpt (errorOfEnglish s)
    | none => "bad-op"
  | ["lex", l, h] =>
    match l.toNat?, cpsOfHex h with
    | some L, some s =>
      match lexError L s with
      | some (x, n) => s!"{x}:{n}"
      | none => "none"
    | _, _ => "bad-op"
  | _ => "bad-op"

end Driver
