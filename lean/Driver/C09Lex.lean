import Driver.Proto
import Driver.Num
import IronCalc.Formula.LexCfgs
/-
  Driver side of the `c09-lex` suite: `c09lex lex|pr <a1|rc> <locale> <decimal hex> <lang> <text hex>`
  → the model's token list on the text (`pr`: also whether `render` of the tokens is the text).
-/
open IronCalc.Formula IronCalc.Codec
namespace Driver

private def bb (x : Bool) : String := if x then "1" else "0"
private def hx (s : List Char) : String := hexEncode (String.ofList s)
private def shStr : Option (List Char) → String
  | none => "~"
  | some n => hx n

private def hex16 (n : Nat) : String :=
  String.ofList ((List.range 16).reverse.map fun i => hexDigit ((n / 16 ^ i) % 16))

private def cmpIdx : OpCmp → Nat
  | .lt => 0 | .gt => 1 | .eq => 2 | .le => 3 | .ge => 4 | .ne => 5

private def specStr : Option TableSpec → String
  | none => "~" | some .all => "all" | some .data => "data" | some .headers => "headers"
  | some .thisRow => "thisrow" | some .totals => "totals"

private def trStr : Option TableRef → String
  | none => "~"
  | some (.col c) => s!"c.{hx c}"
  | some (.range a b) => s!"r.{hx a}.{hx b}"

def showCTok : CTok → String
  | .illegal => "ill"
  | .ident s => s!"id:{hx s}"
  | .str s => s!"s:{hx s}"
  | .num d =>
    match Driver.Num.rustParse (String.ofList d) with
    | some b => s!"n:{hex16 b.toNat}"
    | none => s!"n:unparsed:{hx d}"
  | .bool b => s!"b:{bb b}"
  | .err e => s!"e:{e}"
  | .cmp k => s!"cmp:{cmpIdx k}"
  | .add => "add" | .sub => "sub" | .mul => "mul" | .div => "div" | .pow => "pow"
  | .lp => "lp" | .rp => "rp" | .colon => "colon" | .semi => "semi" | .lbk => "lbk" | .rbk => "rbk"
  | .lbrace => "lbrace" | .rbrace => "rbrace" | .comma => "comma" | .bang => "bang" | .pct => "pct"
  | .amp => "amp" | .at => "at" | .spill => "spill" | .backslash => "bslash"
  | .ref sh r => s!"ref:{shStr sh}:{r.column}:{r.row}:{bb r.absCol}:{bb r.absRow}"
  | .range sh l r =>
    s!"rng:{shStr sh}:{l.column}:{l.row}:{bb l.absCol}:{bb l.absRow}:{r.column}:{r.row}:{bb r.absCol}:{bb r.absRow}"
  | .sref t sp tr => s!"sref:{hx t}:{specStr sp}:{trStr tr}"

def c09lex (args : List String) : String :=
  match args with
  | [op, mode, _locale, dec, lang, text] =>
    match hexDecode dec, langIndex lang, hexDecode text with
    | some d, some L, some t =>
      match d.toList with
      | [dc] =>
        let cfg := cfgOf (mode == "a1") dc L
        let cs := t.toList
        let ts := lex cfg cs
        let toks := ",".intercalate (ts.map showCTok)
        if op == "pr" then toks ++ "|" ++ (if render cfg ts == cs then "canon" else "differs")
        else toks
      | _ => "bad-op"
    | _, _, _ => "bad-op"
  | _ => "bad-op"

end Driver
