import Driver.Proto
import IronCalc.User.Selection
open IronCalc.Selection
namespace Driver

private def intsOf (s : String) : List Int :=
  (s.splitOn ",").filter (· ≠ "") |>.map fun x => (x.toInt?).getD 0

private def nth (l : List Int) (i : Nat) : Int := l.getD i 0

/-- decode one command of harness/src/suites/c28.rs (only the modelled ones) -/
def c28Cmd (c : String) : Option Cmd :=
  let op := (c.take 2).toString
  let a := intsOf (c.drop 2).toString
  match op with
  | "ss" => some (.selSheet (nth a 0).toNat)
  | "sc" => some (.selCell (nth a 0) (nth a 1))
  | "sr" => some (.selRange (nth a 0) (nth a 1) (nth a 2) (nth a 3))
  | "aR" => some (.arrow .right)
  | "aL" => some (.arrow .left)
  | "aU" => some (.arrow .up)
  | "aD" => some (.arrow .down)
  | "ar" => some (.area (nth a 0) (nth a 1))
  | "ns" => some .newSheet
  | "du" => some (.dupSheet (nth a 0).toNat)
  | "de" => some (.delSheet (nth a 0).toNat)
  | "hi" => some (.hideSheet (nth a 0).toNat)
  | "uh" => some (.unhideSheet (nth a 0).toNat)
  | "mv" => some (.moveSheet (nth a 0).toNat (nth a 1).toNat)
  | "un" => some .undo
  | "re" => some .redo
  | _ => none

private def summary (s : State) : String :=
  let vis := String.ofList (s.sheets.map fun sh => if sh.visible then '1' else '0')
  let view := match s.sheets[s.selected]? with
    | some sh =>
      let v := sh.view
      s!"{v.row},{v.col},{v.r1},{v.c1},{v.r2},{v.c2}"
    | none => "-"
  s!"{s.selected}/{s.sheets.length}/{vis}/{view}"

/-- `c28 hist <cmd>;<cmd>;…` → the state summary after every step, joined by `|` -/
def c28 (args : List String) : String :=
  match args with
  | ["hist", h] =>
    let cmds := (h.splitOn ";").filter (· ≠ "")
    let rec go (s : State) (cs : List String) (acc : List String) : String :=
      match cs with
      | [] => "|".intercalate acc.reverse
      | c :: rest =>
        match c28Cmd c with
        | some cmd => let s' := step s cmd; go s' rest (summary s' :: acc)
        | none => "bad-op"
    go State.init cmds []
  | ["hist"] => ""
  | _ => "bad-op"

end Driver
