import Driver.Proto
import IronCalc.User.Selection
open IronCalc.Selection
namespace Driver

private def intsOf (s : String) : List Int :=
  (s.splitOn ",").filter (· ≠ "") |>.map fun x => (x.toInt?).getD 0

private def nth (l : List Int) (i : Nat) : Int := l.getD i 0

/-- decode one command of harness/src/suites/c28.rs (only the modelled ones) -/
def c28Cmd (st : State) (c : String) : Option Cmd :=
  let op := (c.take 2).toString
  -- a leading `S` stands for the index of the currently selected sheet
  let rest := (c.drop 2).toString
  let rest := if rest.startsWith "S" then toString st.selected ++ (rest.drop 1).toString else rest
  let a := intsOf rest
  match op with
  | "ss" => some (.selSheet (nth a 0).toNat)
  | "sc" => some (.selCell (nth a 0) (nth a 1))
  | "sr" => some (.selRange (nth a 0) (nth a 1) (nth a 2) (nth a 3))
  | "aR" => some (.arrow .right)
  | "aL" => some (.arrow .left)
  | "aU" => some (.arrow .up)
  | "aD" => some (.arrow .down)
  | "ar" => some (.area (nth a 0) (nth a 1))
  | "ns" => some .newSheet
  | "du" => some (.dupSheet (nth a 0).toNat)
  | "de" => some (.delSheet (nth a 0).toNat)
  | "hi" => some (.hideSheet (nth a 0).toNat)
  | "uh" => some (.unhideSheet (nth a 0).toNat)
  | "mv" => some (.moveSheet (nth a 0).toNat (nth a 1).toNat)
  | "un" => some .undo
  | "re" => some .redo
  | "tl" => some (.setTopLeft (nth a 0) (nth a 1))
  | "ww" => some (.setWinW (nth a 0))
  | "wh" => some (.setWinH (nth a 0))
  | "pd" => some .pageDown
  | "pu" => some .pageUp
  | "eL" => some (.edge .left)
  | "eR" => some (.edge .right)
  | "eU" => some (.edge .up)
  | "eD" => some (.edge .down)
  | "xL" => some (.expand .left)
  | "xR" => some (.expand .right)
  | "xU" => some (.expand .up)
  | "xD" => some (.expand .down)
  | "hr" => some (.hideRows (nth a 0).toNat (nth a 1) (nth a 2) (nth a 3 != 0))
  | "hc" => some (.hideCols (nth a 0).toNat (nth a 1) (nth a 2) (nth a 3 != 0))
  | "in" => some (.input (nth a 0).toNat (nth a 1) (nth a 2))
  | _ => none

private def summary (s : State) : String :=
  let vis := String.ofList (s.sheets.map fun sh => if sh.visible then '1' else '0')
  let view := match s.sheets[s.selected]? with
    | some sh =>
      let v := sh.view
      s!"{v.row},{v.col},{v.r1},{v.c1},{v.r2},{v.c2}@{v.top},{v.left}"
    | none => "-"
  s!"{s.selected}/{s.sheets.length}/{vis}/{view}"

/-- `c28 hist <cmd>;<cmd>;…` → the state summary after every step, joined by `|` -/
def c28 (args : List String) : String :=
  match args with
  | [_, h] =>
    let cmds := (h.splitOn ";").filter (· ≠ "")
    let rec go (s : State) (cs : List String) (acc : List String) : String :=
      match cs with
      | [] => "|".intercalate acc.reverse
      | c :: rest =>
        match c28Cmd s c with
        | some cmd => let s' := step s cmd; go s' rest (summary s' :: acc)
        | none => "bad-op"
    go State.init cmds []
  | [_] => ""
  | _ => "bad-op"

end Driver
