import IronCalc.Eval.Core
import Driver.Proto
import Driver.Num
import Driver.C08
/-
  Model side of the C06 line protocol: the reference evaluator (Eval/Core.lean) over hardware
  doubles, on the cell pool and the program carried by the request line.
-/
namespace Driver
open IronCalc.Core
open IronCalc.Store (Err)
open Driver.Num

def parseErr : String → Err
  | "DIV" => .div | "NA" => .na | "VALUE" => .value | "REF" => .ref | "NAME" => .name | "NUM" => .num
  | "NULL" => .null | "NIMPL" => .nimpl | "SPILL" => .spill | "CALC" => .calc | "CIRC" => .circ | _ => .error

def parseOp : String → Option BinOp
  | "add" => some .add | "sub" => some .sub | "mul" => some .mul | "div" => some .div | "pow" => some .pow
  | "cat" => some .concat | "eq" => some .eq | "ne" => some .ne | "lt" => some .lt | "le" => some .le
  | "gt" => some .gt | "ge" => some .ge | _ => none

def parseFn : String → Option Fn
  | "IF" => some .IF | "AND" => some .AND | "OR" => some .OR | "NOT" => some .NOT | "SUM" => some .SUM
  | "MIN" => some .MIN | "MAX" => some .MAX | "COUNT" => some .COUNT | "COUNTA" => some .COUNTA
  | "AVERAGE" => some .AVERAGE | "ABS" => some .ABS | "ROUND" => some .ROUND | "LEN" => some .LEN
  | "CONCAT" => some .CONCAT | "ISNUMBER" => some .ISNUMBER | "ISTEXT" => some .ISTEXT
  | "ISBLANK" => some .ISBLANK | "IFERROR" => some .IFERROR | _ => none

def natList (s : String) : List Nat := (s.splitOn ",").filterMap String.toNat?

mutual
  partial def parseExpr (toks : List String) : Option (Expr Float × List String) :=
    match toks with
    | [] => none
    | t :: rest =>
      let k := t.take 1 |>.toString
      let body := t.drop 1 |>.toString
      match k with
      | "N" => (parseHex64 body).map fun b => (.num (ofBits b), rest)
      | "S" => (hexDecode body).map fun s => (.str s, rest)
      | "B" => some (.bool (body == "1"), rest)
      | "E" => some (.err (parseErr body), rest)
      | "R" => match natList body with
        | [r, c] => some (.ref r c, rest)
        | _ => none
      | "G" => match natList body with
        | [r1, c1, r2, c2] => some (.range r1 c1 r2 c2, rest)
        | _ => none
      | "O" => do
        let op ← parseOp body
        let (l, r1) ← parseExpr rest
        let (r, r2) ← parseExpr r1
        pure (.bin op l r, r2)
      | "M" => do
        let (x, r1) ← parseExpr rest
        pure (.neg x, r1)
      | "P" => do
        let (x, r1) ← parseExpr rest
        pure (.pct x, r1)
      | "F" =>
        match body.splitOn ":" with
        | [name, n] => do
          let f ← parseFn name
          let n ← n.toNat?
          let (args, r1) ← parseArgs n rest
          pure (.call f args, r1)
        | _ => none
      | _ => none
  partial def parseArgs (n : Nat) (toks : List String) : Option (Args Float × List String) :=
    match n with
    | 0 => some (.nil, toks)
    | n + 1 => do
      let (a, r1) ← parseExpr toks
      let (rest, r2) ← parseArgs n r1
      pure (.cons a rest, r2)
end

def parseVal (t : String) : Option (Val Float) :=
  let k := t.take 1 |>.toString
  let body := t.drop 1 |>.toString
  match k with
  | "n" => (parseHex64 body).map fun b => .num (ofBits b)
  | "s" => (hexDecode body).map .str
  | "b" => some (.bool (body == "1"))
  | "e" => some (.err (parseErr body))
  | _ => none

def parseCell (t : String) : Option ((Nat × Nat) × Val Float) :=
  match t.splitOn "=" with
  | [k, v] =>
    match natList k, parseVal v with
    | [r, c], some v => some ((r, c), v)
    | _, _ => none
  | _ => none

def envOf (cells : List ((Nat × Nat) × Val Float)) : Env Float := fun r c =>
  match cells.find? (fun p => p.1 == (r, c)) with
  | some p => p.2
  | none => .empty

def encVal : Val Float → String
  | .num n => "n" ++ hex16 (fbits (if n == 0.0 then 0.0 else n))   -- the sign of a zero result is not compared
  | .str s => "s" ++ hexEncode s
  | .bool b => if b then "b1" else "b0"
  | .err e => "e" ++ errCode e
  | .empty => "z"

def encRes : Res Float → String
  | .val v => "V " ++ encVal v
  | .arr a =>
    match a with
    | [[v]] => "V " ++ encVal v      -- a 1×1 array is shown as the single value (r = (1,1))
    | _ =>
      let h := a.length
      let w := (a.headD []).length
      s!"A {h} {w} " ++ " ".intercalate (a.flatten.map encVal)
  | .rng _ => "range"

def c06Ev (cfg : Cfg) (f : List String) : String :=
  match f with
  | n :: rest =>
    match n.toNat? with
    | none => "bad-op"
    | some n =>
      let cells := (rest.take n).filterMap parseCell
      match parseExpr (rest.drop n) with
      | some (e, []) => encRes (run floatOps cfg (envOf cells) e)
      | _ => "bad-op"
  | _ => "bad-op"

def encBool (b : Bool) : String := if b then "V b1" else "V b0"

def c06NumEq (a b c : String) : String :=
  match parseHex64 a, parseHex64 b, parseHex64 c with
  | some a, some b, some c =>
    let (a, b, c) := (ofBits a, ofBits b, ofBits c)
    s!"{encBool (fcmpRef a b == .eq)} {encBool (fcmpRef b c == .eq)} {encBool (fcmpRef a c == .eq)} {encBool (fcmpRef a c == .lt)}"
  | _, _, _ => "bad-op"

def c06 (args : List String) : String :=
  match args with
  | "ev" :: rest => c06Ev Cfg.reference rest
  | "pinned" :: rest => c06Ev Cfg.engine rest
  | ["numeq", a, b, c] => c06NumEq a b c
  | _ => "bad-op"

end Driver
