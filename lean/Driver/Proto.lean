/-
  Line protocol helpers for the model driver: one request per line, fields separated by a
  single space, strings hex-encoded (UTF-8 bytes, lower-case hex; the empty string is `-`).
-/
namespace Driver

def hexDigit (n : Nat) : Char :=
  if n < 10 then Char.ofNat (48 + n) else Char.ofNat (87 + n)

def hexVal (c : Char) : Option Nat :=
  if '0' ≤ c ∧ c ≤ '9' then some (c.toNat - 48)
  else if 'a' ≤ c ∧ c ≤ 'f' then some (c.toNat - 87)
  else if 'A' ≤ c ∧ c ≤ 'F' then some (c.toNat - 55)
  else none

def hexEncodeBytes (b : ByteArray) : String :=
  if b.size == 0 then "-" else
  String.ofList (b.toList.flatMap fun x => [hexDigit (x.toNat / 16), hexDigit (x.toNat % 16)])

def hexEncode (s : String) : String := hexEncodeBytes s.toUTF8

partial def hexDecodeBytes (s : String) : Option ByteArray :=
  if s == "-" then some ByteArray.empty else
  let rec go (cs : List Char) (acc : ByteArray) : Option ByteArray :=
    match cs with
    | [] => some acc
    | a :: b :: rest =>
      match hexVal a, hexVal b with
      | some x, some y => go rest (acc.push (UInt8.ofNat (x * 16 + y)))
      | _, _ => none
    | _ => none
  go s.toList ByteArray.empty

def hexDecode (s : String) : Option String := do
  let b ← hexDecodeBytes s
  String.fromUTF8? b

def fields (line : String) : List String :=
  (line.trimAscii.toString.splitOn " ").filter (· ≠ "")

end Driver
