import IronCalc.Io.XlsxEscape
import Driver.Proto
import Driver.C24Cell
open IronCalc.XlsxEscape
namespace Driver

def cps (s : String) : List Nat := s.toList.map Char.toNat
def ofCps (l : List Nat) : String := String.ofList (l.map Char.ofNat)

/-- `c24 esc|dec|xmltext|rt <hex>` — the model side of the codec suite -/
def c24 (args : List String) : String :=
  match args with
  | "cell" :: rest => Driver.Cell.cell rest
  | [op, h] =>
    match hexDecode h with
    | none => "bad-request"
    | some s =>
      let l := cps s
      match op with
      | "esc" => hexEncode (ofCps (escape l))
      | "dec" => hexEncode (ofCps (decode l))
      | "xmltext" =>
        match xmlText l with
        | some t => "ok " ++ hexEncode (ofCps t)
        | none => "err"
      | "rt" =>
        match importText (escape l) with
        | some t => if t == l then "ok" else "lost " ++ hexEncode (ofCps t)
        | none => "err"
      | _ => "bad-op"
  | _ => "bad-op"

end Driver
