import Driver.C05
import IronCalc.Eval.Phase1
/-
  Model side of `c07`: `c07 build <k> <cells>` — the values of the formula cells of the cell-input
  set `<cells>` (encoding of lean/Driver/C05.lean).  By `build_perm_invariant` the decoded content
  does not depend on the order of entry and by `evaluate_old_irrelevant` the values do not depend
  on earlier evaluations, so the model's answer is the evaluation of the set itself.
-/
namespace Driver.C07
open IronCalc.Phase1

/-- one pass of the recorded oracle: `-` (no conflict) or `<w>:<r1>.<r2>…` — the anchors `r1 …`
    read what anchor `w` writes (anchors are numbered by their position in the natural order) -/
def parsePass (s : String) : Option (Nat × List Nat) :=
  match s.splitOn ":" with
  | [w, rs] => do
    let w ← w.toNat?
    let rs ← (rs.splitOn ".").mapM fun (x : String) => x.toNat?
    pure (w, rs)
  | _ => none

/-- `c07 sched <cells> <n> <oracle> …`: the Lean scheduler on the recorded oracle, from the natural
    order; answer `<final order> <restarts> <bound reached>` -/
def sched (n : String) (oracle : String) : String :=
  match n.toNat? with
  | none => "bad-n"
  | some n =>
    let passes := ((oracle.splitOn "/").map parsePass).toArray
    let dep : Nat → Nat → Nat → Bool := fun p a b =>
      match passes.getD p none with
      | some (w, rs) => b == w && rs.contains a
      | none => false
    let (order, restarts, gaveUp) := phase1 dep (List.range n)
    s!"{".".intercalate (order.map toString)} {restarts} {if gaveUp then 1 else 0}"

end Driver.C07

namespace Driver
def c07 (args : List String) : String :=
  match args with
  | "sched" :: _ :: n :: oracle :: _ => Driver.C07.sched n oracle
  | ["build", _, cells] => Driver.C05.run cells
  | _ => "bad-op"
end Driver
