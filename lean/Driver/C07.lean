import Driver.C05
/-
  Model side of `c07`: `c07 build <k> <cells>` — the values of the formula cells of the cell-input
  set `<cells>` (encoding of lean/Driver/C05.lean).  By `build_perm_invariant` the decoded content
  does not depend on the order of entry and by `evaluate_old_irrelevant` the values do not depend
  on earlier evaluations, so the model's answer is the evaluation of the set itself.
-/
namespace Driver
def c07 (args : List String) : String :=
  match args with
  | ["build", _, cells] => Driver.C05.run cells
  | _ => "bad-op"
end Driver
