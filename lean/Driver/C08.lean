import IronCalc.Eval.Store
import Driver.Proto
import Driver.Num
/-
  Model side of the C08 line protocol (suites c08-store, c08-typed).
-/
namespace Driver
open IronCalc.Store Driver.Num

/-- numbers are carried as bit patterns, so that `zero_finite` is a kernel fact (no `Float` in proofs) -/
def bitsSpec : NumSpec UInt64 := ⟨IronCalc.F64.isFiniteBits, 0, by decide⟩

def storeLits : Array String := #["1E+308", "1", "0", "2.5", "3", "1E+300", "8E+307", "0.5"]

def litValue (i : Nat) : Float :=
  match rustParse (storeLits[i % storeLits.size]!) with
  | some b => ofBits b
  | none => 0.0

def errCode : Err → String
  | .ref => "REF" | .name => "NAME" | .value => "VALUE" | .div => "DIV" | .na => "NA" | .num => "NUM"
  | .error => "ERROR" | .nimpl => "NIMPL" | .spill => "SPILL" | .calc => "CALC" | .circ => "CIRC" | .null => "NULL"

def fvEnc : FormulaValue UInt64 → String
  | .unevaluated => "u"
  | .boolean b => if b then "b1" else "b0"
  | .number n => "n" ++ hex16 n
  | .text s => "t" ++ hexEncode s
  | .error e => "e" ++ errCode e

def svEnc : SpillValue UInt64 → String
  | .boolean b => if b then "b1" else "b0"
  | .number n => "n" ++ hex16 n
  | .text s => "t" ++ hexEncode s
  | .error e => "e" ++ errCode e

def cellEnc : Cell UInt64 → String
  | .empty => "E"
  | .boolean b => if b then "B:1" else "B:0"
  | .number n => "N:" ++ hex16 n
  | .error e => "X:" ++ errCode e
  | .sharedString s => "S:" ++ hexEncode s
  | .cellFormula v => "F:" ++ fvEnc v
  | .arrayFormula w h k v => s!"A:{w}:{h}:{if k == .cse then "c" else "d"}:{fvEnc v}"
  | .spillCell a v => s!"P:{a.1}:{a.2}:{svEnc v}"

def coordLt (a b : Coord) : Bool := a.1 < b.1 || (a.1 == b.1 && a.2 < b.2)

def dumpGrid (g : Grid UInt64) : String :=
  let sorted := g.toArray.qsort (fun a b => coordLt a.1 b.1)
  " ".intercalate (sorted.toList.map fun (k, c) => s!"{k.1},{k.2}={cellEnc c}")

/-- element-wise IEEE result of `{…} op k` as the engine's handle_arithmetic computes it -/
def arithNode (op : String) (x k : Float) : ArrayNode UInt64 :=
  match op with
  | "*" => .number (fbits (x * k))
  | "+" => .number (fbits (x + k))
  | "-" => .number (fbits (x - k))
  | "/" => if k == 0.0 then .error .div else .number (fbits (x / k))
  | _ => .error .value

def c08Store (f : List String) : String :=
  match f with
  | row :: col :: mode :: w :: h :: brow :: bcol :: op :: k :: rows :: cols :: lits =>
    match row.toNat?, col.toNat?, w.toNat?, h.toNat?, brow.toNat?, bcol.toNat?, k.toNat?, rows.toNat?, cols.toNat? with
    | some row, some col, some w, some h, some brow, some bcol, some k, some rows, some cols =>
      let kv := litValue k
      let vals := lits.map fun t => litValue (t.toNat?.getD 0)
      let arr : List (List (ArrayNode UInt64)) :=
        (List.range rows).map fun r => (List.range cols).map fun c =>
          arithNode op ((vals[r * cols + c]?).getD 0.0) kv
      -- the sheet before evaluation: blocker, anchor, CSE placeholders
      let g0 : Grid UInt64 := if brow > 0 then [((brow, bcol), .number (fbits 7.0))] else []
      let cse := mode == "cse"
      let anchor : Cell UInt64 :=
        if cse then .arrayFormula w h .cse .unevaluated else .arrayFormula 1 1 .dynamic .unevaluated
      -- entering a formula first clears what was in the cell (a blocker on the anchor is excluded by the generator)
      let g1 := g0.set (row, col) anchor
      let g2 := if cse then
          (rect row col w h).foldl (fun g p => if p = (row, col) then g else g.set p (.sharedString "")) g1
        else g1
      let out := store bitsSpec true g2 row col anchor (.array arr)
      "1 " ++ dumpGrid out.grid
    | _, _, _, _, _, _, _, _, _ => "bad-op"
  | _ => "bad-op"

/-- models base/src/model.rs::formula_without_prefix: `=x`, and `+x` / `-x` when x is not a number,
    are formulas (they never reach the typed-number branch) -/
def isFormulaInput (text : String) : Bool :=
  if text.startsWith "=" then text.length > 1
  else if text.startsWith "+" || text.startsWith "-" then
    let rest := String.ofList (text.toList.drop 1)
    !(rest.isEmpty || (castNumber rest).isSome)
  else false

/-- `c08 typed <hex>`: the typed-number branch over the exact recogniser of numeric text -/
def c08Typed (h : String) : String :=
  match hexDecode h with
  | none => "bad-op"
  | some text =>
    if text.isEmpty then "other"   -- the cell is cleared (an EmptyCell remains)
    else if isFormulaInput text then "other"
    else
    let lower := text.toLower
    let other : String → Cell UInt64 := fun s =>
      if lower == "true" || lower == "false" then .boolean (lower == "true")
      else if s.startsWith "#" then .error .error
      else .sharedString s
    match typedCell bitsSpec true parseFormatted other text with
    | .number n => "N:" ++ hex16 n
    | .boolean _ => "B"
    | .error _ => "X"
    | _ => "T"

def c08 (args : List String) : String :=
  match args with
  | "store" :: rest => c08Store rest
  | ["typed", h] => c08Typed h
  | _ => "bad-op"

end Driver
