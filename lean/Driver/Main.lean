import Driver.Proto
import Driver.C18
import Driver.C19
import Driver.C21
/-
  Model driver: reads one request per line on stdin (`<suite> <op> <args…>`), answers one
  line per request on stdout.  Imports models only (no Mathlib, no proofs).
-/
open Driver

def dispatch (fs : List String) : String :=
  match fs with
  | "c18" :: rest => Driver.c18 rest
  | "c19" :: rest => Driver.c19 rest
  | "c21" :: rest => Driver.c21 rest
  | _ => "bad-op"

partial def loop (h : IO.FS.Stream) (out : IO.FS.Stream) : IO Unit := do
  let line ← h.getLine
  if line.isEmpty then return ()
  out.putStrLn (dispatch (fields line))
  loop h out

def main : IO Unit := do
  let out ← IO.getStdout
  loop (← IO.getStdin) out
  out.flush
