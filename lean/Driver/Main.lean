import Driver.Proto
import Driver.C09
import Driver.C09Lex
import IronCalc.Generated.ParenMove
import Driver.C18
import Driver.C19
import Driver.C21
import Driver.C12
import Driver.C33
import Driver.C22
import Driver.C34
import Driver.C27
import Driver.C29
import Driver.C30
import Driver.C05
import Driver.C31
import Driver.C07
import Driver.C17
import Driver.C32
import Driver.C20
import Driver.C11
import Driver.Um
import Driver.C23
import Driver.C28
import Driver.C24
import Driver.C25
import Driver.C06
import Driver.C08
/-
  Model driver: reads one request per line on stdin (`<suite> <op> <args…>`), answers one
  line per request on stdout.  Imports models only (no Mathlib, no proofs).
-/
open Driver

def dispatch (fs : List String) : String :=
  match fs with
  | "c09lex" :: rest => Driver.c09lex rest
  | "c09" :: rest => Driver.c09 IronCalc.Generated.parenStringify rest
  | "c16" :: rest => Driver.c16 IronCalc.Generated.parenStringify IronCalc.Generated.parenMove rest
  | "c18" :: rest => Driver.c18 rest
  | "c19" :: rest => Driver.c19 rest
  | "c21" :: rest => Driver.c21 rest
  | "c12" :: rest => Driver.c12 rest
  | "c33" :: rest => Driver.c33 rest
  | "c22" :: rest => Driver.c22 rest
  | "c34" :: rest => Driver.c34 rest
  | "c27d" :: rest => Driver.c27d rest
  | "c29" :: rest => Driver.c29 rest
  | "c30" :: rest => Driver.c30 rest
  | "c05" :: rest => Driver.c05 rest
  | "c31" :: rest => Driver.c31 rest
  | "c07" :: rest => Driver.c07 rest
  | "c17" :: rest => Driver.c17 rest
  | "c32" :: rest => Driver.c32 rest
  | "c20" :: rest => Driver.c20 rest
  | "c11" :: rest => Driver.c11 rest
  | "c01" :: rest | "c02" :: rest | "c03" :: rest | "c04" :: rest | "c27" :: rest => Driver.um rest
  | "c23" :: rest => Driver.c23 rest
  | "c28" :: rest => Driver.c28 rest
  | "c24" :: rest => Driver.c24 rest
  | "c25" :: rest => Driver.c25 rest
  | "c06" :: rest => Driver.c06 rest
  | "c08" :: rest => Driver.c08 rest
  | _ => "bad-op"

partial def loop (h : IO.FS.Stream) (out : IO.FS.Stream) : IO Unit := do
  let line ← h.getLine
  if line.isEmpty then return ()
  out.putStrLn (dispatch (fields line))
  loop h out

def main : IO Unit := do
  let out ← IO.getStdout
  loop (← IO.getStdin) out
  out.flush
