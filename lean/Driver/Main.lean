import Driver.Proto
import Driver.C21
import Driver.C06
import Driver.C08
/-
  Model driver: reads one request per line on stdin (`<suite> <op> <args…>`), answers one
  line per request on stdout.  Imports models only (no Mathlib, no proofs).
-/
open Driver

def dispatch (fs : List String) : String :=
  match fs with
  | "c21" :: rest => Driver.c21 rest
  | "c06" :: rest => Driver.c06 rest
  | "c08" :: rest => Driver.c08 rest
  | _ => "bad-op"

partial def loop (h : IO.FS.Stream) (out : IO.FS.Stream) : IO Unit := do
  let line ← h.getLine
  if line.isEmpty then return ()
  out.putStrLn (dispatch (fields line))
  loop h out

def main : IO Unit := do
  let out ← IO.getStdout
  loop (← IO.getStdin) out
  out.flush
