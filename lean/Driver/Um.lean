import Driver.Proto
import IronCalc.User.WF
/-
  Model side of the user-model histories (C01–C04, C27):
    `<cXX> m <cmd> <cmd> …`  →  `<step>,<step>,… | <state> | wf=<0|1>`
  step  = `o|e` (the call returned Ok / Err) `<undo depth>/<redo depth>/<queue length>`
  state = the modelled workbook state in canonical text (see harness/src/suites/um_model.rs),
          followed by `~` and the same text for a replica fed with the flushed batches.
  Command tokens: `U` `R` `F` `name:<hex>` `tz:<hex>` `loc:<hex>` `fr:<s>:<n>` `fc:<s>:<n>`
  `grid:<s>:<0|1>` `color:<s>:<hex>` `hide:<s>` `unhide:<s>` `rename:<s>:<hex>` `newsheet`
  `delsheet:<s>` `cw:<s>:<c1>:<c2>:<w>` `rh:<s>:<r1>:<r2>:<h>` `ch:<s>:<c1>:<c2>:<0|1>`
  `rhid:<s>:<r1>:<r2>:<0|1>` `mr:<s>:<row>:<count>:<delta>` `mc:<s>:<column>:<count>:<delta>` `in:<s>:<row>:<col>:<hex text>` `clr:<s>:<row>:<col>:<w>:<h>`.
-/
open IronCalc.User
namespace Driver

/-- the environment of the differential run: the harness only uses these identifiers -/
def umEnv : Env :=
  { validTz := fun s => ["UTC", "Europe/Berlin", "America/New_York", "Asia/Tokyo"].contains s,
    validLocale := fun s => ["en", "de", "es", "fr"].contains s,
    upper := String.toUpper }

def parseBool (s : String) : Option Bool :=
  if s == "1" then some true else if s == "0" then some false else none

def parseCmd (tok : String) : Option (Cmd Op) :=
  match tok.splitOn ":" with
  | ["U"] => some .undo
  | ["R"] => some .redo
  | ["F"] => some .flush
  | ["name", h] => (hexDecode h).map fun s => .op (.setName s)
  | ["tz", h] => (hexDecode h).map fun s => .op (.setTimezone s)
  | ["loc", h] => (hexDecode h).map fun s => .op (.setLocale s)
  | ["fr", s, n] => do some (.op (.setFrozenRows (← s.toNat?) (← n.toInt?)))
  | ["fc", s, n] => do some (.op (.setFrozenCols (← s.toNat?) (← n.toInt?)))
  | ["grid", s, v] => do some (.op (.setShowGridLines (← s.toNat?) (← parseBool v)))
  | ["color", s, h] => do some (.op (.setSheetColor (← s.toNat?) (← hexDecode h)))
  | ["hide", s] => do some (.op (.hideSheet (← s.toNat?)))
  | ["unhide", s] => do some (.op (.unhideSheet (← s.toNat?)))
  | ["rename", s, h] => do some (.op (.renameSheet (← s.toNat?) (← hexDecode h)))
  | ["newsheet"] => some (.op .newSheet)
  | ["delsheet", s] => do some (.op (.deleteSheet (← s.toNat?)))
  | ["cw", s, a, b, w] =>
    do some (.op (.setColumnsWidth (← s.toNat?) (← a.toInt?) (← b.toInt?) (← w.toInt?)))
  | ["rh", s, a, b, w] =>
    do some (.op (.setRowsHeight (← s.toNat?) (← a.toInt?) (← b.toInt?) (← w.toInt?)))
  | ["ch", s, a, b, v] =>
    do some (.op (.setColumnsHidden (← s.toNat?) (← a.toInt?) (← b.toInt?) (← parseBool v)))
  | ["rhid", s, a, b, v] =>
    do some (.op (.setRowsHidden (← s.toNat?) (← a.toInt?) (← b.toInt?) (← parseBool v)))
  | ["mr", s, r, n, d] =>
    do some (.op (.moveRows (← s.toNat?) (← r.toInt?) (← n.toInt?) (← d.toInt?)))
  | ["in", s, r, c, h] =>
    do some (.op (.setPlainInput (← s.toNat?) (← r.toInt?) (← c.toInt?) (← hexDecode h)))
  | ["clr", s, r, c, w, h] =>
    do some (.op (.rangeClearContents (← s.toNat?) (← r.toInt?) (← c.toInt?) (← w.toInt?) (← h.toInt?)))
  | ["mc", s, r, n, d] =>
    do some (.op (.moveColumns (← s.toNat?) (← r.toInt?) (← n.toInt?) (← d.toInt?)))
  | _ => none

/-- the integers of `a..=b` that lie in `1..=hi`, at most 64 of them -/
def rangeIn (a b hi : Int) : List Int :=
  let lo := max a 1
  let up := min b hi
  if up < lo then [] else (List.range (min ((up - lo + 1).toNat) 64)).map fun (i : Nat) => lo + (i : Int)

/-- columns / rows any command of the history may have touched -/
def touched (cs : List (Cmd Op)) : List Int × List Int :=
  cs.foldl (fun (acc : List Int × List Int) c =>
    match c with
    | .op (.setColumnsWidth _ a b _) => (acc.1 ++ rangeIn a b LAST_COLUMN, acc.2)
    | .op (.setColumnsHidden _ a b _) => (acc.1 ++ rangeIn a b LAST_COLUMN, acc.2)
    | .op (.setRowsHeight _ a b _) => (acc.1, acc.2 ++ rangeIn a b LAST_ROW)
    | .op (.setRowsHidden _ a b _) => (acc.1, acc.2 ++ rangeIn a b LAST_ROW)
    | .op (.setPlainInput _ r c _) => (acc.1 ++ rangeIn c c LAST_COLUMN, acc.2 ++ rangeIn r r LAST_ROW)
    | .op (.moveColumns _ r n d) =>
      (acc.1 ++ rangeIn (r + min d 0 - 12) (r + max n 0 + max d 0 + 12) LAST_COLUMN, acc.2)
    | .op (.moveRows _ r n d) =>
      -- everything a move can touch: the block, the landing zone and a margin for skipped hidden rows
      (acc.1, acc.2 ++ rangeIn (r + min d 0 - 12) (r + max n 0 + max d 0 + 12) LAST_ROW)
    | _ => acc) ([], [])

def sortDedup (l : List Int) : List Int :=
  (l.toArray.qsort (· < ·)).toList.eraseDups

def b01 (b : Bool) : String := if b then "1" else "0"

def umStateStr : SheetState → String
  | .visible => "v"
  | .hidden => "h"
  | .veryHidden => "x"

def sheetStr (cols rows : List Int) (s : Sheet) : String :=
  let cs := cols.filterMap fun c =>
    let v := s.colAt c
    if v == ColView.default then none else some s!"{c}:{v.width}:{b01 v.hidden}"
  let rs := rows.filterMap fun r =>
    let v := s.rowAt r
    if v == RowView.default then none else some s!"{r}:{v.height}:{b01 v.hidden}"
  let xs := rows.flatMap fun r => cols.filterMap fun c =>
    match s.cellAt r c with
    | some t => if t.isEmpty then none else some s!"{r},{c}={hexEncode t}"
    | none => none
  s!"S[{hexEncode s.name},{s.id},{umStateStr s.state},{hexEncode s.color},{s.frozenRows},{s.frozenCols},g{b01 s.grid},C\{{" ".intercalate cs}},R\{{" ".intercalate rs}},X\{{" ".intercalate xs}}]"

def bookStr (cols rows : List Int) (b : Book) : String :=
  s!"n={hexEncode b.name};l={hexEncode b.locale};t={hexEncode b.tz};" ++
    String.join (b.sheets.map (sheetStr cols rows))

def runSteps (cs : List (Cmd Op)) : St Book Diff × List String × Bool :=
  cs.foldl (fun (acc : St Book Diff × List String × Bool) c =>
    let (s, out, wf) := acc
    let r := step (sys umEnv) s c
    let s' := r.1
    (s', out ++ [s!"{if r.2 then "o" else "e"}{s'.undo.length}/{s'.redo.length}/{s'.queue.length}"],
      wf && WFBook umEnv s'.w)) (St.init, [], true)

def um (args : List String) : String :=
  match args with
  | "m" :: toks =>
    match toks.mapM parseCmd with
    | none => "bad-op"
    | some cs =>
      let (s, out, wf) := runSteps cs
      let (cols, rows) := touched cs
      let cols := sortDedup cols
      let rows := sortDedup rows
      let rep := applyBatches (sys umEnv) Book.init (s.sent ++ [s.queue])
      s!"{",".intercalate out} | {bookStr cols rows s.w} ~ {b01 rep.ok}{bookStr cols rows rep.w} | wf={b01 wf}"
  | _ => "bad-op"

end Driver
