import Driver.Proto
import IronCalc.Eval.Spill
/-
  Model side of the `c31` line protocol.

    c31 hist <ops>     ops separated by `;`
       P.<r>.<c>          user types a value into (r,c)
       F.<r>.<c>          user types a scalar formula
       D.<r>.<c>          user types a dynamic-array formula (anchor, not yet evaluated)
       X.<r>.<c>          user clears the cell
       A.<r>.<c>.<w>.<h>  user enters a fixed-range (CSE) array formula over w columns, h rows
       E.<a>_<a>…         evaluate: the dynamic anchors in evaluation order, each `r,c,h,w`
                          (h = 0: the formula produced a scalar)
  Answer: after every `E`, the structure of the sheet — the non-empty cells in (row, column)
  order as `r,c=p|f|a<w>x<h>|s<ar>,<ac>` joined by `_` — the dumps joined by `/`.
  A refused edit (inside a CSE array) leaves the sheet unchanged.
-/
namespace Driver.C31
open IronCalc.Spill

/-- the sheet as an association list over (row, column); values are codes:
    0 = some value, 1 = #SPILL!, 2 = #CALC!, 3 = unevaluated -/
abbrev Sheet := List ((Nat × Nat) × GCell Nat)

def toGrid (s : Sheet) : Grid Nat := fun i j =>
  match s.find? (fun p => p.1 == (i, j)) with
  | some p => p.2
  | none => .empty

def bounds : Bounds := ⟨1048576, 16384⟩
def vals : Vals Nat := ⟨1, 2⟩

/-- the cells that can differ from the sheet after an operation touching the block (r,c,h,w) -/
def keysOf (s : Sheet) (extra : List (Nat × Nat)) : List (Nat × Nat) :=
  (s.map (·.1) ++ extra).eraseDups

def ofGrid (g : Grid Nat) (keys : List (Nat × Nat)) : Sheet :=
  keys.filterMap fun k =>
    match g k.1 k.2 with
    | .empty => none
    | x => some (k, x)

def block (r c h w : Nat) : List (Nat × Nat) :=
  (List.range h).flatMap fun di => (List.range w).map fun dj => (r + di, c + dj)

def showCell : GCell Nat → String
  | .empty => "e"
  | .plain _ => "p"
  | .formula _ => "f"
  | .anchor .dyn w h _ => s!"a{w}x{h}"
  | .anchor .cse w h _ => s!"c{w}x{h}"
  | .spill ar ac _ => s!"s{ar},{ac}"

def lt (a b : Nat × Nat) : Bool := a.1 < b.1 || (a.1 == b.1 && a.2 < b.2)

def dump (s : Sheet) : String :=
  let sorted := (s.toArray.qsort (fun a b => lt a.1 b.1)).toList
  "_".intercalate (sorted.map fun p => s!"{p.1.1},{p.1.2}={showCell p.2}")

def nat3 (parts : List String) : Option (Nat × Nat) :=
  match parts with
  | [r, c] => do pure ((← r.toNat?), (← c.toNat?))
  | _ => none

def userOp (s : Sheet) (r c : Nat) (x : GCell Nat) : Sheet :=
  match userSet 3 (toGrid s) r c x with
  | none => s
  | some g => ofGrid g (keysOf s [(r, c)])

def evalWith (s : Sheet) (r c h w : Nat) : Sheet :=
  let res : Result Nat := if h == 0 then .scalar 0 else .array ⟨h, w, fun _ _ => 0⟩
  let g := evalDyn bounds vals (toGrid s) r c res
  ofGrid g (keysOf s (block r c h w))

/-- `r,c,h,w` (h = 0: scalar) or `r,c,R,r2,c2`: the shape the anchor at (r2,c2) currently has
    (the result of `=X#+1`; a 1×1 or non-anchor `X` gives a scalar) -/
def evalOne (s : Sheet) (spec : String) : Sheet :=
  match spec.splitOn "," with
  | [r, c, "R", r2, c2] =>
    match r.toNat?, c.toNat?, r2.toNat?, c2.toNat? with
    | some r, some c, some r2, some c2 =>
      match toGrid s r2 c2 with
      | .anchor .dyn w h _ => if w == 1 && h == 1 then evalWith s r c 0 0 else evalWith s r c h w
      | _ => evalWith s r c 0 0
    | _, _, _, _ => s
  | [r, c, h, w] =>
    match r.toNat?, c.toNat?, h.toNat?, w.toNat? with
    | some r, some c, some h, some w => evalWith s r c h w
    | _, _, _, _ => s
  | _ => s

/-- phase 2 for fixed-range arrays: every CSE anchor, in natural order, as the sheet is when its
    turn comes (an anchor overwritten by an earlier one is no anchor any more) -/
def evalCseAll (s : Sheet) : Sheet :=
  let keys := ((s.map (·.1)).toArray.qsort lt).toList
  keys.foldl (fun s k =>
    match toGrid s k.1 k.2 with
    | .anchor .cse w h _ => ofGrid (evalCse (toGrid s) k.1 k.2 0) (keysOf s (block k.1 k.2 h w))
    | _ => s) s

def cseOp (s : Sheet) (r c w h : Nat) : Sheet :=
  match userSetCse 3 (toGrid s) r c w h with
  | none => s
  | some g => ofGrid g (keysOf s (block r c h w))

def step (st : Sheet × List String) (op : String) : Sheet × List String :=
  let (s, out) := st
  match op.splitOn "." with
  | "P" :: r :: c :: _ => match nat3 [r, c] with
    | some (r, c) => (userOp s r c (.plain 0), out) | none => st
  | "F" :: r :: c :: _ => match nat3 [r, c] with
    | some (r, c) => (userOp s r c (.formula 3), out) | none => st
  | "D" :: r :: c :: _ => match nat3 [r, c] with
    | some (r, c) => (userOp s r c (.anchor .dyn 1 1 3), out) | none => st
  | "X" :: r :: c :: _ => match nat3 [r, c] with
    | some (r, c) => (userOp s r c .empty, out) | none => st
  | "A" :: r :: c :: w :: h :: _ =>
    match r.toNat?, c.toNat?, w.toNat?, h.toNat? with
    | some r, some c, some w, some h => (cseOp s r c w h, out)
    | _, _, _, _ => st
  | ["E", anchors] =>
    let s1 := if anchors == "-" then s else (anchors.splitOn "_").foldl evalOne s
    let s' := evalCseAll s1
    (s', out ++ [dump s'])
  | _ => st

def run (ops : String) : String :=
  let (_, out) := (ops.splitOn ";").foldl step (([] : Sheet), [])
  "/".intercalate out

end Driver.C31

namespace Driver
def c31 (args : List String) : String :=
  match args with
  | ["hist", ops] => Driver.C31.run ops
  | _ => "bad-op"
end Driver
