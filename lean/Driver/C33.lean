import Driver.Proto
import Driver.C12
import IronCalc.Sheet.Metadata
open IronCalc.Structure
namespace Driver

/-
  Model side of the C33 correspondence (links and conditional formats of sheet 0).

  `c33 run <api m|u> <kind> <ax r|c> <p1> … <p6> <items…>`
     kind = ins (p1 = pos, p2 = n) | del (pos, n) | mov (pos, n, d) | cut / copy (r1 c1 r2 c2 tr tc)
          | clear (r1 c1 r2 c2) | clearundo (r1 c1 r2 c2) | delundo (pos, n: delete then undo)
     items: `L:r,c,id`   `F:<parts>,<formula>[,<formula2>]`
            parts = `r1.c1.r2.c2` (range) or `r.c` (single), joined by `+`
            formula = `<template hex>~<atoms joined by ;  or ->`  (atoms as in `c12 sheet`, `/`-separated fields)
  → `err` | `ok F:<sqref, parts joined by +>,<formula text hex>[,<formula2 hex>] … L:r,c,id …`
-/

def pPart (s : String) : Option CfPart :=
  match (s.splitOn ".").map pInt with
  | [r, c] => some ⟨true, r, c, r, c⟩
  | [r1, c1, r2, c2] => some ⟨false, r1, c1, r2, c2⟩
  | _ => none

def showPart (p : CfPart) : String :=
  if p.single then s!"{colName p.c1}{p.r1}" else s!"{colName p.c1}{p.r1}:{colName p.c2}{p.r2}"

structure Parsed33 where
  links : List LinkE := []
  cfs : List CfE := []
  bad : Bool := false

def pFormula (h : Host) (s : String) : Option (String × List Atom) :=
  match s.splitOn "~" with
  | [tpl, atoms] =>
    let as := (if atoms == "-" then [] else atoms.splitOn ";").map (fun a => pAtom h (a.splitOn "/"))
    if as.any Option.isNone then none else some ((hexDecode tpl).getD "", as.filterMap id)
  | _ => none

def pItem33 (p : Parsed33) (item : String) : Parsed33 :=
  match item.splitOn ":" with
  | [k, body] =>
    let f := body.splitOn ","
    match k, f with
    | "L", [r, c, id] => { p with links := p.links ++ [⟨0, pInt r, pInt c, id⟩] }
    | "F", parts :: fs =>
      let ps := (parts.splitOn "+").map pPart
      if ps.any Option.isNone then { p with bad := true } else
      let ps := ps.filterMap id
      let e0 : CfE := { parts := ps, formulas := [] }
      let h := e0.host 0
      let forms := fs.map (pFormula h)
      if forms.any Option.isNone then { p with bad := true } else
      { p with cfs := p.cfs ++ [{ parts := ps, formulas := forms.filterMap id }] }
    | _, _ => { p with bad := true }
  | _ => { p with bad := true }

def showCf (e : CfE) : String :=
  let h := e.host 0
  let forms := e.formulas.map fun (tpl, atoms) => hexEncode ("=" ++ fillTemplate tpl (atoms.map (printAtom h)))
  "F:" ++ "+".intercalate (e.parts.map showPart) ++ "," ++ ",".intercalate forms

def showState (links : List LinkE) (cfs : List CfE) : String :=
  let ls := (links.map fun l => (([l.row, l.col] : List Int), s!"L:{l.row},{l.col},{l.id}")).mergeSort
    (fun a b => lexLe a.1 b.1)
  " ".intercalate (cfs.map showCf ++ ls.map (·.2))

def c33 (args : List String) : String :=
  match args with
  | "run" :: api :: kind :: ax :: p1 :: p2 :: p3 :: p4 :: p5 :: p6 :: items =>
    let p := items.foldl pItem33 {}
    if p.bad then "bad-op" else
    let axis := pAxis ax
    let (a, b, c, d, e, f) := (pInt p1, pInt p2, pInt p3, pInt p4, pInt p5, pInt p6)
    let book : Book := ⟨[], [], [], p.links⟩
    if kind == "ins" || kind == "del" || kind == "mov" then
      let res :=
        if kind == "ins" then insertAction axis 0 a b book
        else if kind == "del" then deleteAction axis 0 a b book
        else if api == "u" then userMoveAction axis 0 a b c book
        else moveAction axis 0 a b c book
      match res with
      | none => "err"
      | some bk =>
        let ops : List Op :=
          if kind == "ins" then [.insert a b]
          else if kind == "del" then [.delete a b]
          else if b ≤ 0 ∨ c = 0 then [] else blockOps a b.toNat c
        let cfs := p.cfs.filterMap fun e => ops.foldl (fun (e : Option CfE) o => e.bind (cfStep axis 0 o)) (some e)
        "ok " ++ showState bk.links cfs
    else if kind == "cut" || kind == "copy" then
      let src : Rect := ⟨a, b, c - a + 1, d - b + 1⟩
      let isCut := kind == "cut"
      let ls := pasteLinksList src e f isCut (p.links.map fun l => ((l.row, l.col), l.id))
      let links := ls.map fun ((r, c), id) => (⟨0, r, c, id⟩ : LinkE)
      let cfs :=
        if isCut then p.cfs.map (cfCut 0 src e f)
        else p.cfs ++ p.cfs.filterMap (cfCopy 0 a b c d e f)
      "ok " ++ showState links cfs
    else if kind == "clear" then
      let area : Rect := ⟨a, b, c - a + 1, d - b + 1⟩
      "ok " ++ showState (p.links.filter fun l => !(area.has l.row l.col)) p.cfs
    else if kind == "clearundo" || kind == "delundo" then
      "ok " ++ showState p.links p.cfs
    else "bad-op"
  | _ => "bad-op"

end Driver
