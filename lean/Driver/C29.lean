import Driver.Proto
import IronCalc.Sheet.SheetOps
/-
  C29 driver: replays one case (descriptor layout + operation sequence) on the model with
  hardware doubles for widths/heights (bit patterns in the protocol, never decimal text).
    c29 seq <cols> <rows> <ops> <colprobes> <rowprobes>
  Answer: one block per operation `status/getters at target-2..target+2`, then the final
  descriptor lists and the getters at every probe, separated by `|`.
-/
namespace Driver
open IronCalc.Sheet

def f64WidthOps : WidthOps Float :=
  ⟨fun w => w / 9.0, fun w => w * 9.0, 90.0, 0.0, fun w => !(w != 90.0), fun w => w < 0.0⟩

def f64HeightOps : HeightOps Float :=
  ⟨fun h => h / 1.5625, fun h => h * 1.5625, 25.0, 0.0, fun h => h < 0.0⟩

/-- the variant of the column code the check runs against (the tree after the `fix:` commits) -/
def c29Quirks : Quirks := Quirks.fixed

private def bitsOf (s : String) : Option Float := s.toNat?.map fun n => Float.ofBits (UInt64.ofNat n)
private def showF (f : Float) : String := toString f.toBits.toNat
private def boolOf (s : String) : Option Bool := if s == "1" then some true else if s == "0" then some false else none
private def showB (b : Bool) : String := if b then "1" else "0"
private def optIntOf (s : String) : Option (Option Int) := if s == "n" then some none else s.toInt?.map some
private def showOI : Option Int → String
  | none => "n"
  | some k => toString k

private def parseCol (s : String) : Option (Col Float) :=
  match s.splitOn ":" with
  | [mn, mx, w, cw, hid, st] => do
    let mn ← mn.toInt?; let mx ← mx.toInt?; let w ← bitsOf w
    let cw ← boolOf cw; let hid ← boolOf hid; let st ← optIntOf st
    pure ⟨mn, mx, w, cw, hid, st⟩
  | _ => none

private def parseRow (s : String) : Option (Row Float) :=
  match s.splitOn ":" with
  | [r, h, cf, ch, st, hid] => do
    let r ← r.toInt?; let h ← bitsOf h; let cf ← boolOf cf; let ch ← boolOf ch
    let st ← st.toInt?; let hid ← boolOf hid
    pure ⟨r, h, cf, ch, st, hid⟩
  | _ => none

private def parseList {α : Type} (f : String → Option α) (sep : String) (s : String) : Option (List α) :=
  if s == "-" then some [] else (s.splitOn sep).mapM f

private def parseOp (s : String) : Option (Op Float Float) :=
  match s.splitOn ":" with
  | ["W", c, w] => do pure (.setColWidth (← c.toInt?) (← bitsOf w))
  | ["H", c, b] => do pure (.setColHidden (← c.toInt?) (← boolOf b))
  | ["S", c, k] => do pure (.setColStyle (← c.toInt?) (← k.toInt?))
  | ["D", c] => do pure (.delColStyle (← c.toInt?))
  | ["h", r, v] => do pure (.setRowHeight (← r.toInt?) (← bitsOf v))
  | ["x", r, b] => do pure (.setRowHidden (← r.toInt?) (← boolOf b))
  | ["s", r, k] => do pure (.setRowStyle (← r.toInt?) (← k.toInt?))
  | ["d", r] => do pure (.delRowStyle (← r.toInt?))
  | _ => none

private def showCol (d : Col Float) : String :=
  s!"{d.min}:{d.max}:{showF d.width}:{showB d.customWidth}:{showB d.hidden}:{showOI d.style}"

private def showRow (d : Row Float) : String :=
  s!"{d.r}:{showF d.height}:{showB d.customFormat}:{showB d.customHeight}:{d.s}:{showB d.hidden}"

private def showEx {ε : Type} (f : α → String) : Except ε α → String
  | .ok a => f a
  | .error _ => "E"

/-- the four column getters of the public API at one column -/
def colGetters (cols : List (Col Float)) (c : Int) : String :=
  s!"{showEx showF (getColumnWidth f64WidthOps cols c)},{showEx showF (getActualColumnWidth f64WidthOps cols c)}," ++
  s!"{showEx showB (isColumnHidden cols c)},{showOI (modelGetColumnStyle cols c)}"

/-- the row getters of the public API at one row -/
def rowGetters (rows : List (Row Float)) (r : Int) : String :=
  s!"{showEx showF (rowHeight f64HeightOps rows r)},{showEx showB (isRowHidden rows r)},{showOI (getRowStyle rows r)}"

private def isOk {ε α : Type} : Except ε α → Bool
  | .ok _ => true
  | .error _ => false

/-- did the call return `Ok` -/
def opStatus (s : Sheet Float Float) : Op Float Float → Bool
  | .setColWidth c w => isOk (setColumnWidth f64WidthOps c29Quirks s.cols c w)
  | .setColHidden c h => isOk (setColumnHidden f64WidthOps c29Quirks s.cols c h)
  | .setColStyle c k => isOk (setColumnStyle f64WidthOps c29Quirks s.cols c k)
  | .delColStyle c => isOk (deleteColumnStyle c29Quirks s.cols c)
  | .setRowHeight r h => isOk (setRowHeight f64HeightOps s.rows r h)
  | .setRowHidden r b => isOk (setRowHidden f64HeightOps s.rows r b)
  | .setRowStyle _ _ => true
  | .delRowStyle _ => true

private def around (t : Int) : List Int := [t - 2, t - 1, t, t + 1, t + 2]

/-- indices that are not an `i32` cannot be asked of the implementation: printed as `X` -/
private def ifI32 (f : Int → String) (x : Int) : String :=
  if -2147483648 ≤ x ∧ x ≤ 2147483647 then f x else "X"

def opLocal (s : Sheet Float Float) : Op Float Float → String
  | .setColWidth c _ | .setColHidden c _ | .setColStyle c _ | .delColStyle c =>
    ";".intercalate ((around c).map (ifI32 (colGetters s.cols)))
  | .setRowHeight r _ | .setRowHidden r _ | .setRowStyle r _ | .delRowStyle r =>
    ";".intercalate ((around r).map (ifI32 (rowGetters s.rows)))

def c29 (args : List String) : String :=
  match args with
  | ["seq", cols, rows, ops, cps, rps] =>
    match parseList parseCol ";" cols, parseList parseRow ";" rows, parseList parseOp ";" ops,
          parseList String.toInt? "," cps, parseList String.toInt? "," rps with
    | some cols, some rows, some ops, some cps, some rps =>
      let (s, outs) := ops.foldl (fun (acc : Sheet Float Float × List String) op =>
        let (s, outs) := acc
        let st := opStatus s op
        let s' := applyOp f64WidthOps f64HeightOps c29Quirks s op
        (s', s!"{if st then "ok" else "err"}/{opLocal s' op}" :: outs)) (⟨cols, rows⟩, [])
      let finalCols := if s.cols.isEmpty then "-" else ";".intercalate (s.cols.map showCol)
      let finalRows := if s.rows.isEmpty then "-" else ";".intercalate (s.rows.map showRow)
      let cg := ";".intercalate (cps.map (colGetters s.cols))
      let rg := ";".intercalate (rps.map (rowGetters s.rows))
      let cells := ",".intercalate ((rps.take 4).flatMap fun r => (cps.take 6).map fun c => toString (emptyCellStyle s r c))
      let wf := showB (sortedInB 0 lastColumn s.cols)
      "|".intercalate (outs.reverse ++ [finalCols, finalRows, cg, rg, cells, wf])
    | _, _, _, _, _ => "bad-op"
  | _ => "bad-op"

end Driver
