import Driver.Proto
import IronCalc.Text.IndexSafety
open IronCalc.IndexSafety
namespace Driver

/-- `str::parse::<i32>().unwrap_or(0)` on an optional '-' followed by ASCII digits -/
def c11ParseI32 (bs : List UInt8) : Int :=
  let (neg, ds) := match bs with
    | 45 :: rest => (true, rest)
    | l => (false, l)
  if ds.isEmpty then 0 else
  let v : Nat := ds.foldl (fun acc b => acc * 10 + (b.toNat - 48)) 0
  let i : Int := if neg then -(v : Int) else v
  if i < -2147483648 ∨ i > 2147483647 then 0 else i

def c11Bool (b : Bool) : String := if b then "1" else "0"

/-- `c11 r1c1 <hex bytes>` → `some <absRow> <row> <absCol> <col>` | `none` | `panic`
    `c11 str <hex>`        → `string <hex text> <position>` | `illegal <position>` | `panic` -/
def c11 (args : List String) : String :=
  match args with
  | ["r1c1", h] =>
    match hexDecodeBytes h with
    | none => "bad-op"
    | some b =>
      match parseReferenceR1C1 ⟨b.toList⟩ with
      | .panic => "panic"
      | .fuel => "fuel"
      | .ok none => "none"
      | .ok (some r) => s!"some {c11Bool r.absRow} {c11ParseI32 r.row} {c11Bool r.absCol} {c11ParseI32 r.col}"
  | ["str", h] =>
    match hexDecode h with
    | none => "bad-op"
    | some s =>
      let chars : Array Char := ⟨'"' :: s.toList⟩
      match consumeString chars 1 with
      | .panic => "panic"
      | .fuel => "fuel"
      | .ok (t, pos, true) => s!"string {hexEncode (String.ofList t)} {pos}"
      | .ok (_, _, false) => s!"illegal {chars.size}"
  | ["colref", h] =>
    -- the text after `tb[`, lexed as the column of a structured reference
    match hexDecode h with
    | none => "bad-op"
    | some s =>
      match s.toList with
      | [] => "other"
      | c :: _ =>
        if c = '[' || c = '#' || c = ']' then "other" else
        let chars : Array Char := ⟨'t' :: 'b' :: '[' :: s.toList⟩
        match consumeColumnReference chars 2 with
        | .panic => "panic"
        | .fuel => "fuel"
        | .ok none => s!"illegal {chars.size}"
        | .ok (some (raw, pos)) =>
          let name := ((((String.ofList raw).replace "'[" "[").replace "']" "]").replace "'#" "#").replace "'@" "@" |>.replace "''" "'"
          s!"colref {hexEncode name} {pos}"
  | _ => "bad-op"

end Driver
