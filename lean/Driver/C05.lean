import Driver.Proto
import IronCalc.Eval.Memo
/-
  Model side of the `c05` line protocol.

    c05 wb <cells>        → `;`-joined canonical values of the formula cells, in list order
  <cells> = `|`-separated entries, listed in natural (sheet,row,column) order, the index of a
  cell is its position in the list.  Entry: `<sheet>.<row>.<col>:<spec>` (the position is used
  by the harness only) with spec
      Z                      no cell
      P<val>                 plain cell
      F<expr>                formula cell
  val : n<16 hex digits of the f64 bits> | s<hex utf8> | bT | bF | e<name> | z
  (`R<idx>~<f>,` and `S<idx>.…~<f>,` carry `$`-marker flags for the harness; ignored here)
  expr: L<val>, | R<idx>, | B<op><expr><expr> | I<expr><expr><expr> | E<expr><expr> | Q<expr>
        | S<idx>.<idx>…,          (prefix notation; `,` terminates atoms)
  op  : + - * /
-/
namespace Driver.C05
open IronCalc.Memo

def floatOps : NumOps Float :=
  { zero := 0.0, one := 1.0, add := (· + ·), sub := (· - ·), mul := (· * ·), div := (· / ·),
    isZero := fun x => x == 0.0, finite := fun x => x.isFinite }

def errName : Err → String
  | .circ => "circ" | .div => "div" | .value => "value" | .num => "num" | .na => "na"
  | .ref => "ref" | .name => "name" | .error => "error" | .nimpl => "nimpl"
  | .spill => "spill" | .calc => "calc" | .null => "null"

def errOfName : String → Option Err
  | "circ" => some .circ | "div" => some .div | "value" => some .value | "num" => some .num
  | "na" => some .na | "ref" => some .ref | "name" => some .name | "error" => some .error
  | "nimpl" => some .nimpl | "spill" => some .spill | "calc" => some .calc | "null" => some .null
  | _ => none

def hex16 (n : Nat) : String :=
  String.ofList ((List.range 16).reverse.map fun i => hexDigit ((n / 16 ^ i) % 16))

def parseHexNat (cs : List Char) : Option Nat :=
  cs.foldlM (fun acc c => (hexVal c).map (fun v => acc * 16 + v)) 0

def showVal : Val Float → String
  | .num x => "n" ++ hex16 x.toBits.toNat
  | .str s => "s" ++ hexEncode s
  | .bool true => "bT"
  | .bool false => "bF"
  | .err e => "e" ++ errName e
  | .empty => "z"

def parseVal (s : String) : Option (Val Float) :=
  match s.toList with
  | 'n' :: rest => (parseHexNat rest).map fun n => .num (Float.ofBits (UInt64.ofNat n))
  | 's' :: rest => (hexDecode (String.ofList rest)).map .str
  | ['b', 'T'] => some (.bool true)
  | ['b', 'F'] => some (.bool false)
  | 'e' :: rest => (errOfName (String.ofList rest)).map .err
  | ['z'] => some .empty
  | _ => none

/-- split at the first `,` -/
def untilComma (cs : List Char) : List Char × List Char :=
  (cs.takeWhile (· ≠ ','), (cs.dropWhile (· ≠ ',')).drop 1)

def parseOp : Char → Option Op
  | '+' => some .add | '-' => some .sub | '*' => some .mul | '/' => some .div | _ => none

def parseExpr : Nat → List Char → Option (Expr Float × List Char)
  | 0, _ => none
  | fuel + 1, cs =>
    match cs with
    | 'L' :: rest =>
      let (a, r) := untilComma rest
      (parseVal (String.ofList a)).map fun v => (.lit v, r)
    | 'R' :: rest =>
      let (a, r) := untilComma rest
      (String.ofList (a.takeWhile (· ≠ '~'))).toNat?.map fun n => (.ref n, r)
    | 'B' :: o :: rest => do
      let op ← parseOp o
      let (l, r1) ← parseExpr fuel rest
      let (r, r2) ← parseExpr fuel r1
      pure (.bin op l r, r2)
    | 'I' :: rest => do
      let (c, r1) ← parseExpr fuel rest
      let (t, r2) ← parseExpr fuel r1
      let (e, r3) ← parseExpr fuel r2
      pure (.iff c t e, r3)
    | 'E' :: rest => do
      let (a, r1) ← parseExpr fuel rest
      let (b, r2) ← parseExpr fuel r1
      pure (.iferror a b, r2)
    | 'Q' :: rest => do
      let (a, r1) ← parseExpr fuel rest
      pure (.iserror a, r1)
    | 'S' :: rest =>
      let (a, r) := untilComma rest
      let parts := (String.ofList (a.takeWhile (· ≠ '~'))).splitOn "."
      (parts.mapM fun (p : String) => p.toNat?).map fun cs => (.sum cs, r)
    | _ => none

def parseCell (entry : String) : Option (Cell Float) :=
  match entry.splitOn ":" with
  | [_, spec] =>
    match spec.toList with
    | ['Z'] => some .empty
    | 'P' :: rest => (parseVal (String.ofList rest)).map .plain
    | 'F' :: rest =>
      match parseExpr (rest.length + 1) rest with
      | some (e, []) => some (.formula e)
      | _ => none
    | _ => none
  | _ => none

def run (cellsField : String) : String :=
  match (cellsField.splitOn "|").mapM parseCell with
  | none => "bad-cells"
  | some cells =>
    let arr := cells.toArray
    let wb : Coord → Cell Float := fun c => arr.getD c .empty
    let order := List.range arr.size
    let s := evaluateAll floatOps wb order (fun _ => .empty)
    let outs := order.filterMap fun c =>
      match wb c with
      | .formula _ => some (showVal (s.val c))
      | _ => none
    (if s.oof then "OOF " else "") ++ ";".intercalate outs

end Driver.C05

namespace Driver
/-- `c05 wb <cells>` -/
def c05 (args : List String) : String :=
  match args with
  | ["wb", cells] => Driver.C05.run cells
  | _ => "bad-op"
end Driver
