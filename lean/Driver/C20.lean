import Driver.Proto
import IronCalc.Text.FormatLayout
open IronCalc.Format
namespace Driver

def c20Mode (std : String) : GroupMode :=
  if std == "#,##0.###" then .western else if std == "#,##,##0.###" then .indian else .other

def c20StName : NumState → String
  | .int => "i" | .dec => "d" | .exp => "e"

def c20Tok : TT → String
  | .lit c => s!"L{c.toNat}"
  | .text s => "T" ++ hexEncode (String.ofList s)
  | .ghost => "G"
  | .spacer => "S"
  | .period => "P"
  | .digit k i st => s!"D{k.toNat}:{i}:{c20StName st}"

def c20Part : Part → String
  | .error => "error"
  | .unsupported => "unsupported"
  | .number p =>
    let b (x : Bool) := if x then "1" else "0"
    s!"num:{b p.useThousands}:{p.percent}:{p.comma}:{p.digitCount}:{p.precision}:{b p.isScientific}:{b p.scientificMinus}:{p.exponentDigitCount}:" ++
      ",".intercalate (p.tokens.map c20Tok)

/-- `c20 fmt <bits> <hex format> <hex decimal> <hex group> <hex standard-format> <locale id>` →
      `T<hex text>` | `VALUE` | `unsupported` | `nonfinite` | `panic`
    `c20 parse <hex format>` → the parts, `|`-separated -/
def c20 (args : List String) : String :=
  match args with
  | ["fmt", bits, fmt, dec, grp, std, _locale] =>
    match bits.toNat?, hexDecode fmt, hexDecode dec, hexDecode grp, hexDecode std with
    | some b, some f, some d, some g, some s =>
      match decodeBits b with
      | none => "nonfinite"
      | some (neg, x) =>
        match formatNumber f.toList ⟨d.toList, g.toList, c20Mode s⟩ neg x with
        | .text t => "T" ++ hexEncode (String.ofList t)
        | .valueError => "VALUE"
        | .unsupported => "unsupported"
        | .nonfinite => "nonfinite"
        | .panic => "panic"
    | _, _, _, _, _ => "bad-op"
  | ["parse", fmt] =>
    match hexDecode fmt with
    | some f =>
      let parts := parseFormat f.toList
      if parts.any (· = .unsupported) then "unsupported" else "|".intercalate (parts.map c20Part)
    | none => "bad-op"
  | _ => "bad-op"

end Driver
