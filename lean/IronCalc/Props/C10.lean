import IronCalc.Formula.Spelling
import IronCalc.Props.C23
import IronCalc.Generated.ParenStringify
/-
  C10 — Display language and locale never change what formulas compute.
  Property theorems only.  Model: Formula/Spelling.lean (language/locale spelling of tokens) on top
  of the shared printer/parser model.  The engine stores formulas in ONE internal form (English,
  R1C1) and only the display/entry path goes through a language: that architecture is what the
  theorems below express; that the code really follows it is what the tie checks (stored texts
  byte-identical across switches).
-/
namespace IronCalc.Formula

/-- the part of the engine state the property talks about -/
structure Engine where
  stored : List (List Tok)          -- stored formulas (internal form), per formula cell
  names : List (List Tok)           -- stored defined-name formulas
  language : Nat
  locale : Nat

/-- models Model::set_language / UserModel::set_language: only the display language changes -/
def Engine.setLanguage (s : Engine) (l : Nat) : Engine := { s with language := l }
/-- models Model::set_locale -/
def Engine.setLocale (s : Engine) (l : Nat) : Engine := { s with locale := l }

/-- switching language or locale touches no stored formula and no stored defined name -/
theorem C10_switch_keeps_stored (s : Engine) (l : Nat) :
    (s.setLanguage l).stored = s.stored ∧ (s.setLanguage l).names = s.names ∧
    (s.setLocale l).stored = s.stored ∧ (s.setLocale l).names = s.names :=
  ⟨rfl, rfl, rfl, rfl⟩

/-- anything computed from the stored formulas alone (values of locale-independent formulas) is
    unchanged by any sequence of switches -/
theorem C10_values_language_free {V : Type} (ev : List (List Tok) → List (List Tok) → V)
    (s : Engine) (switches : List (Bool × Nat)) :
    let s' := switches.foldl (fun st sw => if sw.1 then st.setLanguage sw.2 else st.setLocale sw.2) s
    ev s'.stored s'.names = ev s.stored s.names := by
  induction switches generalizing s with
  | nil => rfl
  | cons sw rest ih =>
    simp only [List.foldl_cons]
    cases sw.1 <;> simp only [Bool.false_eq_true, if_false, if_true] <;> exact ih _

/-- **Shown in any language/locale and re-entered there, a formula is the same formula**: for a
    spelling whose identifier table is injective (no two functions/booleans written alike — the
    obligation C23 discharges on the tables extracted from the running code), reading the
    spelled printed formula back and parsing it returns the tree. -/
theorem C10_retype {W : Type} [DecidableEq W] (iv : Nat → Bool) (T : Table) (σ : Spelling W) (hinj : σ.injective) (e : Node)
    (hwf : e.wf iv = true) (hnb : e.noBad T = true) (hk : identsKnown σ (pr T e)) :
    ∃ ts, unspell σ ((pr T e).map (spellTok σ)) = some ts ∧
      ∃ f0, ∀ f, f0 ≤ f → P iv f 0 ts = some (e, []) :=
  ⟨pr T e, unspell_spell σ hinj _ hk, roundtrip_partial iv T e hwf hnb⟩

/-- the same for the code's own printer (table re-extracted on every run) -/
theorem C10_retype_stringify {W : Type} [DecidableEq W] (iv : Nat → Bool) (σ : Spelling W) (hinj : σ.injective) (e : Node)
    (hwf : e.wf iv = true) (hnb : e.noBad IronCalc.Generated.parenStringify = true)
    (hk : identsKnown σ (pr IronCalc.Generated.parenStringify e)) :
    ∃ ts, unspell σ ((pr IronCalc.Generated.parenStringify e).map (spellTok σ)) = some ts ∧
      ∃ f0, ∀ f, f0 ≤ f → P iv f 0 ts = some (e, []) :=
  C10_retype iv _ σ hinj e hwf hnb hk

/-- a table in which two functions share a spelling really breaks re-entry: the second one is
    read back as the first -/
theorem C10_needs_injective :
    let σ : Spelling (List Char) :=
      { word := fun x => if x = 1001 ∨ x = 1002 then ['S', 'U', 'M'] else ['X'],
        known := [1001, 1002], argSep := ',', decimal := '.' }
    unspell σ ([Tok.ident 1002].map (spellTok σ)) = some [Tok.ident 1001] := by
  decide

/-- non-vacuity: a two-function Spanish-like table is injective and knows the identifiers of
    `SUMA(1;MAX(2))` -/
example :
    let σ : Spelling (List Char) :=
      { word := fun x => if x = 1001 then ['S', 'U', 'M', 'A'] else ['M', 'A', 'X'],
        known := [1001, 1003], argSep := ';', decimal := ',' }
    σ.injective ∧ identsKnown σ (pr IronCalc.Generated.parenStringify
      (Node.call 1001 (Args.consN (Node.lit .number 1)
        (Args.consN (Node.call 1003 (Args.consN (Node.lit .number 2) Args.nil)) Args.nil)))) := by
  constructor
  · intro x hx y hy h
    simp at hx hy
    rcases hx with rfl | rfl <;> rcases hy with rfl | rfl <;> simp_all
  · simp [pr, prArgs, prTail, identsKnown]

/-! ### the spelling tables of the running code -/

/-- the spelling of language `L` as extracted from the running code on every check
    (Generated/Names.lean): identifier `i` is the `i`-th built-in function, written with its
    localized name (UTF-8 code); separators are those of any locale -/
def realSpelling (L : Nat) (argSep decimal : Char) : Spelling Nat :=
  { word := fun i => IronCalc.Names.nameOf L i,
    known := List.range IronCalc.Generated.Names.nFunctions,
    argSep := argSep, decimal := decimal }

/-- the injectivity obligation of `C10_retype` holds for every supported language: it is C23's
    `names_nodup`, itself a kernel evaluation on the regenerated table -/
theorem realSpelling_injective (L : Nat) (hL : L < IronCalc.Generated.Names.nLanguages) (a d : Char) :
    (realSpelling L a d).injective := by
  intro x hx y hy h
  simp only [realSpelling, List.mem_range] at hx hy h
  exact IronCalc.Names.names_nodup L x y hL hx hy h

/-- **C10 for the real tables**: in every supported language and with any separators, a formula
    printed by the code's own printer, spelled in that language and read back there, parses to the
    same tree — for every well-formed tree over the built-in functions that avoids the listed
    known-bad parenthesisation pairs. -/
theorem C10_retype_real (L : Nat) (hL : L < IronCalc.Generated.Names.nLanguages) (a d : Char)
    (iv : Nat → Bool) (e : Node) (hwf : e.wf iv = true)
    (hnb : e.noBad IronCalc.Generated.parenStringify = true)
    (hk : identsKnown (realSpelling L a d) (pr IronCalc.Generated.parenStringify e)) :
    ∃ ts, unspell (realSpelling L a d)
        ((pr IronCalc.Generated.parenStringify e).map (spellTok (realSpelling L a d))) = some ts ∧
      ∃ f0, ∀ f, f0 ≤ f → P iv f 0 ts = some (e, []) :=
  C10_retype_stringify iv _ (realSpelling_injective L hL a d) e hwf hnb hk

/-- non-vacuity: `SUM(1,MAX(2))`-shaped tree over function indices 0 and 1 in language 0 -/
example : identsKnown (realSpelling 0 ';' ',') (pr IronCalc.Generated.parenStringify
      (Node.call 0 (Args.consN (Node.lit .number 1)
        (Args.consN (Node.call 1 (Args.consN (Node.lit .number 2) Args.nil)) Args.nil)))) := by
  simp [pr, prArgs, prTail, identsKnown, realSpelling, IronCalc.Generated.Names.nFunctions]

end IronCalc.Formula
