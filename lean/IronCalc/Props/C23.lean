import IronCalc.Text.NamesProofs
/-
  C23 — Function and error names round-trip in every language.
  Property theorems only.  Model: Text/Names.lean (models base/src/functions/mod.rs lookup /
  to_localized_name / to_xlsx_string, the identifier and error branches of the lexer, the call
  resolution of the parser, and the error readers of base/src/expressions/token.rs), evaluated on
  Generated/Names.lean, which `harness extract` rewrites from the running code on every check:
  every theorem below is re-checked against the current table (`table_ok`, `errors_ok` are the
  kernel evaluations; the rest follows for ALL languages / functions / errors / continuations).
-/
namespace IronCalc.Names
open IronCalc IronCalc.Generated.Names

/-! ### functions -/

/-- the table obligation (tree certificate, per-name side conditions, xlsx prefix forms),
    evaluated by the kernel on the regenerated table -/
theorem table_ok : tableOK = true := by decide +kernel

/-- **names round-trip**: in every language the localized name of every function, read by
    `Functions::lookup` (first match after case folding), is that function -/
theorem names_roundtrip (L i : Nat) (hL : L < nLanguages) (hi : i < nFunctions) :
    lookupKey L (bytesOf (nameOf L i)) = some i := by
  have F := tableFacts_of table_ok
  unfold lookupKey
  rw [name_folded F hL hi]
  exact lookupU_hit F hL hi

/-- **no two functions share a name** in any language -/
theorem names_nodup (L i j : Nat) (hL : L < nLanguages) (hi : i < nFunctions) (hj : j < nFunctions)
    (h : nameOf L i = nameOf L j) : i = j :=
  nameOf_inj (tableFacts_of table_ok) hL hi hj h

/-- **`NAME(`…`)` through lexer and parser** resolves to that function in every language (the
    boolean words, `LAMBDA`, `_xlfn.SINGLE`, `_xlfn.ANCHORARRAY` and the prefix stripping do not
    capture any other function's name); `LAMBDA(x)` becomes a lambda definition -/
theorem names_parse_roundtrip (L i nargs : Nat) (hL : L < nLanguages) (hi : i < nFunctions) :
    callKind L (bytesOf (nameOf L i)) nargs = expected i nargs :=
  callKind_name (tableFacts_of table_ok) hL hi nargs

/-- **xlsx names round-trip**: `to_xlsx_string`, read back by the English parser with its
    `_xlfn._xlws.` / `_xlfn.` prefix handling, is that function -/
theorem xlsx_roundtrip (i nargs : Nat) (hi : i < nFunctions) :
    callKind enIdx (bytesOf (xlsxOf i)) nargs = expected i nargs :=
  callKind_xlsx (tableFacts_of table_ok) hi nargs

/-- the order in which `impl_function_lookup!` lists the fields is immaterial: on a table without
    duplicate names, first-match lookup gives the same answer for every permutation of the entries -/
theorem lookup_perm_invariant (t t' : List (Nat × Nat)) (hp : t.Perm t')
    (hn : (t.map Prod.fst).Nodup) (key : Nat) : lookupAssoc key t = lookupAssoc key t' :=
  lookupAssoc_perm hp hn key

/-! ### errors -/

/-- the error obligations, evaluated by the kernel on the regenerated table -/
theorem errors_ok : errTableOK = true := by decide +kernel

/-- **localized error names round-trip** through `get_error_by_name` in every language -/
theorem errors_roundtrip (L e : Nat) (hL : L < nLanguages) (he : e < nErrors) :
    errorOfName L (errName L e) = some e := (errFacts_of errors_ok).byName L e hL he

/-- **the xlsx form round-trips**: what `Display` writes (cell values in xlsx files, stored formula
    text) is read back by `get_error_by_english_name` as the same error.
    (False on the pinned tree for `#N/IMPL!` — F23a, repaired.) -/
theorem errors_xlsx_roundtrip (e : Nat) (he : e < nErrors) :
    errorOfEnglish (display e) = some e := (errFacts_of errors_ok).english e he

/-- `Display` is the English spelling -/
theorem errors_display_is_english (e : Nat) (he : e < nErrors) :
    display e = errName enIdx e := (errFacts_of errors_ok).disp e he

/-- **the lexer's first-match order is harmless**: in no language is one spelling a prefix of
    another -/
theorem error_prefix_order_ok (L : Nat) (hL : L < nLanguages) : prefixFree L = true :=
  (errFacts_of errors_ok).pf L hL

/-- **the lexer reads every error literal back**, whatever follows it in the formula -/
theorem errors_lex_roundtrip (L e : Nat) (hL : L < nLanguages) (he : e < nErrors)
    (rest : List Nat) : lexError L (errName L e ++ rest) = some (e, (errName L e).length) :=
  lexError_of_prefixFree (error_prefix_order_ok L hL) he rest

/-- the model's readers return, on every spelling, what the real readers returned at extraction -/
theorem errors_table_agrees (L e : Nat) (hL : L < nLanguages) (he : e < nErrors) :
    optCode (errorOfName L (errName L e)) = (errByName.getD L []).getD e 0
    ∧ optCode ((lexError L (errName L e)).map Prod.fst) = (errLex.getD L []).getD e 0
    ∧ optCode (errorOfEnglish (display e)) = errByEnglish.getD e 0 :=
  (errFacts_of errors_ok).agree L e hL he

/-! ### non-vacuity -/

example : 0 < nLanguages ∧ 0 < nFunctions ∧ enIdx < nLanguages := by decide
/-- a lower-case key and an `_xlfn._xlws.`-prefixed key resolve in the English table -/
example : (lookupKey enIdx (ascii "sum")).isSome = true
    ∧ callKind enIdx (ascii "_xlfn._xlws.FILTER") 1 = callKind enIdx (ascii "filter") 1
    ∧ callKind enIdx (ascii "_xlfn.nosuchfunction") 1 = Res.named := by decide +kernel
/-- the lexer theorem is about real spellings: `#N/A` followed by `+1` -/
example : lexError enIdx (ascii "#N/A+1") = some (4, 4) := by decide
/-- a table with a duplicate name does *not* round-trip (the obligation is not vacuous) -/
example : findFrom 7 [5, 7, 7] 0 = some 1 := by decide

end IronCalc.Names
