import IronCalc.Sheet.StructureEval
/-
  C12 — Inserting rows or columns preserves every value.
  Property theorems only.  Model: Sheet/Structure.lean (σ = the cell-move loops of actions.rs,
  ρ = stringify_reference under DisplaceData::Row/Column), Sheet/StructureEval.lean (abstract evaluator).
  Rows and columns are the same model (`Axis`).
-/
namespace IronCalc.Structure.C12

/-- cells: every cell at or after the insertion point moves by `k`, the others stay; nothing is lost,
    no two cells collide, and no cell lands in the new band (the new rows/columns are blank) -/
theorem C12_cells_shift (r k x : Int) (hk : 0 < k) :
    ∃ y, sigma (.insert r k) x = some y ∧ (x < r → y = x) ∧ (r ≤ x → y = x + k) ∧ ¬ (r ≤ y ∧ y < r + k) := by
  refine ⟨if x ≥ r then x + k else x, sigma_insert_some r k x, ?_, ?_, ?_⟩ <;> grind

theorem C12_cells_injective (r k x x' : Int) (hk : 0 < k) (h : sigma (.insert r k) x = sigma (.insert r k) x') : x = x' := by
  simp only [sigma_insert_some, Option.some.injEq] at h
  grind

/-- the separately coded maps for links and row descriptors are the same map σ -/
theorem C12_links_and_rows_follow (r k x : Int) (hk : 0 < k) :
    linkCoord (.insert r k) x = sigma (.insert r k) x ∧ rowDescCoord (.insert r k) x = sigma (.insert r k) x :=
  ⟨linkCoord_eq_sigma (.insert r k) hk x, rowDescCoord_eq_sigma (.insert r k) hk x⟩

/-- **ref_follows_cell** (insert). A reference on the edited sheet that points at the in-grid cell `(x, y)`
    is rewritten to point at σ x — the place that cell moved to — whatever the host cell and whatever the
    absolute/relative flags; it becomes `#REF!` exactly when σ x lies beyond the last row/column. -/
theorem C12_ref_follows_cell (ax : Axis) (s : Nat) (r k : Int) (hk : 0 < k) (h : Host) (q : Ref)
    (hs : q.sheet = s)
    (hx : inGrid .row (q.row.resolve h.row) = true) (hy : inGrid .col (q.col.resolve h.col) = true) :
    match ax with
    | .row => ∃ x', sigma (.insert r k) (q.row.resolve h.row) = some x' ∧
        (x' ≤ LAST_ROW → rhoRef ⟨.row, s, .insert r k⟩ h q = some (x', q.col.resolve h.col)) ∧
        (LAST_ROW < x' → rhoRef ⟨.row, s, .insert r k⟩ h q = none)
    | .col => ∃ y', sigma (.insert r k) (q.col.resolve h.col) = some y' ∧
        (y' ≤ LAST_COLUMN → rhoRef ⟨.col, s, .insert r k⟩ h q = some (q.row.resolve h.row, y')) ∧
        (LAST_COLUMN < y' → rhoRef ⟨.col, s, .insert r k⟩ h q = none) := by
  have hv : (Op.insert r k).valid := hk
  have hx' := (inGrid_iff _ _).1 hx
  have hy' := (inGrid_iff _ _).1 hy
  cases ax with
  | row =>
    refine ⟨_, sigma_insert_some r k _, ?_, ?_⟩
    · intro hb
      rw [rhoRef_row_of_sigma s _ hv h q hs hy, sigma_insert_some]
      have : inGrid .row (if q.row.resolve h.row ≥ r then q.row.resolve h.row + k else q.row.resolve h.row) = true := by
        rw [inGrid_iff]; refine ⟨?_, hb⟩; split <;> omega
      simp only [this, if_true]
    · intro hb
      rw [rhoRef_row_of_sigma s _ hv h q hs hy, sigma_insert_some]
      have : inGrid .row (if q.row.resolve h.row ≥ r then q.row.resolve h.row + k else q.row.resolve h.row) = false := by
        rw [inGrid_false_iff]; simp only [Axis.last]; omega
      simp [this]
  | col =>
    refine ⟨_, sigma_insert_some r k _, ?_, ?_⟩
    · intro hb
      rw [rhoRef_col_of_sigma s _ hv h q hs hx, sigma_insert_some]
      have : inGrid .col (if q.col.resolve h.col ≥ r then q.col.resolve h.col + k else q.col.resolve h.col) = true := by
        rw [inGrid_iff]; refine ⟨?_, hb⟩; split <;> omega
      simp only [this, if_true]
    · intro hb
      rw [rhoRef_col_of_sigma s _ hv h q hs hx, sigma_insert_some]
      have : inGrid .col (if q.col.resolve h.col ≥ r then q.col.resolve h.col + k else q.col.resolve h.col) = false := by
        rw [inGrid_false_iff]; simp only [Axis.last]; omega
      simp [this]

/-- references to other sheets are not touched -/
theorem C12_ref_other_sheet (ax : Axis) (s : Nat) (o : Op) (h : Host) (q : Ref) (hs : q.sheet ≠ s)
    (hx : inGrid .row (q.row.resolve h.row) = true) (hy : inGrid .col (q.col.resolve h.col) = true) :
    rhoRef ⟨ax, s, o⟩ h q = some (q.row.resolve h.row, q.col.resolve h.col) := by
  cases ax <;> simp [rhoRef, rhoPoint, hs, hx, hy, Option.bind]

/-- the rewrite sees a reference only through the cell it points at: relative and absolute spellings,
    and formulas hosted anywhere, are rewritten to the same target -/
theorem C12_rewrite_host_independent (d : Disp) (h h' : Host) (q q' : Ref) (hs : q.sheet = q'.sheet)
    (hr : q.row.resolve h.row = q'.row.resolve h'.row) (hc : q.col.resolve h.col = q'.col.resolve h'.col) :
    rhoRef d h q = rhoRef d h' q' := by
  simp only [rhoRef, rhoPoint, hs, hr, hc]

/-- moving a formula cell by re-entering its text at the new position keeps what every reference points at -/
theorem C12_retype_keeps_targets (h h' : Host) (q : Ref) :
    (retypeRef h h' q).row.resolve h'.row = q.row.resolve h.row ∧
    (retypeRef h h' q).col.resolve h'.col = q.col.resolve h.col ∧
    (retypeRef h h' q).row.abs = q.row.abs ∧ (retypeRef h h' q).col.abs = q.col.abs :=
  ⟨retype_resolve _ _ _, retype_resolve _ _ _, rfl, rfl⟩

/-- **range_grows_on_interior_insert.** A range `[a, b]` (on the edited axis) whose interior receives the new
    lines becomes `[a, b + k]`; every old cell of the range is still inside it (at its σ-image) and every cell
    of the new range is the image of an old one or lies in the new blank band. -/
theorem C12_range_grows_on_interior_insert (r k a b : Int) (hk : 0 < k) (ha : a < r) (hb : r ≤ b) :
    rhoCoord (.insert r k) a = some a ∧ rhoCoord (.insert r k) b = some (b + k) ∧
    (∀ x, a ≤ x → x ≤ b → ∃ x', sigma (.insert r k) x = some x' ∧ a ≤ x' ∧ x' ≤ b + k) ∧
    (∀ y, a ≤ y → y ≤ b + k → (r ≤ y ∧ y < r + k) ∨ ∃ x, a ≤ x ∧ x ≤ b ∧ sigma (.insert r k) x = some y) := by
  have hk' : ¬ k < 0 := by omega
  refine ⟨?_, ?_, ?_, ?_⟩
  · simp only [rhoCoord, shiftDisp, hk', if_false]; split <;> first | rfl | omega
  · simp only [rhoCoord, shiftDisp, hk', if_false]; split <;> first | rfl | omega
  · intro x h1 h2
    refine ⟨_, sigma_insert_some r k x, ?_, ?_⟩ <;> split <;> omega
  · intro y h1 h2
    by_cases hy : y < r
    · exact Or.inr ⟨y, h1, by omega, by rw [sigma_insert_some]; congr 1; split <;> omega⟩
    · by_cases hy2 : y < r + k
      · exact Or.inl ⟨by omega, hy2⟩
      · exact Or.inr ⟨y - k, by omega, by omega, by rw [sigma_insert_some]; congr 1; split <;> omega⟩

/-- a range entirely at/after the insertion point shifts as a whole, one entirely before it is unchanged -/
theorem C12_range_shifts_or_stays (r k a b : Int) (hk : 0 < k) (hab : a ≤ b) :
    (r ≤ a → rhoCoord (.insert r k) a = some (a + k) ∧ rhoCoord (.insert r k) b = some (b + k)) ∧
    (b < r → rhoCoord (.insert r k) a = some a ∧ rhoCoord (.insert r k) b = some b) := by
  have hk' : ¬ k < 0 := by omega
  simp only [rhoCoord, shiftDisp, hk', if_false]
  constructor <;> intro _ <;> constructor <;> split <;> first | rfl | omega

/-- whole-column ranges (`A:B`) are not touched by a row insertion, whole-row ranges (`2:5`) not by a column
    insertion: both corners keep their coordinates -/
theorem C12_full_range_unchanged (s : Nat) (r k : Int) (h : Host) (g : Range)
    (hc1 : inGrid .col (g.c1.resolve h.col) = true) (hc2 : inGrid .col (g.c2.resolve h.col) = true)
    (hfull : g.fullRow = true) :
    rhoRange ⟨.row, s, .insert r k⟩ h g =
      (some (1, g.c1.resolve h.col), some (LAST_ROW, g.c2.resolve h.col)) := by
  simp only [Range.fullRow, Bool.and_eq_true, beq_iff_eq] at hfull
  obtain ⟨⟨⟨a1, a2⟩, v1⟩, v2⟩ := hfull
  have e1 : g.r1.resolve h.row = 1 := by simp [End.resolve, a1, v1]
  have e2 : g.r2.resolve h.row = LAST_ROW := by simp [End.resolve, a2, v2]
  have g1 : inGrid .row 1 = true := by decide
  have g2 : inGrid .row LAST_ROW = true := by decide
  simp [rhoRange, rhoPoint, Range.fullRow, a1, a2, v1, v2, e1, e2, g1, g2, Op.respectsFull, hc1, hc2]

/-- **C12, values.** Let `G'` be the grid after the insertion (every line moved to its σ-image, the new lines
    blank, other sheets untouched).  Any formula of the safe fragment — position-independent functions of
    cell values, ranges only under blank-insensitive aggregates — hosted anywhere (`h` before, `h'` after),
    once re-entered at its new host and displaced without any reference being pushed off the grid,
    computes exactly the value it computed before. -/
theorem C12_values {V J : Type} (I : Interp V) (hB : BlankInsensitive I) (ax : Axis) (r k : Int) (hk : 0 < k)
    (G G' : Grid V J)
    (hmove : ∀ x j, G' true (if x ≥ r then x + k else x) j = G true x j)
    (hnew : ∀ y j, r ≤ y → y < r + k → G' true y j = I.blank)
    (hoff : ∀ x j, G' false x j = G false x j)
    (h h' : Int) (f f' : Fm V J)
    (hf : (f.retype h h').rho ax (.insert r k) h' = some f') :
    eval I G' h' f' = eval I G h f := by
  have hk' : ¬ k < 0 := by omega
  have hcoord : ∀ e e' : End, rhoEnd ax (.insert r k) h' (retypeEnd h h' e) = some e' →
      e'.resolve h' = (if e.resolve h ≥ r then e.resolve h + k else e.resolve h) := by
    intro e e' he
    have := (rhoEnd_some _ _ _ _ _ he).1
    rw [retype_resolve] at this
    simp only [rhoCoord, shiftDisp, hk', if_false] at this
    by_cases hc : e.resolve h ≥ r
    · simp only [hc, if_true, Option.some.injEq] at this ⊢; omega
    · simp only [hc, if_false, Option.some.injEq] at this ⊢; omega
  induction f generalizing f' with
  | const v => simp only [Fm.retype, Fm.rho, Option.some.injEq] at hf; subst hf; rfl
  | cell on e j =>
    cases on with
    | false =>
      simp only [Fm.retype, Fm.rho, Bool.false_eq_true, if_false, Option.some.injEq] at hf
      subst hf
      simp only [eval, retype_resolve, hoff]
    | true =>
      simp only [Fm.retype, Fm.rho, if_true] at hf
      cases he : rhoEnd ax (.insert r k) h' (retypeEnd h h' e) with
      | none => rw [he] at hf; cases hf
      | some e' =>
        rw [he] at hf
        simp only [Option.map_some, Option.some.injEq] at hf
        subst hf
        simp only [eval, hcoord e e' he, hmove]
  | agg g on a b j =>
    cases on with
    | false =>
      simp only [Fm.retype, Fm.rho, Bool.false_eq_true, if_false, Option.some.injEq] at hf
      subst hf
      simp only [eval, retype_resolve]
      congr 1
      have := lines_congr (fun x => G' false x j) (fun x => G false x j) (a.resolve h) 0
        ((b.resolve h) - (a.resolve h) + 1).toNat (fun i _ _ => by simp [hoff])
      simpa using this
    | true =>
      simp only [Fm.retype, Fm.rho, if_true] at hf
      cases hea : rhoEnd ax (.insert r k) h' (retypeEnd h h' a) with
      | none => rw [hea] at hf; cases hf
      | some a' =>
        cases heb : rhoEnd ax (.insert r k) h' (retypeEnd h h' b) with
        | none => rw [hea, heb] at hf; cases hf
        | some b' =>
          rw [hea, heb] at hf
          simp only [Option.bind_some, Option.map_some, Option.some.injEq] at hf
          subst hf
          simp only [eval, hcoord a a' hea, hcoord b b' heb]
          exact lines_insert I hB g (fun x => G true x j) (fun x => G' true x j) _ _ r k hk
            (fun x => hmove x j) (fun y h1 h2 => hnew y j h1 h2)
  | app1 fn x ih =>
    simp only [Fm.retype, Fm.rho] at hf
    cases hx : (x.retype h h').rho ax (.insert r k) h' with
    | none => rw [hx] at hf; cases hf
    | some x' =>
      rw [hx] at hf
      simp only [Option.map_some, Option.some.injEq] at hf
      subst hf
      simp only [eval, ih x' hx]
  | app2 fn x y ihx ihy =>
    simp only [Fm.retype, Fm.rho] at hf
    cases hx : (x.retype h h').rho ax (.insert r k) h' with
    | none => rw [hx] at hf; cases hf
    | some x' =>
      cases hy : (y.retype h h').rho ax (.insert r k) h' with
      | none => rw [hx, hy] at hf; cases hf
      | some y' =>
        rw [hx, hy] at hf
        simp only [Option.bind_some, Option.map_some, Option.some.injEq] at hf
        subst hf
        simp only [eval, ihx x' hx, ihy y' hy]

/-! non-vacuity -/

-- `=$A$3` hosted at B5 and `=A3` hosted at B5 (relative: -2, -1), insert 2 rows at row 2 on sheet 0
example : rhoRef ⟨.row, 0, .insert 2 2⟩ ⟨0, 7, 2⟩ ⟨0, false, ⟨true, 3⟩, ⟨true, 1⟩⟩ = some (5, 1) := by decide
example : rhoRef ⟨.row, 0, .insert 2 2⟩ ⟨0, 7, 2⟩ ⟨0, false, ⟨false, -4⟩, ⟨false, -1⟩⟩ = some (5, 1) := by decide
-- a reference to the last row is pushed off the grid
example : rhoRef ⟨.row, 0, .insert 2 1⟩ ⟨0, 1, 2⟩ ⟨0, false, ⟨true, 1048576⟩, ⟨true, 1⟩⟩ = none := by decide
-- A1:A3 grows to A1:A5
example : rhoAtom ⟨.row, 0, .insert 2 2⟩ ⟨0, 9, 3⟩ (.range (mkRange ⟨0, 9, 3⟩ 0 false false 1 false 1 false 3 false 1))
    = .range (mkRange ⟨0, 9, 3⟩ 0 false false 1 false 1 false 5 false 1) := by decide
-- an interpretation whose aggregate is blank-insensitive: sum of a list of Nat with blank = 0
example : BlankInsensitive (⟨0, fun _ v => v, fun _ a b => a + b, fun _ l => l.foldl (· + ·) 0⟩ : Interp Nat) := by
  intro g l1 l2
  simp [List.foldl_append]

end IronCalc.Structure.C12
