import IronCalc.Formula.LexProofs
import IronCalc.Formula.LexCfgs
import IronCalc.Formula.LexCfgProofs
/-
  C09, character level — the lexer reads the printer's text back.
  Property theorems only.  Model: Formula/Lex.lean (`nextToken`, `lex`: lexer/mod.rs; `render`:
  what stringify.rs writes per token), side conditions Formula/LexGlue.lean, helper lemmas
  Formula/LexProofs.lean (+ C22's Codec/*Proofs*.lean for references).
-/
namespace IronCalc.Formula
open IronCalc.Codec

/-- **One token.**  `next_token` on the text of a well-formed token, followed by ANY text that does
    not start with a character gluing to it, returns exactly that token and leaves that text. -/
theorem C09Lex_token (cfg : LexCfg) (h : CfgOK cfg) (t : CTok) (rest : List Char)
    (hok : tokOK cfg t = true) (hf : follow cfg t rest = true) :
    nextToken cfg (renderTok cfg t ++ rest) = some (t, rest) :=
  nextToken_renderTok cfg h t rest hok hf

/-- the token loop with any fuel above the number of tokens -/
theorem C09Lex_roundtrip_fuel (cfg : LexCfg) (h : CfgOK cfg) :
    ∀ (ts : List CTok) (n : Nat), ts.length < n → (∀ t, t ∈ ts → tokOK cfg t = true) →
      glueFree cfg ts = true → lexN cfg n (render cfg ts) = ts
  | [], n, hn, _, _ => by
    cases n with
    | zero => rfl
    | succ m => simp [lexN, render, nextToken_nil]
  | [t], n, hn, hok, _ => by
    cases n with
    | zero => simp at hn
    | succ m =>
      have ht := hok t (List.mem_cons_self ..)
      have h1 := nextToken_renderTok cfg h t [] ht rfl
      simp only [List.append_nil] at h1
      simp only [render, List.flatMap_cons, List.flatMap_nil, List.append_nil, lexN, h1]
      cases m with
      | zero => rfl
      | succ k => simp [lexN, nextToken_nil]
  | t :: u :: ts, n, hn, hok, hg => by
    cases n with
    | zero => simp at hn
    | succ m =>
      simp only [glueFree, Bool.and_eq_true, Bool.not_eq_true', List.isEmpty_eq_false_iff] at hg
      obtain ⟨⟨hfu, hne⟩, hg'⟩ := hg
      have ht := hok t (List.mem_cons_self ..)
      have hfol : follow cfg t (render cfg (u :: ts)) = true := by
        obtain ⟨c, tl, hc⟩ := List.exists_cons_of_ne_nil hne
        simp only [render, List.flatMap_cons] at hc ⊢
        rw [hc] at hfu ⊢
        simpa [follow] using hfu
      have h1 := nextToken_renderTok cfg h t (render cfg (u :: ts)) ht hfol
      have ih := C09Lex_roundtrip_fuel cfg h (u :: ts) m (by simp at hn ⊢; omega)
        (fun x hx => hok x (List.mem_cons_of_mem _ hx)) hg'
      have hr : render cfg (t :: u :: ts) = renderTok cfg t ++ render cfg (u :: ts) := by
        simp [render]
      rw [hr, lexN, h1]
      simp only [ih]

/-- **Lexer round trip (all token lists, unbounded length).**  For every list of well-formed
    tokens in which no token is directly followed by a character that glues to it, lexing the
    rendered text gives the list back — token by token, payloads included, nothing left over. -/
theorem C09Lex_roundtrip (cfg : LexCfg) (h : CfgOK cfg) (ts : List CTok)
    (hok : ∀ t, t ∈ ts → tokOK cfg t = true) (hg : glueFree cfg ts = true) :
    lex cfg (render cfg ts) = ts := by
  unfold lex
  apply C09Lex_roundtrip_fuel cfg h ts _ _ hok hg
  have : ts.length ≤ (render cfg ts).length := by
    clear hg
    induction ts with
    | nil => simp
    | cons t tl ih =>
      have hne := renderTok_ne_nil cfg h t (hok t (List.mem_cons_self ..))
      have ih' := ih (fun x hx => hok x (List.mem_cons_of_mem _ hx))
      have hpos : 0 < (renderTok cfg t).length := List.length_pos_iff.mpr hne
      simp only [render, List.flatMap_cons, List.length_append, List.length_cons] at ih' ⊢
      omega
  omega

/-- **The hypotheses hold for the running code**: for each of the five shipped languages (index in
    `Generated.Names.langIds`) and either decimal separator, the A1-mode configuration built from
    the tables extracted on this run (character classes, `to_uppercase`, boolean names, error
    names in consume_error's order) satisfies `CfgOK` (finite checks by kernel evaluation). -/
theorem C09Lex_cfg_ok (L : Nat) (hL : L < 5) (dec : Char) (hdec : dec = '.' ∨ dec = ',') :
    CfgOK (cfgOf true dec L) := cfgOf_ok L hL dec hdec

/-- the round trip for the display path of the running code, every language and separator -/
theorem C09Lex_roundtrip_running (L : Nat) (hL : L < 5) (dec : Char) (hdec : dec = '.' ∨ dec = ',')
    (ts : List CTok) (hok : ∀ t, t ∈ ts → tokOK (cfgOf true dec L) t = true)
    (hg : glueFree (cfgOf true dec L) ts = true) :
    lex (cfgOf true dec L) (render (cfgOf true dec L) ts) = ts :=
  C09Lex_roundtrip _ (C09Lex_cfg_ok L hL dec hdec) ts hok hg

/-- which tokens glue with a following `:` (the only printer-made adjacency that can): a number
    (A1 row range `3:5`), a reference (`A1:B2` is one range token; a qualified or `$` reference
    before `:` and a non-reference is rejected), an identifier spelled like a column (`x:`) -/
theorem C09Lex_colon_glue (cfg : LexCfg) (t : CTok) :
    badNext cfg t ':' = true ↔
      (∃ d, t = .num d) ∨ (∃ sh r, t = .ref sh r) ∨
      (∃ s, t = .ident s ∧ (isIdentChar cfg.cc ':' = true ∨ isValidColumn (upperStr cfg s) = true)) ∨
      (∃ b, t = .bool b ∧ isIdentChar cfg.cc ':' = true) ∨
      (t = .spill ∧ errSecond cfg.errors ':' = true) := by
  cases t <;> simp [badNext]
  case cmp k => cases k <;> simp

/-! ### non-vacuity and the known glue shapes (English, `.`) -/

def exA1 : PRef := { column := 1, row := 1, absCol := false, absRow := false }
def exB2 : PRef := { column := 2, row := 2, absCol := true, absRow := true }

/-- `SUM(A1,"a""b")<=1.5e-5+'My Sheet'!$B$2%&TRUE#` … a token list of every class -/
def exToks : List CTok :=
  [.ident "SUM".toList, .lp, .ref none exA1, .comma, .str "a\"\"b".toList, .rp, .cmp .le,
   .num "1.5e-5".toList, .add, .ref (some "My Sheet".toList) exB2, .pct, .amp, .bool true, .spill,
   .mul, .err 4, .cmp .lt, .ref none exB2, .pow, .ident "x_1".toList, .colon, .ref (some "S2".toList) exA1]

example : (exToks.all (tokOK cfgEn) && glueFree cfgEn exToks) = true := by decide +kernel

example : lex cfgEn (render cfgEn exToks) = exToks := by decide +kernel

/-- F09-glue-refref: `A1` `:` `$B$2` is read back as ONE range token -/
example : glueFree cfgEn [.ref none exA1, .colon, .ref none exB2] = false ∧
    lex cfgEn (render cfgEn [.ref none exA1, .colon, .ref none exB2]) = [.range none exA1 exB2] := by
  decide +kernel

/-- F09-glue-qualified: `S2!A1` `:` `rate` is rejected by the lexer -/
example : glueFree cfgEn [.ref (some "S2".toList) exA1, .colon, .ident "rate".toList] = false ∧
    lex cfgEn (render cfgEn [.ref (some "S2".toList) exA1, .colon, .ident "rate".toList]) = [.illegal] := by
  decide +kernel

/-- F09-glue-number: `1` `:` `xvar` is read as a malformed row range in A1 mode -/
example : glueFree cfgEn [.num ['1'], .colon, .ident "xvar".toList] = false ∧
    lex cfgEn (render cfgEn [.num ['1'], .colon, .ident "xvar".toList]) = [.illegal] := by
  decide +kernel

/-- a plain reference before `:` and a non-reference IS read back (the identifier branch falls back
    to the reference): the side condition is sufficient, not necessary -/
example : glueFree cfgEn [.ref none exA1, .colon, .ident "rate".toList] = false ∧
    lex cfgEn (render cfgEn [.ref none exA1, .colon, .ident "rate".toList])
      = [.ref none exA1, .colon, .ident "rate".toList] := by
  decide +kernel

/-- a name spelled like a column before `:` (the same family of glue, not produced by the existing
    generators): `x` `:` `A1` is rejected -/
example : glueFree cfgEn [.ident ['x'], .colon, .ref none exA1] = false ∧
    lex cfgEn (render cfgEn [.ident ['x'], .colon, .ref none exA1]) = [.illegal] := by
  decide +kernel

end IronCalc.Formula
