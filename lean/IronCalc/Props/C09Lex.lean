import IronCalc.Formula.LexProofs
import IronCalc.Formula.LexCfgs
import IronCalc.Formula.LexCfgProofs
import IronCalc.Formula.LexConc
import IronCalc.Formula.LexProofsRC
import IronCalc.Formula.RoundTripMain
import IronCalc.Generated.ParenStringify
/-
  C09, character level — the lexer reads the printer's text back.
  Property theorems only.  Model: Formula/Lex.lean (`nextToken`, `lex`: lexer/mod.rs; `render`:
  what stringify.rs writes per token), side conditions Formula/LexGlue.lean, helper lemmas
  Formula/LexProofs.lean (+ C22's Codec/*Proofs*.lean for references).
-/
namespace IronCalc.Formula
open IronCalc.Codec

/-- **One token.**  `next_token` on the text of a well-formed token, followed by ANY text that does
    not start with a character gluing to it, returns exactly that token and leaves that text. -/
theorem C09Lex_token (cfg : LexCfg) (h : CfgOK cfg) (t : CTok) (rest : List Char)
    (hok : tokOK cfg t = true) (hf : follow cfg t rest = true) :
    nextToken cfg (renderTok cfg t ++ rest) = some (t, rest) :=
  nextToken_renderTok cfg h t rest hok hf

/-- the token loop with any fuel above the number of tokens -/
theorem C09Lex_roundtrip_fuel (cfg : LexCfg) (h : CfgOK cfg) :
    ∀ (ts : List CTok) (n : Nat), ts.length < n → (∀ t, t ∈ ts → tokOK cfg t = true) →
      glueFree cfg ts = true → lexN cfg n (render cfg ts) = ts
  | [], n, hn, _, _ => by
    cases n with
    | zero => rfl
    | succ m => simp [lexN, render, nextToken_nil]
  | [t], n, hn, hok, _ => by
    cases n with
    | zero => simp at hn
    | succ m =>
      have ht := hok t (List.mem_cons_self ..)
      have h1 := nextToken_renderTok cfg h t [] ht rfl
      simp only [List.append_nil] at h1
      simp only [render, List.flatMap_cons, List.flatMap_nil, List.append_nil, lexN, h1]
      cases m with
      | zero => rfl
      | succ k => simp [lexN, nextToken_nil]
  | t :: u :: ts, n, hn, hok, hg => by
    cases n with
    | zero => simp at hn
    | succ m =>
      simp only [glueFree, Bool.and_eq_true, Bool.not_eq_true', List.isEmpty_eq_false_iff] at hg
      obtain ⟨⟨hfu, hne⟩, hg'⟩ := hg
      have ht := hok t (List.mem_cons_self ..)
      have hfol : follow cfg t (render cfg (u :: ts)) = true := by
        obtain ⟨c, tl, hc⟩ := List.exists_cons_of_ne_nil hne
        simp only [render, List.flatMap_cons] at hc ⊢
        rw [hc] at hfu ⊢
        simpa [follow] using hfu
      have h1 := nextToken_renderTok cfg h t (render cfg (u :: ts)) ht hfol
      have ih := C09Lex_roundtrip_fuel cfg h (u :: ts) m (by simp at hn ⊢; omega)
        (fun x hx => hok x (List.mem_cons_of_mem _ hx)) hg'
      have hr : render cfg (t :: u :: ts) = renderTok cfg t ++ render cfg (u :: ts) := by
        simp [render]
      rw [hr, lexN, h1]
      simp only [ih]

/-- **Lexer round trip (all token lists, unbounded length).**  For every list of well-formed
    tokens in which no token is directly followed by a character that glues to it, lexing the
    rendered text gives the list back — token by token, payloads included, nothing left over. -/
theorem C09Lex_roundtrip (cfg : LexCfg) (h : CfgOK cfg) (ts : List CTok)
    (hok : ∀ t, t ∈ ts → tokOK cfg t = true) (hg : glueFree cfg ts = true) :
    lex cfg (render cfg ts) = ts := by
  unfold lex
  apply C09Lex_roundtrip_fuel cfg h ts _ _ hok hg
  have : ts.length ≤ (render cfg ts).length := by
    clear hg
    induction ts with
    | nil => simp
    | cons t tl ih =>
      have hne := renderTok_ne_nil cfg h t (hok t (List.mem_cons_self ..))
      have ih' := ih (fun x hx => hok x (List.mem_cons_of_mem _ hx))
      have hpos : 0 < (renderTok cfg t).length := List.length_pos_iff.mpr hne
      simp only [render, List.flatMap_cons, List.length_append, List.length_cons] at ih' ⊢
      omega
  omega

/-- **The hypotheses hold for the running code**: for each of the five shipped languages (index in
    `Generated.Names.langIds`) and either decimal separator, the A1-mode configuration built from
    the tables extracted on this run (character classes, `to_uppercase`, boolean names, error
    names in consume_error's order) satisfies `CfgOK` (finite checks by kernel evaluation). -/
theorem C09Lex_cfg_ok (L : Nat) (hL : L < 5) (dec : Char) (hdec : dec = '.' ∨ dec = ',') :
    CfgOK (cfgOf true dec L) := cfgOf_ok L hL dec hdec

/-- the round trip for the display path of the running code, every language and separator -/
theorem C09Lex_roundtrip_running (L : Nat) (hL : L < 5) (dec : Char) (hdec : dec = '.' ∨ dec = ',')
    (ts : List CTok) (hok : ∀ t, t ∈ ts → tokOK (cfgOf true dec L) t = true)
    (hg : glueFree (cfgOf true dec L) ts = true) :
    lex (cfgOf true dec L) (render (cfgOf true dec L) ts) = ts :=
  C09Lex_roundtrip _ (C09Lex_cfg_ok L hL dec hdec) ts hok hg

/-- which tokens glue with a following `:` (the only printer-made adjacency that can): a number
    (A1 row range `3:5`), a reference (`A1:B2` is one range token; a qualified or `$` reference
    before `:` and a non-reference is rejected), an identifier spelled like a column (`x:`) -/
theorem C09Lex_colon_glue (cfg : LexCfg) (ha : cfg.a1 = true) (t : CTok) :
    badNext cfg t ':' = true ↔
      (∃ d, t = .num d) ∨ (∃ sh r, t = .ref sh r) ∨
      (∃ s, t = .ident s ∧ (isIdentChar cfg.cc ':' = true ∨ isValidColumn (upperStr cfg s) = true)) ∨
      (∃ b, t = .bool b ∧ isIdentChar cfg.cc ':' = true) ∨
      (t = .spill ∧ errSecond cfg.errors ':' = true) := by
  cases t <;> simp [badNext, ha]
  case cmp k => cases k <;> simp
  case range sh l r => split <;> decide

/-- the same in R1C1 mode (the stored form): only a REFERENCE glues with a following `:`
    (`R1C1:R2C2` is one range token; a sheet-qualified reference before `:` and a non-reference is
    rejected) — a number or a name before `:` is read back as written -/
theorem C09Lex_colon_glue_r1c1 (cfg : LexCfg) (h : CfgRC cfg) (t : CTok) :
    badNext cfg t ':' = true ↔
      (∃ sh r, t = .ref sh r) ∨ (t = .spill ∧ errSecond cfg.errors ':' = true) := by
  have hi : isIdentChar cfg.cc ':' = false := by
    simp [isIdentChar, h.special_not_alnum ':' (by decide)]
  have hd : ':' ≠ cfg.decimal := by
    rcases h.decimal with e | e <;> rw [e] <;> decide
  cases t <;> simp [badNext, h.rc, hi, hd]
  case cmp k => cases k <;> simp
  case num d => decide

/-! ### the printer's token lists are glue-free, except at the known glue shapes -/

/-- **The printer model never writes two tokens that glue — except before a colon.**
    For EVERY tree (any depth; well-formedness is not needed) and every paren table `T`: the
    concretised token list of `pr T e` consists of well-formed tokens and is glue-free, provided the
    tree has no *glue site* (`Node.noGlue`): an `OpRange` whose left operand is printed without
    parentheses and ends in a token that glues with `:` — by `C09Lex_colon_glue` a number
    (F09-glue-number), a reference (F09-glue-refref, F09-glue-qualified) or a name spelled like a
    column.  In particular it holds for every tree without the range operator
    (`C09Lex_printer_glueFree_norng`). -/
theorem C09Lex_printer_glueFree (cfg : LexCfg) (hcfg : CfgOK cfg) (I : Interp) (hI : InterpOK cfg I)
    (T : Table) (e : Node) (hng : e.noGlue (csOf cfg I) T = true) :
    (∀ t, t ∈ concL I (pr T e) → tokOK cfg t = true) ∧ glueFree cfg (concL I (pr T e)) = true :=
  concL_glueFree cfg hcfg I hI (pr T e) (pr_eseg (csOf cfg I) T e hng).chain

mutual
/-- the tree contains no range operator -/
def Node.noRng : Node → Bool
  | .lit _ _ => true
  | .name _ => true
  | .bin _ a b => a.noRng && b.noRng
  | .neg a => a.noRng
  | .pct a => a.noRng
  | .rng _ _ => false
  | .at a => a.noRng
  | .spill a => a.noRng
  | .call _ as => as.noRng
  | .lam _ body => body.noRng
  | .lamcall _ body as => body.noRng && as.noRng
def Args.noRng : Args → Bool
  | .nil => true
  | .consE r => r.noRng
  | .consN n r => n.noRng && r.noRng
end

mutual
theorem noRng_noGlue (cs : Tok → Bool) (T : Table) : ∀ e : Node, e.noRng = true → e.noGlue cs T = true
  | .lit _ _, _ => rfl
  | .name _, _ => rfl
  | .bin _ a b, h => by
      simp only [Node.noRng, Bool.and_eq_true] at h
      simp [Node.noGlue, noRng_noGlue cs T a h.1, noRng_noGlue cs T b h.2]
  | .neg a, h => by simp only [Node.noRng] at h; simp [Node.noGlue, noRng_noGlue cs T a h]
  | .pct a, h => by simp only [Node.noRng] at h; simp [Node.noGlue, noRng_noGlue cs T a h]
  | .rng _ _, h => by simp [Node.noRng] at h
  | .at a, h => by simp only [Node.noRng] at h; simp [Node.noGlue, noRng_noGlue cs T a h]
  | .spill a, h => by simp only [Node.noRng] at h; simp [Node.noGlue, noRng_noGlue cs T a h]
  | .call _ as, h => by simp only [Node.noRng] at h; simp [Node.noGlue, noRngArgs_noGlue cs T as h]
  | .lam _ body, h => by simp only [Node.noRng] at h; simp [Node.noGlue, noRng_noGlue cs T body h]
  | .lamcall _ body as, h => by
      simp only [Node.noRng, Bool.and_eq_true] at h
      simp [Node.noGlue, noRng_noGlue cs T body h.1, noRngArgs_noGlue cs T as h.2]
theorem noRngArgs_noGlue (cs : Tok → Bool) (T : Table) : ∀ as : Args, as.noRng = true → as.noGlue cs T = true
  | .nil, _ => rfl
  | .consE r, h => by simp only [Args.noRng] at h; simp [Args.noGlue, noRngArgs_noGlue cs T r h]
  | .consN n r, h => by
      simp only [Args.noRng, Bool.and_eq_true] at h
      simp [Args.noGlue, noRng_noGlue cs T n h.1, noRngArgs_noGlue cs T r h.2]
end

/-- the special case asked for: trees without the range operator have no glue site -/
theorem C09Lex_printer_glueFree_norng (cfg : LexCfg) (hcfg : CfgOK cfg) (I : Interp)
    (hI : InterpOK cfg I) (T : Table) (e : Node) (h : e.noRng = true) :
    (∀ t, t ∈ concL I (pr T e) → tokOK cfg t = true) ∧ glueFree cfg (concL I (pr T e)) = true :=
  C09Lex_printer_glueFree cfg hcfg I hI T e (noRng_noGlue _ T e h)

/-- **Lexing the printed text gives the printer's tokens** (characters → tokens, all trees without
    a glue site). -/
theorem C09Lex_print_lex (cfg : LexCfg) (hcfg : CfgOK cfg) (I : Interp) (hI : InterpOK cfg I)
    (T : Table) (e : Node) (hng : e.noGlue (csOf cfg I) T = true) :
    lex cfg (render cfg (concL I (pr T e))) = concL I (pr T e) := by
  obtain ⟨hok, hg⟩ := C09Lex_printer_glueFree cfg hcfg I hI T e hng
  exact C09Lex_roundtrip cfg hcfg _ hok hg

/-- **Composition: tree → tokens → text → lexer → parser = tree.**  With the token-level round
    trip `C09_roundtrip` (Props/C09.lean): for a well-formed tree without a glue site, a paren
    table satisfying the grammar, and any reading `ab` of concrete tokens back into the parser's
    tokens that inverts the interpretation on this token list, parsing what the LEXER reads in the
    PRINTED TEXT returns the tree and consumes everything. -/
theorem C09Lex_compose (cfg : LexCfg) (hcfg : CfgOK cfg) (I : Interp) (hI : InterpOK cfg I)
    (iv : Nat → Bool) (T : Table) (hT : TableOK T) (e : Node) (hwf : e.wf iv = true)
    (hng : e.noGlue (csOf cfg I) T = true)
    (ab : List CTok → List Tok) (hab : ab (concL I (pr T e)) = pr T e) :
    ∃ f0, ∀ f, f0 ≤ f → P iv f 0 (ab (lex cfg (render cfg (concL I (pr T e))))) = some (e, []) := by
  rw [C09Lex_print_lex cfg hcfg I hI T e hng, hab]
  exact roundtrip_main iv hT e hwf

/-! ### non-vacuity and the known glue shapes (English, `.`) -/

def exA1 : PRef := { column := 1, row := 1, absCol := false, absRow := false }
def exB2 : PRef := { column := 2, row := 2, absCol := true, absRow := true }

def exColL : PRef := { column := 3, row := 1, absCol := false, absRow := true }
def exColR : PRef := { column := 5, row := 1048576, absCol := true, absRow := true }
def exRowL : PRef := { column := 1, row := 4, absCol := true, absRow := false }
def exRowR : PRef := { column := 16384, row := 9, absCol := true, absRow := true }

/-- `SUM(A1,"a""b")<=1.5e-5+'My Sheet'!$B$2%&TRUE#…,C:$E,'My Sheet'!4:$9,A1:$B$2`: every token class -/
def exToks : List CTok :=
  [.ident "SUM".toList, .lp, .ref none exA1, .comma, .str "a\"\"b".toList, .rp, .cmp .le,
   .num "1.5e-5".toList, .add, .ref (some "My Sheet".toList) exB2, .pct, .amp, .bool true, .spill,
   .mul, .err 4, .cmp .lt, .ref none exB2, .pow, .ident "x_1".toList, .colon, .ref (some "S2".toList) exA1, .comma,
   .range none exColL exColR, .comma, .range (some "My Sheet".toList) exRowL exRowR, .comma, .range none exA1 exB2]

example : (exToks.all (tokOK cfgEn) && glueFree cfgEn exToks) = true := by decide +kernel

example : lex cfgEn (render cfgEn exToks) = exToks := by decide +kernel

/-- F09-glue-refref: `A1` `:` `$B$2` is read back as ONE range token -/
theorem C09Lex_glue_refref : glueFree cfgEn [.ref none exA1, .colon, .ref none exB2] = false ∧
    lex cfgEn (render cfgEn [.ref none exA1, .colon, .ref none exB2]) = [.range none exA1 exB2] := by
  decide +kernel

/-- F09-glue-qualified: `S2!A1` `:` `rate` is rejected by the lexer -/
theorem C09Lex_glue_qualified : glueFree cfgEn [.ref (some "S2".toList) exA1, .colon, .ident "rate".toList] = false ∧
    lex cfgEn (render cfgEn [.ref (some "S2".toList) exA1, .colon, .ident "rate".toList]) = [.illegal] := by
  decide +kernel

/-- F09-glue-number: `1` `:` `xvar` is read as a malformed row range in A1 mode -/
theorem C09Lex_glue_number : glueFree cfgEn [.num ['1'], .colon, .ident "xvar".toList] = false ∧
    lex cfgEn (render cfgEn [.num ['1'], .colon, .ident "xvar".toList]) = [.illegal] := by
  decide +kernel

/-- a plain reference before `:` and a non-reference IS read back (the identifier branch falls back
    to the reference): the side condition is sufficient, not necessary -/
example : glueFree cfgEn [.ref none exA1, .colon, .ident "rate".toList] = false ∧
    lex cfgEn (render cfgEn [.ref none exA1, .colon, .ident "rate".toList])
      = [.ref none exA1, .colon, .ident "rate".toList] := by
  decide +kernel

/-- a name spelled like a column before `:` (the same family of glue, not produced by the existing
    generators; F09-glue-colname): `x` `:` `A1` is rejected -/
theorem C09Lex_glue_colname : glueFree cfgEn [.ident ['x'], .colon, .ref none exA1] = false ∧
    lex cfgEn (render cfgEn [.ident ['x'], .colon, .ref none exA1]) = [.illegal] := by
  decide +kernel

/-! ### non-vacuity of the printer theorems: a concrete interpretation (English, `.`, `,`) -/

theorem cfgEn_ok : CfgOK cfgEn := cfgOf_ok 1 (by decide) '.' (Or.inl rfl)

def exRel : PRef := { column := 3, row := 7, absCol := false, absRow := true }

/-- one spelling per literal class; an array literal is ten tokens -/
def exLit : LitClass → List CTok
  | .number => [.num "1.5".toList]
  | .string => [.str "a\"\"b".toList]
  | .error => [.err 4]
  | .ref => [.ref none exA1]
  | .range => [.range none exA1 exRel]
  | .wrongRef => [.ref (some "Ghost".toList) exRel]
  | .wrongRange => [.range (some "My Sheet".toList) exA1 exB2]
  | .array => [.lbrace, .num "1".toList, .comma, .sub, .num "2".toList, .semi, .bool true, .comma,
               .str [], .rbrace]

/-- payload index ↦ token(s) -/
def exI : Interp where
  lit c _ := exLit c
  ident x := if x = 0 then .ident "LAMBDA".toList else if x % 4 = 3 then .bool (x % 8 = 3)
    else if x ≥ 1000 then .ident "SUM".toList else .ident "xvar".toList
  sep := .comma
  cmp k := match k % 6 with | 0 => .lt | 1 => .gt | 2 => .eq | 3 => .le | 4 => .ge | _ => .ne

theorem exI_ok : InterpOK cfgEn exI where
  lit_ok := by
    intro c a
    show ∀ t, t ∈ exLit c → tokOK cfgEn t = true
    cases c <;> decide +kernel
  lit_glue := by
    intro c a
    show glueFree cfgEn (exLit c) = true
    cases c <;> decide +kernel
  lit_ne := by intro c a; show exLit c ≠ []; cases c <;> simp [exLit]
  lit_first := by
    intro c a
    show ∀ ch, (render cfgEn (exLit c)).head? = some ch → ch ≠ '=' ∧ ch ≠ '>'
    have : ∀ c, (match (render cfgEn (exLit c)).head? with
        | some ch => decide (ch ≠ '=') && decide (ch ≠ '>') | none => true) = true := by
      intro c; cases c <;> decide +kernel
    intro ch hch
    have h := this c
    rw [hch] at h
    simpa using h
  lit_last := by
    intro c a
    show ∀ t, (exLit c).getLast? = some t → closeOK cfgEn t = true
    have : ∀ c, (match (exLit c).getLast? with | some t => closeOK cfgEn t | none => true) = true := by
      intro c; cases c <;> decide +kernel
    intro t ht
    have h := this c
    rw [ht] at h
    exact h
  ident_ok := by
    intro x
    simp only [exI]
    split
    · decide +kernel
    · split
      · cases (decide (x % 8 = 3)) <;> rfl
      · split <;> decide +kernel
  ident_kind := by
    intro x
    simp only [exI]
    split
    · exact Or.inl ⟨_, rfl⟩
    · split
      · exact Or.inr ⟨_, rfl⟩
      · split <;> exact Or.inl ⟨_, rfl⟩
  sep_ok := Or.inl ⟨rfl, by decide⟩
  spill_close := by decide +kernel

/-- `-1.5+SUM(,@xvar:xvar,(A1):"a""b",{1,-2;TRUE,""})<=LAMBDA(xvar,[xvar],xvar%)(#N/A)`-like:
    every node kind, a range operator whose left operands are safe before the colon -/
def exTree : Node :=
  .bin (.cmp 3)
    (.bin .add (.neg (.lit .number 0))
      (.call 1000 (.consE (.consN (.rng (.at (.name 4)) (.name 8))
        (.consN (.rng (.lit .string 0) (.lit .ref 0)) (.consN (.lit .array 0) .nil))))))
    (.lamcall [(4, false), (8, true)] (.pct (.name 4)) (.consN (.spill (.lit .error 0)) .nil))

example : exTree.wf (fun x => x % 4 == 0) = true ∧
    exTree.noGlue (csOf cfgEn exI) IronCalc.Generated.parenStringify = true := by decide +kernel

/-- the theorem's conclusion on the example, computed independently -/
example : lex cfgEn (render cfgEn (concL exI (pr IronCalc.Generated.parenStringify exTree)))
    = concL exI (pr IronCalc.Generated.parenStringify exTree) := by decide +kernel

/-- … and a glue site: `(A1):$B$2` is printed `A1:$B$2` (F09-glue-refref) -/
example : (Node.rng (.lit .ref 0) (.lit .wrongRef 0)).noGlue (csOf cfgEn exI)
    IronCalc.Generated.parenStringify = false := by decide +kernel

/-! ## R1C1 mode — the STORED form of every formula (`to_rc_format`, English, `.` and `,`) -/

/-- **One token, R1C1 mode.**  References are `R1C1`, `R[1]C[-2]`, `R[0]C3` … (any `i32` row and
    column, absolute or offset), ranges `R1C1:R[2]C[2]`, unquoted or quoted sheet prefix.
    Identifiers: `identOK` asks for `rcSafe` (not `R`, not `R` followed by a digit). -/
theorem C09Lex_token_r1c1 (cfg : LexCfg) (h : CfgRC cfg) (t : CTok) (rest : List Char)
    (hok : tokOK cfg t = true) (hf : follow cfg t rest = true) :
    nextToken cfg (renderTok cfg t ++ rest) = some (t, rest) :=
  nextToken_renderTok_rc cfg h t rest hok hf

/-- **Lexer round trip in R1C1 mode (all token lists, unbounded length).** -/
theorem C09Lex_roundtrip_r1c1 (cfg : LexCfg) (h : CfgRC cfg) (ts : List CTok)
    (hok : ∀ t, t ∈ ts → tokOK cfg t = true) (hg : glueFree cfg ts = true) :
    lex cfg (render cfg ts) = ts :=
  lex_render_any cfg (Or.inr h) ts hok hg

/-- the hypotheses hold for `Lexer::new(_, LexerMode::R1C1, locale, language)` with the tables
    extracted on this run; the stored form uses `en`/`en` (index 1, `.`) -/
theorem C09Lex_cfg_ok_r1c1 (L : Nat) (hL : L < 5) (dec : Char) (hdec : dec = '.' ∨ dec = ',') :
    CfgRC (cfgOf false dec L) := cfgOf_rc_ok L hL dec hdec

/-- **`to_rc_format` never writes two tokens that glue — except a reference before a colon.**
    Same printer, same paren table as the display form (`stringify` with `context = None`); the
    glue sites of the stored form are the `OpRange`s whose left operand is printed unparenthesised
    and ends in a REFERENCE (`C09Lex_colon_glue_r1c1`: F09-glue-refref, F09-glue-qualified) —
    numbers and names before `:` are safe in R1C1 mode. -/
theorem C09Lex_printer_glueFree_r1c1 (cfg : LexCfg) (hcfg : CfgRC cfg) (I : Interp)
    (hI : InterpOK cfg I) (T : Table) (e : Node) (hng : e.noGlue (csOf cfg I) T = true) :
    (∀ t, t ∈ concL I (pr T e) → tokOK cfg t = true) ∧ glueFree cfg (concL I (pr T e)) = true :=
  concL_glueFree cfg (Or.inr hcfg) I hI (pr T e) (pr_eseg (csOf cfg I) T e hng).chain

theorem C09Lex_print_lex_r1c1 (cfg : LexCfg) (hcfg : CfgRC cfg) (I : Interp) (hI : InterpOK cfg I)
    (T : Table) (e : Node) (hng : e.noGlue (csOf cfg I) T = true) :
    lex cfg (render cfg (concL I (pr T e))) = concL I (pr T e) := by
  obtain ⟨hok, hg⟩ := C09Lex_printer_glueFree_r1c1 cfg hcfg I hI T e hng
  exact C09Lex_roundtrip_r1c1 cfg hcfg _ hok hg

/-- **Composition for the stored form: tree → `to_rc_format` text → R1C1 lexer → parser = tree.** -/
theorem C09Lex_compose_r1c1 (cfg : LexCfg) (hcfg : CfgRC cfg) (I : Interp) (hI : InterpOK cfg I)
    (iv : Nat → Bool) (T : Table) (hT : TableOK T) (e : Node) (hwf : e.wf iv = true)
    (hng : e.noGlue (csOf cfg I) T = true)
    (ab : List CTok → List Tok) (hab : ab (concL I (pr T e)) = pr T e) :
    ∃ f0, ∀ f, f0 ≤ f → P iv f 0 (ab (lex cfg (render cfg (concL I (pr T e))))) = some (e, []) := by
  rw [C09Lex_print_lex_r1c1 cfg hcfg I hI T e hng, hab]
  exact roundtrip_main iv hT e hwf

/-! ### non-vacuity and the glue shapes of the stored form -/

/-- `Lexer::new(_, LexerMode::R1C1, en, en)` -/
def cfgRc : LexCfg := cfgOf false '.' IronCalc.Generated.Names.enIdx

theorem cfgRc_ok : CfgRC cfgRc := cfgOf_rc_ok 1 (by decide) '.' (Or.inl rfl)

def rcAbs : PRef := { column := 1, row := 1, absCol := true, absRow := true }
def rcRel : PRef := { column := -2, row := 0, absCol := false, absRow := false }
def rcMix : PRef := { column := 16384, row := 3, absCol := true, absRow := false }

/-- `SUM(R1C1,"a""b")<=1.5e-5+'My Sheet'!R[3]C16384%&TRUE#*#N/A<R[0]C[-2]^x_1:S2!R1C1,R1C1:R[3]C16384,…` -/
def rcToks : List CTok :=
  [.ident "SUM".toList, .lp, .ref none rcAbs, .comma, .str "a\"\"b".toList, .rp, .cmp .le,
   .num "1.5e-5".toList, .add, .ref (some "My Sheet".toList) rcMix, .pct, .amp, .bool true, .spill,
   .mul, .err 4, .cmp .lt, .ref none rcRel, .pow, .ident "x_1".toList, .colon,
   .ref (some "S2".toList) rcAbs, .comma, .range none rcAbs rcMix, .comma,
   .range (some "My Sheet".toList) rcRel rcAbs, .comma, .num "1".toList, .colon, .ident "ROUND".toList,
   .lp, .ident "x".toList, .colon, .ident "RC".toList, .rp]

example : (rcToks.all (tokOK cfgRc) && glueFree cfgRc rcToks) = true := by decide +kernel

example : lex cfgRc (render cfgRc rcToks) = rcToks := by decide +kernel

/-- F09-glue-refref in the stored form: `R1C1` `:` `R[0]C[-2]` is read back as ONE range token -/
theorem C09Lex_glue_refref_r1c1 :
    glueFree cfgRc [.ref none rcAbs, .colon, .ref none rcRel] = false ∧
    lex cfgRc (render cfgRc [.ref none rcAbs, .colon, .ref none rcRel]) = [.range none rcAbs rcRel] := by
  decide +kernel

/-- F09-glue-qualified in the stored form: `S2!R1C1` `:` `rate` is rejected -/
theorem C09Lex_glue_qualified_r1c1 :
    glueFree cfgRc [.ref (some "S2".toList) rcAbs, .colon, .ident "rate".toList] = false ∧
    lex cfgRc (render cfgRc [.ref (some "S2".toList) rcAbs, .colon, .ident "rate".toList]) = [.illegal] := by
  decide +kernel

/-- numbers and column-like names before `:` do NOT glue in the stored form -/
example : lex cfgRc (render cfgRc [.num ['1'], .colon, .ident ['x'], .colon, .ref none rcAbs])
    = [.num ['1'], .colon, .ident ['x'], .colon, .ref none rcAbs] := by decide +kernel

/-- **F26-r1c-name** (repaired): a name of the form `R<digits>C` is a valid identifier (LAMBDA
    parameter, LET variable, defined name).  In the pinned tree the R1C1 lexer read the stored text
    `R1C+1` as the REFERENCE `R1C1` (consume_reference_r1c1 took `+1` as the column number), so
    `=LET(R1C,5,R1C+1)` became `=LET(R1C,5,$A$1)` after save/load.  After the fix (an unbracketed row
    or column starts with a digit) the text is read back as identifier, plus, number.  Such names
    still fail `tokOK` (`rcSafe` is a sufficient condition): they are outside the theorem, inside the tie. -/
theorem C09Lex_r1c_name_repaired :
    tokOK cfgRc (.ident "R1C".toList) = false ∧
    lex cfgRc (render cfgRc [.ident "R1C".toList, .add, .num ['1']])
      = [.ident "R1C".toList, .add, .num ['1']] := by
  decide +kernel

end IronCalc.Formula
