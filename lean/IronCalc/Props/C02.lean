import IronCalc.User.DiffsProofs
/-
  C02 — Redo re-applies exactly what undo removed; undo/redo is a cursor over the operation list;
  a new operation discards the redo tail.
  Model: User/History.lean (generic machine: models history.rs `History::{push,undo,redo}`,
  common.rs `push_diff_list`/`undo`/`redo`), User/Diffs.lean (concrete attribute operations).
  Helper lemmas: User/HistoryProofs.lean, User/DiffsProofs.lean.  Property theorems only here.
-/
namespace IronCalc.User.C02
open IronCalc.User

variable {W D Op E O : Type}

/-- GENERIC, all command lists, no bound: under the per-operation laws the machine refines the
    abstract specification "a cursor over the list of operations" (`Cur`): `undo` = cursor − 1,
    `redo` = cursor + 1, a recording operation truncates at the cursor and appends; the observable
    workbook always equals the one the specification remembers for the cursor position. -/
theorem cursor_refinement (S : Sys W D Op E) (obs : W → O) (dom : W → Op → Prop)
    (L : Laws S obs dom) (cs : List (Cmd Op)) (s : St W D) (c : Cur Op O)
    (h : Refines S obs s c) (hd : AllDom S dom s cs) :
    Refines S obs (run S s cs) (specRun S obs s c cs) :=
  run_refines S obs dom L cs s c h hd

/-- the stack depths are the cursor and the length of the redo tail (`can_undo`/`can_redo`) -/
theorem depths_match_cursor (S : Sys W D Op E) (obs : W → O) (s : St W D) (c : Cur Op O)
    (h : Refines S obs s c) :
    s.undo.length = c.cursor ∧ s.redo.length = c.undone.length ∧
      canUndo s = decide (0 < c.cursor) ∧ canRedo s = decide (0 < c.undone.length) := by
  have h1 := chainBack_length h.2.1
  have h2 := chainFwd_length h.2.2
  refine ⟨h1, h2, ?_, ?_⟩
  · unfold canUndo Cur.cursor; rw [← h1]; cases s.undo <;> simp
  · unfold canRedo; rw [← h2]; cases s.redo <;> simp

/-- undo and redo never fail on a state reached through operations of the domain -/
theorem undo_redo_never_fail (S : Sys W D Op E) (obs : W → O) (s : St W D) (c : Cur Op O)
    (h : Refines S obs s c) : (undoStep S s).2 = true ∧ (redoStep S s).2 = true :=
  undo_redo_ok S obs s c h

/-- after `k` undos, `j ≤ k` redos reproduce, step by step, the observable states that followed
    the original operations: the state is the one remembered `k - j` operations back -/
theorem redo_after_undo_k (S : Sys W D Op E) (obs : W → O) (dom : W → Op → Prop)
    (L : Laws S obs dom) (s : St W D) (c : Cur Op O) (h : Refines S obs s c)
    (k j : Nat) (hj : j ≤ k) (hk : k ≤ c.done.length) :
    obs (run S s (List.replicate k Cmd.undo ++ List.replicate j Cmd.redo)).w
      = curOf c.base (c.done.drop (k - j)) := by
  have hd : AllDom S dom s (List.replicate k Cmd.undo ++ List.replicate j Cmd.redo) :=
    (allDom_append S dom _ _ s).2 ⟨allDom_undos S dom k s, allDom_redos S dom j _⟩
  have hr := run_refines S obs dom L _ s c h hd
  rw [specRun_append, specRun_undos, specRun_redos, Cur.redoN_undoN k j c hj hk] at hr
  have hu := Cur.undoN_done (k - j) c (by omega)
  rw [hr.1, Cur.cur, hu.1, hu.2.1]

/-- in particular `k` undos followed by `k` redos restore the observable state -/
theorem redo_all_restores (S : Sys W D Op E) (obs : W → O) (dom : W → Op → Prop)
    (L : Laws S obs dom) (s : St W D) (c : Cur Op O) (h : Refines S obs s c)
    (k : Nat) (hk : k ≤ c.done.length) :
    obs (run S s (List.replicate k Cmd.undo ++ List.replicate k Cmd.redo)).w = obs s.w := by
  rw [redo_after_undo_k S obs dom L s c h k k (Nat.le_refl k) hk, h.1]
  simp [Cur.cur]

/-- a new recording operation discards the redo stack (`History::push`), whatever the laws -/
theorem new_op_discards_redo (S : Sys W D Op E) (s : St W D) (o : Op) (ds : List D)
    (hp : (S.doOp s.w o).pushed = some ds) :
    (step S s (Cmd.op o)).1.redo = [] ∧ canRedo (step S s (Cmd.op o)).1 = false ∧
      (step S s (Cmd.op o)).1.undo = ds :: s.undo := by
  simp [step, doUser, hp, pushDiffList, canRedo]

/-- … and the specification agrees: the undone tail is dropped -/
theorem new_op_truncates_spec (S : Sys W D Op E) (obs : W → O) (s : St W D) (c : Cur Op O)
    (o : Op) (ds : List D) (herr : (S.doOp s.w o).err = none)
    (hp : (S.doOp s.w o).pushed = some ds) :
    (specStep S obs s c (Cmd.op o)).undone = [] ∧
      (specStep S obs s c (Cmd.op o)).done = (o, obs (S.doOp s.w o).w) :: c.done := by
  simp [specStep, herr, hp, Cur.doOp]

/-- CONCRETE: the attribute-operation model satisfies the laws on the decidable domain `dom`, so
    every history over it (any interleaving of operations of the domain, undo, redo, flush, any
    length) behaves like the cursor specification.  `obs` is the identity: the whole modelled
    workbook state is compared. -/
theorem C02_partial (env : Env) (cs : List (Cmd User.Op))
    (hd : AllDom (sys env) (fun b o => dom env b o = true) St.init cs) :
    Refines (sys env) (fun w => w) (run (sys env) St.init cs)
      (specRun (sys env) (fun w => w) St.init ⟨Book.init, [], []⟩ cs) :=
  run_refines (sys env) (fun w => w) _ (laws env) cs St.init ⟨Book.init, [], []⟩
    (refines_init (sys env) (fun w => w) Book.init [] []) hd

/-! non-vacuity: a concrete history inside the domain, with its cursor movements -/

def envEx : Env :=
  { validTz := fun s => s == "UTC" || s == "Europe/Berlin",
    validLocale := fun s => s == "en" || s == "de", upper := String.toUpper }

def histEx : List (Cmd User.Op) :=
  [.op (.setTimezone "Europe/Berlin"), .op (.setColumnsWidth 0 2 4 120), .op (.setFrozenRows 0 3),
   .undo, .undo, .redo, .op (.hideSheet 0), .redo]

example : AllDom (sys envEx) (fun b o => dom envEx b o = true) St.init histEx :=
  allDomB_spec envEx histEx St.init (by decide)
example : (run (sys envEx) St.init histEx).undo.length = 3 ∧
    (run (sys envEx) St.init histEx).redo.length = 0 := by decide
example : ((run (sys envEx) St.init histEx).w.sheets.map fun s => ((s.colAt 3).width, s.frozenRows, s.state))
    = [(120, 0, SheetState.hidden)] := by decide
example : (specRun (sys envEx) (fun w => w) St.init ⟨Book.init, [], []⟩ histEx).cursor = 3 := by
  decide

/-- a second history with the sheet-list operations (identity as case folding so that the kernel
    can evaluate the name comparisons) -/
def envId : Env :=
  { validTz := fun s => s == "UTC", validLocale := fun s => s == "en", upper := fun s => s }

def histSheets : List (Cmd User.Op) :=
  [.op .newSheet, .op (.renameSheet 1 "Data"), .op (.deleteSheet 0), .undo, .undo, .redo,
   .op (.setSheetColor 1 "#FF0000"), .undo, .undo, .undo]

example : allDomB envId St.init histSheets = true := by decide
example : ((run (sys envId) St.init histSheets).w.sheets.map fun s => (s.name, s.id))
    = [("Sheet1", 1)] := by decide
example : (run (sys envId) St.init histSheets).redo.length = 3 := by decide

end IronCalc.User.C02
