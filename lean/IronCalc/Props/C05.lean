import IronCalc.Eval.MemoProofs
/-
  C05 — Every formula value is consistent with its inputs; #CIRC! exactly on cycles.
  Property theorems only.  Model: Eval/Memo.lean (models base/src/model.rs::evaluate_cell,
  evaluate_node_in_context, phase 2 of evaluate).  Helper lemmas: Eval/MemoProofs.lean.

  `Consistent ops wb s`: every formula cell is marked Evaluated and its stored value is
  `store (pureEval (lookup wb s) e)`, i.e. what its formula produces over the values shown by
  the cells of the workbook (`pureEval` is the SAME evaluator run without memo state).
  `s.hits` lists the cells whose value was demanded while they were being evaluated
  (the cells "whose evaluation depends on their own value").
-/
namespace IronCalc.Memo

variable {N : Type}

/-- the recursion never runs out of fuel: `order.length + 1` bounds the depth of the stack -/
theorem evaluateAll_fuel_ok (ops : NumOps N) (wb : Coord → Cell N) (order : List Coord)
    (old : Coord → Val N) (hcov : Covers wb order) :
    (evaluateAll ops wb order old).oof = false :=
  evaluateFrom_fuel_ok ops wb order hcov (order.length + 1) (Nat.lt_succ_self _) order _ rfl

/-- if no read ever found a cell `Evaluating` (no dynamic cycle), every formula cell holds
    exactly the value of its formula over the final values — whatever functions it uses,
    error-trapping ones included -/
theorem memo_consistent_acyclic (ops : NumOps N) (wb : Coord → Cell N) (order : List Coord)
    (old : Coord → Val N) (hcov : Covers wb order)
    (hno : (evaluateAll ops wb order old).hits = []) :
    Consistent ops wb (evaluateAll ops wb order old) :=
  (evaluateFrom_consistent ops wb _ order old hcov
    ⟨evaluateAll_fuel_ok ops wb order old hcov, Or.inr hno⟩).1

/-- with cycles: if no formula uses an error-trapping function (`AllStrict`), every formula
    cell is consistent, and every cell whose own value was demanded during its evaluation
    (every cell on a dynamic cycle) holds `#CIRC!` -/
theorem memo_consistent_strict (ops : NumOps N) (wb : Coord → Cell N) (order : List Coord)
    (old : Coord → Val N) (hcov : Covers wb order) (hs : AllStrict wb) :
    Consistent ops wb (evaluateAll ops wb order old) ∧
    ∀ x, x ∈ (evaluateAll ops wb order old).hits →
      (evaluateAll ops wb order old).val x = .err .circ := by
  obtain ⟨hc, hg⟩ := evaluateFrom_consistent ops wb _ order old hcov
    ⟨evaluateAll_fuel_ok ops wb order old hcov, Or.inl hs⟩
  refine ⟨hc, fun x hx => ?_⟩
  -- a hit cell is a formula cell, hence evaluated at the end
  have hm : (evaluateAll ops wb order old).mark x = some .evaluated := by
    have hgood := (evaluateFrom_spec ops wb (order.length + 1) order _ (good_fresh ops wb old).1
      (good_fresh ops wb old).2 ⟨evaluateAll_fuel_ok ops wb order old hcov, Or.inl hs⟩).1
    have hne := hgood.hm x hx
    have hnev := NoEval.step (evaluateFrom_ext ops wb (order.length + 1) order (St.fresh old))
      (good_fresh ops wb old).2 x
    cases hmx : (evaluateFrom ops wb (order.length + 1) order (St.fresh old)).mark x with
    | none => exact absurd hmx hne
    | some m =>
      cases m with
      | evaluating => exact absurd hmx hnev
      | evaluated => exact hmx
  exact hg x hx hm

/-- the full statement of the property on the model: consistency for EVERY workbook -/
def C05_full : Prop :=
  ∀ (wb : Coord → Cell Int) (order : List Coord), Covers wb order →
    Consistent intOps wb (evaluateAll intOps wb order (fun _ => .empty))

/-- F05a: A1 = IFERROR(B1,5), B1 = A1 -/
def wbF05a : Coord → Cell Int
  | 0 => .formula (.iferror (.ref 1) (.lit (.num 5)))
  | 1 => .formula (.ref 0)
  | _ => .empty

/-- the faithful model gives A1 = 5 and B1 = #CIRC!: B1 = A1 is not consistent, and A1 is on a
    cycle without showing #CIRC!  (the real engine does the same: finding F05a) -/
theorem C05_full_false : ¬ C05_full := by
  intro h
  have hcov : Covers wbF05a [0, 1] := by
    intro c e hw
    match c with
    | 0 => simp
    | 1 => simp
    | n + 2 => simp [wbF05a] at hw
  have h1 := (h wbF05a [0, 1] hcov 1 (.ref 0) rfl).2
  revert h1
  decide

/-- the strongest true statement: on the decidable domain "no formula traps errors, or the
    evaluation met no cycle", every formula cell is consistent and every cell on a (dynamic)
    cycle shows #CIRC! -/
theorem C05_partial (ops : NumOps N) (wb : Coord → Cell N) (order : List Coord)
    (old : Coord → Val N) (hcov : Covers wb order)
    (hdom : AllStrict wb ∨ (evaluateAll ops wb order old).hits = []) :
    Consistent ops wb (evaluateAll ops wb order old) ∧
    ∀ x, x ∈ (evaluateAll ops wb order old).hits →
      (evaluateAll ops wb order old).val x = .err .circ := by
  rcases hdom with hs | hno
  · exact memo_consistent_strict ops wb order old hcov hs
  · exact ⟨memo_consistent_acyclic ops wb order old hcov hno, fun x hx => by rw [hno] at hx; cases hx⟩

/-! ### the hypotheses are met by non-trivial states -/

/-- A1 = B1+1, B1 = C1+1, C1 = A1+1 (a 3-cycle), D1 = 7, E1 = IF(D1, D1*2, A1) (lazy: never
    reads A1), F1 = SUM(D1:E1) -/
def wbEx : Coord → Cell Int
  | 0 => .formula (.bin .add (.ref 1) (.lit (.num 1)))
  | 1 => .formula (.bin .add (.ref 2) (.lit (.num 1)))
  | 2 => .formula (.bin .add (.ref 0) (.lit (.num 1)))
  | 3 => .plain (.num 7)
  | 4 => .formula (.iff (.ref 3) (.bin .mul (.ref 3) (.lit (.num 2))) (.ref 0))
  | 5 => .formula (.sum [3, 4])
  | _ => .empty

theorem wbEx_covers : Covers wbEx [0, 1, 2, 3, 4, 5] := by
  intro c e hw
  match c with
  | 0 | 1 | 2 | 3 | 4 | 5 => simp
  | n + 6 => simp [wbEx] at hw

theorem wbEx_strict : AllStrict wbEx := by
  intro c e hw
  match c with
  | 0 | 1 | 2 | 4 | 5 => simp [wbEx] at hw; subst hw; rfl
  | 3 => simp [wbEx] at hw
  | n + 6 => simp [wbEx] at hw

example : (evaluateAll intOps wbEx [0, 1, 2, 3, 4, 5] (fun _ => .empty)).hits = [0] ∧
    (evaluateAll intOps wbEx [0, 1, 2, 3, 4, 5] (fun _ => .empty)).val 0 = .err .circ ∧
    (evaluateAll intOps wbEx [0, 1, 2, 3, 4, 5] (fun _ => .empty)).val 2 = .err .circ ∧
    (evaluateAll intOps wbEx [0, 1, 2, 3, 4, 5] (fun _ => .empty)).val 4 = .num 14 ∧
    (evaluateAll intOps wbEx [0, 1, 2, 3, 4, 5] (fun _ => .empty)).val 5 = .num 21 := by decide

example : Consistent intOps wbEx (evaluateAll intOps wbEx [0, 1, 2, 3, 4, 5] (fun _ => .empty)) :=
  (memo_consistent_strict intOps wbEx _ _ wbEx_covers wbEx_strict).1

/-- acyclic but error-trapping: A1 = IFERROR(B1/C1, -1), B1 = 6, C1 = 0 -/
def wbEx2 : Coord → Cell Int
  | 0 => .formula (.iferror (.bin .div (.ref 1) (.ref 2)) (.lit (.num (-1))))
  | 1 => .plain (.num 6)
  | 2 => .plain (.num 0)
  | _ => .empty

example : (evaluateAll intOps wbEx2 [0, 1, 2] (fun _ => .empty)).hits = [] ∧
    (evaluateAll intOps wbEx2 [0, 1, 2] (fun _ => .empty)).val 0 = .num (-1) := by decide

end IronCalc.Memo
