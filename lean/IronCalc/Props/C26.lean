import IronCalc.Book.Reload
import IronCalc.Generated.ParenStringify
import IronCalc.Props.C09
/-
  C26 — Saving to and loading from the internal binary format is lossless.
  Property theorems only. Model: Book/Reload.lean (the re-parse of stored formula texts on load);
  the derive-generated structure codec (bitcode) is trusted and exercised by the tie.
-/
namespace IronCalc.Book
open IronCalc.Formula

/-- **Reload, for any paren table**: every cell whose formula is well-formed and avoids the
    table's failing entries is read back exactly (content, style, position), for every workbook
    size. -/
theorem C26_reload (iv : Nat → Bool) (T : Table) (cs : List Cell)
    (h : ∀ c ∈ cs, c.content.ok iv T) :
    ∃ f0, ∀ f, f0 ≤ f → loadAll iv f (cs.map (saveCell T)) = some cs :=
  reload_cells iv T cs h

/-- **Reload with the code's own printer** (the table re-extracted on every run). The failing
    entries of that table are pinned by `C09_stringify_table_failures`, so the only formulas
    excluded are the known `1+(2+3)` shapes. -/
theorem C26_reload_stringify (iv : Nat → Bool) (cs : List Cell)
    (h : ∀ c ∈ cs, c.content.ok iv IronCalc.Generated.parenStringify) :
    ∃ f0, ∀ f, f0 ≤ f →
      loadAll iv f (cs.map (saveCell IronCalc.Generated.parenStringify)) = some cs :=
  reload_cells iv _ cs h

/-- the excluded shapes really change on reload: `1+(2+3)` is read back as `(1+2)+3` -/
theorem C26_known_exception :
    loadContent (fun _ => true) 60
      (saveContent IronCalc.Generated.parenStringify
        (.formula (Node.bin .add (Node.lit .number 1) (Node.bin .add (Node.lit .number 2) (Node.lit .number 3)))))
      = some (.formula (Node.bin .add (Node.bin .add (Node.lit .number 1) (Node.lit .number 2)) (Node.lit .number 3))) := by
  rfl

/-- non-vacuity: a two-cell workbook with a formula mixing levels meets the hypothesis -/
example : ∀ c ∈ [({ sheet := 0, row := 1, col := 1, style := 0, content := .plain 7 } : Cell),
      { sheet := 0, row := 2, col := 1, style := 3,
        content := .formula (Node.pct (Node.bin .add (Node.lit .number 1) (Node.lit .ref 2))) }],
    c.content.ok (fun _ => true) IronCalc.Generated.parenStringify := by
  intro c hc
  simp at hc
  rcases hc with rfl | rfl
  · trivial
  · exact ⟨by decide, by decide⟩

end IronCalc.Book
