import IronCalc.Eval.SpillProofs
/-
  C31 — Dynamic-array spills are exact and never stale.
  Property theorems only.  Model: Eval/Spill.lean (models set_cells_with_result, the pre-clear of
  evaluate_cell, reset_dynamic_array_spills, prepare_cell_for_user_input in base/src/model.rs).
  Helper lemmas: Eval/SpillProofs.lean.
-/
namespace IronCalc.Spill

variable {V : Type}

/-- re-evaluating a dynamic anchor (pre-clear + write, any result) preserves the invariant -/
theorem evalDyn_inv (B : Bounds) (vals : Vals V) (g : Grid V) (r c : Nat) (res : Result V)
    (hinv : SpillInv B g) : SpillInv B (evalDyn B vals g r c res) := by
  unfold evalDyn
  split
  · rename_i w h v ha
    exact writeDyn_inv B vals _ r c res (clearOwn_inv B g r c w h v hinv ha)
  · exact hinv

/-- `reset_dynamic_array_spills` preserves the invariant -/
theorem resetSpills_preserves (B : Bounds) (unev : V) (anchors : List (Nat × Nat)) (g : Grid V)
    (hinv : SpillInv B g) : SpillInv B (resetSpills unev g anchors) :=
  resetSpills_inv B unev anchors g hinv

/-- a user edit of one cell (`prepare_cell_for_user_input` + the write) preserves the invariant,
    whatever the cell was: ordinary, dynamic anchor (its spill is removed), spilled cell of a
    dynamic array (the array collapses to its anchor), 1×1 CSE anchor; it is refused inside a
    CSE array -/
theorem userSet_inv (B : Bounds) (unev : V) (g g' : Grid V) (r c : Nat) (x : GCell V)
    (hinv : SpillInv B g) (hpos : r ≤ B.maxR ∧ c ≤ B.maxC) (hx : Simple x)
    (h : userSet unev g r c x = some g') : SpillInv B g' := by
  unfold userSet at h
  cases hp : prepareInput unev g r c with
  | none => rw [hp] at h; cases h
  | some g1 =>
    rw [hp] at h
    simp only [Option.map_some, Option.some.injEq] at h
    subst h
    unfold prepareInput at hp
    cases hg : g r c with
    | empty =>
      simp only [hg, Option.some.injEq] at hp; subst hp
      exact set_simple_inv B g r c x hinv hpos hx (by intro _ _ _ h; rw [hg] at h; cases h)
        (by intro i j v hs
            obtain ⟨_, _, _, _, hanc, _, _⟩ := hinv.spillOk i j r c v hs
            rw [hg] at hanc; cases hanc)
    | plain v0 =>
      simp only [hg, Option.some.injEq] at hp; subst hp
      exact set_simple_inv B g r c x hinv hpos hx (by intro _ _ _ h; rw [hg] at h; cases h)
        (by intro i j v hs
            obtain ⟨_, _, _, _, hanc, _, _⟩ := hinv.spillOk i j r c v hs
            rw [hg] at hanc; cases hanc)
    | formula v0 =>
      simp only [hg, Option.some.injEq] at hp; subst hp
      exact set_simple_inv B g r c x hinv hpos hx (by intro _ _ _ h; rw [hg] at h; cases h)
        (by intro i j v hs
            obtain ⟨_, _, _, _, hanc, _, _⟩ := hinv.spillOk i j r c v hs
            rw [hg] at hanc; cases hanc)
    | anchor k w h v0 =>
      cases k with
      | cse =>
        simp only [hg] at hp
        split at hp
        · cases hp
        · rename_i hwh
          simp only [Option.some.injEq] at hp; subst hp
          exact set_simple_inv B g r c x hinv hpos hx (by intro _ _ _ h; rw [hg] at h; cases h)
            (by intro i j v hs
                obtain ⟨_, w', h', _, hanc, hin, hne⟩ := hinv.spillOk i j r c v hs
                rw [hg] at hanc; cases hanc
                unfold inBlock at hin
                exact hne ⟨by omega, by omega⟩)
      | dyn =>
        simp only [hg, Option.some.injEq] at hp; subst hp
        obtain ⟨hi, hn⟩ := clearWhole_inv B g r c w h v0 hinv hg
        obtain ⟨_, d2, _, _, _⟩ := hinv.dynOk r c w h v0 hg
        have hself : inBlock r c h w r c := by unfold inBlock; omega
        exact set_simple_inv B _ r c x hi hpos hx
          (by intro _ _ _ h; simp [hself] at h) hn
    | spill ar ac v0 =>
      simp only [hg] at hp
      obtain ⟨k, w, h, v1, hanc, hin, hne⟩ := hinv.spillOk r c ar ac v0 hg
      rw [hanc] at hp
      cases k with
      | cse => cases hp
      | dyn =>
        simp only [Option.some.injEq] at hp; subst hp
        have hres := resetOne_inv B unev g ar ac hinv
        have heq : resetOne unev g ar ac =
            set (clearBlockExceptCorner g ar ac w h) ar ac (.anchor .dyn 1 1 unev) := by
          simp only [resetOne, hanc]
        rw [heq] at hres
        have hrc : ¬(r = ar ∧ c = ac) := hne
        refine set_simple_inv B _ r c x hres hpos hx ?_ ?_
        · intro _ _ _ h
          simp [set, hrc, clearBlockExceptCorner, hin] at h
        · intro i j v hs
          obtain ⟨_, _, _, _, hanc2, _, _⟩ := hres.spillOk i j r c v hs
          simp [set, hrc, clearBlockExceptCorner, hin] at hanc2

/-- EXACTNESS.  Re-evaluating the dynamic anchor at (r,c) with an `m`×`n` array result: either
    the block is free and inside the grid, and then exactly that block is written — the anchor
    holds element (0,0) and records the size, every other cell of the block is a spill cell of
    this anchor holding the corresponding element, and every cell outside the block is what it
    was after the anchor's old spill was removed — or the block is blocked / leaves the grid,
    and then the anchor shows #SPILL! with size 1×1, nothing else changes and no spill cell of
    this anchor exists. -/
theorem write_exact (B : Bounds) (vals : Vals V) (g : Grid V) (r c w0 h0 : Nat) (v0 : V)
    (a : Arr V) (hinv : SpillInv B g) (ha : g r c = .anchor .dyn w0 h0 v0)
    (hsz : 1 ≤ a.h ∧ 1 ≤ a.w) :
    let g0 := clearOwn g r c w0 h0
    let g' := evalDyn B vals g r c (.array a)
    let bad := outOfGrid B r c a.h a.w = true ∨ blocked g0 r c a.h a.w = true
    (¬ bad ∧
      g' r c = .anchor .dyn a.w a.h (a.get 0 0) ∧
      (∀ i j, inBlock r c a.h a.w i j → ¬(i = r ∧ j = c) → g' i j = .spill r c (a.get (i - r) (j - c))) ∧
      (∀ i j, ¬ inBlock r c a.h a.w i j → g' i j = g0 i j))
    ∨
    (bad ∧
      g' r c = .anchor .dyn 1 1 vals.spillErr ∧
      (∀ i j, ¬(i = r ∧ j = c) → g' i j = g0 i j) ∧
      (∀ i j v, g' i j ≠ .spill r c v)) := by
  intro g0 g' bad
  have hg' : g' = writeDyn B vals g0 r c (.array a) := by
    exact evalDyn_dyn B vals g r c w0 h0 v0 _ ha
  have hz : ¬(a.h = 0 ∨ a.w = 0) := by omega
  have hex := clearOwn_inv B g r c w0 h0 v0 hinv ha
  by_cases hb : bad
  · right
    have heq : g' = set g0 r c (.anchor .dyn 1 1 vals.spillErr) := by
      rw [hg']; simp only [writeDyn, hz, if_false]; rw [if_pos hb]
    refine ⟨hb, by rw [heq]; simp [set], ?_, ?_⟩
    · intro i j hne; rw [heq]; simp [set, hne]
    · intro i j v hs
      rw [heq] at hs
      by_cases hij : i = r ∧ j = c
      · simp [set, hij] at hs
      · simp only [set, hij, if_false] at hs
        exact hex.noOwn i j v hs
  · left
    have heq : g' = fun i j =>
        if inBlock r c a.h a.w i j then
          if i = r ∧ j = c then .anchor .dyn a.w a.h (a.get 0 0)
          else .spill r c (a.get (i - r) (j - c))
        else g0 i j := by
      rw [hg']; simp only [writeDyn, hz, if_false]; rw [if_neg hb]
    have hself : inBlock r c a.h a.w r c := by unfold inBlock; omega
    refine ⟨hb, by rw [heq]; simp [hself], ?_, ?_⟩
    · intro i j hin hne; rw [heq]; simp [hin, hne]
    · intro i j hnin; rw [heq]; simp [hnin]

/-- the #SPILL! outcome happens exactly when a cell of the block holds other content (anything
    but an empty cell or this anchor's own old spill) or the block leaves the grid -/
theorem spill_error_iff (B : Bounds) (g0 : Grid V) (r c : Nat) (a : Arr V) :
    (outOfGrid B r c a.h a.w = true ∨ blocked g0 r c a.h a.w = true) ↔
    (r + a.h - 1 > B.maxR ∨ c + a.w - 1 > B.maxC ∨
      ∃ i j, inBlock r c a.h a.w i j ∧ ¬(i = r ∧ j = c) ∧ blockingCell r c (g0 i j) = true) := by
  constructor
  · intro h
    rcases h with h | h
    · simp only [outOfGrid, Bool.or_eq_true, decide_eq_true_eq] at h
      rcases h with h | h
      · left; exact h
      · right; left; exact h
    · obtain ⟨di, dj, h1, h2, h3, h4⟩ := blocked_true_spec g0 r c a.h a.w h
      right; right
      refine ⟨r + di, c + dj, by unfold inBlock; omega, by omega, h4⟩
  · intro h
    rcases h with h | h | ⟨i, j, hin, hne, hb⟩
    · left; simp [outOfGrid, h]
    · left; simp [outOfGrid, h]
    · right
      cases hbl : blocked g0 r c a.h a.w with
      | true => rfl
      | false =>
        obtain ⟨di, dj, h1, h2, h3, h4⟩ := inBlock_offsets hin
        subst h3; subst h4
        have := blocked_false_spec g0 r c a.h a.w hbl di dj h1 h2 (by omega)
        rw [this] at hb; cases hb

/-- spills never overwrite user content: a cell that holds a value, a formula, another anchor
    or another array's spill cell is the same after the anchor at (r,c) was re-evaluated -/
theorem never_overwrites_user_content (B : Bounds) (vals : Vals V) (g : Grid V) (r c : Nat)
    (res : Result V) (_hinv : SpillInv B g) (i j : Nat) (hne : ¬(i = r ∧ j = c))
    (huser : blockingCell r c (g i j) = true) :
    evalDyn B vals g r c res i j = g i j := by
  by_cases hd : ∃ w0 h0 v0, g r c = .anchor .dyn w0 h0 v0
  · obtain ⟨w0, h0, v0, ha⟩ := hd
    rw [evalDyn_dyn B vals g r c w0 h0 v0 res ha]
    have hc : clearOwn g r c w0 h0 i j = g i j := by
      unfold clearOwn
      have : isOwnSpill r c (g i j) = false := by
        cases hg : g i j with
        | spill ar ac v =>
          rw [hg] at huser
          simp only [blockingCell, Bool.not_eq_true'] at huser
          simpa [isOwnSpill] using huser
        | _ => rfl
      simp [this]
    cases res with
    | scalar v => simp [writeDyn, set, hne, hc]
    | array a =>
      by_cases hz : a.h = 0 ∨ a.w = 0
      · simp only [writeDyn, hz, if_true, set, hne, if_false]; exact hc
      · by_cases hb : outOfGrid B r c a.h a.w = true ∨ blocked (clearOwn g r c w0 h0) r c a.h a.w = true
        · simp only [writeDyn, hz, if_false]; rw [if_pos hb]; simp only [set, hne, if_false]; exact hc
        · simp only [writeDyn, hz, if_false]; rw [if_neg hb]
          have hbl : blocked (clearOwn g r c w0 h0) r c a.h a.w = false := by
            cases h : blocked (clearOwn g r c w0 h0) r c a.h a.w with
            | false => rfl
            | true => exact absurd (Or.inr h) hb
          have hnin : ¬ inBlock r c a.h a.w i j := by
            intro hin
            obtain ⟨di, dj, h1, h2, h3, h4⟩ := inBlock_offsets hin
            subst h3; subst h4
            have := blocked_false_spec _ r c a.h a.w hbl di dj h1 h2 (by omega)
            rw [hc, huser] at this; cases this
          simp only [hnin, if_false]; exact hc
  · rw [evalDyn_other B vals g r c res (fun w h v hh => hd ⟨w, h, v, hh⟩)]

/-- NEVER STALE: after any re-evaluation of the anchor at (r,c), every spill cell in the sheet
    lies inside the block that its anchor currently records, and the block of every dynamic
    anchor is filled with its spill cells — in particular no cell outside the current result
    of (r,c) still carries a value spilled by (r,c) -/
theorem no_stale (B : Bounds) (vals : Vals V) (g : Grid V) (r c : Nat) (res : Result V)
    (hinv : SpillInv B g) (i j ar ac : Nat) (v : V)
    (hs : evalDyn B vals g r c res i j = .spill ar ac v) :
    ∃ k w h v', evalDyn B vals g r c res ar ac = .anchor k w h v' ∧ inBlock ar ac h w i j :=
  let ⟨k, w, h, v', h1, h2, _⟩ := (evalDyn_inv B vals g r c res hinv).spillOk i j ar ac v hs
  ⟨k, w, h, v', h1, h2⟩

def bEx0 : Bounds := ⟨1048576, 16384⟩
def valsEx0 : Vals Nat := ⟨1001, 1002⟩

/-! ### the full statement fails across one evaluation pass (finding F31a) -/

/-- the full statement for a pass over two anchors: an anchor that shows #SPILL! after the pass
    has a blocked (or out-of-grid) block in the sheet as it is after the pass -/
def C31_full : Prop :=
  ∀ (g : Grid Nat), SpillInv bEx0 g → ∀ (r c r' c' : Nat) (a : Arr Nat) (res' : Result Nat),
    1 ≤ a.h → 1 ≤ a.w →
    let g' := evalDyn bEx0 valsEx0 (evalDyn bEx0 valsEx0 g r c (.array a)) r' c' res'
    g' r c = .anchor .dyn 1 1 valsEx0.spillErr →
    (outOfGrid bEx0 r c a.h a.w = true ∨ blocked g' r c a.h a.w = true)

/-- C1 and B2 hold dynamic formulas -/
def gW0 : Grid Nat := set (set (fun _ _ => .empty) 2 2 (.anchor .dyn 1 1 0)) 1 3 (.anchor .dyn 1 1 0)

theorem gW0_inv : SpillInv bEx0 gW0 := by
  have h0 : SpillInv bEx0 (fun _ _ => (GCell.empty : GCell Nat)) :=
    ⟨fun _ _ _ _ _ h => (by cases h), fun _ _ _ _ _ h => (by cases h)⟩
  have h1 := set_simple_inv bEx0 _ 2 2 (.anchor .dyn 1 1 0) h0 (by decide)
    (Or.inr (Or.inr (Or.inr ⟨0, rfl⟩))) (fun _ _ _ h => (by cases h)) (fun _ _ _ h => (by cases h))
  exact set_simple_inv bEx0 _ 1 3 (.anchor .dyn 1 1 0) h1 (by decide)
    (Or.inr (Or.inr (Or.inr ⟨0, rfl⟩))) (fun _ _ _ h => by simp [set] at h)
    (fun i j v h => by
      simp only [set] at h
      split at h
      · cases h
      · cases h)

/-- the sheet after a first evaluation in which B2 spilled into C2 -/
def gW : Grid Nat := evalDyn bEx0 valsEx0 gW0 2 2 (.array ⟨1, 2, fun _ _ => 0⟩)

/-- F31a.  C1 (evaluated first, natural order) wants C1:C3 and finds B2's old spill in C2, so it
    shows #SPILL!; B2 is evaluated next, now yields a single value and frees C2.  After the pass
    C1 shows #SPILL! although nothing blocks it.  (The real engine does the same.) -/
theorem C31_full_false : ¬ C31_full := by
  intro h
  have hinv : SpillInv bEx0 gW := evalDyn_inv bEx0 valsEx0 gW0 2 2 _ gW0_inv
  have := h gW hinv 1 3 2 2 ⟨3, 1, fun _ _ => 0⟩ (.scalar 0) (by decide) (by decide) (by decide)
  revert this
  decide

/-! ### fixed-range (CSE) arrays break the invariant (finding F31b) -/

/-- the full statement for the CSE writer: evaluating a fixed-range array keeps the invariant -/
def C31_cse_full : Prop :=
  ∀ (g : Grid Nat) (r c : Nat) (v : Nat), SpillInv bEx0 g → SpillInv bEx0 (evalCse g r c v)

/-- A1:B2 is a (not yet evaluated) CSE array; a dynamic formula was then typed into B2 -/
def gC0 : Grid Nat :=
  set (set (set (set (fun _ _ => .empty) 1 1 (.anchor .cse 2 2 0)) 1 2 (.plain 0)) 2 1 (.plain 0))
    2 2 (.anchor .dyn 1 1 0)

theorem gC0_inv : SpillInv bEx0 gC0 := by
  refine ⟨?_, ?_⟩
  · intro i j ar ac v h
    simp only [gC0, set] at h
    repeat (split at h; · cases h)
    cases h
  · intro r c w h v ha
    simp only [gC0, set] at ha
    split at ha
    · rename_i hrc
      cases ha
      refine ⟨Nat.le_refl _, Nat.le_refl _, by rw [hrc.1]; decide, by rw [hrc.2]; decide, ?_⟩
      intro i j hin hne
      unfold inBlock at hin
      exact absurd ⟨by omega, by omega⟩ hne
    · repeat (split at ha; · cases ha)
      cases ha

/-- F31b.  B2 (dynamic, evaluated in phase 1) spills into B3; the CSE array A1:B2 (phase 2) then
    overwrites B2: B3 stays behind as a spill cell of a cell that is no array formula.  (The real
    engine does the same when the two formulas are entered without an evaluation in between.) -/
theorem C31_cse_full_false : ¬ C31_cse_full := by
  intro h
  have hinv : SpillInv bEx0 (evalDyn bEx0 valsEx0 gC0 2 2 (.array ⟨2, 1, fun _ _ => 0⟩)) :=
    evalDyn_inv bEx0 valsEx0 gC0 2 2 _ gC0_inv
  have h2 := (h _ 1 1 0 hinv).spillOk 3 2 2 2 0 (by decide)
  obtain ⟨k, w, h', v', hanc, _, _⟩ := h2
  have hcell : evalCse (evalDyn bEx0 valsEx0 gC0 2 2 (.array ⟨2, 1, fun _ _ => 0⟩)) 1 1 0 2 2
      = .spill 1 1 0 := by decide
  rw [hcell] at hanc
  cases hanc

/-! ### non-vacuity: a concrete sheet -/

/-- B1 = dynamic anchor currently 1×3 (B1:B3), B4 = user value, D1 = dynamic anchor 1×1 -/
def gEx : Grid Nat := fun i j =>
  if i = 1 ∧ j = 2 then .anchor .dyn 1 3 10
  else if i = 2 ∧ j = 2 then .spill 1 2 20
  else if i = 3 ∧ j = 2 then .spill 1 2 30
  else if i = 4 ∧ j = 2 then .plain 99
  else if i = 1 ∧ j = 4 then .anchor .dyn 1 1 7
  else .empty

def bEx : Bounds := ⟨1048576, 16384⟩
def valsEx : Vals Nat := ⟨1001, 1002⟩
def arr (h w : Nat) : Arr Nat := ⟨h, w, fun i j => 100 * i + j⟩

-- shrinking to 2 rows: B3 is emptied (not stale); growing to 4 rows: blocked by B4 → #SPILL!, nothing filled
example : evalDyn bEx valsEx gEx 1 2 (.array (arr 2 1)) 3 2 = .empty ∧
    evalDyn bEx valsEx gEx 1 2 (.array (arr 2 1)) 2 2 = .spill 1 2 100 ∧
    evalDyn bEx valsEx gEx 1 2 (.array (arr 4 1)) 1 2 = .anchor .dyn 1 1 1001 ∧
    evalDyn bEx valsEx gEx 1 2 (.array (arr 4 1)) 2 2 = .empty ∧
    evalDyn bEx valsEx gEx 1 2 (.array (arr 4 1)) 4 2 = .plain 99 ∧
    evalDyn bEx valsEx gEx 1 2 (.array (arr 1 3)) 1 4 = .anchor .dyn 1 1 7 ∧
    evalDyn bEx valsEx gEx 1 2 (.array (arr 1 3)) 1 2 = .anchor .dyn 1 1 1001 := by decide

end IronCalc.Spill
