import IronCalc.Sheet.StructureEval
/-
  C13 — Deleting rows or columns shifts the rest and breaks only what was deleted.
  Property theorems only.  Model: Sheet/Structure.lean, Sheet/StructureEval.lean.
-/
namespace IronCalc.Structure.C13

/-- the closed form of σ for a deletion -/
theorem C13_cells_shift (r k x : Int) (hk : 0 < k) :
    (x < r → sigma (.delete r k) x = some x) ∧
    (r ≤ x ∧ x < r + k → sigma (.delete r k) x = none) ∧
    (r + k ≤ x → sigma (.delete r k) x = some (x - k)) := by
  simp only [sigma, sigmaDelete]
  refine ⟨?_, ?_, ?_⟩ <;> intro h <;> grind

/-- surviving cells never collide -/
theorem C13_cells_injective (r k x x' y : Int) (hk : 0 < k)
    (h : sigma (.delete r k) x = some y) (h' : sigma (.delete r k) x' = some y) : x = x' := by
  simp only [sigma, sigmaDelete] at h h'
  grind

/-- every line of the sheet after the deletion is the image of exactly the line `y` (before the band) or
    `y + k` (after it): nothing is left behind -/
theorem C13_cells_surjective (r k y : Int) (hk : 0 < k) :
    ∃ x, sigma (.delete r k) x = some y := by
  by_cases h : y < r
  · exact ⟨y, by simp only [sigma, sigmaDelete]; grind⟩
  · exact ⟨y + k, by simp only [sigma, sigmaDelete]; grind⟩

/-- links, row descriptors and conditional-format corners are displaced by the same map -/
theorem C13_links_and_rows_follow (r k x : Int) (hk : 0 < k) :
    linkCoord (.delete r k) x = sigma (.delete r k) x ∧ rowDescCoord (.delete r k) x = sigma (.delete r k) x ∧
    cfCoord (.delete r k) x = sigma (.delete r k) x :=
  ⟨linkCoord_eq_sigma (.delete r k) hk x, rowDescCoord_eq_sigma (.delete r k) hk x,
   (cfCoord_eq_rhoCoord (.delete r k) hk x).trans (rhoCoord_eq_sigma (.delete r k) hk x)⟩

/-- **ref_follows_cell** (delete).  A reference on the edited sheet to the in-grid cell `(x, y)`, hosted
    anywhere, with any absolute/relative flags: it is `#REF!` exactly when the cell was deleted, and otherwise
    points at σ x.  (Deleting never pushes a reference off the grid, provided the band starts inside it.) -/
theorem C13_ref_follows_cell (ax : Axis) (s : Nat) (r k : Int) (hk : 0 < k) (hr : 1 ≤ r) (h : Host) (q : Ref)
    (hs : q.sheet = s)
    (hx : inGrid .row (q.row.resolve h.row) = true) (hy : inGrid .col (q.col.resolve h.col) = true) :
    match ax with
    | .row =>
        (sigma (.delete r k) (q.row.resolve h.row) = none ↔ rhoRef ⟨.row, s, .delete r k⟩ h q = none) ∧
        (∀ x', sigma (.delete r k) (q.row.resolve h.row) = some x' →
          rhoRef ⟨.row, s, .delete r k⟩ h q = some (x', q.col.resolve h.col))
    | .col =>
        (sigma (.delete r k) (q.col.resolve h.col) = none ↔ rhoRef ⟨.col, s, .delete r k⟩ h q = none) ∧
        (∀ y', sigma (.delete r k) (q.col.resolve h.col) = some y' →
          rhoRef ⟨.col, s, .delete r k⟩ h q = some (q.row.resolve h.row, y')) := by
  have hv : (Op.delete r k).valid := hk
  have hx' := (inGrid_iff _ _).1 hx
  have hy' := (inGrid_iff _ _).1 hy
  -- a surviving line stays inside the grid
  have hin : ∀ (a : Axis) (x x' : Int), 1 ≤ x → x ≤ a.last → sigma (.delete r k) x = some x' → inGrid a x' = true := by
    intro a x x' h1 h2 hsx
    rw [inGrid_iff]
    simp only [sigma, sigmaDelete] at hsx
    grind
  cases ax with
  | row =>
    simp only
    rw [rhoRef_row_of_sigma s _ hv h q hs hy]
    cases hsx : sigma (.delete r k) (q.row.resolve h.row) with
    | none => simp
    | some x' =>
      have := hin .row _ _ hx'.1 hx'.2 hsx
      simp [this]
  | col =>
    simp only
    rw [rhoRef_col_of_sigma s _ hv h q hs hx]
    cases hsx : sigma (.delete r k) (q.col.resolve h.col) with
    | none => simp
    | some y' =>
      have := hin .col _ _ hy'.1 hy'.2 hsx
      simp [this]

/-- a range whose two corners survive keeps covering exactly the surviving cells it covered:
    the new range is `[σ a, σ b]`, every surviving cell of `[a, b]` lands inside it and every cell of the new
    range comes from a cell of `[a, b]` -/
theorem C13_range_follows (r k a b a' b' : Int) (hk : 0 < k) (hab : a ≤ b)
    (ha : rhoCoord (.delete r k) a = some a') (hb : rhoCoord (.delete r k) b = some b') :
    a' ≤ b' ∧
    (∀ x x', a ≤ x → x ≤ b → sigma (.delete r k) x = some x' → a' ≤ x' ∧ x' ≤ b') ∧
    (∀ y, a' ≤ y → y ≤ b' → ∃ x, a ≤ x ∧ x ≤ b ∧ sigma (.delete r k) x = some y) := by
  rw [rhoCoord_eq_sigma (.delete r k) hk] at ha hb
  simp only [sigma, sigmaDelete] at ha hb ⊢
  refine ⟨by grind, by intro x x' h1 h2 h3; grind, ?_⟩
  intro y h1 h2
  by_cases hy : y < r
  · exact ⟨y, by grind, by grind, by grind⟩
  · exact ⟨y + k, by grind, by grind, by grind⟩

/-- a reference to a deleted cell, and a range with a deleted corner, break (the corner prints `#REF!`) -/
theorem C13_deleted_becomes_ref_error (r k x : Int) (hk : 0 < k) (h1 : r ≤ x) (h2 : x < r + k) :
    rhoCoord (.delete r k) x = none := by
  rw [rhoCoord_eq_sigma (.delete r k) hk]; simp only [sigma, sigmaDelete]; grind

/-- the aggregate over a range that does not meet the deleted band is unchanged -/
theorem lines_delete {V} (I : Interp V) (g : Nat) (F F' : Int → V) (A B A' B' r k : Int) (hk : 0 < k)
    (hmove : ∀ x x', sigma (.delete r k) x = some x' → F' x' = F x)
    (hA : sigma (.delete r k) A = some A') (hB : sigma (.delete r k) B = some B')
    (hdis : B < r ∨ r + k ≤ A ∨ B < A) :
    I.agg g (lines F' A' (B' - A' + 1).toNat) = I.agg g (lines F A (B - A + 1).toNat) := by
  simp only [sigma, sigmaDelete] at hA hB
  by_cases hAB : A ≤ B
  · by_cases h1 : B < r
    · have eA : A' = A := by grind
      have eB : B' = B := by grind
      subst eA eB
      congr 1
      have := lines_congr F F' A' 0 (B' - A' + 1).toNat (by
        intro i hi1 hi2
        have : sigma (.delete r k) i = some i := by simp only [sigma, sigmaDelete]; grind
        simpa using (hmove i i this).symm)
      simpa using this.symm
    · have h2 : r + k ≤ A := by omega
      have eA : A' = A - k := by grind
      have eB : B' = B - k := by grind
      subst eA eB
      have e : (B - k - (A - k) + 1).toNat = (B - A + 1).toNat := by congr 1; omega
      rw [e]
      congr 1
      have := lines_congr F F' A (-k) (B - A + 1).toNat (by
        intro i hi1 hi2
        have : sigma (.delete r k) i = some (i + -k) := by simp only [sigma, sigmaDelete]; grind
        exact (hmove i _ this).symm)
      have e2 : A + -k = A - k := by omega
      rw [e2] at this
      exact this.symm
  · have e1 : (B - A + 1).toNat = 0 := by omega
    have e2 : (B' - A' + 1).toNat = 0 := by grind
    rw [e1, e2]; rfl

/-- "reads no deleted cell": no single reference points into the band and no range meets it -/
def ReadsNoDeleted {V J} (r k h : Int) : Fm V J → Prop
  | .const _ => True
  | .cell on e _ => on = true → ¬ (r ≤ e.resolve h ∧ e.resolve h < r + k)
  | .agg _ on a b _ => on = true → (b.resolve h < r ∨ r + k ≤ a.resolve h ∨ b.resolve h < a.resolve h)
  | .app1 _ x => ReadsNoDeleted r k h x
  | .app2 _ x y => ReadsNoDeleted r k h x ∧ ReadsNoDeleted r k h y

/-- **C13, values.** `G'` is the grid after the deletion (every surviving line at its σ-image).  A formula that
    reads no deleted cell, hosted anywhere, once re-entered at its new host and displaced, is displaced
    successfully (no `#REF!`) only to a formula that computes exactly the value it computed before. -/
theorem C13_values {V J : Type} (I : Interp V) (ax : Axis) (r k : Int) (hk : 0 < k)
    (G G' : Grid V J)
    (hmove : ∀ x x' j, sigma (.delete r k) x = some x' → G' true x' j = G true x j)
    (hoff : ∀ x j, G' false x j = G false x j)
    (h h' : Int) (f f' : Fm V J)
    (hdom : ReadsNoDeleted r k h f)
    (hf : (f.retype h h').rho ax (.delete r k) h' = some f') :
    eval I G' h' f' = eval I G h f := by
  have hcoord : ∀ e e' : End, rhoEnd ax (.delete r k) h' (retypeEnd h h' e) = some e' →
      sigma (.delete r k) (e.resolve h) = some (e'.resolve h') := by
    intro e e' he
    have := (rhoEnd_some _ _ _ _ _ he).1
    rw [retype_resolve, rhoCoord_eq_sigma (.delete r k) hk] at this
    exact this
  induction f generalizing f' with
  | const v => simp only [Fm.retype, Fm.rho, Option.some.injEq] at hf; subst hf; rfl
  | cell on e j =>
    cases on with
    | false =>
      simp only [Fm.retype, Fm.rho, Bool.false_eq_true, if_false, Option.some.injEq] at hf
      subst hf
      simp only [eval, retype_resolve, hoff]
    | true =>
      simp only [Fm.retype, Fm.rho, if_true] at hf
      cases he : rhoEnd ax (.delete r k) h' (retypeEnd h h' e) with
      | none => rw [he] at hf; cases hf
      | some e' =>
        rw [he] at hf
        simp only [Option.map_some, Option.some.injEq] at hf
        subst hf
        simp only [eval]
        exact hmove _ _ j (hcoord e e' he)
  | agg g on a b j =>
    cases on with
    | false =>
      simp only [Fm.retype, Fm.rho, Bool.false_eq_true, if_false, Option.some.injEq] at hf
      subst hf
      simp only [eval, retype_resolve]
      congr 1
      have := lines_congr (fun x => G' false x j) (fun x => G false x j) (a.resolve h) 0
        ((b.resolve h) - (a.resolve h) + 1).toNat (fun i _ _ => by simp [hoff])
      simpa using this
    | true =>
      simp only [Fm.retype, Fm.rho, if_true] at hf
      cases hea : rhoEnd ax (.delete r k) h' (retypeEnd h h' a) with
      | none => rw [hea] at hf; cases hf
      | some a' =>
        cases heb : rhoEnd ax (.delete r k) h' (retypeEnd h h' b) with
        | none => rw [hea, heb] at hf; cases hf
        | some b' =>
          rw [hea, heb] at hf
          simp only [Option.bind_some, Option.map_some, Option.some.injEq] at hf
          subst hf
          simp only [eval]
          exact lines_delete I g (fun x => G true x j) (fun x => G' true x j) _ _ _ _ r k hk
            (fun x x' hs => hmove x x' j hs) (hcoord a a' hea) (hcoord b b' heb) (hdom rfl)
  | app1 fn x ih =>
    simp only [Fm.retype, Fm.rho] at hf
    cases hx : (x.retype h h').rho ax (.delete r k) h' with
    | none => rw [hx] at hf; cases hf
    | some x' =>
      rw [hx] at hf
      simp only [Option.map_some, Option.some.injEq] at hf
      subst hf
      simp only [eval, ih x' hdom hx]
  | app2 fn x y ihx ihy =>
    simp only [Fm.retype, Fm.rho] at hf
    cases hx : (x.retype h h').rho ax (.delete r k) h' with
    | none => rw [hx] at hf; cases hf
    | some x' =>
      cases hy : (y.retype h h').rho ax (.delete r k) h' with
      | none => rw [hx, hy] at hf; cases hf
      | some y' =>
        rw [hx, hy] at hf
        simp only [Option.bind_some, Option.map_some, Option.some.injEq] at hf
        subst hf
        simp only [eval, ihx x' hdom.1 hx, ihy y' hdom.2 hy]

/-! non-vacuity -/

-- `=A2` → `#REF!` when row 2 is deleted; `=A5` → `=A4`; `=SUM(A1:A3)` with row 3 deleted keeps `A1`, breaks the corner
example : rhoRef ⟨.row, 0, .delete 2 1⟩ ⟨0, 9, 3⟩ (mkRef ⟨0, 9, 3⟩ 0 false false 2 false 1) = none := by decide
example : rhoRef ⟨.row, 0, .delete 2 1⟩ ⟨0, 9, 3⟩ (mkRef ⟨0, 9, 3⟩ 0 false false 5 false 1) = some (4, 1) := by decide
example : rhoAtom ⟨.row, 0, .delete 3 1⟩ ⟨0, 9, 3⟩ (.range (mkRange ⟨0, 9, 3⟩ 0 false false 1 false 1 false 3 false 1))
    = .broken (some (mkRef ⟨0, 9, 3⟩ 0 false false 1 false 1)) none := by decide
example : ReadsNoDeleted (V := Nat) (J := Nat) 3 2 10 (.agg 0 true ⟨true, 5⟩ ⟨true, 8⟩ 0) := by
  intro _; simp [End.resolve]

end IronCalc.Structure.C13
