import IronCalc.Book.BuildProofs
import IronCalc.Eval.MemoProofs
import IronCalc.Eval.SpillProofs
/-
  C07 — Evaluation is deterministic and independent of editing order.
  Property theorems only.
  Models: Book/Build.lean (cell-level part of Model::set_user_input: the formula table keyed by
  R1C1 text, shared strings, style pool) and Eval/Memo.lean (the memoising evaluator).
  The restart loop of phase 1 (`n*n+1` bound) is NOT modelled: see notes/C07.md.
-/
namespace IronCalc.Build

/-- typing into two different cells commutes as far as the CONTENT of every cell goes
    (the table indices behind it may differ) -/
theorem setInput_commute (s : Sheet) (hwf : WF s) (a b : Coord) (x y : Input) (hab : a ≠ b) :
    decode (setInput (setInput s a x) b y) = decode (setInput (setInput s b y) a x) := by
  funext c
  have w1 := setInput_wf s hwf a x
  have w2 := setInput_wf s hwf b y
  by_cases hca : c = a
  · subst hca
    rw [decode_setInput_other _ w1 b c y hab, decode_setInput_same, decode_setInput_same]
  · by_cases hcb : c = b
    · subst hcb
      rw [decode_setInput_same, decode_setInput_other _ w2 a c x hca, decode_setInput_same]
    · rw [decode_setInput_other _ w1 b c y hcb, decode_setInput_other _ hwf a c x hca,
        decode_setInput_other _ w2 a c x hca, decode_setInput_other _ hwf b c y hcb]

/-- any two orders of entering the same inputs (distinct cells) give the same decoded content
    in every cell -/
theorem build_perm_invariant (s : Sheet) (hwf : WF s) (l1 l2 : List (Coord × Input))
    (hp : l1.Perm l2) (hnd : (l1.map (·.1)).Nodup) :
    decode (build s l1) = decode (build s l2) := by
  funext c
  have hnd2 : (l2.map (·.1)).Nodup := (hp.map (·.1)).nodup_iff.mp hnd
  by_cases hc : c ∈ l1.map (·.1)
  · obtain ⟨p, hp1, hp2⟩ := List.mem_map.mp hc
    have hm1 : (c, p.2) ∈ l1 := by rw [← hp2]; exact hp1
    have hm2 : (c, p.2) ∈ l2 := hp.mem_iff.mp hm1
    rw [decode_build_mem l1 s hwf hnd c p.2 hm1, decode_build_mem l2 s hwf hnd2 c p.2 hm2]
  · have hc2 : c ∉ l2.map (·.1) := fun h => hc ((hp.map (·.1)).mem_iff.mpr h)
    rw [decode_build_not_mem l1 s hwf c hc, decode_build_not_mem l2 s hwf c hc2]

/-- what a built sheet contains is exactly what was typed -/
theorem build_content (l : List (Coord × Input)) (hnd : (l.map (·.1)).Nodup) (c : Coord) (x : Input)
    (hm : (c, x) ∈ l) : decode (build Sheet.empty l) c = some (contentOf x) :=
  decode_build_mem l Sheet.empty wf_empty hnd c x hm

/-! non-vacuity: indices differ between two orders, content does not -/

def inA : List (Coord × Input) :=
  [(1, .formula "R[0]C[1]+1" ""), (2, .text "x"), (3, .formula "SUM(R1C1:R3C1)" "0%"), (4, .text "y")]
def inB : List (Coord × Input) :=
  [(4, .text "y"), (3, .formula "SUM(R1C1:R3C1)" "0%"), (2, .text "x"), (1, .formula "R[0]C[1]+1" "")]

example : (build Sheet.empty inA).cells 3 ≠ (build Sheet.empty inB).cells 3 := by decide
example : decode (build Sheet.empty inA) 3 = decode (build Sheet.empty inB) 3 := by decide
example : inA.Perm inB ∧ (inA.map (·.1)).Nodup := by decide

end IronCalc.Build

namespace IronCalc.Memo

variable {N : Type}

/-- the values left in formula cells by an earlier evaluation are irrelevant: two evaluations
    that start from different stored values proceed in lock-step (same marks, same #CIRC! hits)
    and agree on the value of every evaluated cell -/
theorem evaluate_old_irrelevant (ops : NumOps N) (wb : Coord → Cell N) (order : List Coord)
    (old1 old2 : Coord → Val N) :
    Sim (evaluateAll ops wb order old1) (evaluateAll ops wb order old2) :=
  evaluateFrom_sim ops wb _ order _ _ ⟨rfl, rfl, rfl, fun c h => by simp [St.fresh] at h⟩

/-- evaluating twice gives the same values: the second evaluation (which starts from the values
    stored by the first) leaves every formula cell as it was -/
theorem evaluate_idempotent (ops : NumOps N) (wb : Coord → Cell N) (order : List Coord)
    (old : Coord → Val N) (hcov : Covers wb order) (c : Coord) (e : Expr N)
    (hw : wb c = .formula e) :
    (evaluateAll ops wb order (evaluateAll ops wb order old).val).val c
      = (evaluateAll ops wb order old).val c := by
  have hsim := evaluate_old_irrelevant ops wb order old (evaluateAll ops wb order old).val
  have hoof := evaluateFrom_fuel_ok ops wb order hcov (order.length + 1) (Nat.lt_succ_self _) order
    (St.fresh old) rfl
  -- c is evaluated at the end of the first run
  have hm : (evaluateAll ops wb order old).mark c = some .evaluated := by
    have hn := NoEval.step (evaluateFrom_ext ops wb (order.length + 1) order (St.fresh old))
      (good_fresh ops wb old).2
    -- marks: every formula cell of `order` is evaluated once fuel did not run out
    have := evaluateFrom_marks ops wb (order.length + 1) order (St.fresh old)
      (good_fresh ops wb old).2 hoof c e (hcov c e hw) hw
    exact this
  exact (hsim.val c hm).symm

/-- evaluation is a function of the workbook content alone: same cells, same order ⇒ same
    values, whatever was stored before -/
theorem evaluate_deterministic (ops : NumOps N) (wb : Coord → Cell N) (order : List Coord)
    (old1 old2 : Coord → Val N) (c : Coord)
    (hm : (evaluateAll ops wb order old1).mark c = some .evaluated) :
    (evaluateAll ops wb order old1).val c = (evaluateAll ops wb order old2).val c :=
  (evaluate_old_irrelevant ops wb order old1 old2).val c hm

/-- A1 = IFERROR(B1,5), B1 = A1, C1 = B1 + A1 -/
def wbC07 : Coord → Cell Int
  | 0 => .formula (.iferror (.ref 1) (.lit (.num 5)))
  | 1 => .formula (.ref 0)
  | 2 => .formula (.bin .add (.ref 1) (.ref 0))
  | _ => .empty

example : (evaluateAll intOps wbC07 [0, 1, 2] (fun _ => .empty)).val 2
    = (evaluateAll intOps wbC07 [0, 1, 2] (fun _ => .num 42)).val 2 ∧
    (evaluateAll intOps wbC07 [0, 1, 2] (fun _ => .empty)).mark 2 = some .evaluated := by decide

end IronCalc.Memo

namespace IronCalc.Spill

/-- the full statement for spills: the sheet after evaluating two dynamic anchors does not
    depend on what an earlier evaluation left behind (i.e. on whether evaluation ran after
    every edit or once at the end) -/
def C07_full : Prop :=
  ∀ (g : Grid Nat) (r c r' c' : Nat) (res res' res0 : Result Nat),
    evalDyn ⟨1048576, 16384⟩ ⟨1001, 1002⟩
        (evalDyn ⟨1048576, 16384⟩ ⟨1001, 1002⟩ g r c res) r' c' res' =
    evalDyn ⟨1048576, 16384⟩ ⟨1001, 1002⟩
        (evalDyn ⟨1048576, 16384⟩ ⟨1001, 1002⟩
          (evalDyn ⟨1048576, 16384⟩ ⟨1001, 1002⟩ g r' c' res0) r c res) r' c' res'

/-- F07b.  C1 = SEQUENCE(3) and B2 = SEQUENCE(1,2) both want C2.  Evaluated once at the end, C1
    (first in natural order) takes it and B2 shows #SPILL!; if B2 was evaluated on its own
    before C1 was typed, B2 owns C2, and C1 shows #SPILL! for ever after.  The faithful model
    and the real engine agree: "first come, first served". -/
theorem C07_full_false : ¬ C07_full := by
  intro h
  have := h (set (set (fun _ _ => .empty) 2 2 (.anchor .dyn 1 1 0)) 1 3 (.anchor .dyn 1 1 0))
    1 3 2 2 (.array ⟨3, 1, fun _ _ => 0⟩) (.array ⟨1, 2, fun _ _ => 0⟩) (.array ⟨1, 2, fun _ _ => 0⟩)
  have h2 := congrFun (congrFun this 1) 3
  revert h2
  decide

end IronCalc.Spill
