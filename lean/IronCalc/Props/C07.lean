import IronCalc.Book.BuildProofs
import IronCalc.Eval.MemoProofs
import IronCalc.Eval.SpillProofs
import IronCalc.Eval.Phase1Proofs
/-
  C07 — Evaluation is deterministic and independent of editing order.
  Property theorems only.
  Models: Book/Build.lean (cell-level part of Model::set_user_input: the formula table keyed by
  R1C1 text, shared strings, style pool) and Eval/Memo.lean (the memoising evaluator).
  The scheduler of phase 1 (order vector, reorder, restart counter) is modelled in Eval/Phase1.lean;
  whether its bound `n*n+1` always suffices on acyclic relations stays open (`restart_bound_full`).
-/
namespace IronCalc.Build

/-- typing into two different cells commutes as far as the CONTENT of every cell goes
    (the table indices behind it may differ) -/
theorem setInput_commute (s : Sheet) (hwf : WF s) (a b : Coord) (x y : Input) (hab : a ≠ b) :
    decode (setInput (setInput s a x) b y) = decode (setInput (setInput s b y) a x) := by
  funext c
  have w1 := setInput_wf s hwf a x
  have w2 := setInput_wf s hwf b y
  by_cases hca : c = a
  · subst hca
    rw [decode_setInput_other _ w1 b c y hab, decode_setInput_same, decode_setInput_same]
  · by_cases hcb : c = b
    · subst hcb
      rw [decode_setInput_same, decode_setInput_other _ w2 a c x hca, decode_setInput_same]
    · rw [decode_setInput_other _ w1 b c y hcb, decode_setInput_other _ hwf a c x hca,
        decode_setInput_other _ w2 a c x hca, decode_setInput_other _ hwf b c y hcb]

/-- any two orders of entering the same inputs (distinct cells) give the same decoded content
    in every cell -/
theorem build_perm_invariant (s : Sheet) (hwf : WF s) (l1 l2 : List (Coord × Input))
    (hp : l1.Perm l2) (hnd : (l1.map (·.1)).Nodup) :
    decode (build s l1) = decode (build s l2) := by
  funext c
  have hnd2 : (l2.map (·.1)).Nodup := (hp.map (·.1)).nodup_iff.mp hnd
  by_cases hc : c ∈ l1.map (·.1)
  · obtain ⟨p, hp1, hp2⟩ := List.mem_map.mp hc
    have hm1 : (c, p.2) ∈ l1 := by rw [← hp2]; exact hp1
    have hm2 : (c, p.2) ∈ l2 := hp.mem_iff.mp hm1
    rw [decode_build_mem l1 s hwf hnd c p.2 hm1, decode_build_mem l2 s hwf hnd2 c p.2 hm2]
  · have hc2 : c ∉ l2.map (·.1) := fun h => hc ((hp.map (·.1)).mem_iff.mpr h)
    rw [decode_build_not_mem l1 s hwf c hc, decode_build_not_mem l2 s hwf c hc2]

/-- what a built sheet contains is exactly what was typed -/
theorem build_content (l : List (Coord × Input)) (hnd : (l.map (·.1)).Nodup) (c : Coord) (x : Input)
    (hm : (c, x) ∈ l) : decode (build Sheet.empty l) c = some (contentOf x) :=
  decode_build_mem l Sheet.empty wf_empty hnd c x hm

/-! non-vacuity: indices differ between two orders, content does not -/

def inA : List (Coord × Input) :=
  [(1, .formula "R[0]C[1]+1" ""), (2, .text "x"), (3, .formula "SUM(R1C1:R3C1)" "0%"), (4, .text "y")]
def inB : List (Coord × Input) :=
  [(4, .text "y"), (3, .formula "SUM(R1C1:R3C1)" "0%"), (2, .text "x"), (1, .formula "R[0]C[1]+1" "")]

example : (build Sheet.empty inA).cells 3 ≠ (build Sheet.empty inB).cells 3 := by decide
example : decode (build Sheet.empty inA) 3 = decode (build Sheet.empty inB) 3 := by decide
example : inA.Perm inB ∧ (inA.map (·.1)).Nodup := by decide

end IronCalc.Build

namespace IronCalc.Memo

variable {N : Type}

/-- the values left in formula cells by an earlier evaluation are irrelevant: two evaluations
    that start from different stored values proceed in lock-step (same marks, same #CIRC! hits)
    and agree on the value of every evaluated cell -/
theorem evaluate_old_irrelevant (ops : NumOps N) (wb : Coord → Cell N) (order : List Coord)
    (old1 old2 : Coord → Val N) :
    Sim (evaluateAll ops wb order old1) (evaluateAll ops wb order old2) :=
  evaluateFrom_sim ops wb _ order _ _ ⟨rfl, rfl, rfl, fun c h => by simp [St.fresh] at h⟩

/-- evaluating twice gives the same values: the second evaluation (which starts from the values
    stored by the first) leaves every formula cell as it was -/
theorem evaluate_idempotent (ops : NumOps N) (wb : Coord → Cell N) (order : List Coord)
    (old : Coord → Val N) (hcov : Covers wb order) (c : Coord) (e : Expr N)
    (hw : wb c = .formula e) :
    (evaluateAll ops wb order (evaluateAll ops wb order old).val).val c
      = (evaluateAll ops wb order old).val c := by
  have hsim := evaluate_old_irrelevant ops wb order old (evaluateAll ops wb order old).val
  have hoof := evaluateFrom_fuel_ok ops wb order hcov (order.length + 1) (Nat.lt_succ_self _) order
    (St.fresh old) rfl
  -- c is evaluated at the end of the first run
  have hm : (evaluateAll ops wb order old).mark c = some .evaluated := by
    have hn := NoEval.step (evaluateFrom_ext ops wb (order.length + 1) order (St.fresh old))
      (good_fresh ops wb old).2
    -- marks: every formula cell of `order` is evaluated once fuel did not run out
    have := evaluateFrom_marks ops wb (order.length + 1) order (St.fresh old)
      (good_fresh ops wb old).2 hoof c e (hcov c e hw) hw
    exact this
  exact (hsim.val c hm).symm

/-- evaluation is a function of the workbook content alone: same cells, same order ⇒ same
    values, whatever was stored before -/
theorem evaluate_deterministic (ops : NumOps N) (wb : Coord → Cell N) (order : List Coord)
    (old1 old2 : Coord → Val N) (c : Coord)
    (hm : (evaluateAll ops wb order old1).mark c = some .evaluated) :
    (evaluateAll ops wb order old1).val c = (evaluateAll ops wb order old2).val c :=
  (evaluate_old_irrelevant ops wb order old1 old2).val c hm

/-- A1 = IFERROR(B1,5), B1 = A1, C1 = B1 + A1 -/
def wbC07 : Coord → Cell Int
  | 0 => .formula (.iferror (.ref 1) (.lit (.num 5)))
  | 1 => .formula (.ref 0)
  | 2 => .formula (.bin .add (.ref 1) (.ref 0))
  | _ => .empty

example : (evaluateAll intOps wbC07 [0, 1, 2] (fun _ => .empty)).val 2
    = (evaluateAll intOps wbC07 [0, 1, 2] (fun _ => .num 42)).val 2 ∧
    (evaluateAll intOps wbC07 [0, 1, 2] (fun _ => .empty)).mark 2 = some .evaluated := by decide

end IronCalc.Memo

namespace IronCalc.Spill

/-- the full statement for spills: the sheet after evaluating two dynamic anchors does not
    depend on what an earlier evaluation left behind (i.e. on whether evaluation ran after
    every edit or once at the end) -/
def C07_full : Prop :=
  ∀ (g : Grid Nat) (r c r' c' : Nat) (res res' res0 : Result Nat),
    evalDyn ⟨1048576, 16384⟩ ⟨1001, 1002⟩
        (evalDyn ⟨1048576, 16384⟩ ⟨1001, 1002⟩ g r c res) r' c' res' =
    evalDyn ⟨1048576, 16384⟩ ⟨1001, 1002⟩
        (evalDyn ⟨1048576, 16384⟩ ⟨1001, 1002⟩
          (evalDyn ⟨1048576, 16384⟩ ⟨1001, 1002⟩ g r' c' res0) r c res) r' c' res'

/-- F07b.  C1 = SEQUENCE(3) and B2 = SEQUENCE(1,2) both want C2.  Evaluated once at the end, C1
    (first in natural order) takes it and B2 shows #SPILL!; if B2 was evaluated on its own
    before C1 was typed, B2 owns C2, and C1 shows #SPILL! for ever after.  The faithful model
    and the real engine agree: "first come, first served". -/
theorem C07_full_false : ¬ C07_full := by
  intro h
  have := h (set (set (fun _ _ => .empty) 2 2 (.anchor .dyn 1 1 0)) 1 3 (.anchor .dyn 1 1 0))
    1 3 2 2 (.array ⟨3, 1, fun _ _ => 0⟩) (.array ⟨1, 2, fun _ _ => 0⟩) (.array ⟨1, 2, fun _ _ => 0⟩)
  have h2 := congrFun (congrFun this 1) 3
  revert h2
  decide

end IronCalc.Spill

/-! ## The scheduler of `Model::evaluate`, phase 1 (model: Eval/Phase1.lean) -/
namespace IronCalc.Phase1

variable {A : Type}

/-- the order vector is only ever permuted -/
theorem phase1_perm (d : A → A → Bool) (order : List A) :
    (phase1 (fun _ => d) order).1.Perm order :=
  (run_spec d _ 0 order).1

/-- (a) SOUNDNESS OF A COMPLETED PHASE 1.  If the loop ends without reaching the restart bound,
    then in the final order no anchor reads what an anchor placed after it writes: every anchor
    was evaluated after everything it reads had been written.  For every set of anchors, every
    dependency relation (cyclic ones included) and every initial order. -/
theorem phase1_sound (d : A → A → Bool) (order : List A)
    (h : (phase1 (fun _ => d) order).2.2 = false) :
    Sound d (phase1 (fun _ => d) order).1 :=
  (run_spec d _ 0 order).2 h

/-- (b, partial) TERMINATION ON ACYCLIC RELATIONS.  If the relation has a rank function with
    values below `B`, the loop stops by itself after fewer than `B ^ n` restarts (every reorder
    makes the sequence of ranks lexicographically smaller).  This is NOT the bound the code
    uses (`n*n+1`): see `restart_bound_full`. -/
theorem phase1_terminates_acyclic_partial (d : A → A → Bool) (r : A → Nat) (B : Nat)
    (hr : ∀ a b, d a b = true → r b < r a) (order : List A) (hB : ∀ a, a ∈ order → r a < B) :
    (run (fun _ => d) (B ^ order.length) 0 order).2.2 = false :=
  run_terminates d r B hr _ 0 order hB (enc_lt_pow r B order hB)

/-- the full statement about the code's bound: on acyclic relations `n*n+1` restarts suffice.
    OPEN: neither proved nor refuted here.  `restart_bound_small` checks it exhaustively for 4
    anchors (the worst case for 1..5 anchors is 0, 1, 2, 4, 6 restarts — ⌊n²/4⌋); the harness searches
    for counter-examples on the real engine (suite c07-sched, tag `phase1:bound-reached` on
    statically acyclic sets). -/
def restart_bound_full : Prop :=
  ∀ (n : Nat) (d : Fin n → Fin n → Bool) (order : List (Fin n)),
    (∃ r : Fin n → Nat, ∀ a b, d a b = true → r b < r a) →
    (phase1 (fun _ => d) order).2.2 = false

/-- all orders of a list -/
def insertAll (x : Nat) : List Nat → List (List Nat)
  | [] => [[x]]
  | y :: ys => (x :: y :: ys) :: (insertAll x ys).map (y :: ·)

def perms : List Nat → List (List Nat)
  | [] => [[]]
  | x :: xs => (perms xs).flatMap (insertAll x)

/-- the acyclic relation on 0..n-1 coded by `mask`: `a` reads `b` only if `b < a`
    (every acyclic relation is of this form up to renaming, and all orders are tried) -/
def dagOf (mask : Nat) (a b : Nat) : Bool :=
  decide (b < a) && (mask / 2 ^ (a * (a - 1) / 2 + b)) % 2 == 1

/-- bounded evidence for `restart_bound_full`: every acyclic relation on 4 anchors and every
    initial order ends within 4 = ⌊n²/4⌋ ≤ n*n+1 restarts (5 anchors: 6 restarts, checked by the
    same enumeration outside the build, see notes/C07.md) -/
theorem restart_bound_small :
    ∀ mask, mask < 2 ^ 6 → ∀ o, o ∈ perms [0, 1, 2, 3] →
      (phase1 (fun _ => dagOf mask) o).2.2 = false ∧ (phase1 (fun _ => dagOf mask) o).2.1 ≤ 4 := by
  decide +kernel

/-- (c) ORDER INDEPENDENCE.  Two sound orders of the same anchors compute the same values,
    whatever values the sheet held before (acyclic relation, each anchor's value a function of
    what it reads). -/
theorem sound_orders_same_values {V : Type} [DecidableEq A] (d : A → A → Bool)
    (F : A → (A → V) → V) (hF : Respects d F) (r : A → Nat)
    (hr : ∀ a b, d a b = true → r b < r a) (o1 o2 : List A) (hperm : o1.Perm o2)
    (hnd : o1.Nodup) (hs1 : Sound d o1) (hs2 : Sound d o2)
    (hclosed : ∀ a b, a ∈ o1 → d a b = true → b ∈ o1) (σ1 σ2 : A → V) :
    ∀ a, a ∈ o1 → evalPass F o1 σ1 a = evalPass F o2 σ2 a := by
  have hirr : ∀ a, d a a = false := by
    intro a
    cases h : d a a with
    | false => rfl
    | true => exact absurd (hr a a h) (Nat.lt_irrefl _)
  have f1 := evalPass_fixpoint d F hF hirr o1 σ1 hnd hs1
  have f2 := evalPass_fixpoint d F hF hirr o2 σ2 (hperm.nodup_iff.mp hnd) hs2
  intro a ha
  exact fixpoint_unique d F hF r hr (· ∈ o1) hclosed _ _ f1
    (fun b hb => f2 b (hperm.mem_iff.mp hb)) (r a + 1) a (Nat.lt_succ_self _) ha

/-- C07 at the scheduler level: whatever order the anchors were collected in, if phase 1 ends
    without reaching the bound, the values it computes are the same -/
theorem phase1_values_order_independent {V : Type} [DecidableEq A] (d : A → A → Bool)
    (F : A → (A → V) → V) (hF : Respects d F) (r : A → Nat)
    (hr : ∀ a b, d a b = true → r b < r a) (o o' : List A) (hperm : o.Perm o') (hnd : o.Nodup)
    (hclosed : ∀ a b, a ∈ o → d a b = true → b ∈ o)
    (h : (phase1 (fun _ => d) o).2.2 = false) (h' : (phase1 (fun _ => d) o').2.2 = false)
    (σ σ' : A → V) :
    ∀ a, a ∈ o → evalPass F (phase1 (fun _ => d) o).1 σ a = evalPass F (phase1 (fun _ => d) o').1 σ' a := by
  have p1 := phase1_perm d o
  have p2 := phase1_perm d o'
  intro a ha
  apply sound_orders_same_values d F hF r hr _ _ (p1.trans (hperm.trans p2.symm))
    (p1.nodup_iff.mpr hnd) (phase1_sound d o h) (phase1_sound d o' h')
  · intro x y hx hxy
    exact p1.mem_iff.mpr (hclosed x y (p1.mem_iff.mp hx) hxy)
  · exact p1.mem_iff.mpr ha

/-! non-vacuity -/

/-- a chain 1 reads 0, 2 reads 1, … entered in the order 4 2 0 1 3 needs 6 restarts -/
example : phase1 (fun _ => dagOf 549) [4, 2, 0, 1, 3] = ([0, 1, 2, 3, 4], 6, false) := by
  decide

/-- two anchors that read each other: the bound n*n+1 = 5 is reached -/
example : (phase1 (fun _ (a b : Nat) => a != b) [0, 1]).2 = (5, true) := by decide

end IronCalc.Phase1
