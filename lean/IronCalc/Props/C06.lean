import IronCalc.Eval.Core
/-
  C06 — Computed values match reference spreadsheet semantics.
  The reference evaluator is Eval/Core.lean; "implementation = reference" is, by its nature, the
  differential tie (harness suite c06).  The theorems below are laws of the reference semantics,
  for ALL inputs and ANY number instance `NumOps`.
-/
namespace IronCalc.Core

open IronCalc.Store (Err)

variable {N : Type} (O : NumOps N)

/-! ### error propagation of the binary operators -/

/-- **left operand first**: an error as the left operand of any binary operator is the result,
    whatever the right operand is (another error, an array, a range, …). -/
theorem binop_error_left_first (op : BinOp) (e : Err) (r : Res N) :
    evalBin O op (.val (.err e)) r = .val (.err e) := by
  unfold evalBin
  cases op <;> simp [isArith, toOperand, toNumber, toText]

/-- **strictness**: with scalar operands, an error on either side yields an error — the left one
    if there is one, otherwise the right one. -/
theorem binop_strict (op : BinOp) (v : Val N) (e : Err) :
    ∃ e', evalBin O op (.val v) (.val (.err e)) = .val (.err e') ∧
      (∀ el, v = .err el → e' = el) ∧ ((∀ el, v ≠ .err el) → (e' = e ∨ e' = .value)) := by
  cases v with
  | err el =>
    exact ⟨el, binop_error_left_first O op el _, fun _ h => (by cases h; rfl), fun h => absurd rfl (h el)⟩
  | num n =>
    refine ⟨e, ?_, fun _ h => (by cases h), fun _ => Or.inl rfl⟩
    unfold evalBin; cases op <;> simp [isArith, toOperand, toNumber, toText]
  | bool b =>
    refine ⟨e, ?_, fun _ h => (by cases h), fun _ => Or.inl rfl⟩
    unfold evalBin; cases op <;> simp [isArith, toOperand, toNumber, toText]
  | empty =>
    refine ⟨e, ?_, fun _ h => (by cases h), fun _ => Or.inl rfl⟩
    unfold evalBin; cases op <;> simp [isArith, toOperand, toNumber, toText]
  | str s =>
    -- a text operand that is not a number makes an arithmetic operator `#VALUE!` before the right
    -- operand is looked at (left first); otherwise the right error is the result
    cases hs : O.ofText s with
    | some n =>
      refine ⟨e, ?_, fun _ h => (by cases h), fun _ => Or.inl rfl⟩
      unfold evalBin; cases op <;> simp [isArith, toOperand, toNumber, toText, hs]
    | none =>
      by_cases ha : isArith op = true
      · refine ⟨.value, ?_, fun _ h => (by cases h), fun _ => Or.inr rfl⟩
        unfold evalBin; simp [ha, toOperand, toNumber, hs]
      · refine ⟨e, ?_, fun _ h => (by cases h), fun _ => Or.inl rfl⟩
        unfold evalBin; cases op <;> simp_all [isArith, toOperand, toNumber, toText]

example : evalBin (N := Nat) ⟨0, 1, (· + ·), (· - ·), (· * ·), (· / ·), (· ^ ·), id, id, id, fun a _ => a,
    (· == 0), compare, Nat.min, Nat.max, fun _ => true, id, String.toNat?, String.toNat?, toString⟩
    .add (.val (.err .div)) (.val (.err .na)) = .val (.err .div) := by rfl

/-! ### comparison is a total preorder across all value classes -/

/-- the laws of a three-way comparison that make `≤` a total preorder -/
structure CmpLaws {α : Type} (cmp : α → α → Ordering) : Prop where
  refl : ∀ a, cmp a a = .eq
  swap : ∀ a b, cmp b a = (cmp a b).swap
  trans : ∀ a b c, cmp a b ≠ .gt → cmp b c ≠ .gt → cmp a c ≠ .gt

theorem natCmpLaws : CmpLaws (compare : Nat → Nat → Ordering) where
  refl a := by simp
  swap a b := by rw [← Nat.compare_swap]
  trans a b c h1 h2 := by
    rw [Nat.compare_ne_gt] at *; omega

theorem boolCmpLaws : CmpLaws (compare : Bool → Bool → Ordering) where
  refl a := by cases a <;> decide
  swap a b := by cases a <;> cases b <;> decide
  trans a b c := by cases a <;> cases b <;> cases c <;> decide

/-- non-empty values (an empty cell is a chameleon: it equals 0, "" and FALSE at once, so it is
    deliberately outside the preorder; see `compare_empty_neutral`) -/
def NonEmpty : Val N → Prop
  | .empty => False
  | _ => True

/-- **compare_total_preorder.** If numbers and upper-cased texts are each totally pre-ordered by
    their comparison, then `compare_values` is reflexive, antisymmetric-by-swap (hence total) and
    transitive on ALL non-empty values, across the classes number < text < boolean < error. -/
theorem compare_total_preorder (hN : CmpLaws O.cmp) (hT : CmpLaws cmpText) :
    (∀ a : Val N, compareValues O a a = .eq) ∧
    (∀ a b : Val N, compareValues O b a = (compareValues O a b).swap) ∧
    (∀ a b c : Val N, NonEmpty a → NonEmpty b → NonEmpty c →
      compareValues O a b ≠ .gt → compareValues O b c ≠ .gt → compareValues O a c ≠ .gt) := by
  have hn := natCmpLaws
  have hb := boolCmpLaws
  refine ⟨?_, ?_, ?_⟩
  · intro a
    cases a <;> simp [compareValues, cmpCore, fillEmpty, hN.refl, hT.refl, hb.refl, hn.refl]
  · intro a b
    cases a <;> cases b <;>
      simp [compareValues, cmpCore, fillEmpty, classOf, Ordering.swap, hN.refl, hT.refl, hb.refl] <;>
      first
        | exact hN.swap _ _
        | exact hT.swap _ _
        | exact hb.swap _ _
        | exact hn.swap _ _
        | decide
  · intro a b c ha hb' hc
    cases a <;> cases b <;> cases c <;>
      simp [NonEmpty] at ha hb' hc <;>
      simp [compareValues, cmpCore, fillEmpty, classOf] <;>
      first
        | exact hN.trans _ _ _
        | exact hT.trans _ _ _
        | exact hb.trans _ _ _
        | exact hn.trans _ _ _
        | (intros; decide)
        | (intro h; exact absurd h (by decide))
        | (intro _ h; exact absurd h (by decide))

/-- the text comparison of the model (upper-case, then code-point order) IS a total preorder -/
theorem cmpText_laws : CmpLaws cmpText where
  refl a := by unfold cmpText; exact Std.ReflCmp.compare_self
  swap a b := by unfold cmpText; exact Std.OrientedCmp.eq_swap
  trans a b c h1 h2 := by
    unfold cmpText at *
    have h1' : (compare a.toUpper b.toUpper).isLE = true := by
      cases h : compare a.toUpper b.toUpper <;> simp_all [Ordering.isLE]
    have h2' : (compare b.toUpper c.toUpper).isLE = true := by
      cases h : compare b.toUpper c.toUpper <;> simp_all [Ordering.isLE]
    have := Std.TransCmp.isLE_trans h1' h2'
    cases h : compare a.toUpper c.toUpper <;> simp_all [Ordering.isLE]

/-- `compare_total_preorder` with the text hypothesis discharged: only the number comparison of the
    instance has to be a total preorder -/
theorem compare_total_preorder_of_numbers (hN : CmpLaws O.cmp) :
    (∀ a : Val N, compareValues O a a = .eq) ∧
    (∀ a b : Val N, compareValues O b a = (compareValues O a b).swap) ∧
    (∀ a b c : Val N, NonEmpty a → NonEmpty b → NonEmpty c →
      compareValues O a b ≠ .gt → compareValues O b c ≠ .gt → compareValues O a c ≠ .gt) :=
  compare_total_preorder O hN cmpText_laws

/-- an empty cell compares equal to the neutral element of every class, and below every error -/
theorem compare_empty_neutral (hN : CmpLaws O.cmp) (hT : CmpLaws cmpText) :
    compareValues O (.empty : Val N) (.num O.zero) = .eq ∧
    compareValues O (.empty : Val N) (.str "") = .eq ∧
    compareValues O (.empty : Val N) (.bool false) = .eq ∧
    (∀ e, compareValues O (.empty : Val N) (.err e) = .lt) := by
  refine ⟨?_, ?_, ?_, fun e => rfl⟩
  · simp [compareValues, cmpCore, fillEmpty, hN.refl]
  · simp [compareValues, cmpCore, fillEmpty, hT.refl]
  · simp [compareValues, cmpCore, fillEmpty]

/-- cross-type ordering: every number is below every text, every text below every boolean,
    every boolean below every error -/
theorem compare_cross_type (n : N) (s : String) (b : Bool) (e : Err) :
    compareValues O (.num n) (.str s) = .lt ∧ compareValues O (.str s) (.bool b) = .lt ∧
    compareValues O (.bool b) (.err e) = .lt ∧ compareValues O (.num n) (.bool b) = .lt := by
  simp [compareValues, cmpCore, fillEmpty, classOf]
  decide

/-- inside array operands a comparison is strict too: an error element is the result, the left one
    first (as for `+ - * / ^ &`) -/
theorem compare_array_elem_strict (op : BinOp) (e : Err) (v : Val N) :
    cmpElem O op (.err e) v = .err e ∧ ((∀ e', v ≠ .err e') → cmpElem O op v (.err e) = .err e) := by
  constructor
  · simp [cmpElem]
  · intro h
    cases v with
    | err e' => exact absurd rfl (h e')
    | _ => simp [cmpElem]

/-- exactly one of `<`, `=`, `>` holds, and `<=`, `>=`, `<>` are their complements -/
theorem compare_ops_consistent (o : Ordering) :
    (applyCmp .lt o || applyCmp .eq o || applyCmp .gt o) = true ∧
    (applyCmp .le o = !applyCmp .gt o) ∧ (applyCmp .ge o = !applyCmp .lt o) ∧
    (applyCmp .ne o = !applyCmp .eq o) ∧
    ((applyCmp .lt o && applyCmp .eq o) = false) ∧ ((applyCmp .gt o && applyCmp .eq o) = false) ∧
    ((applyCmp .lt o && applyCmp .gt o) = false) := by
  cases o <;> decide

/-! ### coercions -/

/-- **coerce_idempotent**: a value that has been coerced coerces to itself -/
theorem coerce_idempotent (v : Val N) :
    (∀ n, toNumber O v = .ok n → toNumber O (.num n) = .ok n) ∧
    (∀ s, toText O v = .ok s → toText O (.str s) = .ok s) ∧
    (∀ b, toBool O v = .ok b → toBool O (.bool b) = .ok b) := by
  refine ⟨fun _ _ => rfl, fun _ _ => rfl, fun _ _ => rfl⟩

/-- coercions are strict in errors and total otherwise for booleans and empties -/
theorem coerce_error (e : Err) :
    toNumber O (.err e : Val N) = .error e ∧ toText O (.err e : Val N) = .error e ∧
    toBool O (.err e : Val N) = .error e ∧
    toNumber O (.empty : Val N) = .ok O.zero ∧ toText O (.empty : Val N) = .ok "" ∧
    toBool O (.empty : Val N) = .ok false := by
  simp [toNumber, toText, toBool]

/-! ### SUM, IFERROR -/

/-- **sum_ignores_text_in_ranges_but_not_literals**: a text cell inside a range (or behind a plain
    reference) contributes nothing to SUM, while a literal text argument is coerced — and is
    `#VALUE!` when it is not a number. -/
theorem sum_ignores_text_in_ranges_but_not_literals (s : String) (rest : List (List (Val N))) :
    fnCall O Cfg.reference .SUM [⟨false, .rng [[.str s]]⟩] = .val (.num O.zero) ∧
    fnCall O Cfg.reference .SUM [⟨true, .val (.str s)⟩] = .val (.num O.zero) ∧
    (O.ofText s = none → fnCall O Cfg.reference .SUM [⟨false, .val (.str s)⟩] = .val (.err .value)) ∧
    (∀ n, O.ofText s = some n →
      fnCall O Cfg.reference .SUM [⟨false, .val (.str s)⟩] = .val (.num (O.add O.zero n))) ∧
    sumItems O ⟨false, .rng ([.str s] :: rest)⟩ = .ok none :: sumItems O ⟨false, .rng ([] :: rest)⟩ := by
  refine ⟨?_, ?_, ?_, ?_, ?_⟩
  · simp [fnCall, sumItems, flatten, foldItems]
  · simp [fnCall, sumItems, foldItems]
  · intro h; simp [fnCall, sumItems, toNumber, h, foldItems]
  · intro n h; simp [fnCall, sumItems, toNumber, h, foldItems]
  · simp [sumItems, flatten]

/-- **iferror_id_on_non_error**: IFERROR returns a non-error scalar unchanged, and the fallback
    exactly when the value is an error -/
theorem iferror_id_on_non_error (v : Val N) (a b : Bool) (fb : Res N) :
    ((∀ e, v ≠ .err e) → fnCall O Cfg.reference .IFERROR [⟨a, .val v⟩, ⟨b, fb⟩] = .val v) ∧
    (∀ e, fnCall O Cfg.reference .IFERROR [⟨a, .val (.err e)⟩, ⟨b, fb⟩] = fb) := by
  constructor
  · intro h
    cases v with
    | err e => exact absurd rfl (h e)
    | _ => simp [fnCall, fnIfError]
  · intro e; simp [fnCall, fnIfError]

/-! ### AND / OR: the reference rule is strict, the pinned engine is not (F06a) -/

/-- with the reference rule an error in ANY argument position of AND/OR is propagated
    (the first one in argument order) -/
theorem and_or_strict_reference (isAnd : Bool) (items : List (Except Err (Option Bool))) (acc : Option Bool)
    (e : Err) (pre : List (Except Err (Option Bool)))
    (hpre : ∀ x ∈ pre, ∃ b, x = .ok b) :
    logicalFold (N := N) false isAnd (pre ++ .error e :: items) acc = .err e := by
  induction pre generalizing acc with
  | nil => simp [logicalFold]
  | cons x t ih =>
    obtain ⟨b, rfl⟩ := hpre x (by simp)
    have ht : ∀ y ∈ t, ∃ b, y = .ok b := fun y hy => hpre y (by simp [hy])
    cases b with
    | none => simpa [logicalFold] using ih acc ht
    | some b => simpa [logicalFold] using ih _ ht

/-- the full statement "an error argument of AND/OR yields that error" for a configuration -/
def C06_and_or_strict (cfg : Cfg) : Prop :=
  ∀ (isAnd : Bool) (pre items : List (Except Err (Option Bool))) (e : Err),
    (∀ x ∈ pre, ∃ b, x = .ok b) →
    logicalFold (N := N) cfg.andOrShortCircuit isAnd (pre ++ .error e :: items) none = .err e

theorem C06_and_or_strict_reference : C06_and_or_strict (N := N) Cfg.reference :=
  fun isAnd pre items e h => and_or_strict_reference isAnd items none e pre h

/-- F06a, machine-checked: with short-circuiting (the pinned engine) `OR(TRUE, #N/A)` is TRUE, not
    `#N/A` -/
theorem C06_and_or_strict_engine_false : ¬ C06_and_or_strict (N := N) Cfg.engine := by
  intro h
  unfold C06_and_or_strict at h
  have := h false [.ok (some true)] [] .na (by intro x hx; simp at hx; exact ⟨_, hx⟩)
  simp [Cfg.engine, logicalFold] at this

/-! ### text elements of array operands (finding F06d, known) -/

/-- the full statement: a text element of an array operand of an arithmetic operator is coerced
    exactly like a scalar text operand (so that `x op range` is, element by element, `x op cell`) -/
def C06_elem_coercion_uniform : Prop :=
  ∀ (N : Type) (O : NumOps N) (s : String), elemToNumber O (.str s) = toNumber O (.str s)

/-- it holds exactly for the instances whose two text recognisers coincide … -/
theorem C06_partial_elem_coercion (h : ∀ s, O.ofTextElem s = O.ofText s) (v : Val N) :
    elemToNumber O v = toNumber O v := by
  cases v <;> simp [elemToNumber, toNumber, h]

/-- … and the pinned engine's do not (`" 7 "`, `"5%"`, `"$3"` are numbers as scalar operands,
    `#VALUE!` as elements: arithmetic.rs::to_f64 vs cast.rs::cast_number) -/
theorem C06_elem_coercion_full_false : ¬ C06_elem_coercion_uniform := by
  intro h
  have := h Nat ⟨0, 1, (· + ·), (· - ·), (· * ·), (· / ·), (· ^ ·), id, id, id, fun a _ => a,
    (· == 0), compare, Nat.min, Nat.max, fun _ => true, id, fun _ => some 0, fun _ => none, toString⟩ ""
  simp [elemToNumber, toNumber] at this

/-! ### overflow inside a formula (finding F06e, known) -/

/-- the full statement: an arithmetic operator whose result is not finite yields an error -/
def C06_overflow_is_error : Prop :=
  ∀ (N : Type) (O : NumOps N) (op : BinOp) (a b : N),
    isArith op = true → (∀ x, arith O op a b = .ok x → O.finite x = true)

/-- the engine (and therefore the faithful evaluator) hands the non-finite number on as a number:
    `ISNUMBER(1E+200*1E+200)` is TRUE, `1=1E+200*1E+200` is FALSE; only the value finally stored in
    the cell becomes `#NUM!` (`stored`, C08) -/
theorem C06_overflow_full_false : ¬ C06_overflow_is_error := by
  intro h
  have := h (Option Nat) ⟨some 0, some 1, fun _ _ => none, fun _ _ => none, fun _ _ => none, fun _ _ => none,
    fun _ _ => none, id, id, id, fun a _ => a, fun x => x == some 0, fun _ _ => .eq, fun a _ => a, fun a _ => a,
    Option.isSome, some, fun _ => none, fun _ => none, fun _ => ""⟩ .mul (some 1) (some 1) rfl none rfl
  simp at this

/-- what is guaranteed: the value shown by the cell is never a non-finite number -/
theorem C06_partial_stored_finite (hz : O.finite O.zero = true) (v : Val N) :
    match stored O v with | .num n => O.finite n = true | _ => True := by
  cases v with
  | num n => cases h : O.finite n <;> simp [stored, h]
  | empty => simpa [stored] using hz
  | _ => simp [stored]

/-! ### totality and locality -/

/-- **eval_total**: entering any formula of the core language yields a value or an array — never a
    stuck state, never a bare range -/
theorem eval_total (cfg : Cfg) (env : Env N) (e : Expr N) :
    (∃ v, run O cfg env e = .val v) ∨ (∃ a, run O cfg env e = .arr a) := by
  unfold run
  cases h : topLevel (eval O cfg env e) with
  | val v => exact .inl ⟨_, rfl⟩
  | arr a => exact .inr ⟨_, rfl⟩
  | rng cells =>
    exfalso
    unfold topLevel at h
    split at h
    · split at h <;> cases h
    · rename_i r hr; exact hr _ h

theorem rangeVals_congr (env env' : Env N) (r1 c1 r2 c2 : Nat)
    (h : ∀ i j, i < r2 + 1 - r1 → j < c2 + 1 - c1 → env (r1 + i) (c1 + j) = env' (r1 + i) (c1 + j)) :
    rangeVals env r1 c1 r2 c2 = rangeVals env' r1 c1 r2 c2 := by
  unfold rangeVals
  apply List.map_congr_left
  intro i hi
  apply List.map_congr_left
  intro j hj
  exact h i j (List.mem_range.mp hi) (List.mem_range.mp hj)

mutual
  /-- **eval_depends_only_on_read_cells**: two sheets that agree on the cells a formula mentions
      give it the same value (used by C12–C17: moving unrelated cells cannot change a value). -/
  theorem eval_depends_only_on_read_cells (cfg : Cfg) (env env' : Env N) :
      (e : Expr N) → (∀ p ∈ refs e, env p.1 p.2 = env' p.1 p.2) → eval O cfg env e = eval O cfg env' e
    | .num _, _ => by simp [eval]
    | .str _, _ => by simp [eval]
    | .bool _, _ => by simp [eval]
    | .err _, _ => by simp [eval]
    | .ref r c, h => by
      simp only [eval]
      rw [h (r, c) (by simp [refs])]
    | .range r1 c1 r2 c2, h => by
      simp only [eval]
      congr 1
      apply rangeVals_congr
      intro i j hi hj
      apply h (Nat.min r1 r2 + i, Nat.min c1 c2 + j)
      simp only [refs, List.mem_flatMap, List.mem_range, List.mem_map]
      exact ⟨i, hi, j, hj, rfl⟩
    | .bin op l r, h => by
      simp only [eval]
      rw [eval_depends_only_on_read_cells cfg env env' l (fun p hp => h p (by simp [refs, hp])),
          eval_depends_only_on_read_cells cfg env env' r (fun p hp => h p (by simp [refs, hp]))]
    | .neg x, h => by
      simp only [eval]
      rw [eval_depends_only_on_read_cells cfg env env' x (fun p hp => h p (by simp [refs, hp]))]
    | .pct x, h => by
      simp only [eval]
      rw [eval_depends_only_on_read_cells cfg env env' x (fun p hp => h p (by simp [refs, hp]))]
    | .call f args, h => by
      simp only [eval]
      rw [evalArgs_depends_only_on_read_cells cfg env env' args (fun p hp => h p (by simp [refs, hp]))]
  theorem evalArgs_depends_only_on_read_cells (cfg : Cfg) (env env' : Env N) :
      (as : Args N) → (∀ p ∈ refsArgs as, env p.1 p.2 = env' p.1 p.2) →
        evalArgs O cfg env as = evalArgs O cfg env' as
    | .nil, _ => by simp [evalArgs]
    | .cons a rest, h => by
      simp only [evalArgs]
      rw [eval_depends_only_on_read_cells cfg env env' a (fun p hp => h p (by simp [refsArgs, hp])),
          evalArgs_depends_only_on_read_cells cfg env env' rest (fun p hp => h p (by simp [refsArgs, hp]))]
end

/-- broadcasting: the result of an array operator has the larger extent in each direction -/
theorem broadcast_shape (f : Val N → Val N → Val N) (miss : Val N) (a b : List (List (Val N))) :
    (zipArr f miss a b).length = Nat.max a.length b.length ∧
    ∀ row ∈ zipArr f miss a b, row.length = Nat.max (a.headD []).length (b.headD []).length := by
  unfold zipArr dims
  constructor
  · simp
  · intro row hrow
    simp only [List.mem_map, List.mem_range] at hrow
    obtain ⟨i, _, rfl⟩ := hrow
    simp

end IronCalc.Core
