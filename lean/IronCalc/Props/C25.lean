import IronCalc.Io.XlsxSkeletonProofs
/-
  C25 — xlsx import never crashes: the skeleton of structural accesses.
  Property theorems only (helpers are in Io/XlsxSkeletonProofs.lean).
  Model: Io/XlsxSkeleton.lean (models xlsx/src/import/*.rs; `fx` = the set of repaired sites).
  Everything is for ALL packages: any parts, any trees (any depth/width), any attribute values.
-/
namespace IronCalc.XlsxSkeleton

/-- whatever subset of the sites is repaired, for every package: if the skeleton panics, it does so
    at a site that is not repaired (no access outside the listed sites can panic) -/
theorem panic_only_at_unrepaired_site (fx : String → Bool) (p : Package) (s : String)
    (h : importSkel fx p = .error (.panic s)) : fx s = false :=
  (safe_importSkel (fx := fx) p).elim s h

/-- C25 on the current tree (every site repaired): no package makes the skeleton panic -/
theorem import_total (p : Package) (s : String) : importSkel current p ≠ .error (.panic s) := by
  intro h
  have := panic_only_at_unrepaired_site current p s h
  simp [current] at this

/-- … so the outcome is a workbook or an error -/
theorem import_ok_or_err (p : Package) : importSkel current p = .ok () ∨ importSkel current p = .error .err := by
  cases h : importSkel current p with
  | ok u => left; rfl
  | error e =>
    cases e with
    | err => right; rfl
    | panic s => exact absurd h (import_total p s)

/-! ### concrete packages (non-vacuity, and one witness per site of the pinned tree) -/

def E (t : String) (a : List (String × String)) (k : List Xml) : Xml := .elem t a k

def wbPart (sheets names : List Xml) : Xml :=
  E "workbook" [] [E "sheets" [] sheets, E "definedNames" [] names]
def sheet1 : Xml := E "sheet" [("name", "Sheet1"), ("sheetId", "1"), ("r:id", "rId1")] []
def relsPart (target type : String) : Xml :=
  E "Relationships" [] [E "Relationship" [("Id", "rId1"), ("Type", type), ("Target", target)] []]
def wsType : String := "http://schemas.openxmlformats.org/officeDocument/2006/relationships/worksheet"
def stylesPart (drop : String) (fontKids : List Xml) : Xml :=
  E "styleSheet" [] (([E "fonts" [] [E "font" [] fontKids], E "fills" [] [], E "borders" [] [],
    E "cellStyleXfs" [] [], E "cellStyles" [] [E "cellStyle" [("name", "Normal")] []],
    E "cellXfs" [] [E "xf" [("xfId", "0")] []]] : List Xml).filter (fun x => x.tag != drop))
def cellA1 : Xml := E "c" [("r", "A1")] [E "f" [] [.text "1+1"], E "v" [] [.text "2"]]
def sheetPart (extra : List Xml) : Xml :=
  E "worksheet" [] ([E "sheetData" [] [E "row" [("r", "1")] [cellA1]]] ++ extra)

def pkg (wb rels styles : Xml) (sheet : Option Xml) (more : Package) : Package :=
  [("xl/workbook.xml", wb), ("xl/_rels/workbook.xml.rels", rels), ("xl/styles.xml", styles)] ++
    (match sheet with | some s => [("xl/worksheets/sheet1.xml", s)] | none => []) ++ more

def goodRels : Xml := relsPart "worksheets/sheet1.xml" wsType
def goodPkg : Package := pkg (wbPart [sheet1] []) goodRels (stylesPart "" []) (some (sheetPart [])) []

/-- a well-formed package is imported, on the pinned and on the current tree -/
example : importSkel current goodPkg = .ok () := by decide +kernel
example : importSkel pinned goodPkg = .ok () := by decide +kernel
/-- garbage that is an error, not a panic -/
example : importSkel pinned (pkg (wbPart [E "sheet" [("name", "S"), ("sheetId", "x"), ("r:id", "rId1")] []] [])
    goodRels (stylesPart "" []) (some (sheetPart [])) []) = .error .err := by decide +kernel

/-- the full statement for the pinned tree -/
def C25_full_pinned : Prop := ∀ p s, importSkel pinned p ≠ .error (.panic s)

/-- F25a (the property's probe): a worksheet without `<sheetData>` -/
theorem pinned_panics_no_sheetData :
    importSkel pinned (pkg (wbPart [sheet1] []) goodRels (stylesPart "" []) (some (E "worksheet" [] [])) [])
      = .error (.panic "xlsx/src/import/worksheets.rs:876") := by decide +kernel

/-- F25b–g: styles.xml without one of its six containers -/
theorem pinned_panics_styles_containers :
    (["fonts", "fills", "borders", "cellStyleXfs", "cellStyles", "cellXfs"].map (fun t =>
      importSkel pinned (pkg (wbPart [sheet1] []) goodRels (stylesPart t []) (some (sheetPart [])) [])))
    = [126, 212, 256, 280, 312, 335].map (fun (n : Nat) =>
        (.error (.panic ("xlsx/src/import/styles.rs:" ++ toString n)) : R Unit)) := by decide +kernel

/-- F25h: a defined name whose localSheetId is out of range -/
theorem pinned_panics_localSheetId :
    importSkel pinned (pkg (wbPart [sheet1] [E "definedName" [("name", "n"), ("localSheetId", "7")] []])
      goodRels (stylesPart "" []) (some (sheetPart [])) [])
      = .error (.panic "xlsx/src/import/workbook.rs:64") := by decide +kernel

/-- F25i: defined names but no worksheet -/
theorem pinned_panics_names_without_sheets :
    importSkel pinned (pkg (wbPart [] [E "definedName" [("name", "n")] []]) goodRels (stylesPart "" []) none [])
      = .error (.panic "xlsx/src/import/mod.rs:82") := by decide +kernel

/-- F25j: a sheet whose r:id has no relationship -/
theorem pinned_panics_missing_relationship :
    importSkel pinned (pkg (wbPart [E "sheet" [("name", "S"), ("sheetId", "1"), ("r:id", "rId9")] []] [])
      goodRels (stylesPart "" []) (some (sheetPart [])) [])
      = .error (.panic "xlsx/src/import/worksheets.rs:1300") := by decide +kernel

/-- F25k: a worksheet part that is not under a `worksheets/` folder -/
theorem pinned_panics_worksheet_path :
    importSkel pinned (pkg (wbPart [sheet1] []) (relsPart "sheet1.xml" wsType) (stylesPart "" [])
      (some (sheetPart [])) [])
      = .error (.panic "xlsx/src/import/worksheets.rs:563") := by decide +kernel

def sheetRels (type target : String) : String × Xml :=
  ("xl/worksheets/_rels/sheet1.xml.rels",
    E "Relationships" [] [E "Relationship" [("Id", "rId1"), ("Type", type), ("Target", target)] []])

/-- F25l: a comments / table relationship whose target is shorter than two bytes -/
theorem pinned_panics_short_target :
    importSkel pinned (pkg (wbPart [sheet1] []) goodRels (stylesPart "" []) (some (sheetPart []))
      [sheetRels "x/comments" "c"])
      = .error (.panic "library/core/src/slice/index.rs:1020") := by decide +kernel

/-- F25m: a comment with an empty `<t/>` -/
theorem pinned_panics_empty_comment_text :
    importSkel pinned (pkg (wbPart [sheet1] []) goodRels (stylesPart "" []) (some (sheetPart []))
      [sheetRels "x/comments" "../comments1.xml",
       ("xl/comments1.xml", E "comments" [] [E "commentList" [] [E "comment" [("ref", "A1")]
          [E "text" [] [E "t" [] []]]]])])
      = .error (.panic "xlsx/src/import/worksheets.rs:230") := by decide +kernel

/-- F25n: an 8-byte `rgb` value whose byte 2 is inside a character -/
theorem pinned_panics_rgb_slice :
    importSkel pinned (pkg (wbPart [sheet1] []) goodRels
      (stylesPart "" [E "color" [("rgb", "aé45678")] []]) (some (sheetPart [])) [])
      = .error (.panic "xlsx/src/import/util.rs:58") := by decide +kernel

/-- F25o: the same in a theme colour -/
theorem pinned_panics_theme_slice :
    importSkel pinned (pkg (wbPart [sheet1] [])
      (E "Relationships" [] [E "Relationship" [("Id", "rId1"), ("Type", wsType), ("Target", "worksheets/sheet1.xml")] [],
         E "Relationship" [("Id", "rId2"), ("Type", "x/theme"), ("Target", "theme/theme1.xml")] []])
      (stylesPart "" []) (some (sheetPart []))
      [("xl/theme/theme1.xml", E "theme" [] [E "themeElements" [] [E "clrScheme" []
          [E "dk1" [] [E "srgbClr" [("val", "aé45678")] []]]]])])
      = .error (.panic "xlsx/src/import/theme.rs:111") := by decide +kernel

/-- F25p: a conditional-formatting priority of u32::MAX (a panic in builds with overflow checks) -/
theorem pinned_panics_cf_priority :
    importSkel pinned (pkg (wbPart [sheet1] []) goodRels (stylesPart "" [])
      (some (sheetPart [E "conditionalFormatting" [("sqref", "A1")]
        [E "cfRule" [("type", "duplicateValues"), ("priority", "4294967295")] []]])) [])
      = .error (.panic "xlsx/src/import/conditional_formatting.rs:733") := by decide +kernel

theorem C25_pinned_false : ¬ C25_full_pinned := by
  intro h
  exact h _ _ pinned_panics_no_sheetData

/-- the same packages on the current tree: an error or a workbook, never a panic -/
example : importSkel current (pkg (wbPart [sheet1] []) goodRels (stylesPart "" []) (some (E "worksheet" [] [])) [])
    = .error .err := by decide +kernel
example : importSkel current (pkg (wbPart [sheet1] []) goodRels
    (stylesPart "" [E "color" [("rgb", "aé45678")] []]) (some (sheetPart [])) []) = .ok () := by decide +kernel

end IronCalc.XlsxSkeleton
