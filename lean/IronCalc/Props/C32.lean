import IronCalc.Book.NamesProofs
/-
  C32 — Defined names are stable under edits.  Property theorems only.
  Model: Book/Names.lean (new/delete/update_defined_name, the definition table keyed by
  (scope, lower-cased name)), Book/Sheets.lean (sheet operations, lookup local-then-global) and
  Formula/Rename.lean (`rename_defined_name_in_node`).  The model is the REPAIRED code: stored name
  formulas and stored cell formulas are re-parsed in the internal language by every operation
  (fixes of F10a and of its cell-formula sibling), so no operation of the model has a language or
  locale parameter: language/locale independence of stored formulas and resolution holds by
  construction in the model and is checked on the code by the tie (English twin).
-/
namespace IronCalc.Book
open IronCalc.RefTree

/-! ### lookup: local first, then global, case-insensitive, deterministic -/

/-- lookup is case-insensitive: spellings with the same lower-casing resolve alike -/
theorem lookup_case_insensitive (F : Fold) (dns : List (String × Option Nat)) (c : Option Nat) (n n' : String)
    (h : F.low n = F.low n') : resolveIdent F dns c n = resolveIdent F dns c n' := by
  unfold resolveIdent
  rw [h]

/-- a name local to the context sheet wins over a global one of the same spelling -/
theorem lookup_local_first (F : Fold) (dns : List (String × Option Nat)) (c : Nat) (n : String)
    (d : String × Option Nat) (hd : d ∈ dns) (hn : F.low n = F.low d.1) (hs : d.2 = some c) :
    resolveIdent F dns (some c) n = some (some c) := by
  unfold resolveIdent
  have : dns.any (fun d => F.low n == F.low d.1 && d.2 == some c) = true := by
    rw [List.any_eq_true]; exact ⟨d, hd, by simp [hn, hs]⟩
  simp [this]

/-- the result of a lookup is the context sheet, global, or nothing — never another sheet's name -/
theorem lookup_scope (F : Fold) (dns : List (String × Option Nat)) (c : Nat) (n : String) :
    resolveIdent F dns (some c) n = some (some c) ∨ resolveIdent F dns (some c) n = some none
      ∨ resolveIdent F dns (some c) n = none := by
  unfold resolveIdent
  simp only
  split
  · exact Or.inl rfl
  · split
    · exact Or.inr (Or.inl rfl)
    · exact Or.inr (Or.inr rfl)

/-- names of other sheets are invisible: entries scoped to a sheet other than the context (and not
    global) never influence the lookup -/
theorem lookup_ignores_other_sheets (F : Fold) (dns : List (String × Option Nat)) (c : Nat) (n : String)
    (e : String × Option Nat) (he : e.2 ≠ some c) (he' : e.2 ≠ none) :
    resolveIdent F (e :: dns) (some c) n = resolveIdent F dns (some c) n := by
  unfold resolveIdent
  have h1 : (e.2 == some c) = false := by
    cases h : e.2 == some c with
    | false => rfl
    | true => exact absurd (by simpa using h) he
  have h2 : (e.2 == none) = false := by
    cases h : e.2 == none with
    | false => rfl
    | true => exact absurd (by simpa using h) he'
  simp only [List.any_cons, h1, h2, Bool.and_false, Bool.false_or]

/-! ### renaming a name (α-renaming) -/

/-- **one identifier**: after `rename_defined_name_in_node` and the renaming of the definition's key,
    an identifier denotes the definition it denoted before — provided it does not already spell the
    new name (then it would be captured) -/
theorem identDen_rename {D : Type} (F : Fold) (tbl : DefTable D) (old : String) (scope : Option Nat)
    (new : String) (v : NameRes) (n : String) (hn : F.low n ≠ F.low new) :
    identDen F (renameTable F tbl old scope new)
        (renameNameIdent F.low old scope new v n).1 (renameNameIdent F.low old scope new v n).2
      = identDen F tbl v n := by
  unfold renameNameIdent
  cases v with
  | none => rfl
  | some s =>
    simp only
    by_cases h : F.low old = F.low n ∧ s = scope
    · obtain ⟨h1, h2⟩ := h
      simp [h1, h2, identDen, renameTable]
    · simp only [h, if_false, identDen, renameTable]
      have c1 : ¬ (s = scope ∧ F.low n = F.low new) := fun c => hn c.2
      have c2 : ¬ (s = scope ∧ F.low n = F.low old) := fun c => h ⟨c.2.symm, c.1⟩
      simp [c1, c2]

/-- the denotation of a parsed formula: every identifier replaced by the definition it denotes -/
def denote {D : Type} (F : Fold) (tbl : DefTable D) : Node → Tree SheetRes (Option D) :=
  Tree.map (fun _ r => r) (fun v n => (identDen F tbl v n, ""))

/-- **C32 (rename a name).** Renaming a defined name in a formula tree together with the key of its
    definition leaves the denotation of the whole tree unchanged, for every tree in which the new
    spelling does not occur as an identifier; references are untouched.  Hence every evaluator that
    reads names through `get_parsed_defined_name` computes the same value. -/
theorem rename_name_preserves_eval {D : Type} (F : Fold) (tbl : DefTable D) (old : String)
    (scope : Option Nat) (new : String) (t : Node)
    (hfresh : ∀ vn ∈ Tree.idents t, F.low vn.2 ≠ F.low new) :
    denote F (renameTable F tbl old scope new) (renameDefinedNameInNode F.low old scope new t)
      = denote F tbl t := by
  unfold denote renameDefinedNameInNode
  rw [Tree.map_map]
  apply Tree.map_congr
  · intro _ _; rfl
  · intro vn hvn
    rw [identDen_rename F tbl old scope new vn.1 vn.2 (hfresh vn hvn)]

/-! ### one update that changes name AND scope -/

/-- **one identifier**, simultaneous change of spelling and scope: a user of the definition
    `(scope, old)` denotes, in the updated table, what it denoted before; so does every other identifier,
    provided none of them already occupies the target key `(newScope, new)`.  Covers the four
    combinations: `new = old` (scope only), `newScope = scope` (name only), both, neither. -/
theorem identDen_update {D : Type} (F : Fold) (tbl : DefTable D) (old : String) (scope : Option Nat)
    (new : String) (newScope : Option Nat) (v : NameRes) (n : String)
    (hclash : ¬ (F.low old = F.low n ∧ v = some scope) → ¬ (v = some newScope ∧ F.low n = F.low new)) :
    identDen F (updateTable F tbl old scope new newScope)
        (retargetIdent F.low old scope new newScope v n).1 (retargetIdent F.low old scope new newScope v n).2
      = identDen F tbl v n := by
  unfold retargetIdent
  cases v with
  | none => rfl
  | some s =>
    simp only
    by_cases h : F.low old = F.low n ∧ s = scope
    · obtain ⟨h1, h2⟩ := h
      simp [h1, h2, identDen, updateTable]
    · simp only [h, if_false, identDen, updateTable]
      have hnu : ¬ (F.low old = F.low n ∧ some s = some scope) := by
        intro c; exact h ⟨c.1, Option.some.inj c.2⟩
      have c1 : ¬ (s = newScope ∧ F.low n = F.low new) := by
        intro c; exact hclash hnu ⟨by rw [c.1], c.2⟩
      have c2 : ¬ (s = scope ∧ F.low n = F.low old) := fun c => h ⟨c.2.symm, c.1⟩
      simp [c1, c2]

/-- **C32 (update name and scope in one call).** Re-spelling and re-binding the users of a definition
    together with moving its key leaves the denotation of the whole formula unchanged, for every tree in
    which no other identifier already denotes the target key; the users are selected by the OLD scope
    (the seeded defect passed the new scope). -/
theorem update_name_scope_preserves_eval {D : Type} (F : Fold) (tbl : DefTable D) (old : String)
    (scope : Option Nat) (new : String) (newScope : Option Nat) (t : Node)
    (hclash : ∀ vn ∈ Tree.idents t, ¬ (F.low old = F.low vn.2 ∧ vn.1 = some scope) →
      ¬ (vn.1 = some newScope ∧ F.low vn.2 = F.low new)) :
    denote F (updateTable F tbl old scope new newScope) (retargetNameInNode F.low old scope new newScope t)
      = denote F tbl t := by
  unfold denote retargetNameInNode
  rw [Tree.map_map]
  apply Tree.map_congr
  · intro _ _; rfl
  · intro vn hvn
    rw [identDen_update F tbl old scope new newScope vn.1 vn.2 (hclash vn hvn)]

/-- selecting the users by the NEW scope (the seeded defect) is wrong: a user of the Sheet-local
    `ratio` (scope index 1) moved to the global `factor` keeps its spelling and denotes nothing -/
example : identDen (D := String) ⟨id, id⟩
      (updateTable ⟨id, id⟩ (fun s k => if s = some 1 ∧ k = "ratio" then some "Sheet2!$A$1" else none)
        "ratio" (some 1) "factor" none)
      (retargetIdent id "ratio" none "factor" none (some (some 1)) "ratio").1
      (retargetIdent id "ratio" none "factor" none (some (some 1)) "ratio").2 = none
    ∧ identDen (D := String) ⟨id, id⟩
      (updateTable ⟨id, id⟩ (fun s k => if s = some 1 ∧ k = "ratio" then some "Sheet2!$A$1" else none)
        "ratio" (some 1) "factor" none)
      (retargetIdent id "ratio" (some 1) "factor" none (some (some 1)) "ratio").1
      (retargetIdent id "ratio" (some 1) "factor" none (some (some 1)) "ratio").2 = some "Sheet2!$A$1" := by decide

/-- the re-parse binds the new spelling to the moved definition on every sheet from which it is
    visible (its own sheet, or any sheet when it is global) when no other name has that spelling there -/
theorem update_name_reresolves_visible (F : Fold) (dns : List (String × Option Nat)) (c : Nat) (new : String)
    (newScope : Option Nat)
    (huniq : ∀ d ∈ dns, F.low new = F.low d.1 → d.2 = newScope)
    (hex : ∃ d ∈ dns, F.low new = F.low d.1 ∧ d.2 = newScope)
    (hvis : newScope = some c ∨ newScope = none) :
    resolveIdent F dns (some c) new = some newScope :=
  update_name_reresolves_visible_aux F dns c new newScope huniq hex hvis

/-- **C32 (what the code does on a sheet).** `update_defined_name` with a new spelling: every stored
    formula of a sheet is parsed, rewritten by `rename_defined_name_in_node` (users selected by the OLD
    scope), printed, and parsed again against the updated name list.  On every sheet from which the new
    scope is visible (its own sheet, or any sheet when it is global), the parse trees after the update
    are exactly `retargetNameInNode` of the parse trees before — so `update_name_scope_preserves_eval`
    speaks about the code path of the model, not about an idealised rewrite.  Hypotheses: sheet names
    and ids unique; one stored entry per (spelling, scope) (what `new_defined_name` /
    `update_defined_name` enforce); the new spelling is used by no name and by no identifier of the
    sheet's formulas; the two case foldings agree.  The print/parse step of the stored text is the
    identity on trees in this model (`strip`/`resolve`); on the code it is C09's round trip. -/
theorem update_reparses_to_retarget {F : Fold} {b b' : Book} {name : String} {scope : Option Nat}
    {new : String} {newScope : Option Nat} {formula : SNode}
    (hU : b.UniqueNames F) (hI : b.UniqueIds)
    (hfold : ∀ a c : String, F.up a = F.up c → F.low a = F.low c)
    (h : updateDefinedName F b true name scope new newScope formula = .ok b')
    (huniq : ∀ (j k : Nat) (t u : String × Option Nat), b.namesWithScope[j]? = some t →
      b.namesWithScope[k]? = some u → F.low t.1 = F.low u.1 → t.2 = u.2 → j = k)
    (hfresh : ∀ t ∈ b.namesWithScope, F.low t.1 ≠ F.low new)
    (p : Nat) (ws : Sheet) (hws : b.sheets[p]? = some ws)
    (hvis : newScope = some p ∨ newScope = none)
    (hn : ∀ f ∈ ws.formulas, ∀ vn ∈ Tree.idents f, F.low vn.2 ≠ F.low new) :
    ∃ ws', b'.sheets[p]? = some ws' ∧ ws'.name = ws.name ∧ ws'.id = ws.id ∧
      b'.parsedSheet F ws' = (b.parsedSheet F ws).map (retargetNameInNode F.low name scope new newScope) := by
  obtain ⟨sid, newSid, i, d, hs1, hs2, hfi, hdi, hb'⟩ := updateDefinedName_inv h
  obtain ⟨d0, hd0, hup, hsc⟩ := findNameIdx_spec hfi
  rw [hdi] at hd0; cases hd0
  -- the stored entry, seen through `get_defined_names_with_scope`
  have hdns_i : b.namesWithScope[i]? = some (d.name, scope) := by
    unfold Book.namesWithScope
    rw [List.getElem?_map, hdi]
    simp only [Option.map_some, Option.some.injEq, Prod.mk.injEq, true_and]
    rw [hsc]; exact scopeId_bind_idIndex hI hs1
  have hlow : F.low d.name = F.low name := hfold _ _ hup
  have hne : (new != d.name) = true := by
    have := hfresh (d.name, scope) (List.mem_of_getElem? hdns_i)
    simp only [bne_iff_ne, ne_eq]
    intro e; exact this (by rw [e])
  rw [hne] at hb'
  simp only [if_true] at hb'
  -- vectors after the update
  have hsheets : b'.sheets = b.sheets.map fun ws =>
      ({ ws with formulas := ws.formulas.map (rewriteName F b name scope new ws.name) } : Sheet) := by rw [hb']
  have hnames : b'.sheetNames = b.sheetNames := by
    unfold Book.sheetNames; rw [hsheets, List.map_map]; rfl
  have hids : b'.sheets.map (·.id) = b.sheets.map (·.id) := by
    rw [hsheets, List.map_map]; rfl
  have hdns' : b'.namesWithScope = b.namesWithScope.set i (new, newScope) := by
    unfold Book.namesWithScope
    have hn' : b'.names = b.names.set i { name := new, scope := newSid, formula := formula } := by rw [hb']
    rw [hn', List.map_set]
    have hg : (b.names.map fun d => (d.name, d.scope.bind (idIndex b'.sheets)))
        = b.names.map fun d => (d.name, d.scope.bind (idIndex b.sheets)) := by
      apply List.map_congr_left
      intro e _
      congr 1
      cases e.scope with
      | none => rfl
      | some s => exact idIndex_congr hids s
    rw [hg]
    congr 1
    simp only [Prod.mk.injEq, true_and]
    have := scopeId_bind_idIndex hI hs2
    cases newSid with
    | none => simpa using this
    | some s => simpa [idIndex_congr hids s] using this
  have hUD : UpdatedDefs F b.namesWithScope b'.namesWithScope name scope new newScope := by
    rw [hdns']
    exact updatedDefs_set F _ name scope new newScope i (d.name, scope) hdns_i ⟨hlow, rfl⟩
      (fun j t' hj h1 h2 => huniq j i t' (d.name, scope) hj hdns_i (by rw [h1, hlow]) h2)
  -- the sheet
  have hinj : Inj b.sheetNames := inj_of_nodupUp F.up hU
  have hctx : b.sheetNames[p]? = some ws.name := by simp [Book.sheetNames, hws]
  have hc : sheetIndex b.sheetNames ws.name = some p := sheetIndex_of_get hinj hctx
  refine ⟨{ ws with formulas := ws.formulas.map (rewriteName F b name scope new ws.name) }, ?_, rfl, rfl, ?_⟩
  · rw [hsheets, List.getElem?_map, hws]; rfl
  · unfold Book.parsedSheet
    rw [hnames]
    simp only [List.map_map]
    apply List.map_congr_left
    intro f hf
    simp only [Function.comp, rewriteName]
    exact reparse_tree F b.sheetNames b.namesWithScope b'.namesWithScope name scope new newScope
      ws.name p hc hUD hfresh hvis f (hn f hf)

/-- non-vacuity of `update_reparses_to_retarget`: Sheet2-local `ratio` becomes the global `factor` in
    one update (with a global `ratio` decoy); on Sheet2 the user is re-spelled and re-bound, the model's
    update and `retargetNameInNode` agree, and the decoy user on Sheet1 is untouched -/
def updBook : Book :=
  { sheets := [ { name := "Sheet1", id := 1, formulas := [.op "+" [.ident () "ratio", .leaf "n1"]] },
                { name := "Sheet2", id := 2, formulas := [.op "*" [.ident () "ratio", .leaf "n2"]] } ],
    names := [ { name := "ratio", scope := some 2, formula := .ref .cell (some "Sheet2") "$A$1" },
               { name := "ratio", scope := none, formula := .ref .cell (some "Sheet1") "$C$1" } ] }


example : updBook.UniqueNames ⟨id, id⟩ ∧ updBook.UniqueIds := by decide

example : (updateDefinedName ⟨id, id⟩ updBook true "ratio" (some 1) "factor" none (.ref .cell (some "Sheet2") "$A$1")).toOption.map
      (fun b' => b'.namesWithScope) = some [("factor", none), ("ratio", none)] := by decide

/-- after the model's update (left) and by `retargetNameInNode` on the old parse (right): Sheet1 keeps
    the decoy `ratio` (global), Sheet2 reads `factor` (global) -/
example : (updateDefinedName ⟨id, id⟩ updBook true "ratio" (some 1) "factor" none (.ref .cell (some "Sheet2") "$A$1")).toOption.map
      (fun b' => (b'.parsed ⟨id, id⟩).flatMap (fun l => l.flatMap Tree.idents))
    = some ([(some none, "ratio"), (some none, "factor")] : List (NameRes × String)) := by decide

example : (updBook.parsed ⟨id, id⟩).flatMap
      (fun l => l.flatMap fun t => Tree.idents (retargetNameInNode id "ratio" (some 1) "factor" none t))
    = ([(some none, "ratio"), (some none, "factor")] : List (NameRes × String)) := by decide

/-- the rewrite touches identifiers only: every reference of the formula is kept as it is -/
theorem rename_name_keeps_refs (F : Fold) (old : String) (scope : Option Nat) (new : String) (t : Node) :
    Tree.refs (renameDefinedNameInNode F.low old scope new t) = Tree.refs t := by
  unfold renameDefinedNameInNode
  rw [Tree.refs_map]
  simp

/-- every user is updated: an identifier that denoted the renamed definition spells the new name -/
theorem rename_name_updates_users (F : Fold) (old : String) (scope : Option Nat) (new : String) (n : String)
    (h : F.low old = F.low n) :
    (renameNameIdent F.low old scope new (some scope) n).2 = new := by
  unfold renameNameIdent
  simp [h]

/-! ### operations on other sheets -/

/-- **rename of a sheet**: the stored defined-name formulas, re-parsed against the new name vector
    (in any fixed context position), are the old parse trees with `rename_sheet_in_node` applied —
    so each reference resolves as before and only the displayed prefix of references to the renamed
    sheet changes. -/
theorem other_sheet_rename_stable {F : Fold} {b b' : Book} {i : Nat} {new : String}
    (hU : b.UniqueNames F) (h : renameSheet true F b i new = .ok b') (hG : b.ghostFresh new = true)
    {p : Nat} {ctx ctx' : String} (hctx : b.sheetNames[p]? = some ctx) (hctx' : b'.sheetNames[p]? = some ctx') :
    b'.names.map (fun d => (d.name, d.scope, resolve F b'.sheetNames b'.namesWithScope ctx' d.formula))
      = b.names.map (fun d => (d.name, d.scope,
          renameSheetInNode true i new (resolve F b.sheetNames b.namesWithScope ctx d.formula))) := by
  obtain ⟨hnames, _, hdns⟩ := rename_vectors h
  obtain ⟨_, hex, old, hold, hb'⟩ := renameSheet_inv h
  have hlt : i < b.sheets.length := (List.getElem?_eq_some_iff.mp hold).1
  have hlt' : i < b.sheetNames.length := by simpa [Book.sheetNames] using hlt
  have hinj : Inj b.sheetNames := inj_of_nodupUp F.up hU
  have hnew := new_not_elsewhere hU hex
  rw [hnames] at hctx'
  rw [hnames, hdns]
  have hn : b'.names = b.names.map fun d =>
      { d with formula := rewriteFormula true F b i new old.name d.formula } := by rw [hb']
  rw [hn, List.map_map]
  apply List.map_congr_left
  intro d hd
  simp only [Function.comp]
  have hg : ∀ kr ∈ Tree.refs d.formula, GhostOK b.sheetNames new kr.2 := by
    intro kr hkr
    unfold Book.ghostFresh at hG
    simp only [Bool.and_eq_true, List.all_eq_true] at hG
    exact ghostOK_spec (hG.2 d hd kr hkr)
  unfold rewriteFormula
  rw [resolve_rewrite' F hinj hlt' hnew b.namesWithScope old.name hctx hctx' d.formula hg]

/-- **move of a sheet**: nothing stored changes and every reference of a name formula denotes the
    same sheet (C17's `move_preserves_resolution`, applied to names) -/
theorem other_sheet_move_stable {F : Fold} {b b' : Book} {i j : Nat}
    (hU : b.UniqueNames F) (h : moveSheet b i j = .ok b') :
    b'.names = b.names ∧ ∀ ctx sn, refId b'.sheets ctx sn = refId b.sheets ctx sn := by
  obtain ⟨hp, hn⟩ := moveSheet_perm h
  refine ⟨hn, fun ctx sn => ?_⟩
  rw [refId_eq, refId_eq]
  exact idByName_perm hp (uniqueMem_of_nodupUp F.up hU) _

/-- **delete of another sheet**: exactly the names local to the deleted sheet go, every other stored
    name is untouched (same entry, same order), every reference to a remaining sheet keeps denoting it -/
theorem other_sheet_delete_stable {F : Fold} {b b' : Book} {i : Nat}
    (hU : b.UniqueNames F) (h : deleteSheet b i = .ok b') :
    b'.names = b.names.filter (fun d => d.scope != (b.sheets[i]?).map (·.id)) ∧
      ∀ x ∈ b'.sheets, x ∈ b.sheets ∧ idByName b'.sheets x.name = idByName b.sheets x.name := by
  unfold deleteSheet at h
  split at h
  · cases h
  · split at h
    · cases h
    · cases h
      refine ⟨rfl, ?_⟩
      intro x hx
      have hsub : ∀ y, y ∈ b.sheets.eraseIdx i → y ∈ b.sheets := fun y hy => List.mem_of_mem_eraseIdx hy
      exact ⟨hsub x hx, idByName_sublist_mem hsub (uniqueMem_of_nodupUp F.up hU) x.name hx rfl⟩

/-! ### F27a (repaired): the names local to a deleted sheet are deleted with it -/

/-- every sheet-local name belongs to an existing sheet (C27's `namesScoped`) -/
def Book.NamesScoped (b : Book) : Prop :=
  ∀ d ∈ b.names, ∀ sid, d.scope = some sid → ∃ x ∈ b.sheets, x.id = sid

theorem idIndex_isSome_of_mem {l : List Sheet} {x : Sheet} (hx : x ∈ l) : (idIndex l x.id).isSome := by
  induction l with
  | nil => cases hx
  | cons a as ih =>
    unfold idIndex
    by_cases ha : a.id = x.id
    · simp [ha]
    · simp only [ha, if_false]
      cases hx with
      | head => exact absurd rfl ha
      | tail _ hm =>
        have := ih hm
        cases hi : idIndex as x.id with
        | none => simp [hi] at this
        | some k => simp

/-- **C32 (delete).** After any successful `delete_sheet` on a workbook whose local names belong to
    existing sheets: no name of the deleted sheet is left, and every remaining local name still
    belongs to an existing sheet — so none is reported (or parsed) as a global name.  (On the
    pinned tree this failed: `witnessF27a`.) -/
theorem delete_sheet_names_scoped {b b' : Book} {i : Nat} (hS : b.NamesScoped)
    (h : deleteSheet b i = .ok b') :
    b'.NamesScoped ∧ (∀ d ∈ b'.names, d.scope.isSome → (d.scope.bind (idIndex b'.sheets)).isSome) ∧
      ∀ sh, b.sheets[i]? = some sh → ∀ d ∈ b'.names, d.scope ≠ some sh.id := by
  unfold deleteSheet at h
  split at h
  · cases h
  · split at h
    · cases h
    · rename_i h1 h2
      cases h
      have hi : i < b.sheets.length := by omega
      obtain ⟨sh, hsh⟩ : ∃ sh, b.sheets[i]? = some sh := ⟨b.sheets[i], by simp [hi]⟩
      have hscoped : Book.NamesScoped
          { sheets := b.sheets.eraseIdx i,
            names := b.names.filter fun d => d.scope != (b.sheets[i]?).map (·.id) } := by
        intro d hd sid hs
        simp only [List.mem_filter, hsh, Option.map_some] at hd
        obtain ⟨x, hx, hid⟩ := hS d hd.1 sid hs
        have hne : sid ≠ sh.id := by
          intro e; have := hd.2; rw [hs, e] at this; simp at this
        obtain ⟨k, hk⟩ := List.mem_iff_getElem?.mp hx
        have hki : k ≠ i := by
          intro e; subst e; rw [hsh] at hk; cases hk; exact hne hid.symm
        refine ⟨x, ?_, hid⟩
        apply List.mem_iff_getElem?.mpr
        by_cases hlt : k < i
        · exact ⟨k, by rw [List.getElem?_eraseIdx]; simp [hlt, hk]⟩
        · refine ⟨k - 1, ?_⟩
          rw [List.getElem?_eraseIdx]
          have c1 : ¬ (k - 1 < i) := by omega
          have c2 : k - 1 + 1 = k := by omega
          simp [c1, c2, hk]
      refine ⟨hscoped, ?_, ?_⟩
      · intro d hd hsome
        cases hs : d.scope with
        | none => rw [hs] at hsome; cases hsome
        | some sid =>
          obtain ⟨x, hx, hid⟩ := hscoped d hd sid hs
          simp only [Option.bind_some]
          rw [← hid]; exact idIndex_isSome_of_mem hx
      · intro sh' hsh' d hd
        rw [hsh] at hsh'; cases hsh'
        simp only [List.mem_filter, hsh, Option.map_some] at hd
        intro e; have := hd.2; rw [e] at this; simp at this

def witnessF27a : Book :=
  { sheets := [ { name := "Sheet1", id := 1, formulas := [] }, { name := "Sheet2", id := 2, formulas := [] } ],
    names := [ { name := "loc", scope := some 2, formula := .ref .cell (some "Sheet2") "$A$1" },
               { name := "glob", scope := none, formula := .ref .cell (some "Sheet1") "$A$1" } ] }

/-- the former counterexample: `loc` goes with Sheet2, the global name stays -/
example : (deleteSheet witnessF27a 1).toOption.map (fun b' => b'.names.map (·.name)) = some ["glob"] := by decide

/-! ### non-vacuity -/

example : identDen (D := String) ⟨id, id⟩
      (renameTable ⟨id, id⟩ (fun s k => if s = none ∧ k = "total" then some "Sheet1!$A$1" else none) "total" none "sum1")
      (renameNameIdent id "total" none "sum1" (some none) "total").1
      (renameNameIdent id "total" none "sum1" (some none) "total").2 = some "Sheet1!$A$1" := by decide

/-- capture, outside the freshness hypothesis: the identifier `x` (a LAMBDA parameter, not a name)
    starts denoting the definition once `total` is renamed to `x` and the formula is parsed again -/
example : resolveIdent ⟨id, id⟩ [("total", none)] (some 0) "x" = none ∧
          resolveIdent ⟨id, id⟩ (renameDefs ⟨id, id⟩ [("total", none)] "total" none "x") (some 0) "x" = some none := by
  decide

example : (renameSheet true ⟨id, id⟩
      { sheets := [ { name := "Sheet1", id := 1, formulas := [] }, { name := "Other", id := 2, formulas := [] } ],
        names := [ { name := "rng", scope := none, formula := .ref .range (some "Other") "$A$1:$B$2" } ] } 1 "Otra").toOption.map
      (fun b' => b'.names.map fun d => (Tree.refs d.formula)) = some [[(.range, some "Otra")]] := by decide

end IronCalc.Book

namespace IronCalc.Book
open IronCalc.RefTree

/-! ### F32d: `update_defined_name` lets a rename capture (the new spelling exists in another scope) -/

/-- the full statement about re-resolution after a rename of a name: every identifier of every
    formula resolves, after the stored list is renamed and the text parsed again, to the scope it
    resolved to before (so it denotes the same definition) — for every rename the code ACCEPTS, i.e.
    whenever the new spelling is unused *in the scope of the renamed name* -/
def C32_rename_reparse_full : Prop :=
  ∀ (F : Fold) (dns : List (String × Option Nat)) (old : String) (scope : Option Nat) (new : String) (c : Nat) (n : String),
    (¬ ∃ d ∈ dns, F.low d.1 = F.low new ∧ d.2 = scope) →
    resolveIdent F (renameDefs F dns old scope new) (some c)
        (renameNameIdent F.low old scope new (resolveIdent F dns (some c) n) n).2
      = resolveIdent F dns (some c) n

/-- global `total`, sheet-local `rate` on sheet 0; renaming the global `total` to `rate` is accepted,
    and `total` used on sheet 0 is rewritten to `rate`, which parses as the LOCAL `rate` -/
theorem C32_rename_reparse_full_false : ¬ C32_rename_reparse_full := by
  intro h
  have := h ⟨id, id⟩ [("total", none), ("rate", some 0)] "total" none "rate" 0 "total" (by decide)
  revert this
  decide

/-! ### F32c: the formula parser finds sheets case-sensitively, the name machinery ignoring case -/

/-- models base/src/utils.rs::ParsedReference::parse_reference_formula's sheet lookup
    (`Model::get_sheet_index_by_name`, ignoring case): how `parse_defined_names` resolves a name
    whose formula is a plain reference -/
def nameTargetUp (F : Fold) (names : List String) (f : SNode) : Option Nat :=
  match f with
  | .ref _ (some n) _ => sheetIndexUp F names n
  | _ => none

/-- the full statement: a reference-valued name that resolved before a rename of the sheet it refers
    to still resolves afterwards -/
def C32_rename_name_target_full : Prop :=
  ∀ (F : Fold) (b b' : Book) (i : Nat) (new : String), b.UniqueNames F → renameSheet true F b i new = .ok b' →
    ∀ (k : Nat) (d d' : DefName), b.names[k]? = some d → b'.names[k]? = some d' →
      (nameTargetUp F b.sheetNames d.formula).isSome → (nameTargetUp F b'.sheetNames d'.formula).isSome

/-- a folding that identifies exactly `data` and `Data` (kernel-evaluable stand-in for `to_uppercase`) -/
def foldData : Fold := ⟨fun s => if s = "data" then "Data" else s, fun s => if s = "Data" then "data" else s⟩

theorem C32_rename_name_target_full_false : ¬ C32_rename_name_target_full := by
  intro h
  have := h foldData
    { sheets := [ { name := "Data", id := 1, formulas := [] }, { name := "S2", id := 2, formulas := [] } ],
      names := [ { name := "total", scope := none, formula := .ref .range (some "data") "$A$1:$B$2" } ] }
    { sheets := [ { name := "zz", id := 1, formulas := [] }, { name := "S2", id := 2, formulas := [] } ],
      names := [ { name := "total", scope := none, formula := .ref .range (some "data") "$A$1:$B$2" } ] }
    0 "zz" (by decide) rfl 0 _ _ rfl rfl (by decide)
  revert this
  decide

end IronCalc.Book
