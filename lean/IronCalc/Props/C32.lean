import IronCalc.Book.Names
import IronCalc.Book.SheetsProofs
/-
  C32 — Defined names are stable under edits.  Property theorems only.
-/
namespace IronCalc.Book
open IronCalc.Formula

/-- lookup is case-insensitive: spellings with the same lower-casing resolve alike -/
theorem lookup_case_insensitive (F : Fold) (dns : List (String × Option Nat)) (c : Option Nat) (n n' : String)
    (h : F.low n = F.low n') : resolveIdent F dns c n = resolveIdent F dns c n' := by
  unfold resolveIdent
  rw [h]

end IronCalc.Book
