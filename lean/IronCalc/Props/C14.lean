import IronCalc.Sheet.StructureEval
/-
  C14 — Inserting then deleting the same rows or columns is the identity.
  Property theorems only.  Model: Sheet/Structure.lean.
  The persistent state of a sheet is: cells (moved by σ; a cell without formula is moved by value, a formula
  is re-entered at its new host), formulas' references (ρ), row descriptors, the column descriptor list,
  links, conditional-format corners.  The identity is proved component by component; the components are
  independent in the code (separate loops of insert_* / delete_*).
-/
namespace IronCalc.Structure.C14

/-- cells, row descriptors, links: `delete r k ∘ insert r k` is the identity on every line index -/
theorem C14_sigma_identity (r k x : Int) (hk : 0 < k) :
    (sigma (.insert r k) x).bind (sigma (.delete r k)) = some x := by
  simp only [sigma, sigmaInsert]
  split <;> simp only [Option.bind_some, sigma, sigmaDelete] <;> grind

theorem C14_rows_links_cf_identity (r k x : Int) (hk : 0 < k) :
    (rowDescCoord (.insert r k) x).bind (rowDescCoord (.delete r k)) = some x ∧
    (linkCoord (.insert r k) x).bind (linkCoord (.delete r k)) = some x ∧
    (cfCoord (.insert r k) x).bind (cfCoord (.delete r k)) = some x := by
  have h := C14_sigma_identity r k x hk
  refine ⟨?_, ?_, ?_⟩
  · rw [rowDescCoord_eq_sigma (.insert r k) hk]
    cases hs : sigma (.insert r k) x with
    | none => rw [hs] at h; cases h
    | some y => rw [hs] at h; simpa [rowDescCoord_eq_sigma (.delete r k) hk] using h
  · rw [linkCoord_eq_sigma (.insert r k) hk]
    cases hs : sigma (.insert r k) x with
    | none => rw [hs] at h; cases h
    | some y => rw [hs] at h; simpa [linkCoord_eq_sigma (.delete r k) hk] using h
  · rw [cfCoord_eq_rhoCoord (.insert r k) hk, rhoCoord_eq_sigma (.insert r k) hk]
    cases hs : sigma (.insert r k) x with
    | none => rw [hs] at h; cases h
    | some y =>
      rw [hs] at h
      simpa [cfCoord_eq_rhoCoord (.delete r k) hk, rhoCoord_eq_sigma (.delete r k) hk] using h

/-- references: `ρ_delete ∘ ρ_insert` is the identity on every coordinate -/
theorem C14_rho_identity (r k x : Int) (hk : 0 < k) :
    (rhoCoord (.insert r k) x).bind (rhoCoord (.delete r k)) = some x := by
  rw [rhoCoord_eq_sigma (.insert r k) hk]
  have h := C14_sigma_identity r k x hk
  cases hs : sigma (.insert r k) x with
  | none => rw [hs] at h; cases h
  | some y => rw [hs] at h; simpa [rhoCoord_eq_sigma (.delete r k) hk] using h

theorem ofA1_of_resolve (h : Int) (e : End) : End.ofA1 h e.abs (e.resolve h) = e := by
  cases e with
  | mk abs v => cases abs <;> simp [End.ofA1, End.resolve]

/-- a single reference, hosted anywhere, on any sheet, any `$` flags: if the insertion did not push it off the
    grid, the deletion gives back exactly the stored reference (same offsets, same flags, same sheet) -/
theorem C14_ref_identity (ax : Axis) (s : Nat) (r k : Int) (hk : 0 < k) (h : Host) (q : Ref)
    (hx : inGrid .row (q.row.resolve h.row) = true) (hy : inGrid .col (q.col.resolve h.col) = true)
    (hin : rhoRef ⟨ax, s, .insert r k⟩ h q ≠ none) :
    rhoAtom ⟨ax, s, .delete r k⟩ h (rhoAtom ⟨ax, s, .insert r k⟩ h (.ref q)) = .ref q := by
  have hid := C14_rho_identity r k
  have hq : mkRef h q.sheet q.named q.row.abs (q.row.resolve h.row) q.col.abs (q.col.resolve h.col) = q := by
    cases q with
    | mk sh nm row col => simp [mkRef, ofA1_of_resolve]
  by_cases hs : q.sheet = s
  · cases ax with
    | row =>
      rw [rhoRef_row s _ h q hs] at hin
      simp only [rhoAtom]
      rw [rhoRef_row s _ h q hs]
      cases hc : rhoCoord (.insert r k) (q.row.resolve h.row) with
      | none => rw [hc] at hin; simp at hin
      | some x' =>
        rw [hc] at hin
        simp only [Option.bind_some] at hin ⊢
        split at hin
        · rename_i hg
          simp only [hg, if_true]
          have hg' := hg
          simp only [Bool.and_eq_true] at hg'
          have hs' : (mkRef h q.sheet q.named q.row.abs x' q.col.abs (q.col.resolve h.col)).sheet = s := hs
          rw [rhoRef_row s _ h _ hs']
          simp only [mkRef, ofA1_resolve]
          have := hid (q.row.resolve h.row) hk
          rw [hc] at this
          simp only [Option.bind_some] at this
          rw [this]
          simp only [Option.bind_some, hx, hy, Bool.and_self, if_true]
          exact congrArg Atom.ref hq
        · exact absurd rfl hin
    | col =>
      rw [rhoRef_col s _ h q hs] at hin
      simp only [rhoAtom]
      rw [rhoRef_col s _ h q hs]
      cases hc : rhoCoord (.insert r k) (q.col.resolve h.col) with
      | none => rw [hc] at hin; simp at hin
      | some y' =>
        rw [hc] at hin
        simp only [Option.bind_some] at hin ⊢
        split at hin
        · rename_i hg
          simp only [hg, if_true]
          have hs' : (mkRef h q.sheet q.named q.row.abs (q.row.resolve h.row) q.col.abs y').sheet = s := hs
          rw [rhoRef_col s _ h _ hs']
          simp only [mkRef, ofA1_resolve]
          have := hid (q.col.resolve h.col) hk
          rw [hc] at this
          simp only [Option.bind_some] at this
          rw [this]
          simp only [Option.bind_some, hx, hy, Bool.and_self, if_true]
          exact congrArg Atom.ref hq
        · exact absurd rfl hin
  · -- a reference to another sheet is not touched by either step
    have h1 : ∀ o, rhoRef ⟨ax, s, o⟩ h q = some (q.row.resolve h.row, q.col.resolve h.col) := by
      intro o; cases ax <;> simp [rhoRef, rhoPoint, hs, hx, hy, Option.bind]
    simp only [rhoAtom, h1]
    have hs' : (mkRef h q.sheet q.named q.row.abs (q.row.resolve h.row) q.col.abs (q.col.resolve h.col)).sheet ≠ s := hs
    rw [hq] at hs' ⊢
    simp only [h1]
    exact congrArg Atom.ref hq

/-- the column descriptor *list* (not only the per-column attributes it denotes) is restored:
    left of the insertion point → untouched then case F; at/right of it → shifted then case A;
    spanning it → augmented then case D -/
theorem C14_cols_identity {α : Type} (r k : Int) (hk : 0 < k) (cols : List (ColD α))
    (hwf : ∀ c ∈ cols, c.min ≤ c.max) :
    deleteCols r k (insertCols r k cols) = cols := by
  induction cols with
  | nil => rfl
  | cons c rest ih =>
    have hc := hwf c (List.mem_cons_self ..)
    have ih' := ih (fun c' hc' => hwf c' (List.mem_cons_of_mem _ hc'))
    simp only [insertCols, deleteCols, List.map_cons, List.filterMap_cons] at ih' ⊢
    rw [ih']
    cases c with
    | mk mn mx att =>
      simp only at hc
      by_cases h1 : r > mx
      · have a1 : ¬ r ≤ mn := by omega
        have a2 : ¬ r ≤ mx := by omega
        simp [h1, a1, a2]
      · by_cases h2 : r ≤ mn
        · have a1 : r ≤ mn + k := by omega
          have a2 : r + k - 1 < mn + k := by omega
          simp only [h1, h2, a1, a2, if_true, if_false]
          congr 2 <;> omega
        · have a1 : ¬ r ≤ mn := by omega
          have a2 : r ≤ mx + k := by omega
          have a3 : r + k - 1 ≤ mx + k := by omega
          simp only [h1, h2, a1, a2, a3, if_true, if_false]
          congr 2; omega

/-- the full statement for ranges: *every* normalised in-grid range that the insertion keeps on the grid is
    restored by the deletion -/
def C14_ranges_full : Prop :=
  ∀ (ax : Axis) (s : Nat) (r k : Int) (h : Host) (g : Range), 0 < k →
    (rhoRange ⟨ax, s, .insert r k⟩ h g).1 ≠ none → (rhoRange ⟨ax, s, .insert r k⟩ h g).2 ≠ none →
    rhoAtom ⟨ax, s, .delete r k⟩ h (rhoAtom ⟨ax, s, .insert r k⟩ h (.range g)) = .range g

/-- it is false on the pinned tree: `$A$1:$A$1048575` grows to `$A$1:$A$1048576`, which the engine cannot
    tell from `$A:$A`; whole-column ranges are skipped by the deletion, so the range stays `$A:$A`
    (finding F14a) -/
theorem C14_ranges_full_false : ¬ C14_ranges_full := by
  intro hfull
  have := hfull .row 0 5 1 ⟨0, 3, 3⟩ (mkRange ⟨0, 3, 3⟩ 0 false true 1 true 1 true 1048575 true 1)
    (by decide) (by decide) (by decide)
  revert this
  decide

/-- the range is on the edited axis a whole-line range after the insertion although it was not before -/
def becomesWhole (ax : Axis) (r k : Int) (h : Host) (g : Range) : Bool :=
  match ax with
  | .row => !g.fullRow && g.r1.abs && g.r2.abs && g.r1.resolve h.row == 1 &&
      (rhoCoord (.insert r k) (g.r2.resolve h.row) == some LAST_ROW)
  | .col => !g.fullCol && g.c1.abs && g.c2.abs && g.c1.resolve h.col == 1 &&
      (rhoCoord (.insert r k) (g.c2.resolve h.col) == some LAST_COLUMN)

/-- on the edited axis both corners of any range come back: the coordinates a range is made of are restored
    whenever the insertion keeps them on the grid (the only way a *range* is not restored is `becomesWhole`,
    where the second step no longer looks at the range) -/
theorem C14_range_corners_partial (r k a b : Int) (hk : 0 < k) :
    (rhoCoord (.insert r k) a).bind (rhoCoord (.delete r k)) = some a ∧
    (rhoCoord (.insert r k) b).bind (rhoCoord (.delete r k)) = some b ∧
    (a ≤ b → ∀ a' b', rhoCoord (.insert r k) a = some a' → rhoCoord (.insert r k) b = some b' → a' ≤ b') := by
  refine ⟨C14_rho_identity r k a hk, C14_rho_identity r k b hk, ?_⟩
  intro hab a' b' ha hb
  have hk' : ¬ k < 0 := by omega
  simp only [rhoCoord, shiftDisp, hk', if_false] at ha hb
  grind

/-! non-vacuity -/

example : rhoAtom ⟨.row, 0, .delete 2 2⟩ ⟨0, 9, 3⟩ (rhoAtom ⟨.row, 0, .insert 2 2⟩ ⟨0, 9, 3⟩
    (.range (mkRange ⟨0, 9, 3⟩ 0 false false 1 true 1 true 3 false 4)))
    = .range (mkRange ⟨0, 9, 3⟩ 0 false false 1 true 1 true 3 false 4) := by decide
example : becomesWhole .row 5 1 ⟨0, 3, 3⟩ (mkRange ⟨0, 3, 3⟩ 0 false true 1 true 1 true 1048575 true 1) = true := by
  decide
example : deleteCols 3 2 (insertCols 3 2 [(⟨1, 2, 7⟩ : ColD Nat), ⟨3, 5, 8⟩, ⟨6, 6, 9⟩]) = [⟨1, 2, 7⟩, ⟨3, 5, 8⟩, ⟨6, 6, 9⟩] := by
  decide

end IronCalc.Structure.C14
