import IronCalc.Sheet.StylesProofs
/-
  C30 — Styles are stored and read back faithfully.
  Property theorems only (helpers: Sheet/StylesProofs.lean).  Model: Sheet/Styles.lean
  (base/src/styles.rs, base/src/number_format.rs).  `T` is the built-in number-format table
  (any table; the obligations on the table extracted from the running code are in
  Props/C30Table.lean), `sf` selects the pinned/repaired get_num_fmt_index.
-/
namespace IronCalc.Sheet.Styles

variable {F L B A : Type} [DecidableEq F] [DecidableEq L] [DecidableEq B] [DecidableEq A]

/-- reading back an interned style gives the style (number format, font, fill, border,
    alignment, quote prefix) -/
theorem intern_roundtrip {T : List String} {sf : Bool} {p q : Pool F L B A} (hp : PoolInv T sf p)
    {s : Style F L B A} {i : Int} (h : intern T sf p s = .ok (q, i)) : getStyle T q i = .ok s := by
  unfold intern at h
  cases hg : getStyleIndex T p s with
  | error e => simp [hg] at h
  | ok r =>
    cases r with
    | some j =>
      simp only [hg, Except.ok.injEq, Prod.mk.injEq] at h
      obtain ⟨rfl, rfl⟩ := h
      obtain ⟨xf, h0, h1, h2⟩ := scanXfs_some hg
      unfold getStyle idx
      have : ¬ j < 0 := by omega
      simp only [this, if_false]
      simp only [Int.natCast_zero, Int.sub_zero] at h1
      rw [h1]; exact h2
    | none =>
      simp only [hg, Except.ok.injEq] at h
      unfold createNewStyle at h
      simp only [Prod.mk.injEq] at h
      obtain ⟨rfl, rfl⟩ := h
      obtain ⟨_, h1, _, h3, h4, h5⟩ := componentIds_spec hp s _ rfl
      unfold getStyle
      simp only [idx_length_append]
      unfold decodeXf
      simp only [h1, h3, h4, h5]

/-- interning never changes what an existing style index decodes to: cells that were given
    different styles earlier never come to share a style (nor change it) by later assignments -/
theorem intern_monotone {T : List String} {sf : Bool} {p q : Pool F L B A} (hp : PoolInv T sf p)
    {s : Style F L B A} {i : Int} (h : intern T sf p s = .ok (q, i))
    (j : Int) (hj : (idx p.cellXfs j).isSome) : getStyle T q j = getStyle T p j := by
  unfold intern at h
  cases hg : getStyleIndex T p s with
  | error e => simp [hg] at h
  | ok r =>
    cases r with
    | some k =>
      simp only [hg, Except.ok.injEq, Prod.mk.injEq] at h
      obtain ⟨rfl, _⟩ := h; rfl
    | none =>
      simp only [hg, Except.ok.injEq] at h
      unfold createNewStyle at h
      simp only [Prod.mk.injEq] at h
      obtain ⟨rfl, _⟩ := h
      obtain ⟨he, _⟩ := componentIds_spec hp s _ rfl
      cases hx : idx p.cellXfs j with
      | none => simp [hx] at hj
      | some xf =>
        obtain ⟨_, _, hget⟩ := idx_some hx
        have hmem : xf ∈ p.cellXfs := List.mem_of_getElem? hget
        unfold getStyle
        simp only [he.xfs, idx_append_left _ hx, hx]
        have := decodeXf_ext he (hp.comp xf hmem) (hp.fmt xf hmem)
        unfold decodeXf at this ⊢
        exact this

/-- interning keeps the pool invariant -/
theorem intern_preserves_PoolInv {T : List String} {sf : Bool} {p q : Pool F L B A} (hp : PoolInv T sf p)
    {s : Style F L B A} {i : Int} (h : intern T sf p s = .ok (q, i)) : PoolInv T sf q := by
  unfold intern at h
  cases hg : getStyleIndex T p s with
  | error e => simp [hg] at h
  | ok r =>
    cases r with
    | some k =>
      simp only [hg, Except.ok.injEq, Prod.mk.injEq] at h
      obtain ⟨rfl, _⟩ := h; exact hp
    | none =>
      simp only [hg, Except.ok.injEq] at h
      unfold createNewStyle at h
      simp only [Prod.mk.injEq] at h
      obtain ⟨rfl, _⟩ := h
      obtain ⟨he, _, h2, h3, h4, h5⟩ := componentIds_spec hp s _ rfl
      have hq := hp.ext he
      refine ⟨?_, ?_, hq.consistent, hq.noShadow⟩
      · intro xf hx
        rcases List.mem_append.mp hx with hx | hx
        · exact hq.comp xf hx
        · simp only [List.mem_singleton] at hx
          subst hx
          simp [h3, h4, h5]
      · intro xf hx
        rcases List.mem_append.mp hx with hx | hx
        · exact hq.fmt xf hx
        · simp only [List.mem_singleton] at hx
          subst hx
          exact h2

/-- on a well-formed pool interning always succeeds (no index panic, no error) -/
theorem intern_total {T : List String} {sf : Bool} {p : Pool F L B A} (hT : T ≠ []) (hp : PoolInv T sf p)
    (s : Style F L B A) : ∃ q i, intern T sf p s = .ok (q, i) := by
  unfold intern getStyleIndex
  obtain ⟨r, hr⟩ := scanXfs_no_fault hT hp s p.cellXfs (fun _ h => h) 0
  rw [hr]
  cases r with
  | some j => exact ⟨p, j, rfl⟩
  | none => exact ⟨_, _, rfl⟩

/-- two styles interned one after the other get the same index only if they are the same style -/
theorem distinct_styles_distinct_indices {T : List String} {sf : Bool} {p q r : Pool F L B A} (hp : PoolInv T sf p)
    {s1 s2 : Style F L B A} {i1 i2 : Int}
    (h1 : intern T sf p s1 = .ok (q, i1)) (h2 : intern T sf q s2 = .ok (r, i2)) (hi : i1 = i2) : s1 = s2 := by
  have hq := intern_preserves_PoolInv hp h1
  have r1 := intern_roundtrip hp h1
  have r2 := intern_roundtrip hq h2
  have hsome : (idx q.cellXfs i1).isSome := by
    unfold getStyle at r1
    cases hx : idx q.cellXfs i1 with
    | none => simp [hx] at r1
    | some _ => rfl
  have m := intern_monotone hq h2 i1 hsome
  rw [hi] at m r1
  rw [m, r1] at r2
  exact (Except.ok.inj r2)

/-! ## Histories of assignments -/

/-- assign styles, in order, to targets (cells, rows, columns: any type with decidable equality);
    each target remembers the index interning returned (Model::set_cell_style, set_row_style,
    set_column_style); `none` if an interning faults -/
def assignAll {K : Type} (T : List String) (sf : Bool) :
    Pool F L B A → List (K × Int) → List (K × Style F L B A) → Option (Pool F L B A × List (K × Int))
  | p, m, [] => some (p, m)
  | p, m, (k, s) :: rest =>
    match intern T sf p s with
    | .ok (q, i) => assignAll T sf q ((k, i) :: m) rest
    | .error _ => none

/-- the style most recently assigned to `k` -/
def lastAssigned {K : Type} [DecidableEq K] (k : K) : List (K × Style F L B A) → Option (Style F L B A)
  | [] => none
  | (k', s) :: rest => match lastAssigned k rest with
    | some s' => some s'
    | none => if k' = k then some s else none

/-- the index currently stored for `k` (most recent first) -/
def lookupIdx {K : Type} [DecidableEq K] (k : K) : List (K × Int) → Option Int
  | [] => none
  | (k', i) :: rest => if k' = k then some i else lookupIdx k rest

/-- C30 for histories: after any sequence of style assignments to any targets, starting from any
    well-formed pool, every assigned target reads back exactly the style last assigned to it -/
theorem C30_histories {K : Type} [DecidableEq K] {T : List String} {sf : Bool} (hT : T ≠ [])
    (ops : List (K × Style F L B A)) (p : Pool F L B A) (hp : PoolInv T sf p) (m : List (K × Int))
    (hm : ∀ k i, lookupIdx k m = some i → (idx p.cellXfs i).isSome) :
    ∃ q m', assignAll T sf p m ops = some (q, m') ∧ PoolInv T sf q ∧
      (∀ k s, lastAssigned k ops = some s → ∃ i, lookupIdx k m' = some i ∧ getStyle T q i = .ok s) ∧
      (∀ k, lastAssigned k ops = none → ∀ i, lookupIdx k m = some i →
          lookupIdx k m' = some i ∧ getStyle T q i = getStyle T p i) := by
  induction ops generalizing p m with
  | nil =>
    refine ⟨p, m, rfl, hp, ?_, ?_⟩
    · intro k s h; cases h
    · intro k _ i hi; exact ⟨hi, rfl⟩
  | cons op rest ih =>
    obtain ⟨k0, s0⟩ := op
    obtain ⟨q, i0, hq⟩ := intern_total hT hp s0
    have hpq := intern_preserves_PoolInv hp hq
    have hrt := intern_roundtrip hp hq
    have hsome0 : (idx q.cellXfs i0).isSome := by
      unfold getStyle at hrt
      cases hx : idx q.cellXfs i0 with
      | none => simp [hx] at hrt
      | some _ => rfl
    have hgrow : ∀ i, (idx p.cellXfs i).isSome → (idx q.cellXfs i).isSome := by
      intro i hi
      have := intern_monotone hp hq i hi
      unfold getStyle at this
      cases hx : idx q.cellXfs i with
      | some _ => rfl
      | none =>
        cases hy : idx p.cellXfs i with
        | none => simp [hy] at hi
        | some xf =>
          rw [hx, hy] at this
          obtain ⟨s', hs'⟩ := decodeXf_ok hT hp (List.mem_of_getElem? (idx_some hy).2.2)
          simp only [hs'] at this; cases this
    have hm' : ∀ k i, lookupIdx k ((k0, i0) :: m) = some i → (idx q.cellXfs i).isSome := by
      intro k i h
      simp only [lookupIdx] at h
      by_cases hk : k0 = k
      · simp only [hk, if_true, Option.some.injEq] at h; subst h; exact hsome0
      · simp only [hk, if_false] at h; exact hgrow i (hm k i h)
    obtain ⟨r, m2, hr, hpr, hA, hB⟩ := ih q hpq ((k0, i0) :: m) hm'
    refine ⟨r, m2, by simp only [assignAll, hq, hr], hpr, ?_, ?_⟩
    · intro k s hl
      simp only [lastAssigned] at hl
      cases hrest : lastAssigned k rest with
      | some s' =>
        simp only [hrest, Option.some.injEq] at hl
        subst hl; exact hA k s' hrest
      | none =>
        simp only [hrest] at hl
        by_cases hk : k0 = k
        · simp only [hk, if_true, Option.some.injEq] at hl
          subst hl
          have := hB k hrest i0 (by simp [lookupIdx, hk])
          exact ⟨i0, this.1, by rw [this.2]; exact hrt⟩
        · simp [hk] at hl
    · intro k hl i hi
      simp only [lastAssigned] at hl
      cases hrest : lastAssigned k rest with
      | some s' => simp [hrest] at hl
      | none =>
        simp only [hrest] at hl
        have hk : ¬ k0 = k := by
          intro hk; simp [hk] at hl
        have := hB k hrest i (by simp [lookupIdx, hk, hi])
        exact ⟨this.1, by rw [this.2]; exact intern_monotone hp hq i (hm k i hi)⟩

/-! ## The statement without the pool invariant is false; what is proved is the partial statement -/

/-- C30 at full strength for one interning step, from ANY pool: the style reads back and no
    existing index changes meaning -/
def C30_full (T : List String) (sf : Bool) : Prop :=
  ∀ (p q : Pool Nat Nat Nat Nat) (s : Style Nat Nat Nat Nat) (i : Int), intern T sf p s = .ok (q, i) →
    getStyle T q i = .ok s ∧ ∀ j, (idx p.cellXfs j).isSome → getStyle T q j = getStyle T p j

/-- the same under the pool invariant — proved, for both variants of get_num_fmt_index -/
theorem C30_partial (T : List String) (sf : Bool) :
    ∀ (p q : Pool Nat Nat Nat Nat) (s : Style Nat Nat Nat Nat) (i : Int), PoolInv T sf p →
      intern T sf p s = .ok (q, i) →
      getStyle T q i = .ok s ∧ ∀ j, (idx p.cellXfs j).isSome → getStyle T q j = getStyle T p j :=
  fun _ _ _ _ hp h => ⟨intern_roundtrip hp h, fun j hj => intern_monotone hp h j hj⟩

/-- a three-entry stand-in for the built-in table -/
def exT : List String := ["general", "0", "0.00"]

/-- F30a: the workbook redefines built-in id 2 (as locale-specific files do) -/
def shadowPool : Pool Nat Nat Nat Nat :=
  ⟨[0], [0], [0], [⟨2, "FILE-OWN"⟩], [⟨0, 0, 0, 0, 0, false, none⟩]⟩

/-- F30b: xf 1 refers to custom id 3, which the workbook does not define -/
def danglingPool : Pool Nat Nat Nat Nat :=
  ⟨[0], [0], [0], [], [⟨0, 0, 0, 0, 0, false, none⟩, ⟨0, 3, 0, 0, 0, false, none⟩]⟩

/-- F30a (pinned get_num_fmt_index): the built-in code "0.00" is stored under id 2 and reads back as
    the workbook's own format -/
theorem pinned_F30a_shadowed_builtin_not_read_back :
    ∃ q i, intern exT false shadowPool ⟨none, "0.00", 0, 0, 0, false⟩ = .ok (q, i) ∧
      getStyle exT q i = .ok ⟨none, "FILE-OWN", 0, 0, 0, false⟩ :=
  ⟨_, _, rfl, by decide⟩

/-- the repaired get_num_fmt_index reads it back (the pool satisfies the invariant without `noShadow`) -/
theorem repaired_F30a_read_back :
    ∃ q i, intern exT true shadowPool ⟨none, "0.00", 0, 0, 0, false⟩ = .ok (q, i) ∧
      getStyle exT q i = .ok ⟨none, "0.00", 0, 0, 0, false⟩ :=
  ⟨_, _, rfl, by decide⟩

/-- F30b (either variant): a new custom format takes the dangling id 3, and the style of xf 1
    changes from "general" to "0.000" although nothing was assigned to it -/
theorem F30b_dangling_id_taken_over (sf : Bool) :
    ∃ q i, intern exT sf danglingPool ⟨none, "0.000", 0, 0, 0, false⟩ = .ok (q, i) ∧
      getStyle exT danglingPool 1 = .ok ⟨none, "general", 0, 0, 0, false⟩ ∧
      getStyle exT q 1 = .ok ⟨none, "0.000", 0, 0, 0, false⟩ := by
  cases sf <;> exact ⟨_, _, rfl, by decide, by decide⟩

/-- the full statement is false for the pinned code (F30a) and for the repaired code (F30b) -/
theorem C30_full_false : ¬ C30_full exT false ∧ ¬ C30_full exT true := by
  constructor
  · intro h
    have := (h shadowPool _ ⟨none, "0.00", 0, 0, 0, false⟩ _ rfl).1
    revert this; decide
  · intro h
    have := (h danglingPool _ ⟨none, "0.000", 0, 0, 0, false⟩ _ rfl).2 1 (by decide)
    revert this; decide

/-! ## Non-vacuity -/

/-- an imported-like pool: duplicate font, a custom format coinciding with a built-in code (id 164
    = "0.00"), a redundant definition of built-in id 1, an xf parented to a named style -/
def examplePool : Pool Nat Nat Nat Nat :=
  ⟨[7, 8, 7], [0, 1], [0], [⟨164, "0.00"⟩, ⟨1, "0"⟩, ⟨165, "yyyy"⟩],
   [⟨0, 0, 0, 0, 0, false, none⟩, ⟨0, 164, 1, 1, 0, true, some 5⟩, ⟨1, 165, 2, 0, 0, false, none⟩]⟩

example : PoolInv exT false examplePool := ⟨by decide, by decide, by decide, by decide⟩
example : exT ≠ [] := by decide
example : ∃ q, intern exT false examplePool ⟨some 5, "0.00", 1, 8, 0, false⟩ = .ok (q, 3) ∧ q.numFmts = examplePool.numFmts :=
  ⟨_, rfl, rfl⟩
example : intern exT false examplePool ⟨some 5, "0.00", 1, 8, 0, true⟩ = .ok (examplePool, 1) := rfl
example : ∃ q, intern exT true examplePool ⟨none, "mm:ss", 2, 9, 3, false⟩ = .ok (q, 3) ∧
    q.numFmts.length = 4 ∧ q.fonts.length = 4 ∧ getStyle exT q 3 = .ok ⟨none, "mm:ss", 2, 9, 3, false⟩ :=
  ⟨_, rfl, rfl, rfl, by decide⟩
example : PoolInv exT true shadowPool := ⟨by decide, by decide, by decide, by intro h; cases h⟩

end IronCalc.Sheet.Styles
