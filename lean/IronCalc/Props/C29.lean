import IronCalc.Sheet.SheetOps
import IronCalc.Sheet.ColsProofs
import IronCalc.Sheet.RowsProofs
/-
  C29 — Row and column attributes change independently.
  Property theorems only (helpers: Sheet/ColsProofs.lean, Sheet/RowsProofs.lean).
  Models: Sheet/Cols.lean, Sheet/Rows.lean, Sheet/SheetOps.lean (base/src/worksheet.rs, model.rs).

  All column theorems are about `Quirks.fixed`, the code after the three `fix:` commits
  (F29a, F29b, F29c); the `pinned_*` theorems are the machine-checked witnesses that the
  pinned lines violate the very same statements.
-/
namespace IronCalc.Sheet

variable {W H : Type}

/-! ## Getters read the denotation -/

/-- the four column getters report exactly the attributes of `colAttr` (visible width = 0 when hidden) -/
theorem col_getters_read_attr (wo : WidthOps W) (cols : List (Col W)) (c : Int) (hv : validColumn c = true) :
    getActualColumnWidth wo cols c = .ok (colAttr wo cols c).width ∧
    isColumnHidden cols c = .ok (colAttr wo cols c).hidden ∧
    getColumnStyle cols c = .ok (colAttr wo cols c).style ∧
    getColumnWidth wo cols c =
      .ok (if (colAttr wo cols c).hidden then wo.zero else (colAttr wo cols c).width) ∧
    modelGetColumnStyle cols c = (colAttr wo cols c).style := by
  obtain ⟨h1, h2, h3, h4⟩ := getters_attr wo cols c hv
  refine ⟨h1, h2, h3, h4, ?_⟩
  unfold modelGetColumnStyle colAttr
  cases findCol cols c <;> rfl

/-- the row getters report exactly the attributes of `rowAttr` -/
theorem row_getters_read_attr (ho : HeightOps H) (rows : List (Row H)) (r : Int) (hv : validRow r = true) :
    isRowHidden rows r = .ok (rowAttr ho rows r).hidden ∧
    rowHeight ho rows r = .ok (if (rowAttr ho rows r).hidden then ho.zero else (rowAttr ho rows r).height) ∧
    (getRowStyle rows r).getD 0 = (rowAttr ho rows r).style ∧
    rowCellStyle rows r = (rowAttr ho rows r).cellStyle := by
  unfold isRowHidden rowHeight getRowStyle rowCellStyle rowAttr
  simp only [hv, Bool.not_true, Bool.false_eq_true, if_false]
  cases findRow rows r with
  | none => simp [noRow]
  | some d => cases hh : d.hidden <;> simp [rowDescAttr, hh]

/-! ## Column frame laws (any descriptor list unless stated) -/

/-- re-storing the width a column already has does not change it -/
theorem restore_width (wo : WidthOps W) (L : WidthLaws wo) (cols : List (Col W)) (c : Int) :
    (if (!wo.isDefault (colAttr wo cols c).width) = true
      then wo.load (wo.store (colAttr wo cols c).width) else wo.dflt) = (colAttr wo cols c).width := by
  unfold colAttr
  cases findCol cols c with
  | none => simp [noDesc, L.isDefault_dflt]
  | some d =>
    simp only [descAttr]
    by_cases hc : d.customWidth = true
    · simp only [hc, if_true]
      cases hd : wo.isDefault (wo.load d.width)
      · simp [L.reload]
      · simp [(L.eq_of_isDefault _ hd)]
    · simp [hc, L.isDefault_dflt]

/-- set_column_width changes the width of that column and nothing else — from ANY descriptor list -/
theorem set_width_frame (wo : WidthOps W) (cols cols' : List (Col W)) (c : Int) (w : W)
    (h : setColumnWidth wo Quirks.fixed cols c w = .ok cols') (x : Int) :
    colAttr wo cols' x =
      if x = c then { colAttr wo cols c with width := setWidthValue wo w } else colAttr wo cols x := by
  unfold setColumnWidth at h
  by_cases hv : validColumn c = true
  · obtain ⟨_, hh, hs, _⟩ := col_getters_read_attr wo cols c hv
    rw [hs, hh] at h
    simp only [bind, Except.bind, setColumnWidthAndStyle, hv, Bool.not_true, Bool.false_eq_true, if_false] at h
    cases hn : wo.isNeg w
    · simp only [hn, Bool.false_eq_true, if_false, Except.ok.injEq] at h
      subst h
      rw [colAttr_setCore wo _ rfl]
      unfold setWidthValue
      cases wo.isDefault w <;> simp
    · simp [hn] at h
  · simp [getColumnStyle, hv, bind, Except.bind] at h

/-- set_column_hidden changes the hidden flag of that column and nothing else — from ANY descriptor list -/
theorem set_hidden_frame (wo : WidthOps W) (L : WidthLaws wo) (cols cols' : List (Col W)) (c : Int) (b : Bool)
    (h : setColumnHidden wo Quirks.fixed cols c b = .ok cols') (x : Int) :
    colAttr wo cols' x =
      if x = c then { colAttr wo cols c with hidden := b } else colAttr wo cols x := by
  unfold setColumnHidden at h
  by_cases hv : validColumn c = true
  · obtain ⟨ha, _, hs, _⟩ := col_getters_read_attr wo cols c hv
    rw [hs, ha] at h
    simp only [bind, Except.bind, unwrapOrDefault, setColumnWidthAndStyle, hv, Bool.not_true,
      Bool.false_eq_true, if_false] at h
    cases hn : wo.isNeg (colAttr wo cols c).width
    · simp only [hn, Bool.false_eq_true, if_false, Except.ok.injEq] at h
      subst h
      rw [colAttr_setCore wo _ rfl, restore_width wo L]
    · simp [hn] at h
  · simp [getColumnStyle, hv, bind, Except.bind] at h

/-- set_column_style changes the style of that column and nothing else — from ANY descriptor list,
    multi-column descriptors and hidden columns included (false on the pinned tree: F29a, F29b) -/
theorem set_style_frame (wo : WidthOps W) (L : WidthLaws wo) (cols cols' : List (Col W)) (c : Int) (k : Int)
    (h : setColumnStyle wo Quirks.fixed cols c k = .ok cols') (x : Int) :
    colAttr wo cols' x =
      if x = c then { colAttr wo cols c with style := some k } else colAttr wo cols x := by
  unfold setColumnStyle at h
  by_cases hv : validColumn c = true
  · obtain ⟨ha, hh, _, _⟩ := col_getters_read_attr wo cols c hv
    simp only [Quirks.fixed, Bool.false_eq_true, if_false] at h
    rw [hh, ha] at h
    simp only [bind, Except.bind, unwrapOrDefault, setColumnWidthAndStyle, hv, Bool.not_true,
      Bool.false_eq_true, if_false] at h
    cases hn : wo.isNeg (colAttr wo cols c).width
    · simp only [hn, Bool.false_eq_true, if_false, Except.ok.injEq] at h
      subst h
      rw [colAttr_setCore wo _ rfl, restore_width wo L]
    · simp [hn] at h
  · simp [isColumnHidden, hv, bind, Except.bind] at h

/-- delete_column_style clears the style of that column and nothing else — from any sorted,
    disjoint descriptor list (false on the pinned tree for hidden columns: F29c) -/
theorem delete_style_frame (wo : WidthOps W) (cols cols' : List (Col W)) (hwf : WfCols cols) (c : Int)
    (h : deleteColumnStyle Quirks.fixed cols c = .ok cols') (x : Int) :
    colAttr wo cols' x =
      if x = c then { colAttr wo cols c with style := none } else colAttr wo cols x := by
  unfold deleteColumnStyle at h
  by_cases hv : validColumn c = true
  · simp only [hv, Bool.not_true, Bool.false_eq_true, if_false, Except.ok.injEq] at h
    subst h
    exact colAttr_delCore wo _ rfl c cols hwf x
  · simp [hv] at h

/-- every column operation keeps a sorted, disjoint, in-range layout sorted, disjoint and in range
    (either variant of the code) -/
theorem col_ops_preserve_wf (wo : WidthOps W) (q : Quirks) (cols cols' : List (Col W)) (hwf : WfCols cols) :
    (∀ c w, setColumnWidth wo q cols c w = .ok cols' → WfCols cols') ∧
    (∀ c b, setColumnHidden wo q cols c b = .ok cols' → WfCols cols') ∧
    (∀ c k, setColumnStyle wo q cols c k = .ok cols' → WfCols cols') ∧
    (∀ c, deleteColumnStyle q cols c = .ok cols' → WfCols cols') := by
  have key : ∀ c w b s, setColumnWidthAndStyle wo q cols c w b s = .ok cols' → WfCols cols' := by
    intro c w b s h
    unfold setColumnWidthAndStyle at h
    by_cases hv : validColumn c = true
    · simp only [hv, Bool.not_true, Bool.false_eq_true, if_false] at h
      cases hn : wo.isNeg w
      · simp only [hn, Bool.false_eq_true, if_false, Except.ok.injEq] at h
        subst h
        simp only [validColumn, Bool.and_eq_true, decide_eq_true_eq] at hv
        exact sortedIn_setCore q c _ _ b s cols hwf (by omega) hv.2
      · simp [hn] at h
    · simp [hv] at h
  refine ⟨?_, ?_, ?_, ?_⟩
  · intro c w h
    unfold setColumnWidth at h
    cases h1 : getColumnStyle cols c <;> cases h2 : isColumnHidden cols c <;>
      simp only [h1, h2, bind, Except.bind] at h
    all_goals first | exact key _ _ _ _ h | cases h
  · intro c b h
    unfold setColumnHidden at h
    cases h1 : getColumnStyle cols c <;> simp only [h1, bind, Except.bind] at h
    all_goals first | exact key _ _ _ _ h | cases h
  · intro c k h
    unfold setColumnStyle at h
    cases h1 : isColumnHidden cols c <;> simp only [h1, bind, Except.bind] at h
    all_goals first | exact key _ _ _ _ h | cases h
  · intro c h
    unfold deleteColumnStyle at h
    by_cases hv : validColumn c = true
    · simp only [hv, Bool.not_true, Bool.false_eq_true, if_false, Except.ok.injEq] at h
      subst h
      exact sortedIn_delCore q c cols hwf
    · simp [hv] at h

/-! ## Row frame laws (any list of row entries, duplicates included) -/

/-- rewrites a lookup in "update the first entry, else push" (side conditions: `f` keeps `r`, `n.r = row`) -/
local macro "upd_or_push" : tactic =>
  `(tactic| (rw [findRow_updOrPush] <;> try (first | (intro _; rfl) | rfl)))

/-- set_row_height changes the height of that row and nothing else -/
theorem set_height_frame (ho : HeightOps H) (rows rows' : List (Row H)) (r : Int) (v : H)
    (h : setRowHeight ho rows r v = .ok rows') (x : Int) :
    rowAttr ho rows' x =
      if x = r then { rowAttr ho rows r with height := ho.load (ho.store v) } else rowAttr ho rows x := by
  unfold setRowHeight at h
  by_cases hv : validRow r = true
  · simp only [hv, Bool.not_true, Bool.false_eq_true, if_false] at h
    cases hn : ho.isNeg v
    · simp only [hn, Bool.false_eq_true, if_false, isRowHidden, hv, Bool.not_true] at h
      cases hf : findRow rows r <;> simp only [hf, Except.ok.injEq] at h <;> subst h <;>
        simp only [rowAttr_def] <;> upd_or_push <;>
        (by_cases hx : x = r
         · subst hx; simp [hf, rowDescAttr, noRow]
         · simp [hx])
    · simp [hn] at h
  · simp [hv] at h

/-- set_row_hidden changes the hidden flag of that row and nothing else -/
theorem set_row_hidden_frame (ho : HeightOps H) (L : HeightLaws ho) (rows rows' : List (Row H)) (r : Int) (b : Bool)
    (h : setRowHidden ho rows r b = .ok rows') (x : Int) :
    rowAttr ho rows' x =
      if x = r then { rowAttr ho rows r with hidden := b } else rowAttr ho rows x := by
  unfold setRowHidden at h
  by_cases hv : validRow r = true
  · simp only [hv, Bool.not_true, Bool.false_eq_true, if_false, Except.ok.injEq] at h
    subst h
    simp only [rowAttr_def]
    upd_or_push
    by_cases hx : x = r
    · subst hx
      cases hf : findRow rows x <;> simp [rowDescAttr, noRow, L.dflt_roundtrip]
    · simp [hx]
  · simp [hv] at h

/-- set_row_style changes the style of that row (declared index, and what its cells inherit) and nothing else -/
theorem set_row_style_frame (ho : HeightOps H) (L : HeightLaws ho) (rows : List (Row H)) (r : Int) (k : Int) (x : Int) :
    rowAttr ho (setRowStyle ho rows r k) x =
      if x = r then { rowAttr ho rows r with style := k, cellStyle := if k ≠ 0 then some k else none }
      else rowAttr ho rows x := by
  unfold setRowStyle
  simp only [rowAttr_def]
  upd_or_push
  by_cases hx : x = r
  · subst hx
    cases hf : findRow rows x <;> by_cases hk : k = 0 <;> simp [rowDescAttr, noRow, L.dflt_roundtrip, hk]
  · simp [hx]

/-- delete_row_style resets the style of that row and changes nothing else -/
theorem delete_row_style_frame (ho : HeightOps H) (rows : List (Row H)) (r : Int) (x : Int) :
    rowAttr ho (deleteRowStyle rows r) x =
      if x = r then { rowAttr ho rows r with style := 0, cellStyle := none } else rowAttr ho rows x := by
  unfold deleteRowStyle
  cases hu : updFirst r (fun d => { d with s := 0, customFormat := false }) rows with
  | some rows' =>
    simp only [rowAttr_def, findRow_updFirst (by intro _; rfl) hu]
    by_cases hx : x = r
    · subst hx
      cases hf : findRow rows x <;> simp [rowDescAttr, noRow]
    · simp [hx]
  | none =>
    have h0 := updFirst_none hu
    by_cases hx : x = r
    · subst hx; simp [rowAttr_def, h0, noRow]
    · simp [hx]

/-- the row operations keep "one entry per row" -/
theorem row_ops_preserve_nodup (ho : HeightOps H) (rows : List (Row H)) (hn : NoDupRows rows) :
    (∀ r v rows', setRowHeight ho rows r v = .ok rows' → NoDupRows rows') ∧
    (∀ r b rows', setRowHidden ho rows r b = .ok rows' → NoDupRows rows') ∧
    (∀ r k, NoDupRows (setRowStyle ho rows r k)) ∧
    (∀ r, NoDupRows (deleteRowStyle rows r)) := by
  refine ⟨?_, ?_, ?_, ?_⟩
  · intro r v rows' h
    unfold setRowHeight at h
    by_cases hv : validRow r = true
    · simp only [hv, Bool.not_true, Bool.false_eq_true, if_false] at h
      cases hneg : ho.isNeg v
      · simp only [hneg, Bool.false_eq_true, if_false, isRowHidden, hv, Bool.not_true] at h
        cases hf : findRow rows r <;> simp only [hf, Except.ok.injEq] at h <;> subst h <;>
          exact noDup_updOrPush (by intro _; rfl) (by rfl) hn
      · simp [hneg] at h
    · simp [hv] at h
  · intro r b rows' h
    unfold setRowHidden at h
    by_cases hv : validRow r = true
    · simp only [hv, Bool.not_true, Bool.false_eq_true, if_false, Except.ok.injEq] at h
      subst h
      exact noDup_updOrPush (by intro _; rfl) (by rfl) hn
    · simp [hv] at h
  · intro r k
    exact noDup_updOrPush (by intro _; rfl) (by rfl) hn
  · intro r
    unfold deleteRowStyle
    cases hu : updFirst r (fun d => { d with s := 0, customFormat := false }) rows with
    | some rows' => exact noDup_updFirst (by intro _; rfl) hn hu
    | none => exact hn

/-! ## Histories: every sequence of operations, from any well-formed layout -/

theorem den_ext {a b : Den W H} (h1 : ∀ x, a.col x = b.col x) (h2 : ∀ x, a.row x = b.row x) : a = b := by
  cases a; cases b
  simp only [Den.mk.injEq]
  exact ⟨funext h1, funext h2⟩

/-- one operation on the descriptor lists is the specified one-attribute update of the denotation -/
theorem step_refines (wo : WidthOps W) (ho : HeightOps H) (LW : WidthLaws wo) (LH : HeightLaws ho)
    (s : Sheet W H) (hwf : WfCols s.cols) (op : Op W H) :
    denote wo ho (applyOp wo ho Quirks.fixed s op) = specOp wo ho (denote wo ho s) op := by
  cases op with
  | setColWidth c w =>
    have hb := setColumnWidth_toBool wo Quirks.fixed s.cols c w
    cases hr : setColumnWidth wo Quirks.fixed s.cols c w with
    | ok cols' =>
      rw [hr] at hb
      simp only [applyOp, hr, orKeep, specOp, denote, ← hb, Except.toBool, if_true]
      exact den_ext (fun x => by simp only [upd]; rw [set_width_frame wo _ _ c w hr x]; by_cases hx : x = c <;> simp [hx]) (fun _ => rfl)
    | error e =>
      rw [hr] at hb
      simp only [applyOp, hr, orKeep, specOp, denote, ← hb, Except.toBool, Bool.false_eq_true, if_false]
  | setColHidden c b =>
    have hb := setColumnHidden_toBool wo Quirks.fixed s.cols c b
    cases hr : setColumnHidden wo Quirks.fixed s.cols c b with
    | ok cols' =>
      rw [hr] at hb
      simp only [applyOp, hr, orKeep, specOp, denote, ← hb, Except.toBool, if_true]
      exact den_ext (fun x => by simp only [upd]; rw [set_hidden_frame wo LW _ _ c b hr x]; by_cases hx : x = c <;> simp [hx]) (fun _ => rfl)
    | error e =>
      rw [hr] at hb
      simp only [applyOp, hr, orKeep, specOp, denote, ← hb, Except.toBool, Bool.false_eq_true, if_false]
  | setColStyle c k =>
    have hb := setColumnStyle_toBool wo Quirks.fixed rfl s.cols c k
    cases hr : setColumnStyle wo Quirks.fixed s.cols c k with
    | ok cols' =>
      rw [hr] at hb
      simp only [applyOp, hr, orKeep, specOp, denote, ← hb, Except.toBool, if_true]
      exact den_ext (fun x => by simp only [upd]; rw [set_style_frame wo LW _ _ c k hr x]; by_cases hx : x = c <;> simp [hx]) (fun _ => rfl)
    | error e =>
      rw [hr] at hb
      simp only [applyOp, hr, orKeep, specOp, denote, ← hb, Except.toBool, Bool.false_eq_true, if_false]
  | delColStyle c =>
    have hb := deleteColumnStyle_toBool Quirks.fixed s.cols c
    cases hr : deleteColumnStyle Quirks.fixed s.cols c with
    | ok cols' =>
      rw [hr] at hb
      simp only [applyOp, hr, orKeep, specOp, denote, ← hb, Except.toBool, if_true]
      exact den_ext (fun x => by simp only [upd]; rw [delete_style_frame wo _ _ hwf c hr x]; by_cases hx : x = c <;> simp [hx]) (fun _ => rfl)
    | error e =>
      rw [hr] at hb
      simp only [applyOp, hr, orKeep, specOp, denote, ← hb, Except.toBool, Bool.false_eq_true, if_false]
  | setRowHeight r v =>
    have hb := setRowHeight_toBool ho s.rows r v
    cases hr : setRowHeight ho s.rows r v with
    | ok rows' =>
      rw [hr] at hb
      simp only [applyOp, hr, orKeep, specOp, denote, ← hb, Except.toBool, if_true]
      exact den_ext (fun _ => rfl) (fun x => by simp only [upd]; rw [set_height_frame ho _ _ r v hr x]; by_cases hx : x = r <;> simp [hx])
    | error e =>
      rw [hr] at hb
      simp only [applyOp, hr, orKeep, specOp, denote, ← hb, Except.toBool, Bool.false_eq_true, if_false]
  | setRowHidden r b =>
    have hb := setRowHidden_toBool ho s.rows r b
    cases hr : setRowHidden ho s.rows r b with
    | ok rows' =>
      rw [hr] at hb
      simp only [applyOp, hr, orKeep, specOp, denote, ← hb, Except.toBool, if_true]
      exact den_ext (fun _ => rfl) (fun x => by simp only [upd]; rw [set_row_hidden_frame ho LH _ _ r b hr x]; by_cases hx : x = r <;> simp [hx])
    | error e =>
      rw [hr] at hb
      simp only [applyOp, hr, orKeep, specOp, denote, ← hb, Except.toBool, Bool.false_eq_true, if_false]
  | setRowStyle r k =>
    simp only [applyOp, specOp, denote]
    exact den_ext (fun _ => rfl) (fun x => by simp only [upd]; rw [set_row_style_frame ho LH _ r k x]; by_cases hx : x = r <;> simp [hx])
  | delRowStyle r =>
    simp only [applyOp, specOp, denote]
    exact den_ext (fun _ => rfl) (fun x => by simp only [upd]; rw [delete_row_style_frame ho _ r x]; by_cases hx : x = r <;> simp [hx])

/-- every operation keeps the column layout sorted, disjoint and in range, and the rows duplicate-free -/
theorem step_preserves_wf (wo : WidthOps W) (ho : HeightOps H) (q : Quirks) (s : Sheet W H)
    (hwf : WfCols s.cols) (hnd : NoDupRows s.rows) (op : Op W H) :
    WfCols (applyOp wo ho q s op).cols ∧ NoDupRows (applyOp wo ho q s op).rows := by
  cases op with
  | setColWidth c w =>
    refine ⟨?_, hnd⟩
    simp only [applyOp]
    cases hr : setColumnWidth wo q s.cols c w with
    | ok cols' => exact (col_ops_preserve_wf wo q s.cols cols' hwf).1 c w hr
    | error e => exact hwf
  | setColHidden c b =>
    refine ⟨?_, hnd⟩
    simp only [applyOp]
    cases hr : setColumnHidden wo q s.cols c b with
    | ok cols' => exact (col_ops_preserve_wf wo q s.cols cols' hwf).2.1 c b hr
    | error e => exact hwf
  | setColStyle c k =>
    refine ⟨?_, hnd⟩
    simp only [applyOp]
    cases hr : setColumnStyle wo q s.cols c k with
    | ok cols' => exact (col_ops_preserve_wf wo q s.cols cols' hwf).2.2.1 c k hr
    | error e => exact hwf
  | delColStyle c =>
    refine ⟨?_, hnd⟩
    simp only [applyOp]
    cases hr : deleteColumnStyle q s.cols c with
    | ok cols' => exact (col_ops_preserve_wf wo q s.cols cols' hwf).2.2.2 c hr
    | error e => exact hwf
  | setRowHeight r v =>
    refine ⟨hwf, ?_⟩
    simp only [applyOp]
    cases hr : setRowHeight ho s.rows r v with
    | ok rows' => exact (row_ops_preserve_nodup ho s.rows hnd).1 r v rows' hr
    | error e => exact hnd
  | setRowHidden r b =>
    refine ⟨hwf, ?_⟩
    simp only [applyOp]
    cases hr : setRowHidden ho s.rows r b with
    | ok rows' => exact (row_ops_preserve_nodup ho s.rows hnd).2.1 r b rows' hr
    | error e => exact hnd
  | setRowStyle r k => exact ⟨hwf, (row_ops_preserve_nodup ho s.rows hnd).2.2.1 r k⟩
  | delRowStyle r => exact ⟨hwf, (row_ops_preserve_nodup ho s.rows hnd).2.2.2 r⟩

/-- C29 for histories: after ANY sequence of the eight operations, starting from ANY sorted,
    disjoint column layout (multi-column descriptors included) and ANY list of row entries, the
    attributes of every column and row are those obtained by applying, in order, the
    one-attribute-of-one-column/row updates of `specOp` to the initial attributes -/
theorem C29_histories (wo : WidthOps W) (ho : HeightOps H) (LW : WidthLaws wo) (LH : HeightLaws ho)
    (ops : List (Op W H)) (s : Sheet W H) (hwf : WfCols s.cols) :
    denote wo ho (ops.foldl (applyOp wo ho Quirks.fixed) s) = ops.foldl (specOp wo ho) (denote wo ho s) ∧
    WfCols (ops.foldl (applyOp wo ho Quirks.fixed) s).cols := by
  induction ops generalizing s with
  | nil => exact ⟨rfl, hwf⟩
  | cons op rest ih =>
    simp only [List.foldl_cons]
    have hwf' : WfCols (applyOp wo ho Quirks.fixed s op).cols := by
      cases op <;> simp only [applyOp] <;> first
        | exact hwf
        | (rename_i c w
           cases hr : setColumnWidth wo Quirks.fixed s.cols c w with
           | ok cols' => exact (col_ops_preserve_wf wo _ s.cols cols' hwf).1 c w hr
           | error e => exact hwf)
        | (rename_i c b
           cases hr : setColumnHidden wo Quirks.fixed s.cols c b with
           | ok cols' => exact (col_ops_preserve_wf wo _ s.cols cols' hwf).2.1 c b hr
           | error e => exact hwf)
        | (rename_i c k
           cases hr : setColumnStyle wo Quirks.fixed s.cols c k with
           | ok cols' => exact (col_ops_preserve_wf wo _ s.cols cols' hwf).2.2.1 c k hr
           | error e => exact hwf)
        | (rename_i c
           cases hr : deleteColumnStyle Quirks.fixed s.cols c with
           | ok cols' => exact (col_ops_preserve_wf wo _ s.cols cols' hwf).2.2.2 c hr
           | error e => exact hwf)
    rw [← step_refines wo ho LW LH s hwf op]
    exact ih _ hwf'

/-! ## The statement as one proposition, per variant of the code -/

/-- C29 for a variant `q` of the column code, on the exact instances: every history from every
    well-formed layout denotes what the one-attribute updates give -/
def C29_full (q : Quirks) : Prop :=
  ∀ (ops : List (Op Nat Nat)) (s : Sheet Nat Nat), WfCols s.cols →
    denote natWidthOps natHeightOps (ops.foldl (applyOp natWidthOps natHeightOps q) s)
      = ops.foldl (specOp natWidthOps natHeightOps) (denote natWidthOps natHeightOps s)

theorem natWidthLaws : WidthLaws natWidthOps :=
  ⟨rfl, fun w h => by simpa [natWidthOps] using h, fun _ => rfl⟩

theorem natHeightLaws : HeightLaws natHeightOps := ⟨rfl⟩

/-- the repaired code satisfies the full statement -/
theorem C29_fixed : C29_full Quirks.fixed :=
  fun ops s hwf => (C29_histories natWidthOps natHeightOps natWidthLaws natHeightLaws ops s hwf).1

/-- F29a (pinned tree): a style set on a column inside a multi-column descriptor is dropped -/
theorem pinned_F29a_style_dropped_in_span :
    setColumnStyle natWidthOps Quirks.pinned [⟨1, 5, 10, false, false, none⟩] 3 7
      = .ok [⟨1, 2, 10, false, false, none⟩, ⟨3, 3, 90, false, false, none⟩, ⟨4, 5, 10, false, false, none⟩] := by
  decide

/-- F29b (pinned tree): styling a hidden column stores width 0: it unhides with width 0 instead of 120 -/
theorem pinned_F29b_hidden_styled_column_loses_width :
    (do let c1 ← setColumnWidth natWidthOps Quirks.pinned [] 3 120
        let c2 ← setColumnHidden natWidthOps Quirks.pinned c1 3 true
        let c3 ← setColumnStyle natWidthOps Quirks.pinned c2 3 7
        let c4 ← setColumnHidden natWidthOps Quirks.pinned c3 3 false
        getColumnWidth natWidthOps c4 3) = .ok 0 := by
  decide

/-- F29c (pinned tree): deleting the style of a hidden column unhides it -/
theorem pinned_F29c_delete_style_unhides :
    deleteColumnStyle Quirks.pinned [(⟨2, 4, 10, false, true, some 3⟩ : Col Nat)] 3
      = .ok [⟨2, 2, 10, false, true, some 3⟩, ⟨4, 4, 10, false, true, some 3⟩] := by
  decide

/-- the pinned code violates the full statement (witness: F29a) -/
theorem C29_pinned_false : ¬ C29_full Quirks.pinned := by
  intro h
  have h1 := h [.setColStyle 3 7] ⟨[⟨1, 5, 10, false, false, none⟩], []⟩ (by decide)
  have h2 := congrArg (fun d => (d.col 3).style) h1
  revert h2
  decide

/-- each of the three repaired lines is needed: with any one pinned line left the statement is false -/
theorem C29_each_fix_needed :
    ¬ C29_full ⟨true, false, false⟩ ∧ ¬ C29_full ⟨false, true, false⟩ ∧ ¬ C29_full ⟨false, false, true⟩ := by
  refine ⟨?_, ?_, ?_⟩
  · intro h
    have h1 := h [.setColStyle 3 7] ⟨[⟨1, 5, 10, false, false, none⟩], []⟩ (by decide)
    have h2 := congrArg (fun d => (d.col 3).style) h1
    revert h2; decide
  · intro h
    have h1 := h [.setColStyle 3 7] ⟨[⟨3, 3, 120, true, true, none⟩], []⟩ (by decide)
    have h2 := congrArg (fun d => (d.col 3).width) h1
    revert h2; decide
  · intro h
    have h1 := h [.delColStyle 3] ⟨[⟨2, 4, 10, false, true, some 3⟩], []⟩ (by decide)
    have h2 := congrArg (fun d => (d.col 3).hidden) h1
    revert h2; decide

/-- sortedness matters for delete_column_style only: in an overlapping list a later descriptor
    shows through when the column's own descriptor is dropped (why `delete_style_frame` asks for `WfCols`) -/
theorem delete_style_needs_disjoint :
    ∃ cols cols', deleteColumnStyle Quirks.fixed cols 3 = .ok cols' ∧
      (colAttr natWidthOps cols' 3).style ≠ none :=
  ⟨[⟨3, 3, 10, false, false, some 1⟩, ⟨1, 5, 10, false, false, some 2⟩], _, rfl, by decide⟩

/-! ## Non-vacuity: the hypotheses are met by concrete, non-trivial states -/

/-- a layout with two multi-column descriptors, a gap, a hidden styled span -/
def exampleCols : List (Col Nat) :=
  [⟨2, 5, 20, true, false, some 1⟩, ⟨6, 6, 10, false, true, none⟩, ⟨9, 16384, 30, true, true, some 2⟩]

example : WfCols exampleCols := by decide
example : setColumnStyle natWidthOps Quirks.fixed exampleCols 12 5 =
    .ok [⟨2, 5, 20, true, false, some 1⟩, ⟨6, 6, 10, false, true, none⟩, ⟨9, 11, 30, true, true, some 2⟩,
         ⟨12, 12, 30, true, true, some 5⟩, ⟨13, 16384, 30, true, true, some 2⟩] := by decide
example : (colAttr natWidthOps exampleCols 12) = ⟨30, true, some 2⟩ := by decide
example : ∃ cols', setColumnHidden natWidthOps Quirks.fixed exampleCols 3 true = .ok cols' := ⟨_, rfl⟩
example : ∃ cols', deleteColumnStyle Quirks.fixed exampleCols 9 = .ok cols' ∧ cols'.length = 4 := ⟨_, rfl, by decide⟩
example : ∃ rows', setRowHeight natHeightOps [⟨4, 16, true, false, 3, true⟩, ⟨4, 99, false, false, 0, false⟩] 4 40 = .ok rows' :=
  ⟨_, rfl⟩
example : NoDupRows [(⟨4, 16, true, false, 3, true⟩ : Row Nat), ⟨7, 99, false, false, 0, false⟩] := by decide
example : (denote natWidthOps natHeightOps
    ([Op.setColStyle 12 5, .setColHidden 3 true, .delColStyle 9, .setRowStyle 4 2, .setColWidth 0 7].foldl
      (applyOp natWidthOps natHeightOps Quirks.fixed) ⟨exampleCols, []⟩)).col 12 = ⟨30, true, some 5⟩ := by decide

end IronCalc.Sheet
