import IronCalc.Codec.RefsProofs3
import IronCalc.Codec.Lex
import IronCalc.Codec.CharClassTable
/-
  C22 — Cell-reference and sheet-name codecs are bijective.  Property theorems only.
  Models: Codec/Column.lean (utils/mod.rs column codec), Codec/Refs.lean (stringify_reference,
  lexer/ranges.rs, parse_reference_*), Codec/SheetName.lean (quote_name, consume_single_quote_string,
  identifier path), Codec/Lex.lean (next_token's reference branches; tied by correspondence only).
  Helper lemmas: Codec/*Proofs*.lean.
-/
namespace IronCalc.Codec

/-! ### columns (unbounded) -/

/-- number → letters → number, for every natural number -/
theorem col_num_roundtrip (n : Nat) : colToNum (numToCol n) = n := colToNum_numToCol n

/-- letters → number → letters, for every string of capital letters of any length -/
theorem col_str_roundtrip (s : List Char) (hs : s.all isUpper = true) : numToCol (colToNum s) = s :=
  numToCol_colToNum s hs

theorem numToCol_injective (m n : Nat) (h : numToCol m = numToCol n) : m = n := by
  have := congrArg colToNum h
  rwa [colToNum_numToCol, colToNum_numToCol] at this

theorem colToNum_injective (s t : List Char) (hs : s.all isUpper = true) (ht : t.all isUpper = true)
    (h : colToNum s = colToNum t) : s = t := by
  have := congrArg numToCol h
  rwa [numToCol_colToNum s hs, numToCol_colToNum t ht] at this

/-- the guarded functions of utils/mod.rs on the grid: `number_to_column` then `column_to_number` -/
theorem number_to_column_roundtrip (i : Int) (h1 : 1 ≤ i) (h2 : i ≤ 16384) :
    ∃ s, numberToColumn i = some s ∧ columnToNumber s = some i.toNat ∧ s.length ≤ 3 := by
  refine ⟨numToCol i.toNat, ?_, columnToNumber_numToCol i.toNat (by omega) (by omega),
    numToCol_length_le3 _ (by omega)⟩
  unfold numberToColumn isValidColumnNumber LAST_COLUMN
  simp
  omega

/-- `column_to_number` then `number_to_column`: every accepted string is given back -/
theorem column_to_number_roundtrip (s : List Char) (n : Nat) (h : columnToNumber s = some n) :
    numberToColumn (n : Int) = some s := by
  unfold columnToNumber at h
  split at h
  · simp at h
  · split at h
    · simp at h
    · rename_i hall
      split at h
      · rename_i hv
        simp only [Option.some.injEq] at h
        subst h
        unfold numberToColumn
        simp only [hv, if_true, Int.toNat_natCast]
        rw [numToCol_colToNum s (by simpa using hall)]
      · simp at h

example : numToCol 16384 = ['X', 'F', 'D'] ∧ colToNum ['X', 'F', 'D'] = 16384 := by
  constructor
  · have := numToCol_colToNum ['X', 'F', 'D'] (by decide)
    have e : colToNum ['X', 'F', 'D'] = 16384 := by decide
    rwa [e] at this
  · decide

/-! ### decimal digits -/

/-- the model's own decimal printer and parser are inverse -/
theorem dec_roundtrip (n : Nat) : decToNat (natToDec n) = n := decToNat_natToDec n

theorem i32_text_roundtrip (i : Int) (hlo : -2147483648 ≤ i) (hhi : i ≤ 2147483647) :
    parseI32 (intToDec i) = some i := parseI32_intToDec i hlo hhi

/-! ### A1 references -/

/-- A cell reference (any context cell, all four `$` combinations) printed by stringify_reference
    and followed by anything that is not a digit or `:` is read back by consume_range_a1 as the same
    cell with the same flags, and the parser's token→node step gives back the node. -/
theorem a1_roundtrip (cr cc : Int) (r : PRef) (rest : List Char) (hg : InGrid cr cc r)
    (hrest : stops (fun c => isDigit c || c == ':') rest = true) :
    consumeRangeA1 (printA1 [] cr cc r false false ++ rest)
        = some ({ left := tokenOf cr cc r, right := none }, rest)
      ∧ tokenToNode cr cc (tokenOf cr cc r) = r :=
  ⟨consumeRangeA1_cell cr cc r rest hg hrest, tokenToNode_tokenOf cr cc r⟩

example : InGrid 5 5 { column := -2, row := 7, absCol := false, absRow := true } := by
  unfold InGrid resolvedRow resolvedCol; simp

/-- endpoints in reading order: what the parser's Range arm does not re-order -/
def Ordered (cr cc : Int) (a b : PRef) : Prop :=
  resolvedRow cr a ≤ resolvedRow cr b ∧ resolvedCol cc a ≤ resolvedCol cc b

/-- A range of two cells that is neither whole rows nor whole columns. -/
theorem a1_range_roundtrip (cr cc : Int) (a b : PRef) (rest : List Char)
    (ha : InGrid cr cc a) (hb : InGrid cr cc b) (hfr : fullRowOf a b = false) (hfc : fullColOf a b = false)
    (hord : Ordered cr cc a b) (hrest : stops isDigit rest = true) :
    consumeRangeA1 (printRangeA1 [] cr cc a b ++ rest)
        = some ({ left := tokenOf cr cc a, right := some (tokenOf cr cc b) }, rest)
      ∧ rangeTokenToNode cr cc (tokenOf cr cc a) (tokenOf cr cc b) = (a, b) := by
  constructor
  · unfold printRangeA1
    rw [hfr, hfc, List.append_assoc, List.cons_append]
    exact consumeRangeA1_cells cr cc a b rest ha hb hrest
  · obtain ⟨h1, h2⟩ := hord
    unfold rangeTokenToNode
    have e1 : ¬ (tokenOf cr cc a).row > (tokenOf cr cc b).row := by simp only [tokenOf]; omega
    have e2 : ¬ (tokenOf cr cc a).column > (tokenOf cr cc b).column := by simp only [tokenOf]; omega
    simp only [e1, e2, if_false]
    have ea := tokenToNode_tokenOf cr cc a
    have eb := tokenToNode_tokenOf cr cc b
    simp only [tokenOf] at ea eb ⊢
    rw [ea, eb]

/-- A whole-column range (`$A:C`, also the whole sheet `$A:$XFD` after fix F22b): printed without
    rows, read back by the fallback branch of consume_range_a1 with rows 1 … 1048576. -/
theorem a1_column_range_roundtrip (cr cc : Int) (a b : PRef) (rest : List Char)
    (ha : InGrid cr cc a) (hb : InGrid cr cc b) (hfr : fullRowOf a b = true)
    (hrest : stops isAlphaOrDigit rest = true) :
    consumeRangeA1 (printRangeA1 [] cr cc a b ++ rest)
      = some ({ left := tokenOf cr cc a, right := some (tokenOf cr cc b) }, rest) := by
  obtain ⟨h1, h2, h3, h4⟩ := fullRowOf_spec a b hfr
  unfold printRangeA1
  rw [hfr, fullColOf_false_of_fullRow a b hfr, List.append_assoc, List.cons_append,
    printA1_colonly cr cc a ha, printA1_colonly cr cc b hb]
  obtain ⟨_, _, a3, a4⟩ := ha
  obtain ⟨_, _, b3, b4⟩ := hb
  rw [consumeRangeA1_columns _ _ _ _ rest (by omega) (by omega) (by omega) (by omega) hrest]
  simp only [toNat_cast _ (show (0:Int) ≤ resolvedCol cc a by omega),
    toNat_cast _ (show (0:Int) ≤ resolvedCol cc b by omega), tokenOf, resolvedRow, h1, h2, h3, h4,
    if_true, LAST_ROW]
  rfl

/-- A whole-row range (`1:$5`): printed without columns, read back with columns 1 … 16384. -/
theorem a1_row_range_roundtrip (cr cc : Int) (a b : PRef) (rest : List Char)
    (ha : InGrid cr cc a) (hb : InGrid cr cc b) (hfc : fullColOf a b = true)
    (hrest : stops isAlphaOrDigit rest = true) :
    consumeRangeA1 (printRangeA1 [] cr cc a b ++ rest)
      = some ({ left := tokenOf cr cc a, right := some (tokenOf cr cc b) }, rest) := by
  obtain ⟨h0, h1, h2, h3, h4⟩ := fullColOf_spec a b hfc
  unfold printRangeA1
  rw [hfc, h0, List.append_assoc, List.cons_append,
    printA1_rowonly cr cc a ha, printA1_rowonly cr cc b hb]
  obtain ⟨a1, a2, _, _⟩ := ha
  obtain ⟨b1, b2, _, _⟩ := hb
  rw [consumeRangeA1_rows _ _ _ _ rest (by omega) (by omega) hrest]
  simp only [toNat_cast _ (show (0:Int) ≤ resolvedRow cr a by omega),
    toNat_cast _ (show (0:Int) ≤ resolvedRow cr b by omega), tokenOf, resolvedCol, h1, h2, h3, h4,
    if_true, LAST_COLUMN]
  rfl

/-- the whole sheet is a whole-column range for the repaired printer (fix F22b) -/
example : fullRowOf { column := 1, row := 1, absCol := true, absRow := true }
    { column := 16384, row := 1048576, absCol := true, absRow := true } = true := by decide

/-! ### R1C1 references -/

/-- the coordinates `to_rc_format` can write: any `i32` offset in brackets, a non-negative `i32`
    absolute number (after fix F26-r1c-name the lexer reads an unbracketed number only when it starts
    with a digit; absolute rows and columns are never negative) -/
def RcWritable (r : PRef) : Prop :=
  I32 r.row ∧ I32 r.column ∧ (r.absRow = true → 0 ≤ r.row) ∧ (r.absCol = true → 0 ≤ r.column)

/-- An R1C1 reference printed by stringify_reference (`context = None`), every i32 offset, every
    non-negative absolute row/column and both bracket forms, is read back by consume_reference_r1c1. -/
theorem r1c1_roundtrip (cc : CharClass) (hcc : CharClassOK cc) (r : PRef) (rest : List Char)
    (hw : RcWritable r)
    (hd : stops isDigit rest = true) (ha : stops cc.alnum rest = true) :
    consumeReferenceR1C1 cc (printR1C1 [] r ++ rest) = some (r, rest) :=
  consumeReferenceR1C1_print cc hcc r rest hw.1 hw.2.1 hw.2.2.1 hw.2.2.2 hd ha

theorem r1c1_range_roundtrip (cc : CharClass) (hcc : CharClassOK cc) (a b : PRef) (rest : List Char)
    (hwa : RcWritable a) (hwb : RcWritable b)
    (hd : stops isDigit rest = true) (ha : stops cc.alnum rest = true) :
    consumeRangeR1C1 cc (printRangeR1C1 [] a b ++ rest)
      = some ({ left := a, right := some b }, rest) := by
  unfold printRangeR1C1 consumeRangeR1C1
  rw [List.append_assoc, List.cons_append,
    r1c1_roundtrip cc hcc a _ hwa (by simp [stops]; decide)
      (by simp [stops, hcc.colon_not_alnum])]
  simp only [if_true]
  rw [r1c1_roundtrip cc hcc b rest hwb hd ha]

/-- the pinned tree's defect, on the repaired model: `R1C+1` is no longer a reference -/
theorem r1c1_sign_rejected (cc : CharClass) :
    consumeReferenceR1C1 cc "R1C+1".toList = none ∧ consumeReferenceR1C1 cc "R1C-1".toList = none := by
  constructor <;> rfl

/-! ### sheet names -/

/-- Every non-empty name, quoted as quote_name does (repaired rule, fix F22a) and followed by `!`,
    is read back by the lexer as exactly that name — for any character classes satisfying
    `CharClassOK`, in particular the extracted ones. No validity hypothesis is needed. -/
theorem quote_roundtrip (cc : CharClass) (hcc : CharClassOK cc) (n rest : List Char) (hne : n ≠ []) :
    lexSheetPrefix cc (quoteName cc n ++ '!' :: rest) = some (n, rest) := by
  unfold quoteName
  cases hq : nameNeedsQuoting cc n with
  | true => exact lexSheetPrefix_quoted cc hcc n rest
  | false =>
    unfold nameNeedsQuoting at hq
    simp only [Bool.or_eq_false_iff, Bool.not_eq_eq_eq_not, Bool.not_false] at hq
    exact lexSheetPrefix_unquoted cc hcc n rest hne hq.1.1

/-- the quoted branch alone is unconditional: whatever decides to quote, quoting is read back -/
theorem quoted_branch_roundtrip (cc : CharClass) (hcc : CharClassOK cc) (n rest : List Char) :
    lexSheetPrefix cc (quoteWith true n ++ '!' :: rest) = some (n, rest) :=
  lexSheetPrefix_quoted cc hcc n rest

/-- a sheet-qualified A1 reference: prefix and cell are both recovered -/
theorem sheet_a1_roundtrip (cc : CharClass) (hcc : CharClassOK cc) (n : List Char) (hne : n ≠ [])
    (cr ccol : Int) (r : PRef) (rest : List Char) (hg : InGrid cr ccol r)
    (hrest : stops (fun c => isDigit c || c == ':') rest = true) :
    ∃ after, lexSheetPrefix cc (printA1 (quoteName cc n ++ ['!']) cr ccol r false false ++ rest) = some (n, after)
      ∧ consumeRangeA1 after = some ({ left := tokenOf cr ccol r, right := none }, rest) := by
  refine ⟨printA1 [] cr ccol r false false ++ rest, ?_, consumeRangeA1_cell cr ccol r rest hg hrest⟩
  have e : printA1 (quoteName cc n ++ ['!']) cr ccol r false false
      = quoteName cc n ++ '!' :: printA1 [] cr ccol r false false := by
    rw [printA1_cell cr ccol r hg]
    obtain ⟨h1, h2, h3, h4⟩ := hg
    unfold printA1 cellText withDollar numberToColumn isValidColumnNumber LAST_COLUMN
    unfold resolvedRow at h1 h2
    unfold resolvedCol at h3 h4
    unfold resolvedRow resolvedCol
    generalize (if r.absRow = true then r.row else r.row + cr) = row at *
    generalize (if r.absCol = true then r.column else r.column + ccol) = col at *
    have e1 : ¬ (row < 1 ∨ row > (LAST_ROW : Int)) := by unfold LAST_ROW; omega
    have e2 : (decide (1 ≤ col) && decide (col ≤ ((16384 : Nat) : Int))) = true := by simp; omega
    simp only [e1, if_false, e2, if_true, Bool.false_eq_true]
    rw [intToDec_nonneg row (by omega)]
    simp
  rw [e, List.append_assoc, List.cons_append]
  exact quote_roundtrip cc hcc n _ hne

/-! ### injectivity: distinct names / cells never share a spelling (corollaries of the round trips) -/

/-- quote_name is injective on non-empty names: two sheets can never be written the same way -/
theorem quoteName_injective (cc : CharClass) (hcc : CharClassOK cc) (n m : List Char)
    (hn : n ≠ []) (hm : m ≠ []) (h : quoteName cc n = quoteName cc m) : n = m := by
  have e1 := quote_roundtrip cc hcc n [] hn
  have e2 := quote_roundtrip cc hcc m [] hm
  rw [h, e2] at e1
  exact ((Prod.mk.inj (Option.some.inj e1)).1).symm

/-- the A1 printer is injective on in-grid references seen from one context cell -/
theorem printA1_injective (cr cc : Int) (r r' : PRef) (hg : InGrid cr cc r) (hg' : InGrid cr cc r')
    (h : printA1 [] cr cc r false false = printA1 [] cr cc r' false false) : r = r' := by
  have e1 := (a1_roundtrip cr cc r [] hg rfl).1
  have e2 := (a1_roundtrip cr cc r' [] hg' rfl).1
  rw [h, e2] at e1
  have ht : tokenOf cr cc r' = tokenOf cr cc r := by
    have := (Prod.mk.inj (Option.some.inj e1)).1
    injection this
  have k1 := (a1_roundtrip cr cc r [] hg rfl).2
  have k2 := (a1_roundtrip cr cc r' [] hg' rfl).2
  rw [← k1, ← k2, ht]

/-! ### obligations on the extracted character classes, and the pinned tree's defects -/

/-- the running code's character classes satisfy what the theorems assume -/
theorem unicodeCC_ok : CharClassOK unicodeCC where
  bang_not_white := by decide +kernel
  bang_not_alnum := by decide +kernel
  bracket_not_white := by decide +kernel
  alpha_alnum := by intro c h; simp only [unicodeCC] at h ⊢; simp [h]
  quote_not_alpha := by decide +kernel
  colon_not_alnum := by decide +kernel

/-- F22a (pinned tree, before the fix): the fixed quoting list leaves `a&b` unquoted and the lexer
    does not read it back as a sheet name -/
theorem quote_pinned_not_roundtrip :
    lexSheetPrefix unicodeCC (quoteNamePinned ['a', '&', 'b'] ++ '!' :: ['A', '1']) = none := by
  decide +kernel

/-- … while the repaired rule quotes it -/
example : quoteName unicodeCC ['a', '&', 'b'] = ['\'', 'a', '&', 'b', '\''] := by decide +kernel

/-- F22b (pinned tree, before the fix): the whole-sheet range printed as `:` and did not parse -/
theorem whole_sheet_pinned_not_roundtrip :
    printRangeA1Pinned [] 1 1 { column := 1, row := 1, absCol := true, absRow := true }
        { column := 16384, row := 1048576, absCol := true, absRow := true } = [':']
      ∧ consumeRangeA1 [':'] = none := by
  constructor <;> decide +kernel

/-- non-vacuity of `quoteName_injective` on the extracted classes -/
example : quoteName unicodeCC "My Sheet".toList ≠ quoteName unicodeCC "MySheet".toList := by
  intro h
  have := quoteName_injective unicodeCC unicodeCC_ok _ _ (by decide) (by decide) h
  exact absurd this (by decide)

end IronCalc.Codec
