import IronCalc.Codec.ColumnProofs
import IronCalc.Codec.Lex
import IronCalc.Codec.CharClassTable
namespace IronCalc.Codec

theorem col_num_roundtrip (n : Nat) : colToNum (numToCol n) = n := colToNum_numToCol n

end IronCalc.Codec
