import IronCalc.User.SelectionProofs
/-
  C28 — The selection always points at an existing sheet and cell.
  Property theorems only (helpers: User/SelectionProofs.lean; model: User/Selection.lean, which
  models base/src/user_model/ui.rs and the selection side effects of common.rs / undo_redo.rs
  after the F28a repair).
-/
namespace IronCalc.Selection

/-! ### components of the invariant -/

theorem sheetInv_iff (s : State) : SheetInv s ↔
    s.selected < s.sheets.length ∧ (∀ d ∈ s.undo, diffOK d = true) ∧ (∀ d ∈ s.redo, diffOK d = true) := by
  unfold SheetInv sheetInvB
  simp only [Bool.and_eq_true, decide_eq_true_eq, List.all_eq_true, and_assoc]

theorem selInv_iff (s : State) : SelInv s ↔
    SheetInv s ∧ (∀ sh ∈ s.sheets, viewOK sh.view = true) := by
  rw [sheetInv_iff]
  unfold SelInv selInvB
  simp only [Bool.and_eq_true, decide_eq_true_eq, List.all_eq_true]
  constructor
  · rintro ⟨⟨⟨a, b⟩, c⟩, d⟩; exact ⟨⟨a, c, d⟩, b⟩
  · rintro ⟨⟨a, c, d⟩, b⟩; exact ⟨⟨⟨a, b⟩, c⟩, d⟩

/-- `selected_sheet_after_move` is the position of the *same* sheet after `Vec::remove` + `insert` -/
theorem move_follows_identity (l : List Sheet) (sel frm to : Nat)
    (hs : sel < l.length) (hf : frm < l.length) (ht : to < l.length) :
    (moveList l frm to)[afterMove sel frm to]? = l[sel]? := by
  unfold moveList
  rw [List.getElem?_eq_getElem hf]
  simp only
  have hlen := length_removeAt l frm hf
  rw [getElem?_insertAt _ _ _ _ (by omega)]
  unfold afterMove
  by_cases h1 : sel = frm
  · subst h1
    rw [if_pos rfl, if_neg (Nat.lt_irrefl _), if_pos rfl, List.getElem?_eq_getElem hs]
  · rw [if_neg h1]
    simp only
    by_cases h2 : sel > frm
    · rw [if_pos h2]
      by_cases h3 : sel - 1 ≥ to
      · rw [if_pos h3, if_neg (by omega), if_neg (by omega), getElem?_removeAt, if_neg (by omega)]
        congr 1; omega
      · rw [if_neg h3, if_pos (by omega), getElem?_removeAt, if_neg (by omega)]
        congr 1; omega
    · rw [if_neg h2]
      by_cases h3 : sel ≥ to
      · rw [if_pos h3, if_neg (by omega), if_neg (by omega), getElem?_removeAt, if_pos (by omega)]
        congr 1
      · rw [if_neg h3, if_pos (by omega), getElem?_removeAt, if_pos (by omega)]

/-- `selected_sheet_after_delete` (the repair) is the position of the same sheet after the removal
    of another one -/
theorem delete_follows_identity (l : List Sheet) (sel del : Nat) (hne : sel ≠ del) :
    (removeAt l del)[afterDelete sel del l.length]? = l[sel]? := by
  unfold afterDelete
  by_cases h : sel > del
  · rw [if_pos (Or.inl h), getElem?_removeAt, if_neg (by omega)]
    congr 1; omega
  · rw [if_neg (by omega), getElem?_removeAt, if_pos (by omega)]

/-! ### every command keeps the selected sheet in range -/

theorem stacks_push {s : State} {d : Diff} (hu : ∀ x ∈ s.undo, diffOK x = true)
    (hd : diffOK d = true) :
    (∀ x ∈ (push s d).undo, diffOK x = true) ∧ (∀ x ∈ (push s d).redo, diffOK x = true) := by
  unfold push
  constructor
  · intro x hx
    rcases List.mem_cons.mp hx with h | h
    · rw [h]; exact hd
    · exact hu x h
  · intro x hx; cases hx

theorem push_selSheet (s1 : State) (i : Nat) (d : Diff)
    (hsel : s1.selected < s1.sheets.length) (hu : ∀ x ∈ s1.undo, diffOK x = true)
    (hd : diffOK d = true) :
    (push (selSheet s1 i) d).selected < (push (selSheet s1 i) d).sheets.length
    ∧ (∀ x ∈ (push (selSheet s1 i) d).undo, diffOK x = true)
    ∧ (∀ x ∈ (push (selSheet s1 i) d).redo, diffOK x = true) := by
  have hst := stacks_push (s := selSheet s1 i) (d := d) (by rw [selSheet_undo]; exact hu) hd
  refine ⟨?_, hst.1, hst.2⟩
  simp only [push]
  rw [selSheet_sheets]
  exact selSheet_lt _ _ hsel

theorem nextVisible_lt (sheets : List Sheet) (i n fuel k j : Nat) (hn : 0 < n)
    (h : nextVisible sheets i n fuel k = some j) : j < n := by
  induction fuel generalizing k with
  | zero => simp [nextVisible] at h
  | succ f ih =>
    rw [nextVisible] at h
    split at h
    · split at h
      · split at h
        · cases h; exact Nat.mod_lt _ hn
        · exact ih _ h
      · exact ih _ h
    · cases h

theorem applyUndo_sheetInv (s : State) (d : Diff) (hd : diffOK d = true) (h : SheetInv s) :
    SheetInv (applyUndo s d) := by
  rw [sheetInv_iff] at h ⊢
  obtain ⟨hsel, hu, hr⟩ := h
  cases d with
  | newSheet idx sid =>
    simp only [applyUndo]
    split
    · exact ⟨hsel, hu, hr⟩
    · rename_i hc
      have hidx : idx ≥ 1 := by simpa [diffOK] using hd
      have hlen := length_removeAt s.sheets idx (by omega)
      rw [if_pos (by omega)]
      refine ⟨?_, ?_, ?_⟩
      · rw [selSheet_sheets, selSheet_eq _ _ (by simp only; omega)]
        simp only; omega
      · rw [selSheet_undo]; exact hu
      · rw [selSheet_redo]; exact hr
  | duplicateSheet src new =>
    simp only [applyUndo]
    split
    · exact ⟨hsel, hu, hr⟩
    · rename_i hc
      have hnew : new = src + 1 := by simpa [diffOK] using hd
      have hlen := length_removeAt s.sheets new (by omega)
      refine ⟨?_, ?_, ?_⟩
      · rw [selSheet_sheets, selSheet_eq _ _ (by simp only; omega)]
        simp only; omega
      · rw [selSheet_undo]; exact hu
      · rw [selSheet_redo]; exact hr
  | moveSheet frm to =>
    simp only [applyUndo]
    split
    · exact ⟨hsel, hu, hr⟩
    · rename_i hc
      split
      · exact ⟨by rw [selSheet_sheets]; exact selSheet_lt _ _ hsel, by rw [selSheet_undo]; exact hu,
          by rw [selSheet_redo]; exact hr⟩
      · have hlen := length_moveList s.sheets to frm (by omega)
        refine ⟨?_, by rw [selSheet_undo]; exact hu, by rw [selSheet_redo]; exact hr⟩
        rw [selSheet_sheets]
        apply selSheet_lt
        simp only; omega
  | setState idx old new =>
    simp only [applyUndo]
    exact ⟨by rw [length_modifyAt]; exact hsel, hu, hr⟩
  | setRowsHidden sheet olds new =>
    simp only [applyUndo, modSheet]
    exact ⟨by rw [length_modifyAt]; exact hsel, hu, hr⟩
  | setColsHidden sheet olds new =>
    simp only [applyUndo, modSheet]
    exact ⟨by rw [length_modifyAt]; exact hsel, hu, hr⟩
  | setCell sheet r c old =>
    simp only [applyUndo, modSheet]
    exact ⟨by rw [length_modifyAt]; exact hsel, hu, hr⟩
  | deleteSheet idx old =>
    simp only [applyUndo]
    split
    · exact ⟨hsel, hu, hr⟩
    · refine ⟨?_, by rw [selSheet_undo]; exact hu, by rw [selSheet_redo]; exact hr⟩
      rw [selSheet_sheets]
      apply selSheet_lt
      simp only [length_insertAt]; omega

theorem applyRedo_sheetInv (s : State) (d : Diff) (h : SheetInv s) : SheetInv (applyRedo s d) := by
  rw [sheetInv_iff] at h ⊢
  obtain ⟨hsel, hu, hr⟩ := h
  cases d with
  | deleteSheet idx old =>
    simp only [applyRedo]
    split
    · exact ⟨hsel, hu, hr⟩
    · rename_i hc
      have hlen := length_removeAt s.sheets idx (by omega)
      have hlt := afterDelete_lt hsel (by omega : idx < s.sheets.length) (by omega)
      refine ⟨?_, by rw [selSheet_undo]; exact hu, by rw [selSheet_redo]; exact hr⟩
      rw [selSheet_sheets, selSheet_eq _ _ (by simp only; omega)]
      simp only; omega
  | newSheet idx sid =>
    simp only [applyRedo]
    split
    · exact ⟨hsel, hu, hr⟩
    · refine ⟨?_, by rw [selSheet_undo]; exact hu, by rw [selSheet_redo]; exact hr⟩
      rw [selSheet_sheets]
      apply selSheet_lt
      simp only [length_insertAt]; omega
  | duplicateSheet src new =>
    simp only [applyRedo]
    split
    · exact ⟨hsel, hu, hr⟩
    · refine ⟨?_, by rw [selSheet_undo]; exact hu, by rw [selSheet_redo]; exact hr⟩
      rw [selSheet_sheets]
      apply selSheet_lt
      simp only [length_insertAt]; omega
  | moveSheet frm to =>
    simp only [applyRedo]
    split
    · exact ⟨hsel, hu, hr⟩
    · rename_i hc
      split
      · exact ⟨by rw [selSheet_sheets]; exact selSheet_lt _ _ hsel, by rw [selSheet_undo]; exact hu,
          by rw [selSheet_redo]; exact hr⟩
      · have hlen := length_moveList s.sheets frm to (by omega)
        refine ⟨?_, by rw [selSheet_undo]; exact hu, by rw [selSheet_redo]; exact hr⟩
        rw [selSheet_sheets]
        apply selSheet_lt
        simp only; omega
  | setState idx old new =>
    simp only [applyRedo]
    exact ⟨by rw [length_modifyAt]; exact hsel, hu, hr⟩
  | setRowsHidden sheet olds new =>
    simp only [applyRedo, modSheet]
    exact ⟨by rw [length_modifyAt]; exact hsel, hu, hr⟩
  | setColsHidden sheet olds new =>
    simp only [applyRedo, modSheet]
    exact ⟨by rw [length_modifyAt]; exact hsel, hu, hr⟩
  | setCell sheet r c old =>
    simp only [applyRedo, modSheet]
    exact ⟨by rw [length_modifyAt]; exact hsel, hu, hr⟩

/-- the view setters change neither the sheet count, nor the selected sheet, nor the history -/
theorem setView_sheetInv {s : State} (v : View) (h : SheetInv s) : SheetInv (setView s v) := by
  rw [sheetInv_iff] at h ⊢
  exact ⟨by rw [setView_sheets_length]; exact h.1, h.2.1, h.2.2⟩

/-- every ui.rs command has this shape, so none of them touches the selected sheet index, the
    number of sheets or the history -/
theorem viewOp_sheetInv {s : State} (f : Sheet → Option View) (h : SheetInv s) :
    SheetInv (viewOp s f) := by
  unfold viewOp
  split
  · exact h
  · split
    · exact h
    · exact setView_sheetInv _ h

theorem modSheet_sheetInv {s : State} (i : Nat) (f : Sheet → Sheet) (h : SheetInv s) :
    SheetInv (modSheet s i f) := by
  rw [sheetInv_iff] at h ⊢
  exact ⟨by unfold modSheet; rw [length_modifyAt]; exact h.1, h.2.1, h.2.2⟩

theorem push_sheetInv {s : State} (d : Diff) (hd : diffOK d = true) (h : SheetInv s) :
    SheetInv (push s d) := by
  rw [sheetInv_iff] at h ⊢
  have := stacks_push (s := s) (d := d) h.2.1 hd
  exact ⟨h.1, this.1, this.2⟩

theorem winW_sheetInv {s : State} (w : Int) (h : SheetInv s) : SheetInv { s with winW := w } := by
  rw [sheetInv_iff] at h ⊢; exact h

theorem winH_sheetInv {s : State} (w : Int) (h : SheetInv s) : SheetInv { s with winH := w } := by
  rw [sheetInv_iff] at h ⊢; exact h

theorem hideRows_sheetInv (s : State) (sheet : Nat) (a b : Int) (hid : Bool) (h : SheetInv s) :
    SheetInv (hideRows s sheet a b hid) := by
  unfold hideRows
  split
  · exact h
  · split
    · dsimp only
      split
      · split
        · exact modSheet_sheetInv _ _ h
        · exact push_sheetInv _ rfl (viewOp_sheetInv _ (viewOp_sheetInv _ (modSheet_sheetInv _ _ h)))
      · exact push_sheetInv _ rfl (modSheet_sheetInv _ _ h)
    · exact h

theorem hideCols_sheetInv (s : State) (sheet : Nat) (a b : Int) (hid : Bool) (h : SheetInv s) :
    SheetInv (hideCols s sheet a b hid) := by
  unfold hideCols
  split
  · exact h
  · split
    · dsimp only
      split
      · split
        · exact modSheet_sheetInv _ _ h
        · exact push_sheetInv _ rfl (viewOp_sheetInv _ (viewOp_sheetInv _ (modSheet_sheetInv _ _ h)))
      · exact push_sheetInv _ rfl (modSheet_sheetInv _ _ h)
    · exact h

theorem input_sheetInv (s : State) (sheet : Nat) (r c : Int) (h : SheetInv s) :
    SheetInv (input s sheet r c) := by
  unfold input
  split
  · split
    · exact h
    · split
      · exact h
      · exact push_sheetInv _ rfl (modSheet_sheetInv _ _ h)
  · exact h

/-- **the selected sheet exists after every modelled command** (all of them, without exception) -/
theorem sheet_step (s : State) (cmd : Cmd) (h : SheetInv s) : SheetInv (step s cmd) := by
  cases cmd with
  | selSheet i =>
    rw [sheetInv_iff] at h ⊢
    simp only [step]
    exact ⟨by rw [selSheet_sheets]; exact selSheet_lt _ _ h.1, by rw [selSheet_undo]; exact h.2.1,
      by rw [selSheet_redo]; exact h.2.2⟩
  | selCell r c => exact viewOp_sheetInv _ h
  | selRange r1 c1 r2 c2 => exact viewOp_sheetInv _ h
  | arrow d => exact viewOp_sheetInv _ h
  | area r c => exact viewOp_sheetInv _ h
  | setTopLeft r c => exact viewOp_sheetInv _ h
  | setWinW w => exact winW_sheetInv w h
  | setWinH w => exact winH_sheetInv w h
  | pageDown => exact viewOp_sheetInv _ h
  | pageUp => exact viewOp_sheetInv _ h
  | edge d => exact viewOp_sheetInv _ h
  | expand d => exact viewOp_sheetInv _ h
  | hideRows sheet a b hid => exact hideRows_sheetInv s sheet a b hid h
  | hideCols sheet a b hid => exact hideCols_sheetInv s sheet a b hid h
  | input sheet r c => exact input_sheetInv s sheet r c h
  | newSheet =>
    rw [sheetInv_iff] at h ⊢
    obtain ⟨hsel, hu, hr⟩ := h
    simp only [step, newSheet]
    exact push_selSheet _ _ _ (by simp only [List.length_append, List.length_cons, List.length_nil]; omega) hu
      (by simp only [diffOK, decide_eq_true_eq]; omega)
  | dupSheet i =>
    rw [sheetInv_iff] at h ⊢
    obtain ⟨hsel, hu, hr⟩ := h
    simp only [step, dupSheet]
    split
    · exact ⟨hsel, hu, hr⟩
    · exact push_selSheet _ _ _ (by simp only [length_insertAt]; omega) hu (by simp [diffOK])
  | delSheet i =>
    rw [sheetInv_iff] at h ⊢
    obtain ⟨hsel, hu, hr⟩ := h
    simp only [step, delSheet]
    split
    · exact ⟨hsel, hu, hr⟩
    · rename_i sh hsh
      have hi : i < s.sheets.length := by
        rcases Nat.lt_or_ge i s.sheets.length with h' | h'
        · exact h'
        · rw [List.getElem?_eq_none h'] at hsh; cases hsh
      have hst := stacks_push (s := s) (d := .deleteSheet i sh) hu (by simp [diffOK])
      split
      · rename_i hn
        have hlen := length_removeAt s.sheets i hi
        have := afterDelete_lt hsel hi hn
        refine ⟨?_, hst.1, hst.2⟩
        simp only; omega
      · exact ⟨hsel, hu, hr⟩
  | hideSheet i =>
    rw [sheetInv_iff] at h ⊢
    obtain ⟨hsel, hu, hr⟩ := h
    simp only [step, hideSheet]
    have h1 : (hideSel s i).selected < s.sheets.length := by
      unfold hideSel; split
      · rename_i j hj
        exact nextVisible_lt _ _ _ _ _ _ (by omega) hj
      · exact hsel
    have h2 : (hideSel s i).sheets = s.sheets := by unfold hideSel; split <;> rfl
    have h3 : (hideSel s i).undo = s.undo := by unfold hideSel; split <;> rfl
    have h4 : (hideSel s i).redo = s.redo := by unfold hideSel; split <;> rfl
    generalize hideSel s i = s1 at h1 h2 h3 h4
    split
    · exact ⟨hsel, hu, hr⟩
    · rename_i sh hsh
      have hst := stacks_push (s := s1) (d := .setState i sh.visible false) (by rw [h3]; exact hu)
        (by simp [diffOK])
      refine ⟨?_, hst.1, hst.2⟩
      simp only [push, length_modifyAt]
      rw [h2]; exact h1
  | unhideSheet i =>
    rw [sheetInv_iff] at h ⊢
    obtain ⟨hsel, hu, hr⟩ := h
    simp only [step, unhideSheet]
    split
    · exact ⟨hsel, hu, hr⟩
    · rename_i sh hsh
      have hst := stacks_push (s := s) (d := .setState i sh.visible true) hu (by simp [diffOK])
      refine ⟨?_, hst.1, hst.2⟩
      simp only [push, length_modifyAt]; exact hsel
  | moveSheet f t =>
    rw [sheetInv_iff] at h ⊢
    obtain ⟨hsel, hu, hr⟩ := h
    simp only [step, moveSheet]
    split
    · exact ⟨hsel, hu, hr⟩
    · rename_i hc
      have hlen := length_moveList s.sheets f t (by omega)
      exact push_selSheet _ _ _ (by simp only; omega) hu (by simp [diffOK])
  | undo =>
    simp only [step, undo]
    split
    · exact h
    · rename_i d rest hd
      rw [sheetInv_iff] at h
      obtain ⟨hsel, hu, hr⟩ := h
      apply applyUndo_sheetInv
      · exact hu d (by rw [hd]; exact List.mem_cons_self ..)
      · rw [sheetInv_iff]
        refine ⟨hsel, fun x hx => hu x (by rw [hd]; exact List.mem_cons_of_mem _ hx), ?_⟩
        intro x hx
        rcases List.mem_cons.mp hx with e | e
        · rw [e]; exact hu d (by rw [hd]; exact List.mem_cons_self ..)
        · exact hr x e
  | redo =>
    simp only [step, redo]
    split
    · exact h
    · rename_i d rest hd
      rw [sheetInv_iff] at h
      obtain ⟨hsel, hu, hr⟩ := h
      apply applyRedo_sheetInv
      rw [sheetInv_iff]
      refine ⟨hsel, ?_, fun x hx => hr x (by rw [hd]; exact List.mem_cons_of_mem _ hx)⟩
      intro x hx
      rcases List.mem_cons.mp hx with e | e
      · rw [e]; exact hr d (by rw [hd]; exact List.mem_cons_self ..)
      · exact hu x e

theorem sheet_init : SheetInv State.init := by unfold SheetInv; decide

/-- **C28, sheet clause, for every history**: after any sequence of modelled commands — selection
    setters, arrow keys, area selection, new / duplicate / delete / hide / unhide / move sheet, undo,
    redo, valid or invalid arguments — the selected sheet exists -/
theorem C28_selected_sheet_exists (cmds : List Cmd) :
    (run State.init cmds).selected < (run State.init cmds).sheets.length := by
  have : ∀ (s : State), SheetInv s → SheetInv (run s cmds) := by
    induction cmds with
    | nil => intro s h; exact h
    | cons c cs ih => intro s h; exact ih _ (sheet_step s c h)
  exact ((sheetInv_iff _).mp (this _ sheet_init)).1

/-! ### cell and range of every sheet -/

/-- every sheet's selected cell / range is well-formed -/
def AllOK (l : List Sheet) : Prop := ∀ sh ∈ l, viewOK sh.view = true

theorem viewOK_iff (v : View) : viewOK v = true ↔
    ((1 ≤ v.row ∧ v.row ≤ 1048576) ∧ (1 ≤ v.col ∧ v.col ≤ 16384) ∧ (1 ≤ v.r1 ∧ v.r1 ≤ 1048576)
      ∧ (1 ≤ v.c1 ∧ v.c1 ≤ 16384) ∧ (1 ≤ v.r2 ∧ v.r2 ≤ 1048576) ∧ (1 ≤ v.c2 ∧ v.c2 ≤ 16384)
      ∧ min v.r1 v.r2 ≤ v.row ∧ v.row ≤ max v.r1 v.r2 ∧ min v.c1 v.c2 ≤ v.col ∧ v.col ≤ max v.c1 v.c2) := by
  unfold viewOK validRow validCol LAST_ROW LAST_COLUMN
  simp only [Bool.and_eq_true, decide_eq_true_eq, and_assoc]

theorem validRow_iff (r : Int) : validRow r = true ↔ 1 ≤ r ∧ r ≤ 1048576 := by
  unfold validRow LAST_ROW
  simp only [Bool.and_eq_true, decide_eq_true_eq]

theorem validCol_iff (c : Int) : validCol c = true ↔ 1 ≤ c ∧ c ≤ 16384 := by
  unfold validCol LAST_COLUMN
  simp only [Bool.and_eq_true, decide_eq_true_eq]

theorem allOK_setView {s : State} {v : View} (h : AllOK s.sheets) (hv : viewOK v = true) :
    AllOK (setView s v).sheets := by
  intro x hx
  unfold setView at hx
  rcases mem_modifyAt hx with h' | ⟨y, _, e⟩
  · exact h x h'
  · rw [e]; exact hv

theorem allOK_modify {l : List Sheet} {i : Nat} {f : Sheet → Sheet} (h : AllOK l)
    (hf : ∀ y, (f y).view = y.view) : AllOK (modifyAt l i f) := by
  intro x hx
  rcases mem_modifyAt hx with h' | ⟨y, hy, e⟩
  · exact h x h'
  · rw [e, hf]; exact h y hy

theorem allOK_remove {l : List Sheet} {i : Nat} (h : AllOK l) : AllOK (removeAt l i) :=
  fun x hx => h x (mem_removeAt hx)

theorem allOK_insert {l : List Sheet} {i : Nat} {sh : Sheet} (h : AllOK l)
    (hs : viewOK sh.view = true) : AllOK (insertAt l i sh) := by
  intro x hx
  rcases mem_insertAt hx with e | h'
  · rw [e]; exact hs
  · exact h x h'

theorem allOK_move {l : List Sheet} {f t : Nat} (h : AllOK l) : AllOK (moveList l f t) :=
  fun x hx => h x (mem_moveList hx)

theorem viewOK_default : viewOK View.default = true := by decide

/-- the new view computed by a command is well-formed whenever it exists -/
def Good (o : Option View) : Prop := ∀ v, o = some v → viewOK v = true

theorem good_none : Good none := fun _ h => by cases h
theorem good_some {v : View} (h : viewOK v = true) : Good (some v) := fun _ e => by cases e; exact h
theorem good_bind {α : Type} {o : Option α} {f : α → Option View} (h : ∀ x, Good (f x)) :
    Good (o.bind f) := by
  intro v e
  cases o with
  | none => cases e
  | some x => exact h x v e
theorem good_map {α : Type} {o : Option α} {f : α → View} (h : ∀ x, viewOK (f x) = true) :
    Good (o.map f) := by
  intro v e
  cases o with
  | none => cases e
  | some x => cases e; exact h x
theorem good_ite {c : Prop} [Decidable c] {a b : Option View} (ha : Good a) (hb : Good b) :
    Good (if c then a else b) := by
  split
  · exact ha
  · exact hb

/-- a command of the `viewOp` shape keeps every sheet's cell and range well-formed as soon as the view
    it computes from a well-formed one is well-formed -/
theorem viewOp_views (s : State) (f : Sheet → Option View) (h : AllOK s.sheets)
    (hf : ∀ sh, viewOK sh.view = true → Good (f sh)) : AllOK (viewOp s f).sheets := by
  unfold viewOp
  cases hsh : s.sheets[s.selected]? with
  | none => exact h
  | some sh =>
    dsimp only
    cases hv : f sh with
    | none => exact h
    | some v => exact allOK_setView h (hf sh (h sh (List.mem_of_getElem? hsh)) v hv)

/-- scrolling does not matter for the invariant -/
theorem viewOK_scroll (v : View) (t l : Int) : viewOK { v with top := t, left := l } = viewOK v := rfl

theorem cellView_good (v : View) (r c : Int) : Good (cellView v r c) := by
  unfold cellView
  by_cases hv : (validCol c && validRow r) = true
  · rw [if_pos hv]
    apply good_some
    rw [viewOK_iff]
    rw [Bool.and_eq_true, validCol_iff, validRow_iff] at hv
    simp only
    omega
  · rw [if_neg hv]; exact good_none

theorem rangeView_good (v : View) (r1 c1 r2 c2 : Int) (hold : viewOK v = true) :
    Good (rangeView v r1 c1 r2 c2) := by
  unfold rangeView
  by_cases hv : (validCol c1 && validRow r1 && validCol c2 && validRow r2) = true
  · rw [if_pos hv]
    dsimp only
    by_cases hok : (if r1 = 1 ∧ r2 = LAST_ROW then decide (v.col = c1 ∨ v.col = c2)
        else if c1 = 1 ∧ c2 = LAST_COLUMN then decide (v.row = r1 ∨ v.row = r2)
        else decide (v.row = r1 ∨ v.row = r2) && decide (v.col = c1 ∨ v.col = c2)) = true
    · rw [if_pos hok]
      apply good_some
      rw [viewOK_iff] at hold ⊢
      simp only [Bool.and_eq_true, validCol_iff, validRow_iff] at hv
      simp only
      by_cases ha : r1 = 1 ∧ r2 = LAST_ROW
      · rw [if_pos ha] at hok
        simp only [decide_eq_true_eq] at hok
        unfold LAST_ROW at ha
        omega
      · rw [if_neg ha] at hok
        by_cases hb : c1 = 1 ∧ c2 = LAST_COLUMN
        · rw [if_pos hb] at hok
          simp only [decide_eq_true_eq] at hok
          unfold LAST_COLUMN at hb
          omega
        · rw [if_neg hb] at hok
          simp only [Bool.and_eq_true, decide_eq_true_eq] at hok
          omega
    · rw [if_neg hok]; exact good_none
  · rw [if_neg hv]; exact good_none

theorem topLeftView_good (v : View) (r c : Int) (hold : viewOK v = true) : Good (topLeftView v r c) := by
  unfold topLeftView
  split
  · exact good_some (by rw [viewOK_scroll]; exact hold)
  · exact good_none

theorem selCell_views (s : State) (r c : Int) (h : AllOK s.sheets) : AllOK (selCell s r c).sheets :=
  viewOp_views s _ h fun sh _ => cellView_good sh.view r c

theorem selRange_views (s : State) (r1 c1 r2 c2 : Int) (h : AllOK s.sheets) :
    AllOK (selRange s r1 c1 r2 c2).sheets :=
  viewOp_views s _ h fun sh hv => rangeView_good sh.view r1 c1 r2 c2 hv

theorem setTopLeft_views (s : State) (r c : Int) (h : AllOK s.sheets) :
    AllOK (setTopLeft s r c).sheets :=
  viewOp_views s _ h fun sh hv => topLeftView_good sh.view r c hv

theorem arrow_col {v : View} {c l : Int} (hold : viewOK v = true) (hv : validCol c = true) :
    viewOK { v with col := c, r1 := v.row, c1 := c, r2 := v.row, c2 := c, left := l } = true := by
  rw [viewOK_iff] at hold ⊢
  rw [validCol_iff] at hv
  simp only
  omega

theorem arrow_row {v : View} {r t : Int} (hold : viewOK v = true) (hv : validRow r = true) :
    viewOK { v with row := r, r1 := r, c1 := v.col, r2 := r, c2 := v.col, top := t } = true := by
  rw [viewOK_iff] at hold ⊢
  rw [validRow_iff] at hv
  simp only
  omega

/-- **arrow keys** (with any hidden rows / columns, any window size, any scroll position) -/
theorem arrowView_good (winW winH : Int) (sh : Sheet) (d : Dir) (hold : viewOK sh.view = true) :
    Good (arrowView winW winH sh d) := by
  unfold arrowView
  dsimp only
  generalize arrowTarget sh d = x
  by_cases hd : d.horizontal = true
  · rw [if_pos hd]
    by_cases hv : validCol x = true
    · rw [if_pos hv]; exact good_map fun l => arrow_col hold hv
    · rw [if_neg hv]; exact good_none
  · rw [if_neg hd]
    by_cases hv : validRow x = true
    · rw [if_pos hv]; exact good_map fun t => arrow_row hold hv
    · rw [if_neg hv]; exact good_none

theorem arrow_views (s : State) (d : Dir) (h : AllOK s.sheets) : AllOK (arrow s d).sheets :=
  viewOp_views s _ h fun sh hv => arrowView_good s.winW s.winH sh d hv

/-- `on_area_selecting` is the one command that needs a hypothesis (`cmdOK`): target on the grid and
    selected cell between the range start and the target -/
theorem area_views (s : State) (r c : Int) (h : AllOK s.sheets) (hc : cmdOK s (.area r c) = true) :
    AllOK (area s r c).sheets := by
  unfold area viewOp
  unfold cmdOK at hc
  cases hsh : s.sheets[s.selected]? with
  | none => exact h
  | some sh =>
    rw [hsh] at hc
    dsimp only at hc ⊢
    cases hv : areaView s.winW s.winH sh r c with
    | none => exact h
    | some v =>
      apply allOK_setView h
      unfold areaView at hv
      dsimp only at hv
      cases h1 : areaScroll (colW? sh) s.winW sh.view.left sh.view.col c colFuel with
      | none => rw [h1] at hv; cases hv
      | some l =>
        rw [h1] at hv
        cases h2 : areaScroll (rowH? sh) s.winH sh.view.top sh.view.row r rowFuel with
        | none => rw [h2] at hv; cases hv
        | some t =>
          rw [h2] at hv
          cases hv
          exact hc

/-- the clamped row of the repaired page up / page down is on the grid, whatever the new top row -/
theorem pageView_ok (v : View) (t : Int) (hold : viewOK v = true) : viewOK (pageView v pageRow t) = true := by
  rw [viewOK_iff] at hold ⊢
  unfold pageView pageRow LAST_ROW
  simp only
  omega

/-- **page down** keeps the selected cell on the grid and inside the range: for every window
    height (also 0 or negative), scroll position and set of hidden rows -/
theorem pageDownView_good (winH : Int) (sh : Sheet) (hold : viewOK sh.view = true) :
    Good (pageDownView pageRow winH sh) := by
  unfold pageDownView
  apply good_bind; intro h0
  apply good_bind; intro last
  exact good_ite (good_some (pageView_ok _ _ hold)) good_none

/-- **page up** likewise -/
theorem pageUpView_good (winH : Int) (sh : Sheet) (hold : viewOK sh.view = true) :
    Good (pageUpView pageRow winH sh) := by
  unfold pageUpView
  apply good_bind; intro h0
  exact good_map fun first => pageView_ok _ _ hold

/-- **navigate to edge**: the target is validated, so the result is well-formed whatever cells are
    filled, hidden or scrolled -/
theorem edgeView_good (winW winH : Int) (sh : Sheet) (d : Dir) : Good (edgeView winW winH sh d) := by
  unfold edgeView
  dsimp only
  generalize edgeTarget sh d (sh.view.row, sh.view.col) = p
  by_cases h0 : (validRow sh.view.row && validCol sh.view.col) = true
  · rw [if_pos h0]
    by_cases h1 : (validRow p.1 && validCol p.2) = true
    · rw [if_pos h1]
      apply good_ite good_none
      apply good_map
      intro tl
      rw [viewOK_iff]
      rw [Bool.and_eq_true, validRow_iff, validCol_iff] at h1
      simp only
      omega
    · rw [if_neg h1]; exact good_none
  · rw [if_neg h0]; exact good_none

theorem scrolledRange_good (v : View) (t l r1 c1 r2 c2 : Int) (hold : viewOK v = true) :
    Good (scrolledRange v t l r1 c1 r2 c2) := by
  unfold scrolledRange
  intro w e
  cases h1 : topLeftView v t l with
  | none => rw [h1] at e; cases e
  | some v' =>
    rw [h1, Option.map_some] at e
    have hv' : viewOK v' = true := topLeftView_good v t l hold v' h1
    cases h2 : rangeView v' r1 c1 r2 c2 with
    | none =>
      rw [h2] at e
      simp only [Option.getD_none, Option.some.injEq] at e
      rw [← e]; exact hv'
    | some v'' =>
      rw [h2] at e
      simp only [Option.getD_some, Option.some.injEq] at e
      rw [← e]; exact rangeView_good v' r1 c1 r2 c2 hv' v'' h2

/-- **keyboard range expansion**: every write goes through the validated range setter -/
theorem expandView_good (winW winH : Int) (sh : Sheet) (d : Dir) (hold : viewOK sh.view = true) :
    Good (expandView winW winH sh d) := by
  unfold expandView
  dsimp only
  apply good_ite good_none
  apply good_ite good_none
  cases d <;> dsimp only
  all_goals
    apply good_ite <;> apply good_bind <;> intro n <;> apply good_ite
  all_goals first
    | exact good_none
    | exact rangeView_good _ _ _ _ _ hold
    | exact good_ite (scrolledRange_good _ _ _ _ _ _ _ hold) (rangeView_good _ _ _ _ _ hold)
    | (apply good_bind; intro w
       exact good_ite (scrolledRange_good _ _ _ _ _ _ _ hold) (rangeView_good _ _ _ _ _ hold))

theorem allOK_modSheet {s : State} {i : Nat} {f : Sheet → Sheet} (h : AllOK s.sheets)
    (hf : ∀ y, (f y).view = y.view) : AllOK (modSheet s i f).sheets := allOK_modify h hf

theorem hideRows_views (s : State) (sheet : Nat) (a b : Int) (hid : Bool) (h : AllOK s.sheets) :
    AllOK (hideRows s sheet a b hid).sheets := by
  unfold hideRows
  split
  · exact h
  · split
    · dsimp only
      split
      · split
        · exact allOK_modSheet h (fun _ => rfl)
        · exact selRange_views _ _ _ _ _ (selCell_views _ _ _ (allOK_modSheet h (fun _ => rfl)))
      · exact allOK_modSheet h (fun _ => rfl)
    · exact h

theorem hideCols_views (s : State) (sheet : Nat) (a b : Int) (hid : Bool) (h : AllOK s.sheets) :
    AllOK (hideCols s sheet a b hid).sheets := by
  unfold hideCols
  split
  · exact h
  · split
    · dsimp only
      split
      · split
        · exact allOK_modSheet h (fun _ => rfl)
        · exact selRange_views _ _ _ _ _ (selCell_views _ _ _ (allOK_modSheet h (fun _ => rfl)))
      · exact allOK_modSheet h (fun _ => rfl)
    · exact h

theorem input_views (s : State) (sheet : Nat) (r c : Int) (h : AllOK s.sheets) :
    AllOK (input s sheet r c).sheets := by
  unfold input
  split
  · split
    · exact h
    · split
      · exact h
      · exact allOK_modSheet h (fun _ => rfl)
  · exact h

theorem applyUndo_views (s : State) (d : Diff) (h : AllOK s.sheets) : AllOK (applyUndo s d).sheets := by
  cases d with
  | newSheet idx sid =>
    simp only [applyUndo]
    split
    · exact h
    · split
      · rw [selSheet_sheets]; exact allOK_remove h
      · exact allOK_remove h
  | duplicateSheet src new =>
    simp only [applyUndo]
    split
    · exact h
    · rw [selSheet_sheets]; exact allOK_remove h
  | moveSheet frm to =>
    simp only [applyUndo]
    split
    · exact h
    · split
      · rw [selSheet_sheets]; exact h
      · rw [selSheet_sheets]; exact allOK_move h
  | setState idx old new =>
    simp only [applyUndo]
    exact allOK_modify h (fun _ => rfl)
  | setRowsHidden sheet olds new => exact allOK_modify h (fun _ => rfl)
  | setColsHidden sheet olds new => exact allOK_modify h (fun _ => rfl)
  | setCell sheet r c old => exact allOK_modify h (fun _ => rfl)
  | deleteSheet idx old =>
    simp only [applyUndo]
    split
    · exact h
    · rw [selSheet_sheets]; exact allOK_insert h viewOK_default

theorem applyRedo_views (s : State) (d : Diff) (h : AllOK s.sheets) : AllOK (applyRedo s d).sheets := by
  cases d with
  | deleteSheet idx old =>
    simp only [applyRedo]
    split
    · exact h
    · rw [selSheet_sheets]; exact allOK_remove h
  | newSheet idx sid =>
    simp only [applyRedo]
    split
    · exact h
    · rw [selSheet_sheets]; exact allOK_insert h viewOK_default
  | duplicateSheet src new =>
    simp only [applyRedo]
    split
    · exact h
    · rename_i sh hsh
      rw [selSheet_sheets]
      exact allOK_insert h (h sh (List.mem_of_getElem? hsh))
  | moveSheet frm to =>
    simp only [applyRedo]
    split
    · exact h
    · split
      · rw [selSheet_sheets]; exact h
      · rw [selSheet_sheets]; exact allOK_move h
  | setState idx old new =>
    simp only [applyRedo]
    exact allOK_modify h (fun _ => rfl)
  | setRowsHidden sheet olds new => exact allOK_modify h (fun _ => rfl)
  | setColsHidden sheet olds new => exact allOK_modify h (fun _ => rfl)
  | setCell sheet r c old => exact allOK_modify h (fun _ => rfl)

/-- every command except an unchecked `on_area_selecting` keeps every sheet's cell and range
    well-formed -/
theorem views_step (s : State) (cmd : Cmd) (h : AllOK s.sheets) (hc : cmdOK s cmd = true) :
    AllOK (step s cmd).sheets := by
  cases cmd with
  | selSheet i => simp only [step]; rw [selSheet_sheets]; exact h
  | selCell r c => exact selCell_views s r c h
  | selRange r1 c1 r2 c2 => exact selRange_views s r1 c1 r2 c2 h
  | arrow d => exact arrow_views s d h
  | area r c => exact area_views s r c h hc
  | setTopLeft r c => exact setTopLeft_views s r c h
  | setWinW w => exact h
  | setWinH w => exact h
  | pageDown => exact viewOp_views s _ h fun sh hv => pageDownView_good s.winH sh hv
  | pageUp => exact viewOp_views s _ h fun sh hv => pageUpView_good s.winH sh hv
  | edge d => exact viewOp_views s _ h fun sh _ => edgeView_good s.winW s.winH sh d
  | expand d => exact viewOp_views s _ h fun sh hv => expandView_good s.winW s.winH sh d hv
  | hideRows sheet a b hid => exact hideRows_views s sheet a b hid h
  | hideCols sheet a b hid => exact hideCols_views s sheet a b hid h
  | input sheet r c => exact input_views s sheet r c h
  | newSheet =>
    simp only [step, newSheet, push]
    rw [selSheet_sheets]
    intro x hx
    rcases List.mem_append.mp hx with h' | h'
    · exact h x h'
    · rw [List.mem_singleton.mp h']; exact viewOK_default
  | dupSheet i =>
    simp only [step, dupSheet]
    split
    · exact h
    · rename_i sh hsh
      simp only [push]
      rw [selSheet_sheets]
      exact allOK_insert h (h sh (List.mem_of_getElem? hsh))
  | delSheet i =>
    simp only [step, delSheet]
    split
    · exact h
    · split
      · exact allOK_remove h
      · exact h
  | hideSheet i =>
    simp only [step, hideSheet]
    have h2 : (hideSel s i).sheets = s.sheets := by unfold hideSel; split <;> rfl
    split
    · exact h
    · simp only [push]
      rw [h2]
      exact allOK_modify h (fun _ => rfl)
  | unhideSheet i =>
    simp only [step, unhideSheet]
    split
    · exact h
    · simp only [push]
      exact allOK_modify h (fun _ => rfl)
  | moveSheet f t =>
    simp only [step, moveSheet]
    split
    · exact h
    · simp only [push]
      rw [selSheet_sheets]
      exact allOK_move h
  | undo =>
    simp only [step, undo]
    split
    · exact h
    · exact applyUndo_views _ _ h
  | redo =>
    simp only [step, redo]
    split
    · exact h
    · exact applyRedo_views _ _ h

/-- **one step of the full invariant**: selected sheet exists ∧ every sheet's cell is in its range
    ∧ both in the grid — preserved by every modelled command whose `cmdOK` holds (everything except
    an `on_area_selecting` whose target is off the grid or on the wrong side of the selected cell) -/
theorem sel_step (s : State) (cmd : Cmd) (h : SelInv s) (hc : cmdOK s cmd = true) :
    SelInv (step s cmd) := by
  rw [selInv_iff] at h ⊢
  exact ⟨sheet_step s cmd h.1, views_step s cmd h.2 hc⟩

/-- a history all of whose steps satisfy `cmdOK` in the state they are applied to -/
def histOK : State → List Cmd → Bool
  | _, [] => true
  | s, c :: cs => cmdOK s c && histOK (step s c) cs

theorem sel_run (cmds : List Cmd) (s : State) (hs : SelInv s) (hh : histOK s cmds = true) :
    SelInv (run s cmds) := by
  induction cmds generalizing s with
  | nil => exact hs
  | cons c cs ih =>
    rw [histOK, Bool.and_eq_true] at hh
    exact ih (step s c) (sel_step s c hs hh.1) hh.2

/-- **C28 for every history inside the domain** -/
theorem C28_partial (cmds : List Cmd) (h : histOK State.init cmds = true) :
    SelInv (run State.init cmds) :=
  sel_run cmds _ (by unfold SelInv; decide) h

/-- histories without `on_area_selecting` are inside the domain, whatever their arguments -/
theorem histOK_of_no_area (cmds : List Cmd) (h : ∀ c ∈ cmds, ∀ r k, c ≠ .area r k) (s : State) :
    histOK s cmds = true := by
  induction cmds generalizing s with
  | nil => rfl
  | cons c cs ih =>
    rw [histOK, Bool.and_eq_true]
    refine ⟨?_, ih (fun c' hc' => h c' (List.mem_cons_of_mem _ hc')) _⟩
    cases c with
    | area r k => exact absurd rfl (h _ (List.mem_cons_self ..) r k)
    | _ => rfl

/-- non-vacuity: a history with deletions below the selected sheet, undo/redo, a range, an arrow
    and a well-aimed area selection is inside the domain -/
example : histOK State.init [.newSheet, .newSheet, .selSheet 2, .delSheet 0, .undo, .redo,
    .selCell 5 5, .selRange 5 5 9 9, .area 7 7, .arrow .left, .hideSheet 1, .moveSheet 0 1] = true := by
  decide

/-! ### the full invariant -/

/-- the full statement of C28 on the model -/
def C28_full : Prop := ∀ cmds : List Cmd, SelInv (run State.init cmds)

/-- `on_area_selecting` keeps the range *start* and does not look at the selected cell: with the
    cell on the far corner, dragging back to the start leaves the cell outside the range (F28b) -/
theorem C28_full_false : ¬ C28_full := by
  intro h
  exact absurd (h [.selCell 5 5, .selRange 1 1 5 5, .area 1 1]) (by unfold SelInv; decide)

/-- … and the target is not validated either (F28c): row 0 / column 0 -/
theorem C28_area_unchecked : ¬ SelInv (run State.init [.selCell 5 5, .area 0 0]) := by
  unfold SelInv; decide

/-! ### page up / page down: the pinned rule and the repair -/

/-- **F28d as a theorem**: with the pinned row rule (`row = new top_row + (row - old top_row)`, no
    clamping) `on_page_up` moves the selected cell off the grid — view scrolled to row 5, cell on row 2 -/
theorem pageUp_pinned_leaves_grid :
    ¬ SelInv (pageUpWith pageRowPinned (run State.init [.setTopLeft 5 1, .selCell 2 1])) := by
  unfold SelInv; decide +kernel

/-- **F28e as a theorem**: the pinned `on_page_down` moves the selected cell below the last row —
    window 100 px high, view scrolled to row 1048570, cell on the last row -/
theorem pageDown_pinned_leaves_grid :
    ¬ SelInv (pageDownWith pageRowPinned
      (run State.init [.setWinH 100, .setTopLeft 1048570 1, .selCell 1048576 1])) := by
  unfold SelInv; decide +kernel

/-- the same two histories with the repaired commands end on the grid (rows 1 and 1048576) -/
theorem page_repaired_witnesses :
    ((run State.init [.setTopLeft 5 1, .selCell 2 1, .pageUp]).sheets.map fun sh => sh.view.row) = [1]
    ∧ ((run State.init [.setWinH 100, .setTopLeft 1048570 1, .selCell 1048576 1, .pageDown]).sheets.map
        fun sh => (sh.view.row, sh.view.top)) = [(1048576, 1048574)] := by
  decide +kernel

/-- **every navigation command, for all states and arguments**: from a state satisfying the
    invariant, page up / page down (any window height, any scroll position, any hidden rows), the
    arrow keys, navigate-to-edge (any filled cells), keyboard range expansion, scrolling, window
    resizing, hiding / unhiding rows and columns (any band, valid or not) and typing keep the
    invariant — no hypothesis on the window sizes is needed -/
theorem nav_step (s : State) (cmd : Cmd) (h : SelInv s) (hc : ∀ r c, cmd ≠ .area r c) :
    SelInv (step s cmd) := by
  apply sel_step s cmd h
  cases cmd with
  | area r c => exact absurd rfl (hc r c)
  | _ => rfl

/-- non-vacuity: a history through all of them, with hidden bands at the first rows and around the
    selected cell, a one-row window, filled cells, undo and redo, is inside the domain and ends in a
    state where the selected cell moved -/
example : histOK State.init [.hideRows 0 1 3 true, .arrow .up, .selCell 8 2, .hideRows 0 5 7 true,
    .arrow .up, .setWinH 25, .pageDown, .pageUp, .pageUp, .input 0 9 5, .edge .right, .expand .down,
    .expand .right, .hideCols 0 1 2 true, .arrow .left, .undo, .undo, .redo, .setTopLeft 40 3, .pageUp,
    .area 12 7] = true := by
  decide +kernel

end IronCalc.Selection
