import IronCalc.User.SelectionProofs
/-
  C28 — The selection always points at an existing sheet and cell.
  Property theorems only (helpers: User/SelectionProofs.lean; model: User/Selection.lean, which
  models base/src/user_model/ui.rs and the selection side effects of common.rs / undo_redo.rs
  after the F28a repair).
-/
namespace IronCalc.Selection

/-! ### components of the invariant -/

theorem sheetInv_iff (s : State) : SheetInv s ↔
    s.selected < s.sheets.length ∧ (∀ d ∈ s.undo, diffOK d = true) ∧ (∀ d ∈ s.redo, diffOK d = true) := by
  unfold SheetInv sheetInvB
  simp only [Bool.and_eq_true, decide_eq_true_eq, List.all_eq_true, and_assoc]

theorem selInv_iff (s : State) : SelInv s ↔
    SheetInv s ∧ (∀ sh ∈ s.sheets, viewOK sh.view = true) := by
  rw [sheetInv_iff]
  unfold SelInv selInvB
  simp only [Bool.and_eq_true, decide_eq_true_eq, List.all_eq_true]
  constructor
  · rintro ⟨⟨⟨a, b⟩, c⟩, d⟩; exact ⟨⟨a, c, d⟩, b⟩
  · rintro ⟨⟨a, c, d⟩, b⟩; exact ⟨⟨⟨a, b⟩, c⟩, d⟩

/-- `selected_sheet_after_move` is the position of the *same* sheet after `Vec::remove` + `insert` -/
theorem move_follows_identity (l : List Sheet) (sel frm to : Nat)
    (hs : sel < l.length) (hf : frm < l.length) (ht : to < l.length) :
    (moveList l frm to)[afterMove sel frm to]? = l[sel]? := by
  unfold moveList
  rw [List.getElem?_eq_getElem hf]
  simp only
  have hlen := length_removeAt l frm hf
  rw [getElem?_insertAt _ _ _ _ (by omega)]
  unfold afterMove
  by_cases h1 : sel = frm
  · subst h1
    rw [if_pos rfl, if_neg (Nat.lt_irrefl _), if_pos rfl, List.getElem?_eq_getElem hs]
  · rw [if_neg h1]
    simp only
    by_cases h2 : sel > frm
    · rw [if_pos h2]
      by_cases h3 : sel - 1 ≥ to
      · rw [if_pos h3, if_neg (by omega), if_neg (by omega), getElem?_removeAt, if_neg (by omega)]
        congr 1; omega
      · rw [if_neg h3, if_pos (by omega), getElem?_removeAt, if_neg (by omega)]
        congr 1; omega
    · rw [if_neg h2]
      by_cases h3 : sel ≥ to
      · rw [if_pos h3, if_neg (by omega), if_neg (by omega), getElem?_removeAt, if_pos (by omega)]
        congr 1
      · rw [if_neg h3, if_pos (by omega), getElem?_removeAt, if_pos (by omega)]

/-- `selected_sheet_after_delete` (the repair) is the position of the same sheet after the removal
    of another one -/
theorem delete_follows_identity (l : List Sheet) (sel del : Nat) (hne : sel ≠ del) :
    (removeAt l del)[afterDelete sel del l.length]? = l[sel]? := by
  unfold afterDelete
  by_cases h : sel > del
  · rw [if_pos (Or.inl h), getElem?_removeAt, if_neg (by omega)]
    congr 1; omega
  · rw [if_neg (by omega), getElem?_removeAt, if_pos (by omega)]

/-! ### every command keeps the selected sheet in range -/

theorem stacks_push {s : State} {d : Diff} (hu : ∀ x ∈ s.undo, diffOK x = true)
    (hd : diffOK d = true) :
    (∀ x ∈ (push s d).undo, diffOK x = true) ∧ (∀ x ∈ (push s d).redo, diffOK x = true) := by
  unfold push
  constructor
  · intro x hx
    rcases List.mem_cons.mp hx with h | h
    · rw [h]; exact hd
    · exact hu x h
  · intro x hx; cases hx

theorem push_selSheet (s1 : State) (i : Nat) (d : Diff)
    (hsel : s1.selected < s1.sheets.length) (hu : ∀ x ∈ s1.undo, diffOK x = true)
    (hd : diffOK d = true) :
    (push (selSheet s1 i) d).selected < (push (selSheet s1 i) d).sheets.length
    ∧ (∀ x ∈ (push (selSheet s1 i) d).undo, diffOK x = true)
    ∧ (∀ x ∈ (push (selSheet s1 i) d).redo, diffOK x = true) := by
  have hst := stacks_push (s := selSheet s1 i) (d := d) (by rw [selSheet_undo]; exact hu) hd
  refine ⟨?_, hst.1, hst.2⟩
  simp only [push]
  rw [selSheet_sheets]
  exact selSheet_lt _ _ hsel

theorem nextVisible_lt (sheets : List Sheet) (i n fuel k j : Nat) (hn : 0 < n)
    (h : nextVisible sheets i n fuel k = some j) : j < n := by
  induction fuel generalizing k with
  | zero => simp [nextVisible] at h
  | succ f ih =>
    rw [nextVisible] at h
    split at h
    · split at h
      · split at h
        · cases h; exact Nat.mod_lt _ hn
        · exact ih _ h
      · exact ih _ h
    · cases h

theorem applyUndo_sheetInv (s : State) (d : Diff) (hd : diffOK d = true) (h : SheetInv s) :
    SheetInv (applyUndo s d) := by
  rw [sheetInv_iff] at h ⊢
  obtain ⟨hsel, hu, hr⟩ := h
  cases d with
  | newSheet idx sid =>
    simp only [applyUndo]
    split
    · exact ⟨hsel, hu, hr⟩
    · rename_i hc
      have hidx : idx ≥ 1 := by simpa [diffOK] using hd
      have hlen := length_removeAt s.sheets idx (by omega)
      rw [if_pos (by omega)]
      refine ⟨?_, ?_, ?_⟩
      · rw [selSheet_sheets, selSheet_eq _ _ (by simp only; omega)]
        simp only; omega
      · rw [selSheet_undo]; exact hu
      · rw [selSheet_redo]; exact hr
  | duplicateSheet src new =>
    simp only [applyUndo]
    split
    · exact ⟨hsel, hu, hr⟩
    · rename_i hc
      have hnew : new = src + 1 := by simpa [diffOK] using hd
      have hlen := length_removeAt s.sheets new (by omega)
      refine ⟨?_, ?_, ?_⟩
      · rw [selSheet_sheets, selSheet_eq _ _ (by simp only; omega)]
        simp only; omega
      · rw [selSheet_undo]; exact hu
      · rw [selSheet_redo]; exact hr
  | moveSheet frm to =>
    simp only [applyUndo]
    split
    · exact ⟨hsel, hu, hr⟩
    · rename_i hc
      split
      · exact ⟨by rw [selSheet_sheets]; exact selSheet_lt _ _ hsel, by rw [selSheet_undo]; exact hu,
          by rw [selSheet_redo]; exact hr⟩
      · have hlen := length_moveList s.sheets to frm (by omega)
        refine ⟨?_, by rw [selSheet_undo]; exact hu, by rw [selSheet_redo]; exact hr⟩
        rw [selSheet_sheets]
        apply selSheet_lt
        simp only; omega
  | setState idx old new =>
    simp only [applyUndo]
    exact ⟨by rw [length_modifyAt]; exact hsel, hu, hr⟩
  | deleteSheet idx old =>
    simp only [applyUndo]
    split
    · exact ⟨hsel, hu, hr⟩
    · refine ⟨?_, by rw [selSheet_undo]; exact hu, by rw [selSheet_redo]; exact hr⟩
      rw [selSheet_sheets]
      apply selSheet_lt
      simp only [length_insertAt]; omega

theorem applyRedo_sheetInv (s : State) (d : Diff) (h : SheetInv s) : SheetInv (applyRedo s d) := by
  rw [sheetInv_iff] at h ⊢
  obtain ⟨hsel, hu, hr⟩ := h
  cases d with
  | deleteSheet idx old =>
    simp only [applyRedo]
    split
    · exact ⟨hsel, hu, hr⟩
    · rename_i hc
      have hlen := length_removeAt s.sheets idx (by omega)
      have hlt := afterDelete_lt hsel (by omega : idx < s.sheets.length) (by omega)
      refine ⟨?_, by rw [selSheet_undo]; exact hu, by rw [selSheet_redo]; exact hr⟩
      rw [selSheet_sheets, selSheet_eq _ _ (by simp only; omega)]
      simp only; omega
  | newSheet idx sid =>
    simp only [applyRedo]
    split
    · exact ⟨hsel, hu, hr⟩
    · refine ⟨?_, by rw [selSheet_undo]; exact hu, by rw [selSheet_redo]; exact hr⟩
      rw [selSheet_sheets]
      apply selSheet_lt
      simp only [length_insertAt]; omega
  | duplicateSheet src new =>
    simp only [applyRedo]
    split
    · exact ⟨hsel, hu, hr⟩
    · refine ⟨?_, by rw [selSheet_undo]; exact hu, by rw [selSheet_redo]; exact hr⟩
      rw [selSheet_sheets]
      apply selSheet_lt
      simp only [length_insertAt]; omega
  | moveSheet frm to =>
    simp only [applyRedo]
    split
    · exact ⟨hsel, hu, hr⟩
    · rename_i hc
      split
      · exact ⟨by rw [selSheet_sheets]; exact selSheet_lt _ _ hsel, by rw [selSheet_undo]; exact hu,
          by rw [selSheet_redo]; exact hr⟩
      · have hlen := length_moveList s.sheets frm to (by omega)
        refine ⟨?_, by rw [selSheet_undo]; exact hu, by rw [selSheet_redo]; exact hr⟩
        rw [selSheet_sheets]
        apply selSheet_lt
        simp only; omega
  | setState idx old new =>
    simp only [applyRedo]
    exact ⟨by rw [length_modifyAt]; exact hsel, hu, hr⟩

/-- the view setters change neither the sheet count, nor the selected sheet, nor the history -/
theorem setView_sheetInv {s : State} (v : View) (h : SheetInv s) : SheetInv (setView s v) := by
  rw [sheetInv_iff] at h ⊢
  exact ⟨by rw [setView_sheets_length]; exact h.1, h.2.1, h.2.2⟩

/-- **the selected sheet exists after every modelled command** (all of them, without exception) -/
theorem sheet_step (s : State) (cmd : Cmd) (h : SheetInv s) : SheetInv (step s cmd) := by
  cases cmd with
  | selSheet i =>
    rw [sheetInv_iff] at h ⊢
    simp only [step]
    exact ⟨by rw [selSheet_sheets]; exact selSheet_lt _ _ h.1, by rw [selSheet_undo]; exact h.2.1,
      by rw [selSheet_redo]; exact h.2.2⟩
  | selCell r c =>
    simp only [step, selCell]
    repeat' split
    all_goals first | exact setView_sheetInv _ h | exact h
  | selRange r1 c1 r2 c2 =>
    simp only [step, selRange]
    repeat' split
    all_goals first | exact setView_sheetInv _ h | exact h
  | arrow d =>
    simp only [step, arrow]
    generalize arrowTarget _ d = x
    repeat' split
    all_goals first | exact setView_sheetInv _ h | exact h
  | area r c =>
    simp only [step, area]
    repeat' split
    all_goals first | exact setView_sheetInv _ h | exact h
  | newSheet =>
    rw [sheetInv_iff] at h ⊢
    obtain ⟨hsel, hu, hr⟩ := h
    simp only [step, newSheet]
    exact push_selSheet _ _ _ (by simp only [List.length_append, List.length_cons, List.length_nil]; omega) hu
      (by simp only [diffOK, decide_eq_true_eq]; omega)
  | dupSheet i =>
    rw [sheetInv_iff] at h ⊢
    obtain ⟨hsel, hu, hr⟩ := h
    simp only [step, dupSheet]
    split
    · exact ⟨hsel, hu, hr⟩
    · exact push_selSheet _ _ _ (by simp only [length_insertAt]; omega) hu (by simp [diffOK])
  | delSheet i =>
    rw [sheetInv_iff] at h ⊢
    obtain ⟨hsel, hu, hr⟩ := h
    simp only [step, delSheet]
    split
    · exact ⟨hsel, hu, hr⟩
    · rename_i sh hsh
      have hi : i < s.sheets.length := by
        rcases Nat.lt_or_ge i s.sheets.length with h' | h'
        · exact h'
        · rw [List.getElem?_eq_none h'] at hsh; cases hsh
      have hst := stacks_push (s := s) (d := .deleteSheet i sh) hu (by simp [diffOK])
      split
      · rename_i hn
        have hlen := length_removeAt s.sheets i hi
        have := afterDelete_lt hsel hi hn
        refine ⟨?_, hst.1, hst.2⟩
        simp only; omega
      · exact ⟨hsel, hu, hr⟩
  | hideSheet i =>
    rw [sheetInv_iff] at h ⊢
    obtain ⟨hsel, hu, hr⟩ := h
    simp only [step, hideSheet]
    have h1 : (hideSel s i).selected < s.sheets.length := by
      unfold hideSel; split
      · rename_i j hj
        exact nextVisible_lt _ _ _ _ _ _ (by omega) hj
      · exact hsel
    have h2 : (hideSel s i).sheets = s.sheets := by unfold hideSel; split <;> rfl
    have h3 : (hideSel s i).undo = s.undo := by unfold hideSel; split <;> rfl
    have h4 : (hideSel s i).redo = s.redo := by unfold hideSel; split <;> rfl
    generalize hideSel s i = s1 at h1 h2 h3 h4
    split
    · exact ⟨hsel, hu, hr⟩
    · rename_i sh hsh
      have hst := stacks_push (s := s1) (d := .setState i sh.visible false) (by rw [h3]; exact hu)
        (by simp [diffOK])
      refine ⟨?_, hst.1, hst.2⟩
      simp only [push, length_modifyAt]
      rw [h2]; exact h1
  | unhideSheet i =>
    rw [sheetInv_iff] at h ⊢
    obtain ⟨hsel, hu, hr⟩ := h
    simp only [step, unhideSheet]
    split
    · exact ⟨hsel, hu, hr⟩
    · rename_i sh hsh
      have hst := stacks_push (s := s) (d := .setState i sh.visible true) hu (by simp [diffOK])
      refine ⟨?_, hst.1, hst.2⟩
      simp only [push, length_modifyAt]; exact hsel
  | moveSheet f t =>
    rw [sheetInv_iff] at h ⊢
    obtain ⟨hsel, hu, hr⟩ := h
    simp only [step, moveSheet]
    split
    · exact ⟨hsel, hu, hr⟩
    · rename_i hc
      have hlen := length_moveList s.sheets f t (by omega)
      exact push_selSheet _ _ _ (by simp only; omega) hu (by simp [diffOK])
  | undo =>
    simp only [step, undo]
    split
    · exact h
    · rename_i d rest hd
      rw [sheetInv_iff] at h
      obtain ⟨hsel, hu, hr⟩ := h
      apply applyUndo_sheetInv
      · exact hu d (by rw [hd]; exact List.mem_cons_self ..)
      · rw [sheetInv_iff]
        refine ⟨hsel, fun x hx => hu x (by rw [hd]; exact List.mem_cons_of_mem _ hx), ?_⟩
        intro x hx
        rcases List.mem_cons.mp hx with e | e
        · rw [e]; exact hu d (by rw [hd]; exact List.mem_cons_self ..)
        · exact hr x e
  | redo =>
    simp only [step, redo]
    split
    · exact h
    · rename_i d rest hd
      rw [sheetInv_iff] at h
      obtain ⟨hsel, hu, hr⟩ := h
      apply applyRedo_sheetInv
      rw [sheetInv_iff]
      refine ⟨hsel, ?_, fun x hx => hr x (by rw [hd]; exact List.mem_cons_of_mem _ hx)⟩
      intro x hx
      rcases List.mem_cons.mp hx with e | e
      · rw [e]; exact hr d (by rw [hd]; exact List.mem_cons_self ..)
      · exact hu x e

theorem sheet_init : SheetInv State.init := by unfold SheetInv; decide

/-- **C28, sheet clause, for every history**: after any sequence of modelled commands — selection
    setters, arrow keys, area selection, new / duplicate / delete / hide / unhide / move sheet, undo,
    redo, valid or invalid arguments — the selected sheet exists -/
theorem C28_selected_sheet_exists (cmds : List Cmd) :
    (run State.init cmds).selected < (run State.init cmds).sheets.length := by
  have : ∀ (s : State), SheetInv s → SheetInv (run s cmds) := by
    induction cmds with
    | nil => intro s h; exact h
    | cons c cs ih => intro s h; exact ih _ (sheet_step s c h)
  exact ((sheetInv_iff _).mp (this _ sheet_init)).1

/-! ### cell and range of every sheet -/

/-- every sheet's selected cell / range is well-formed -/
def AllOK (l : List Sheet) : Prop := ∀ sh ∈ l, viewOK sh.view = true

theorem viewOK_iff (v : View) : viewOK v = true ↔
    ((1 ≤ v.row ∧ v.row ≤ 1048576) ∧ (1 ≤ v.col ∧ v.col ≤ 16384) ∧ (1 ≤ v.r1 ∧ v.r1 ≤ 1048576)
      ∧ (1 ≤ v.c1 ∧ v.c1 ≤ 16384) ∧ (1 ≤ v.r2 ∧ v.r2 ≤ 1048576) ∧ (1 ≤ v.c2 ∧ v.c2 ≤ 16384)
      ∧ min v.r1 v.r2 ≤ v.row ∧ v.row ≤ max v.r1 v.r2 ∧ min v.c1 v.c2 ≤ v.col ∧ v.col ≤ max v.c1 v.c2) := by
  unfold viewOK validRow validCol LAST_ROW LAST_COLUMN
  simp only [Bool.and_eq_true, decide_eq_true_eq, and_assoc]

theorem validRow_iff (r : Int) : validRow r = true ↔ 1 ≤ r ∧ r ≤ 1048576 := by
  unfold validRow LAST_ROW
  simp only [Bool.and_eq_true, decide_eq_true_eq]

theorem validCol_iff (c : Int) : validCol c = true ↔ 1 ≤ c ∧ c ≤ 16384 := by
  unfold validCol LAST_COLUMN
  simp only [Bool.and_eq_true, decide_eq_true_eq]

theorem allOK_setView {s : State} {v : View} (h : AllOK s.sheets) (hv : viewOK v = true) :
    AllOK (setView s v).sheets := by
  intro x hx
  unfold setView at hx
  rcases mem_modifyAt hx with h' | ⟨y, _, e⟩
  · exact h x h'
  · rw [e]; exact hv

theorem allOK_modify {l : List Sheet} {i : Nat} {f : Sheet → Sheet} (h : AllOK l)
    (hf : ∀ y, (f y).view = y.view) : AllOK (modifyAt l i f) := by
  intro x hx
  rcases mem_modifyAt hx with h' | ⟨y, hy, e⟩
  · exact h x h'
  · rw [e, hf]; exact h y hy

theorem allOK_remove {l : List Sheet} {i : Nat} (h : AllOK l) : AllOK (removeAt l i) :=
  fun x hx => h x (mem_removeAt hx)

theorem allOK_insert {l : List Sheet} {i : Nat} {sh : Sheet} (h : AllOK l)
    (hs : viewOK sh.view = true) : AllOK (insertAt l i sh) := by
  intro x hx
  rcases mem_insertAt hx with e | h'
  · rw [e]; exact hs
  · exact h x h'

theorem allOK_move {l : List Sheet} {f t : Nat} (h : AllOK l) : AllOK (moveList l f t) :=
  fun x hx => h x (mem_moveList hx)

theorem viewOK_default : viewOK View.default = true := by decide

theorem selCell_views (s : State) (r c : Int) (h : AllOK s.sheets) : AllOK (selCell s r c).sheets := by
  unfold selCell
  by_cases hv : (validCol c && validRow r) = true
  · rw [if_pos hv]
    cases hsh : s.sheets[s.selected]? with
    | none => exact h
    | some sh =>
      apply allOK_setView h
      rw [viewOK_iff]
      rw [Bool.and_eq_true, validCol_iff, validRow_iff] at hv
      simp only
      omega
  · rw [if_neg hv]; exact h

theorem selRange_views (s : State) (r1 c1 r2 c2 : Int) (h : AllOK s.sheets) :
    AllOK (selRange s r1 c1 r2 c2).sheets := by
  unfold selRange
  by_cases hv : (validCol c1 && validRow r1 && validCol c2 && validRow r2) = true
  · rw [if_pos hv]
    cases hsh : s.sheets[s.selected]? with
    | none => exact h
    | some sh =>
      dsimp only
      by_cases hok : (if r1 = 1 ∧ r2 = LAST_ROW then decide (sh.view.col = c1 ∨ sh.view.col = c2)
          else if c1 = 1 ∧ c2 = LAST_COLUMN then decide (sh.view.row = r1 ∨ sh.view.row = r2)
          else decide (sh.view.row = r1 ∨ sh.view.row = r2) && decide (sh.view.col = c1 ∨ sh.view.col = c2)) = true
      · rw [if_pos hok]
        apply allOK_setView h
        have hold := h sh (List.mem_of_getElem? hsh)
        rw [viewOK_iff] at hold ⊢
        simp only [Bool.and_eq_true, validCol_iff, validRow_iff] at hv
        simp only
        by_cases ha : r1 = 1 ∧ r2 = LAST_ROW
        · rw [if_pos ha] at hok
          simp only [decide_eq_true_eq] at hok
          unfold LAST_ROW at ha
          omega
        · rw [if_neg ha] at hok
          by_cases hb : c1 = 1 ∧ c2 = LAST_COLUMN
          · rw [if_pos hb] at hok
            simp only [decide_eq_true_eq] at hok
            unfold LAST_COLUMN at hb
            omega
          · rw [if_neg hb] at hok
            simp only [Bool.and_eq_true, decide_eq_true_eq] at hok
            omega
      · rw [if_neg hok]; exact h
  · rw [if_neg hv]; exact h

theorem arrow_col {v : View} {c : Int} (hold : viewOK v = true) (hv : validCol c = true) :
    viewOK { v with col := c, r1 := v.row, c1 := c, r2 := v.row, c2 := c } = true := by
  rw [viewOK_iff] at hold ⊢
  rw [validCol_iff] at hv
  simp only
  omega

theorem arrow_row {v : View} {r : Int} (hold : viewOK v = true) (hv : validRow r = true) :
    viewOK { v with row := r, r1 := r, c1 := v.col, r2 := r, c2 := v.col } = true := by
  rw [viewOK_iff] at hold ⊢
  rw [validRow_iff] at hv
  simp only
  omega

theorem arrow_views (s : State) (d : Dir) (h : AllOK s.sheets) : AllOK (arrow s d).sheets := by
  unfold arrow
  cases hsh : s.sheets[s.selected]? with
  | none => exact h
  | some sh =>
    have hold := h sh (List.mem_of_getElem? hsh)
    dsimp only
    generalize arrowTarget sh d = x
    by_cases hd : d.horizontal = true
    · rw [if_pos hd]
      by_cases hv : validCol x = true
      · rw [if_pos hv]; exact allOK_setView h (arrow_col hold hv)
      · rw [if_neg hv]; exact h
    · rw [if_neg hd]
      by_cases hv : validRow x = true
      · rw [if_pos hv]; exact allOK_setView h (arrow_row hold hv)
      · rw [if_neg hv]; exact h

theorem area_views (s : State) (r c : Int) (h : AllOK s.sheets) (hc : cmdOK s (.area r c) = true) :
    AllOK (area s r c).sheets := by
  unfold area
  unfold cmdOK at hc
  cases hsh : s.sheets[s.selected]? with
  | none => exact h
  | some sh =>
    rw [hsh] at hc
    exact allOK_setView h hc

theorem applyUndo_views (s : State) (d : Diff) (h : AllOK s.sheets) : AllOK (applyUndo s d).sheets := by
  cases d with
  | newSheet idx sid =>
    simp only [applyUndo]
    split
    · exact h
    · split
      · rw [selSheet_sheets]; exact allOK_remove h
      · exact allOK_remove h
  | duplicateSheet src new =>
    simp only [applyUndo]
    split
    · exact h
    · rw [selSheet_sheets]; exact allOK_remove h
  | moveSheet frm to =>
    simp only [applyUndo]
    split
    · exact h
    · split
      · rw [selSheet_sheets]; exact h
      · rw [selSheet_sheets]; exact allOK_move h
  | setState idx old new =>
    simp only [applyUndo]
    exact allOK_modify h (fun _ => rfl)
  | deleteSheet idx old =>
    simp only [applyUndo]
    split
    · exact h
    · rw [selSheet_sheets]; exact allOK_insert h viewOK_default

theorem applyRedo_views (s : State) (d : Diff) (h : AllOK s.sheets) : AllOK (applyRedo s d).sheets := by
  cases d with
  | deleteSheet idx old =>
    simp only [applyRedo]
    split
    · exact h
    · rw [selSheet_sheets]; exact allOK_remove h
  | newSheet idx sid =>
    simp only [applyRedo]
    split
    · exact h
    · rw [selSheet_sheets]; exact allOK_insert h viewOK_default
  | duplicateSheet src new =>
    simp only [applyRedo]
    split
    · exact h
    · rename_i sh hsh
      rw [selSheet_sheets]
      exact allOK_insert h (h sh (List.mem_of_getElem? hsh))
  | moveSheet frm to =>
    simp only [applyRedo]
    split
    · exact h
    · split
      · rw [selSheet_sheets]; exact h
      · rw [selSheet_sheets]; exact allOK_move h
  | setState idx old new =>
    simp only [applyRedo]
    exact allOK_modify h (fun _ => rfl)

/-- every command except an unchecked `on_area_selecting` keeps every sheet's cell and range
    well-formed -/
theorem views_step (s : State) (cmd : Cmd) (h : AllOK s.sheets) (hc : cmdOK s cmd = true) :
    AllOK (step s cmd).sheets := by
  cases cmd with
  | selSheet i => simp only [step]; rw [selSheet_sheets]; exact h
  | selCell r c => exact selCell_views s r c h
  | selRange r1 c1 r2 c2 => exact selRange_views s r1 c1 r2 c2 h
  | arrow d => exact arrow_views s d h
  | area r c => exact area_views s r c h hc
  | newSheet =>
    simp only [step, newSheet, push]
    rw [selSheet_sheets]
    intro x hx
    rcases List.mem_append.mp hx with h' | h'
    · exact h x h'
    · rw [List.mem_singleton.mp h']; exact viewOK_default
  | dupSheet i =>
    simp only [step, dupSheet]
    split
    · exact h
    · rename_i sh hsh
      simp only [push]
      rw [selSheet_sheets]
      exact allOK_insert h (h sh (List.mem_of_getElem? hsh))
  | delSheet i =>
    simp only [step, delSheet]
    split
    · exact h
    · split
      · exact allOK_remove h
      · exact h
  | hideSheet i =>
    simp only [step, hideSheet]
    have h2 : (hideSel s i).sheets = s.sheets := by unfold hideSel; split <;> rfl
    split
    · exact h
    · simp only [push]
      rw [h2]
      exact allOK_modify h (fun _ => rfl)
  | unhideSheet i =>
    simp only [step, unhideSheet]
    split
    · exact h
    · simp only [push]
      exact allOK_modify h (fun _ => rfl)
  | moveSheet f t =>
    simp only [step, moveSheet]
    split
    · exact h
    · simp only [push]
      rw [selSheet_sheets]
      exact allOK_move h
  | undo =>
    simp only [step, undo]
    split
    · exact h
    · exact applyUndo_views _ _ h
  | redo =>
    simp only [step, redo]
    split
    · exact h
    · exact applyRedo_views _ _ h

/-- **one step of the full invariant**: selected sheet exists ∧ every sheet's cell is in its range
    ∧ both in the grid — preserved by every modelled command whose `cmdOK` holds (everything except
    an `on_area_selecting` whose target is off the grid or on the wrong side of the selected cell) -/
theorem sel_step (s : State) (cmd : Cmd) (h : SelInv s) (hc : cmdOK s cmd = true) :
    SelInv (step s cmd) := by
  rw [selInv_iff] at h ⊢
  exact ⟨sheet_step s cmd h.1, views_step s cmd h.2 hc⟩

/-- a history all of whose steps satisfy `cmdOK` in the state they are applied to -/
def histOK : State → List Cmd → Bool
  | _, [] => true
  | s, c :: cs => cmdOK s c && histOK (step s c) cs

theorem sel_run (cmds : List Cmd) (s : State) (hs : SelInv s) (hh : histOK s cmds = true) :
    SelInv (run s cmds) := by
  induction cmds generalizing s with
  | nil => exact hs
  | cons c cs ih =>
    rw [histOK, Bool.and_eq_true] at hh
    exact ih (step s c) (sel_step s c hs hh.1) hh.2

/-- **C28 for every history inside the domain** -/
theorem C28_partial (cmds : List Cmd) (h : histOK State.init cmds = true) :
    SelInv (run State.init cmds) :=
  sel_run cmds _ (by unfold SelInv; decide) h

/-- histories without `on_area_selecting` are inside the domain, whatever their arguments -/
theorem histOK_of_no_area (cmds : List Cmd) (h : ∀ c ∈ cmds, ∀ r k, c ≠ .area r k) (s : State) :
    histOK s cmds = true := by
  induction cmds generalizing s with
  | nil => rfl
  | cons c cs ih =>
    rw [histOK, Bool.and_eq_true]
    refine ⟨?_, ih (fun c' hc' => h c' (List.mem_cons_of_mem _ hc')) _⟩
    cases c with
    | area r k => exact absurd rfl (h _ (List.mem_cons_self ..) r k)
    | _ => rfl

/-- non-vacuity: a history with deletions below the selected sheet, undo/redo, a range, an arrow
    and a well-aimed area selection is inside the domain -/
example : histOK State.init [.newSheet, .newSheet, .selSheet 2, .delSheet 0, .undo, .redo,
    .selCell 5 5, .selRange 5 5 9 9, .area 7 7, .arrow .left, .hideSheet 1, .moveSheet 0 1] = true := by
  decide

/-! ### the full invariant -/

/-- the full statement of C28 on the model -/
def C28_full : Prop := ∀ cmds : List Cmd, SelInv (run State.init cmds)

/-- `on_area_selecting` keeps the range *start* and does not look at the selected cell: with the
    cell on the far corner, dragging back to the start leaves the cell outside the range (F28b) -/
theorem C28_full_false : ¬ C28_full := by
  intro h
  exact absurd (h [.selCell 5 5, .selRange 1 1 5 5, .area 1 1]) (by unfold SelInv; decide)

/-- … and the target is not validated either (F28c): row 0 / column 0 -/
theorem C28_area_unchecked : ¬ SelInv (run State.init [.selCell 5 5, .area 0 0]) := by
  unfold SelInv; decide

end IronCalc.Selection
