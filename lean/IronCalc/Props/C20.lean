import IronCalc.Text.FormatLayout
import IronCalc.Text.FormatLayoutProofs
/-
  C20 — number formats display correctly rounded values.

  Stage A (digits): the rounding primitives are correct to half a unit (`rha_spec`, `rhe_spec`);
  the full statement `C20_full` (digits shown = round15 then half away from zero, for every
  double and every number of decimals) is FALSE for the engine (`C20_full_false`): decimal ties
  whose product with 10^d is not exactly representable fall on the wrong side, and digits beyond
  the 15th significant one are cut instead of rounded.  The agreement outside the tie zone
  (`C20_partial_statement`) is stated but NOT proved here; it is checked by the differential run
  and the exact-decimal oracle of the harness.
  Stage B (layout), for ALL digit strings, placeholder kinds and positions: what each integer
  placeholder prints, that no index leaves the digit vector, that a block of placeholders prints
  every digit exactly once and in order, and where group separators go.
-/
namespace IronCalc.Props.C20
open IronCalc.Format

/-! ## Stage A — rounding primitives -/

theorem rha_spec (num den : Nat) (h : 0 < den) :
    2 * num < (2 * rha num den + 1) * den ∧ 2 * rha num den * den ≤ 2 * num + den := by
  unfold rha
  have h1 := Nat.div_add_mod num den
  have h2 := Nat.mod_lt num h
  generalize num / den = q at *
  generalize num % den = r at *
  simp only []
  split <;> constructor <;> grind

theorem rhe_spec (num den : Nat) (h : 0 < den) :
    2 * num ≤ (2 * rhe num den + 1) * den ∧ 2 * rhe num den * den ≤ 2 * num + den := by
  unfold rhe
  have h1 := Nat.div_add_mod num den
  have h2 := Nat.mod_lt num h
  generalize num / den = q at *
  generalize num % den = r at *
  simp only []
  split
  · constructor <;> grind
  · split
    · split <;> constructor <;> grind
    · constructor <;> grind

/-! ## Stage B — layout -/

theorem group_western_iff (k : Int) :
    useGroupSeparator true k .western = true ↔ (k > 1 ∧ (k - 1) % 3 = 0) := by
  simp [useGroupSeparator]

theorem group_off (k : Int) (g : GroupMode) : useGroupSeparator false k g = false := by
  simp [useGroupSeparator]

/-- padding position, `#`: prints nothing -/
theorem int_small_pad_sharp (p : NumberPart) (loc : Loc) (ip fp : List Char) (s : LState) (index : Nat)
    (hsmall : ip.length ≤ p.digitCount) (hpad : index + ip.length < p.digitCount) :
    layoutStep p loc false ip fp s (.digit '#' index .int) = { s with digitIndex := s.digitIndex + 1 } := by
  have h1 : (ip.length : Int) ≤ (p.digitCount : Int) := by omega
  have h2 : (ip.length : Int) - (p.digitCount : Int) + (index : Int) < 0 := by omega
  simp [layoutStep, h1, h2]

/-- padding position, `0` or `?`: prints the pad character and the separator of that position -/
theorem int_small_pad (p : NumberPart) (loc : Loc) (ip fp : List Char) (s : LState) (kind : Char) (index : Nat)
    (hk : kind ≠ '#')
    (hsmall : ip.length ≤ p.digitCount) (hpad : index + ip.length < p.digitCount) :
    layoutStep p loc false ip fp s (.digit kind index .int) =
      { s with text := s.text ++ (if kind = '0' then '0' else ' ') :: sepOf p loc ((p.digitCount : Int) - index),
               digitIndex := s.digitIndex + 1 } := by
  have h1 : (ip.length : Int) ≤ (p.digitCount : Int) := by omega
  have h2 : (ip.length : Int) - (p.digitCount : Int) + (index : Int) < 0 := by omega
  simp [layoutStep, h1, h2, hk, sepOf]

/-- digit position: prints exactly the digit `ip[index - (digitCount - len)]` — the access is in range —
    followed by the separator of its position from the right -/
theorem int_small_digit (p : NumberPart) (loc : Loc) (ip fp : List Char) (s : LState) (kind : Char) (index : Nat)
    (hsmall : ip.length ≤ p.digitCount) (hidx : index < p.digitCount) (hdig : p.digitCount ≤ index + ip.length) :
    ∃ c, ip[index + ip.length - p.digitCount]? = some c ∧
    layoutStep p loc false ip fp s (.digit kind index .int) =
      { s with text := s.text ++ c :: sepOf p loc ((p.digitCount : Int) - index),
               digitIndex := s.digitIndex + 1 } := by
  have hlt : index + ip.length - p.digitCount < ip.length := by omega
  refine ⟨ip[index + ip.length - p.digitCount], by simp [hlt], ?_⟩
  have h1 : (ip.length : Int) ≤ (p.digitCount : Int) := by omega
  have h2 : ¬ ((ip.length : Int) - (p.digitCount : Int) + (index : Int) < 0) := by omega
  have h3 : ((ip.length : Int) - (p.digitCount : Int) + (index : Int)).toNat = index + ip.length - p.digitCount := by omega
  simp [layoutStep, h1, h2, h3, hlt, sepOf]

/-- the number has more digits than the format has placeholders: a placeholder reached with
    `digit_index = lo` prints the digits `lo .. len - digitCount + index` (all in range) -/
theorem int_big_step (p : NumberPart) (loc : Loc) (ip fp : List Char) (s : LState) (kind : Char) (index lo : Nat)
    (hbig : p.digitCount < ip.length) (hidx : index < p.digitCount)
    (hdi : s.digitIndex = (lo : Int)) (hlo : lo ≤ ip.length - p.digitCount + index + 1) :
    layoutStep p loc false ip fp s (.digit kind index .int) =
      { s with text := s.text ++ runCells p loc ip lo (ip.length - p.digitCount + index + 1 - lo),
               digitIndex := ((ip.length - p.digitCount + index + 1 : Nat) : Int) } := by
  have h1 : ¬ ((ip.length : Int) ≤ (p.digitCount : Int)) := by omega
  have h2 : (ip.length : Int) - (p.digitCount : Int) + (index : Int) + 1
      = ((lo + (ip.length - p.digitCount + index + 1 - lo) : Nat) : Int) := by omega
  have h3 : (ip.length : Int) - (p.digitCount : Int) + (index : Int) + 1
      = ((ip.length - p.digitCount + index + 1 : Nat) : Int) := by omega
  simp only [layoutStep, Bool.false_eq_true, Bool.and_false, if_false, h1, hdi]
  rw [h2, emitRun_spec p loc ip _ _ lo s.text s.panicked (by omega) (by omega)]
  simp [← h2, h3]


theorem int_block_big (p : NumberPart) (loc : Loc) (ip fp : List Char) (hbig : p.digitCount < ip.length) :
    ∀ (ks : List Char) (i lo : Nat) (s : LState), i + ks.length = p.digitCount →
      s.digitIndex = (lo : Int) → lo = (if i = 0 then 0 else ip.length - p.digitCount + i) →
      ((intToks ks i).foldl (layoutStep p loc false ip fp) s).text
        = s.text ++ (if ks = [] then [] else runCells p loc ip lo (ip.length - lo)) ∧
      ((intToks ks i).foldl (layoutStep p loc false ip fp) s).panicked = s.panicked := by
  intro ks
  induction ks with
  | nil => intro i lo s _ _ _; simp [intToks]
  | cons k ks ih =>
    intro i lo s hlen hdi hlo
    simp only [List.length_cons] at hlen
    have hlo' : lo ≤ ip.length - p.digitCount + i + 1 := by split at hlo <;> omega
    simp only [intToks, List.foldl_cons]
    rw [int_big_step p loc ip fp s k i lo hbig (by omega) hdi hlo']
    have := ih (i + 1) (ip.length - p.digitCount + i + 1)
      { s with text := s.text ++ runCells p loc ip lo (ip.length - p.digitCount + i + 1 - lo),
               digitIndex := ((ip.length - p.digitCount + i + 1 : Nat) : Int) } (by omega) rfl (by simp; omega)
    rw [this.1, this.2]
    refine ⟨?_, rfl⟩
    simp only [reduceCtorEq, if_false, List.append_assoc]
    congr 1
    by_cases hks : ks = []
    · subst hks
      simp only [List.length_nil] at hlen
      simp only [if_true, List.append_nil]
      congr 1
      omega
    · simp only [hks, if_false]
      have e : ip.length - lo = (ip.length - p.digitCount + i + 1 - lo) + (ip.length - (ip.length - p.digitCount + i + 1)) := by
        have : 0 < ks.length := List.length_pos_iff.mpr hks
        omega
      rw [e, runCells_append]
      congr 2
      omega


/-- `layout_correct`, larger numbers, no grouping: a block of `digitCount` integer placeholders of
    ANY kinds prints exactly the integer digits, each once, in order -/
theorem layout_correct_big_digits (p : NumberPart) (loc : Loc) (ip fp : List Char) (ks : List Char)
    (hbig : p.digitCount < ip.length) (hks : ks.length = p.digitCount) (hne : ks ≠ [])
    (hth : p.useThousands = false) :
    ((intToks ks 0).foldl (layoutStep p loc false ip fp) {}).text = ip := by
  have h := (int_block_big p loc ip fp hbig ks 0 0 {} (by omega) rfl rfl).1
  rw [h]
  simp only [hne, if_false]
  rw [runCells_nosep p loc ip hth _ 0 (by omega)]
  simp

/-- `layout_correct`, larger numbers, with grouping: digit `i` is followed by a separator exactly
    when its position from the right `len - i` is `> 1` and `≡ 1 (mod 3)` (`runCells`, `sepOf`,
    `group_western_iff`) -/
theorem layout_correct_big_grouped (p : NumberPart) (loc : Loc) (ip fp : List Char) (ks : List Char)
    (hbig : p.digitCount < ip.length) (hks : ks.length = p.digitCount) (hne : ks ≠ []) :
    ((intToks ks 0).foldl (layoutStep p loc false ip fp) {}).text = runCells p loc ip 0 ip.length ∧
    ((intToks ks 0).foldl (layoutStep p loc false ip fp) {}).panicked = false := by
  have h := int_block_big p loc ip fp hbig ks 0 0 {} (by omega) rfl rfl
  refine ⟨?_, h.2⟩
  rw [h.1]
  simp [hne]

/-! ## Stage A — the full statement and its negation -/

/-- the specification: reduce to 15 significant digits, then round half away from zero to `d`
    decimals, in exact arithmetic: (integer digits, fractional digits without trailing zeros) -/
def specDigits (v : Mag) (d : Nat) : List Char × List Char :=
  let (n, dd) := roundSig v.num v.den 15
  let k := rha (n * pow10 d) dd
  let ipn := k / pow10 d
  (if ipn = 0 then [] else natDigits ipn,
   stripTrailingZeros (padLeft d '0' (natDigits (k % pow10 d))))

def ValidDouble (v : Mag) : Prop := v.m < 2 ^ 53 ∧ -1074 ≤ v.e ∧ v.e ≤ 971

/-- round15(v)·10^d has fractional part exactly 1/2 (the engine multiplies in binary) -/
def InTieZone (v : Mag) (d : Nat) : Bool :=
  let (n, dd) := roundSig v.num v.den 15
  2 * ((n * pow10 d) % dd) == dd

/-- more digits are asked for than the 15 significant ones -/
def Beyond15 (v : Mag) (d : Nat) : Bool := (specDigits v d).1.length + d > 15

def C20_full : Prop :=
  ∀ (v : Mag) (d : Nat), ValidDouble v → d ≤ 22 → stageA v d = specDigits v d

/-- NOT proved (DESIGN 9b fallback): outside the tie zone and within 15 digits the engine shows the
    specified digits.  Checked by the harness (exact-decimal oracle, every run). -/
def C20_partial_statement : Prop :=
  ∀ (v : Mag) (d : Nat), ValidDouble v → d ≤ 22 → InTieZone v d = false → Beyond15 v d = false →
    stageA v d = specDigits v d

/-- 1.005 with two decimals: the engine shows 1.00 (1.005·100 = 100.49999999999999 in binary),
    the specification 1.01 -/
theorem C20_full_false : ¬ C20_full := by
  intro h
  have := h ⟨4526117625507348, -52⟩ 2 (by unfold ValidDouble; decide) (by decide)
  revert this
  decide +kernel

/-- the witness of `C20_full_false` is in the tie zone; 123456.7 with 20 decimals is beyond 15 digits -/
example : InTieZone ⟨4526117625507348, -52⟩ 2 = true := by decide +kernel
example : stageA ⟨4526117625507348, -52⟩ 2 = (['1'], []) := by decide +kernel
example : specDigits ⟨4526117625507348, -52⟩ 2 = (['1'], ['0', '1']) := by decide +kernel
example : Beyond15 ⟨8483879823553331, -36⟩ 20 = true := by decide +kernel
example : stageA ⟨8483879823553331, -36⟩ 20 ≠ specDigits ⟨8483879823553331, -36⟩ 20 := by decide +kernel
/-- repaired cases (fix commits): 2.5 → 3, 0.96 with one decimal → 1.0, 2.675 → 2.68 -/
example : stageA ⟨5629499534213120, -51⟩ 0 = specDigits ⟨5629499534213120, -51⟩ 0 := by decide +kernel
example : stageA ⟨8646911284551352, -53⟩ 1 = (['1'], []) := by decide +kernel
example : stageA ⟨6023564501608038, -51⟩ 2 = (['2'], ['6', '8']) := by decide +kernel
/-- -1 with `0` → `-1`; 123456 with `#,###,##0` → `123,456`; 1234.5 with `#,##0` → `1,235` -/
example : formatNumber "0".toList ⟨['.'], [','], .western⟩ true ⟨4503599627370496, -52⟩ = .text "-1".toList := by
  decide +kernel
example : formatNumber "#,###,##0".toList ⟨['.'], [','], .western⟩ false ⟨8483831719919616, -36⟩
    = .text "123,456".toList := by decide +kernel
example : formatNumber "#,##0".toList ⟨['.'], [','], .western⟩ false ⟨5429388417957888, -42⟩
    = .text "1,235".toList := by decide +kernel
/-- hypotheses of the layout theorems are met: 12345 against `#,##0` (4 placeholders) -/
example : ((intToks "###0".toList 0).foldl
    (layoutStep { useThousands := true, digitCount := 4 } ⟨['.'], [','], .western⟩ false "12345".toList []) {}).text
    = "12,345".toList := by decide +kernel

/-! ## Scientific codes

  Specification on exact decimals (`sciRound`: digit string + decimal exponent → mantissa with
  exactly d+1 digits and exponent, rounding half away, carry included) with its theorems for ALL
  digit strings; the exponent placeholders' layout; and the engine against the specification:
  the full statement is false (`C20_sci_full_false`), agreement outside the listed findings is
  checked by the bit-exact differential run and the oracle (not proved). -/

/-- scientific normalisation of the exact decimal `N · 10^e10`, `N` with exactly `len` digits, to `d`
    decimals, rounding half away from zero: `(M, E)` denotes `M · 10^(E - d)` -/
def sciRound (N len : Nat) (e10 : Int) (d : Nat) : Nat × Int :=
  if N = 0 then (0, 0) else
  let E0 : Int := e10 + len - 1
  if len ≤ d + 1 then (N * 10 ^ (d + 1 - len), E0)
  else
    let M := rha N (10 ^ (len - d - 1))
    if M = 10 ^ (d + 1) then (10 ^ d, E0 + 1) else (M, E0)

/-- the mantissa is normalised — exactly `d + 1` digits, 1 ≤ mantissa < 10 — also after a carry -/
theorem sciRound_normalised (N len : Nat) (e10 : Int) (d : Nat) (hN : N ≠ 0)
    (hlo : 10 ^ (len - 1) ≤ N) (hhi : N < 10 ^ len) (hlen : 0 < len) :
    10 ^ d ≤ (sciRound N len e10 d).1 ∧ (sciRound N len e10 d).1 < 10 ^ (d + 1) := by
  unfold sciRound
  simp only [hN, if_false]
  split
  · rename_i h
    -- no rounding: N · 10^(d+1-len)
    have e1 : 10 ^ d = 10 ^ (len - 1) * 10 ^ (d + 1 - len) := by
      rw [← Nat.pow_add]; congr 1; omega
    have e2 : 10 ^ (d + 1) = 10 ^ len * 10 ^ (d + 1 - len) := by
      rw [← Nat.pow_add]; congr 1; omega
    have hp : 0 < 10 ^ (d + 1 - len) := Nat.pow_pos (by decide)
    simp only []
    constructor
    · rw [e1]; exact Nat.mul_le_mul_right _ hlo
    · rw [e2]; exact Nat.mul_lt_mul_of_pos_right hhi hp
  · rename_i h
    have hu : 0 < 10 ^ (len - d - 1) := Nat.pow_pos (by decide)
    have e1 : 10 ^ (len - 1) = 10 ^ d * 10 ^ (len - d - 1) := by
      rw [← Nat.pow_add]; congr 1; omega
    have e2 : 10 ^ len = 10 ^ (d + 1) * 10 ^ (len - d - 1) := by
      rw [← Nat.pow_add]; congr 1; omega
    have hs := rha_spec N (10 ^ (len - d - 1)) hu
    generalize 10 ^ (len - d - 1) = u at *
    generalize rha N u = M at *
    have hpd : 0 < 10 ^ d := Nat.pow_pos (by decide)
    have e3 : 10 ^ (d + 1) = 10 * 10 ^ d := by rw [Nat.pow_succ]; omega
    -- lower bound: 10^d * u ≤ N  and  2N < (2M+1) u  ⇒  10^d ≤ M
    have hlow : 10 ^ d ≤ M := by
      apply Classical.byContradiction
      intro hc
      have : M + 1 ≤ 10 ^ d := by omega
      have : (2 * M + 1) * u ≤ (2 * 10 ^ d) * u := Nat.mul_le_mul_right _ (by omega)
      have : 2 * 10 ^ d * u = 2 * (10 ^ d * u) := by rw [Nat.mul_assoc]
      omega
    -- upper bound: N < 10^(d+1) u and 2 M u ≤ 2N + u ⇒ M ≤ 10^(d+1)
    have hup : M ≤ 10 ^ (d + 1) := by
      apply Classical.byContradiction
      intro hc
      have h1 : 10 ^ (d + 1) + 1 ≤ M := by omega
      have h2 : 2 * (10 ^ (d + 1) + 1) * u ≤ 2 * M * u :=
        Nat.mul_le_mul_right _ (Nat.mul_le_mul_left _ h1)
      have h3 : 2 * (10 ^ (d + 1) + 1) * u = 2 * (10 ^ (d + 1) * u) + 2 * u := by
        rw [Nat.mul_assoc, Nat.add_mul, Nat.mul_add]; omega
      omega
    split
    · simp only []; omega
    · simp only []; omega

/-- the value is the input rounded half away from zero at the last mantissa digit; a carry
    (`99.95 → 1.00E+02`) denotes the same number -/
theorem sciRound_value (N len : Nat) (e10 : Int) (d : Nat) (hN : N ≠ 0) (h : d + 1 < len) :
    let u := 10 ^ (len - d - 1)
    let R := (sciRound N len e10 d).1 * 10 ^ ((sciRound N len e10 d).2 - (e10 + len - 1)).toNat
    2 * N < (2 * R + 1) * u ∧ 2 * R * u ≤ 2 * N + u := by
  have hu : 0 < 10 ^ (len - d - 1) := Nat.pow_pos (by decide)
  have hs := rha_spec N (10 ^ (len - d - 1)) hu
  have hnle : ¬ len ≤ d + 1 := by omega
  simp only [sciRound, hN, if_false, hnle]
  split
  · rename_i hc
    have : ((e10 + (len : Int) - 1 + 1) - (e10 + (len : Int) - 1)).toNat = 1 := by omega
    simp only [this, Nat.pow_one]
    have : 10 ^ d * 10 = 10 ^ (d + 1) := by rw [Nat.pow_succ]
    rw [this, ← hc]
    exact hs
  · have : ((e10 + (len : Int) - 1) - (e10 + (len : Int) - 1)).toNat = 0 := by omega
    simp only [this, Nat.pow_zero, Nat.mul_one]
    exact hs

/-- with at most `d + 1` digits nothing is rounded -/
theorem sciRound_exact (N len : Nat) (e10 : Int) (d : Nat) (hN : N ≠ 0) (h : len ≤ d + 1) :
    sciRound N len e10 d = (N * 10 ^ (d + 1 - len), e10 + len - 1) := by
  simp [sciRound, hN, h]

example : sciRound 9995 4 (-3) 2 = (100, 1) := by decide
example : sciRound 9994 4 (-3) 2 = (999, 0) := by decide
example : sciRound 12345 5 0 2 = (123, 4) := by decide
example : sciRound 12 2 (-5) 2 = (120, -4) := by decide

/-! ### exponent placeholders -/

def expMarker (p : NumberPart) (expNeg : Bool) : List Char :=
  if expNeg then ['E', '-'] else if p.scientificMinus then ['E'] else ['E', '+']

/-- exponent not longer than its placeholders, padding position: after the marker of the first
    placeholder (`E-` for a negative exponent, else `E+`, or `E` for `E-` codes), `0` prints `0`,
    `?` a space, `#` nothing -/
theorem exp_small_pad (p : NumberPart) (loc : Loc) (neg : Bool) (ip fp ep : List Char) (expNeg : Bool)
    (s : LState) (kind : Char) (index : Nat)
    (hsmall : ep.length ≤ p.exponentDigitCount) (hpad : index + ep.length < p.exponentDigitCount) :
    layoutStepSci p loc neg ip fp ep expNeg s (.digit kind index .exp) =
      { s with text := s.text ++ (if index = 0 then expMarker p expNeg else [])
                        ++ (if kind = '#' then [] else [if kind = '?' then ' ' else '0']) } := by
  have h1 : (ep.length : Int) ≤ (p.exponentDigitCount : Int) := by omega
  have h2 : (ep.length : Int) - ((p.exponentDigitCount : Int) - (index : Int)) < 0 := by omega
  have h4 : ¬ p.exponentDigitCount ≤ ep.length := by omega
  by_cases hi : index = 0
  · subst hi
    have h2' : (ep.length : Int) - (p.exponentDigitCount : Int) < 0 := by omega
    by_cases hk : kind = '#' <;> simp [layoutStepSci, expMarker, h1, h2', h4, hk]
  · by_cases hk : kind = '#' <;> simp [layoutStepSci, expMarker, hi, h1, h2, h4, hk]

/-- digit position: prints exactly `ep[index - (exponent_digit_count - len)]`, the access is in range -/
theorem exp_small_digit (p : NumberPart) (loc : Loc) (neg : Bool) (ip fp ep : List Char) (expNeg : Bool)
    (s : LState) (kind : Char) (index : Nat)
    (hsmall : ep.length ≤ p.exponentDigitCount) (hidx : index < p.exponentDigitCount)
    (hdig : p.exponentDigitCount ≤ index + ep.length) :
    ∃ c, ep[index + ep.length - p.exponentDigitCount]? = some c ∧
      layoutStepSci p loc neg ip fp ep expNeg s (.digit kind index .exp) =
        { s with text := s.text ++ (if index = 0 then expMarker p expNeg else []) ++ [c] } := by
  have hlt : index + ep.length - p.exponentDigitCount < ep.length := by omega
  refine ⟨ep[index + ep.length - p.exponentDigitCount], by simp [hlt], ?_⟩
  have h1 : (ep.length : Int) ≤ (p.exponentDigitCount : Int) := by omega
  have h2 : ¬ ((ep.length : Int) - ((p.exponentDigitCount : Int) - (index : Int)) < 0) := by omega
  have h3 : ((ep.length : Int) - ((p.exponentDigitCount : Int) - (index : Int))).toNat
      = index + ep.length - p.exponentDigitCount := by omega
  by_cases hi : index = 0
  · subst hi
    have h2' : ¬ ((ep.length : Int) - (p.exponentDigitCount : Int) < 0) := by omega
    have h3' : ((ep.length : Int) - (p.exponentDigitCount : Int)).toNat = 0 + ep.length - p.exponentDigitCount := by omega
    have h5 : 0 + ep.length - p.exponentDigitCount = ep.length - p.exponentDigitCount := by omega
    simp [layoutStepSci, expMarker, h1, h2', h3', h5] at *
    have hlt' : ep.length - p.exponentDigitCount < ep.length := by omega
    simp [hlt']
  · simp [layoutStepSci, expMarker, hi, h1, h2, h3, hlt]

/-! ### engine against the specification -/

/-- the 15 significant digits of a double as an exact decimal `(N, e10)`: `N · 10^e10` -/
def round15Dec (v : Mag) : Nat × Int :=
  if v.m = 0 then (0, 0) else
  let E := ilog10 v.num v.den
  let s : Int := 14 - E
  (if s ≥ 0 then rhe (v.num * pow10 s.toNat) v.den else rhe v.num (v.den * pow10 (-s).toNat), -s)

/-- what the specification shows: integer digit, fraction digits without trailing zeros, digits of
    |exponent|, exponent negative -/
def sciSpecDigits (v : Mag) (d : Nat) : List Char × List Char × List Char × Bool :=
  let (N, e10) := round15Dec v
  let (M, E) := sciRound N (if N = 0 then 0 else (natDigits N).length) e10 d
  let ds := padLeft (d + 1) '0' (natDigits M)
  (if M = 0 then [] else ds.take 1, stripTrailingZeros (ds.drop 1), natDigits E.natAbs, decide (E < 0))

/-- what the engine shows (`none`: non-finite intermediate or the unmodelled `log10` zone) -/
def sciEngineDigits (v : Mag) (d : Nat) : Option (List Char × List Char × List Char × Bool) :=
  match sciStage v d with
  | .ok m ep expNeg =>
    let intNumber := if d = 0 then m.round else m.floor
    let ip := if intNumber = 0 then [] else displayInt intNumber
    some (ip, getFractPart m d ip.length, ep, expNeg)
  | _ => none

def C20_sci_full : Prop :=
  ∀ (v : Mag) (d : Nat), ValidDouble v → d ≤ 22 →
    sciEngineDigits v d = none ∨ sciEngineDigits v d = some (sciSpecDigits v d)

/-- 99.96 with `0.00E+00`: the engine shows 9.00E+01 (the fraction .996 rounds up to 1.00 and the
    carry is dropped), the specification 1.00E+02 -/
theorem C20_sci_full_false : ¬ C20_sci_full := by
  intro h
  have := h ⟨7034059667999293, -46⟩ 2 (by unfold ValidDouble; decide) (by decide)
  revert this
  decide +kernel

example : sciEngineDigits ⟨7034059667999293, -46⟩ 2 = some (['9'], [], ['1'], false) := by decide +kernel
example : sciSpecDigits ⟨7034059667999293, -46⟩ 2 = (['1'], [], ['2'], false) := by decide +kernel

/-- agreement where nothing special happens: 12345 → 1.23E+04, 0.00012345 → 1.23E-04 -/
example : sciEngineDigits ⟨6786735522447360, -39⟩ 2 = some (sciSpecDigits ⟨6786735522447360, -39⟩ 2) := by decide +kernel
example : sciEngineDigits ⟨4554501111798888, -65⟩ 2 = some (['1'], ['2', '3'], ['4'], true) := by decide +kernel
/-- a carry the first rounding takes care of: 9.9951 → 1.00E+01 -/
example : sciEngineDigits ⟨5626741079441356, -49⟩ 2 = some (['1'], [], ['1'], false) := by decide +kernel
example : sciSpecDigits ⟨5626741079441356, -49⟩ 2 = (['1'], [], ['1'], false) := by decide +kernel

end IronCalc.Props.C20
