import IronCalc.Text.FormatLayout
import IronCalc.Text.FormatLayoutProofs
/-
  C20 — number formats display correctly rounded values.

  Stage A (digits): the rounding primitives are correct to half a unit (`rha_spec`, `rhe_spec`);
  the full statement `C20_full` (digits shown = round15 then half away from zero, for every
  double and every number of decimals) is FALSE for the engine (`C20_full_false`): decimal ties
  whose product with 10^d is not exactly representable fall on the wrong side, and digits beyond
  the 15th significant one are cut instead of rounded.  The agreement outside the tie zone
  (`C20_partial_statement`) is stated but NOT proved here; it is checked by the differential run
  and the exact-decimal oracle of the harness.
  Stage B (layout), for ALL digit strings, placeholder kinds and positions: what each integer
  placeholder prints, that no index leaves the digit vector, that a block of placeholders prints
  every digit exactly once and in order, and where group separators go.
-/
namespace IronCalc.Props.C20
open IronCalc.Format

/-! ## Stage A — rounding primitives -/

theorem rha_spec (num den : Nat) (h : 0 < den) :
    2 * num < (2 * rha num den + 1) * den ∧ 2 * rha num den * den ≤ 2 * num + den := by
  unfold rha
  have h1 := Nat.div_add_mod num den
  have h2 := Nat.mod_lt num h
  generalize num / den = q at *
  generalize num % den = r at *
  simp only []
  split <;> constructor <;> grind

theorem rhe_spec (num den : Nat) (h : 0 < den) :
    2 * num ≤ (2 * rhe num den + 1) * den ∧ 2 * rhe num den * den ≤ 2 * num + den := by
  unfold rhe
  have h1 := Nat.div_add_mod num den
  have h2 := Nat.mod_lt num h
  generalize num / den = q at *
  generalize num % den = r at *
  simp only []
  split
  · constructor <;> grind
  · split
    · split <;> constructor <;> grind
    · constructor <;> grind

/-! ## Stage B — layout -/

theorem group_western_iff (k : Int) :
    useGroupSeparator true k .western = true ↔ (k > 1 ∧ (k - 1) % 3 = 0) := by
  simp [useGroupSeparator]

theorem group_off (k : Int) (g : GroupMode) : useGroupSeparator false k g = false := by
  simp [useGroupSeparator]

/-- padding position, `#`: prints nothing -/
theorem int_small_pad_sharp (p : NumberPart) (loc : Loc) (ip fp : List Char) (s : LState) (index : Nat)
    (hsmall : ip.length ≤ p.digitCount) (hpad : index + ip.length < p.digitCount) :
    layoutStep p loc false ip fp s (.digit '#' index .int) = { s with digitIndex := s.digitIndex + 1 } := by
  have h1 : (ip.length : Int) ≤ (p.digitCount : Int) := by omega
  have h2 : (ip.length : Int) - (p.digitCount : Int) + (index : Int) < 0 := by omega
  simp [layoutStep, h1, h2]

/-- padding position, `0` or `?`: prints the pad character and the separator of that position -/
theorem int_small_pad (p : NumberPart) (loc : Loc) (ip fp : List Char) (s : LState) (kind : Char) (index : Nat)
    (hk : kind ≠ '#')
    (hsmall : ip.length ≤ p.digitCount) (hpad : index + ip.length < p.digitCount) :
    layoutStep p loc false ip fp s (.digit kind index .int) =
      { s with text := s.text ++ (if kind = '0' then '0' else ' ') :: sepOf p loc ((p.digitCount : Int) - index),
               digitIndex := s.digitIndex + 1 } := by
  have h1 : (ip.length : Int) ≤ (p.digitCount : Int) := by omega
  have h2 : (ip.length : Int) - (p.digitCount : Int) + (index : Int) < 0 := by omega
  simp [layoutStep, h1, h2, hk, sepOf]

/-- digit position: prints exactly the digit `ip[index - (digitCount - len)]` — the access is in range —
    followed by the separator of its position from the right -/
theorem int_small_digit (p : NumberPart) (loc : Loc) (ip fp : List Char) (s : LState) (kind : Char) (index : Nat)
    (hsmall : ip.length ≤ p.digitCount) (hidx : index < p.digitCount) (hdig : p.digitCount ≤ index + ip.length) :
    ∃ c, ip[index + ip.length - p.digitCount]? = some c ∧
    layoutStep p loc false ip fp s (.digit kind index .int) =
      { s with text := s.text ++ c :: sepOf p loc ((p.digitCount : Int) - index),
               digitIndex := s.digitIndex + 1 } := by
  have hlt : index + ip.length - p.digitCount < ip.length := by omega
  refine ⟨ip[index + ip.length - p.digitCount], by simp [hlt], ?_⟩
  have h1 : (ip.length : Int) ≤ (p.digitCount : Int) := by omega
  have h2 : ¬ ((ip.length : Int) - (p.digitCount : Int) + (index : Int) < 0) := by omega
  have h3 : ((ip.length : Int) - (p.digitCount : Int) + (index : Int)).toNat = index + ip.length - p.digitCount := by omega
  simp [layoutStep, h1, h2, h3, hlt, sepOf]

/-- the number has more digits than the format has placeholders: a placeholder reached with
    `digit_index = lo` prints the digits `lo .. len - digitCount + index` (all in range) -/
theorem int_big_step (p : NumberPart) (loc : Loc) (ip fp : List Char) (s : LState) (kind : Char) (index lo : Nat)
    (hbig : p.digitCount < ip.length) (hidx : index < p.digitCount)
    (hdi : s.digitIndex = (lo : Int)) (hlo : lo ≤ ip.length - p.digitCount + index + 1) :
    layoutStep p loc false ip fp s (.digit kind index .int) =
      { s with text := s.text ++ runCells p loc ip lo (ip.length - p.digitCount + index + 1 - lo),
               digitIndex := ((ip.length - p.digitCount + index + 1 : Nat) : Int) } := by
  have h1 : ¬ ((ip.length : Int) ≤ (p.digitCount : Int)) := by omega
  have h2 : (ip.length : Int) - (p.digitCount : Int) + (index : Int) + 1
      = ((lo + (ip.length - p.digitCount + index + 1 - lo) : Nat) : Int) := by omega
  have h3 : (ip.length : Int) - (p.digitCount : Int) + (index : Int) + 1
      = ((ip.length - p.digitCount + index + 1 : Nat) : Int) := by omega
  simp only [layoutStep, Bool.false_eq_true, Bool.and_false, if_false, h1, hdi]
  rw [h2, emitRun_spec p loc ip _ _ lo s.text s.panicked (by omega) (by omega)]
  simp [← h2, h3]


theorem int_block_big (p : NumberPart) (loc : Loc) (ip fp : List Char) (hbig : p.digitCount < ip.length) :
    ∀ (ks : List Char) (i lo : Nat) (s : LState), i + ks.length = p.digitCount →
      s.digitIndex = (lo : Int) → lo = (if i = 0 then 0 else ip.length - p.digitCount + i) →
      ((intToks ks i).foldl (layoutStep p loc false ip fp) s).text
        = s.text ++ (if ks = [] then [] else runCells p loc ip lo (ip.length - lo)) ∧
      ((intToks ks i).foldl (layoutStep p loc false ip fp) s).panicked = s.panicked := by
  intro ks
  induction ks with
  | nil => intro i lo s _ _ _; simp [intToks]
  | cons k ks ih =>
    intro i lo s hlen hdi hlo
    simp only [List.length_cons] at hlen
    have hlo' : lo ≤ ip.length - p.digitCount + i + 1 := by split at hlo <;> omega
    simp only [intToks, List.foldl_cons]
    rw [int_big_step p loc ip fp s k i lo hbig (by omega) hdi hlo']
    have := ih (i + 1) (ip.length - p.digitCount + i + 1)
      { s with text := s.text ++ runCells p loc ip lo (ip.length - p.digitCount + i + 1 - lo),
               digitIndex := ((ip.length - p.digitCount + i + 1 : Nat) : Int) } (by omega) rfl (by simp; omega)
    rw [this.1, this.2]
    refine ⟨?_, rfl⟩
    simp only [reduceCtorEq, if_false, List.append_assoc]
    congr 1
    by_cases hks : ks = []
    · subst hks
      simp only [List.length_nil] at hlen
      simp only [if_true, List.append_nil]
      congr 1
      omega
    · simp only [hks, if_false]
      have e : ip.length - lo = (ip.length - p.digitCount + i + 1 - lo) + (ip.length - (ip.length - p.digitCount + i + 1)) := by
        have : 0 < ks.length := List.length_pos_iff.mpr hks
        omega
      rw [e, runCells_append]
      congr 2
      omega


/-- `layout_correct`, larger numbers, no grouping: a block of `digitCount` integer placeholders of
    ANY kinds prints exactly the integer digits, each once, in order -/
theorem layout_correct_big_digits (p : NumberPart) (loc : Loc) (ip fp : List Char) (ks : List Char)
    (hbig : p.digitCount < ip.length) (hks : ks.length = p.digitCount) (hne : ks ≠ [])
    (hth : p.useThousands = false) :
    ((intToks ks 0).foldl (layoutStep p loc false ip fp) {}).text = ip := by
  have h := (int_block_big p loc ip fp hbig ks 0 0 {} (by omega) rfl rfl).1
  rw [h]
  simp only [hne, if_false]
  rw [runCells_nosep p loc ip hth _ 0 (by omega)]
  simp

/-- `layout_correct`, larger numbers, with grouping: digit `i` is followed by a separator exactly
    when its position from the right `len - i` is `> 1` and `≡ 1 (mod 3)` (`runCells`, `sepOf`,
    `group_western_iff`) -/
theorem layout_correct_big_grouped (p : NumberPart) (loc : Loc) (ip fp : List Char) (ks : List Char)
    (hbig : p.digitCount < ip.length) (hks : ks.length = p.digitCount) (hne : ks ≠ []) :
    ((intToks ks 0).foldl (layoutStep p loc false ip fp) {}).text = runCells p loc ip 0 ip.length ∧
    ((intToks ks 0).foldl (layoutStep p loc false ip fp) {}).panicked = false := by
  have h := int_block_big p loc ip fp hbig ks 0 0 {} (by omega) rfl rfl
  refine ⟨?_, h.2⟩
  rw [h.1]
  simp [hne]

/-! ## Stage A — the full statement and its negation -/

/-- the specification: reduce to 15 significant digits, then round half away from zero to `d`
    decimals, in exact arithmetic: (integer digits, fractional digits without trailing zeros) -/
def specDigits (v : Mag) (d : Nat) : List Char × List Char :=
  let (n, dd) := roundSig v.num v.den 15
  let k := rha (n * pow10 d) dd
  let ipn := k / pow10 d
  (if ipn = 0 then [] else natDigits ipn,
   stripTrailingZeros (padLeft d '0' (natDigits (k % pow10 d))))

def ValidDouble (v : Mag) : Prop := v.m < 2 ^ 53 ∧ -1074 ≤ v.e ∧ v.e ≤ 971

/-- round15(v)·10^d has fractional part exactly 1/2 (the engine multiplies in binary) -/
def InTieZone (v : Mag) (d : Nat) : Bool :=
  let (n, dd) := roundSig v.num v.den 15
  2 * ((n * pow10 d) % dd) == dd

/-- more digits are asked for than the 15 significant ones -/
def Beyond15 (v : Mag) (d : Nat) : Bool := (specDigits v d).1.length + d > 15

def C20_full : Prop :=
  ∀ (v : Mag) (d : Nat), ValidDouble v → d ≤ 22 → stageA v d = specDigits v d

/-- NOT proved (DESIGN 9b fallback): outside the tie zone and within 15 digits the engine shows the
    specified digits.  Checked by the harness (exact-decimal oracle, every run). -/
def C20_partial_statement : Prop :=
  ∀ (v : Mag) (d : Nat), ValidDouble v → d ≤ 22 → InTieZone v d = false → Beyond15 v d = false →
    stageA v d = specDigits v d

/-- 1.005 with two decimals: the engine shows 1.00 (1.005·100 = 100.49999999999999 in binary),
    the specification 1.01 -/
theorem C20_full_false : ¬ C20_full := by
  intro h
  have := h ⟨4526117625507348, -52⟩ 2 (by unfold ValidDouble; decide) (by decide)
  revert this
  decide +kernel

/-- the witness of `C20_full_false` is in the tie zone; 123456.7 with 20 decimals is beyond 15 digits -/
example : InTieZone ⟨4526117625507348, -52⟩ 2 = true := by decide +kernel
example : stageA ⟨4526117625507348, -52⟩ 2 = (['1'], []) := by decide +kernel
example : specDigits ⟨4526117625507348, -52⟩ 2 = (['1'], ['0', '1']) := by decide +kernel
example : Beyond15 ⟨8483879823553331, -36⟩ 20 = true := by decide +kernel
example : stageA ⟨8483879823553331, -36⟩ 20 ≠ specDigits ⟨8483879823553331, -36⟩ 20 := by decide +kernel
/-- repaired cases (fix commits): 2.5 → 3, 0.96 with one decimal → 1.0, 2.675 → 2.68 -/
example : stageA ⟨5629499534213120, -51⟩ 0 = specDigits ⟨5629499534213120, -51⟩ 0 := by decide +kernel
example : stageA ⟨8646911284551352, -53⟩ 1 = (['1'], []) := by decide +kernel
example : stageA ⟨6023564501608038, -51⟩ 2 = (['2'], ['6', '8']) := by decide +kernel
/-- -1 with `0` → `-1`; 123456 with `#,###,##0` → `123,456`; 1234.5 with `#,##0` → `1,235` -/
example : formatNumber "0".toList ⟨['.'], [','], .western⟩ true ⟨4503599627370496, -52⟩ = .text "-1".toList := by
  decide +kernel
example : formatNumber "#,###,##0".toList ⟨['.'], [','], .western⟩ false ⟨8483831719919616, -36⟩
    = .text "123,456".toList := by decide +kernel
example : formatNumber "#,##0".toList ⟨['.'], [','], .western⟩ false ⟨5429388417957888, -42⟩
    = .text "1,235".toList := by decide +kernel
/-- hypotheses of the layout theorems are met: 12345 against `#,##0` (4 placeholders) -/
example : ((intToks "###0".toList 0).foldl
    (layoutStep { useThousands := true, digitCount := 4 } ⟨['.'], [','], .western⟩ false "12345".toList []) {}).text
    = "12,345".toList := by decide +kernel

end IronCalc.Props.C20
