import IronCalc.Text.F4Proofs
import IronCalc.Codec.Lex
import IronCalc.Codec.CharClassTable
/-
  C34 — F4 reference cycling has period four and touches only `$` markers.  Property theorems only.
  Model: Text/F4.lean (lexer/util.rs: next_state, cycle_endpoint, cycle_token_text, cycle_reference);
  the lexer's token spans are an input of `cycleReference` (tied by correspondence).
  Helper lemmas: Text/F4Proofs.lean.
-/
namespace IronCalc.F4
open IronCalc.Codec

/-! ### the state cycle -/

theorem nextState_period4 (s : Bool × Bool) : nextState (nextState (nextState (nextState s))) = s := by
  obtain ⟨a, b⟩ := s; cases a <;> cases b <;> rfl

/-- the period is exactly four: no state returns earlier -/
theorem nextState_no_shorter_period (s : Bool × Bool) :
    nextState s ≠ s ∧ nextState (nextState s) ≠ s ∧ nextState (nextState (nextState s)) ≠ s := by
  obtain ⟨a, b⟩ := s; cases a <;> cases b <;> decide

/-! ### endpoints -/

/-- Cycling an endpoint — any string, malformed ones included — changes nothing but `$` markers and
    ASCII letter case. -/
theorem endpoint_only_dollars (p : List Char) :
    stripDollarUpper (cycleEndpoint p) = stripDollarUpper p := by
  unfold cycleEndpoint
  simp only
  split
  · rfl
  · rename_i h
    have spec := decompose_spec p
    generalize decompose p = d at *
    have hrest : d.rest = [] := by
      cases hr : d.rest with
      | nil => rfl
      | cons x xs => simp [hr] at h
    conv => rhs; rw [← spec]
    simp only [sdu_withDollar, sdu_append, sdu_map_upper, hrest, List.append_nil]

example : cycleEndpoint ['$', 'c', '3'] = ['C', '3'] ∧ cycleEndpoint ['c', '3', 'x'] = ['c', '3', 'x'] := by
  decide

/-- A well-formed cell endpoint `[$]letters[$]digits` returns after four presses, up to letter case. -/
theorem endpoint_period4 (a b : Bool) (col row : List Char)
    (hcol : col.all isAsciiAlpha = true) (hrow : row.all isDigit = true) (hc : col ≠ []) (hr : row ≠ []) :
    cycleEndpoint (cycleEndpoint (cycleEndpoint (cycleEndpoint (endpointText a col b row))))
      = endpointText a (col.map asciiUpper) b row := by
  have hU := all_map_upper col hcol
  have hUne : col.map asciiUpper ≠ [] := by simpa using hc
  rw [cycleEndpoint_cell a b col row hcol hrow hc hr]
  rw [cycleEndpoint_cell _ _ _ row hU hrow hUne hr, map_upper_idem]
  rw [cycleEndpoint_cell _ _ _ row hU hrow hUne hr, map_upper_idem]
  rw [cycleEndpoint_cell _ _ _ row hU hrow hUne hr, map_upper_idem]
  cases a <;> cases b <;> rfl

example : endpointText false ['a', 'b'] true ['1', '2'] = ['a', 'b', '$', '1', '2'] := by decide

/-- one press on a cell endpoint advances its flags in the F4 cycle and keeps letters (upper-cased)
    and digits -/
theorem endpoint_step (a b : Bool) (col row : List Char)
    (hcol : col.all isAsciiAlpha = true) (hrow : row.all isDigit = true) (hc : col ≠ []) (hr : row ≠ []) :
    cycleEndpoint (endpointText a col b row) =
      endpointText (nextState (a, b)).1 (col.map asciiUpper) (nextState (a, b)).2 row :=
  cycleEndpoint_cell a b col row hcol hrow hc hr

/-- a column-only endpoint (`D` in `D:D`) has period two -/
theorem endpoint_period2_column (a : Bool) (col : List Char) (hcol : col.all isAsciiAlpha = true) (hc : col ≠ []) :
    cycleEndpoint (cycleEndpoint (withDollar a col)) = withDollar a (col.map asciiUpper) := by
  rw [cycleEndpoint_col a col hcol hc,
    cycleEndpoint_col _ _ (all_map_upper col hcol) (by simpa using hc), map_upper_idem, Bool.not_not]

/-- a row-only endpoint (`5` in `5:5`) has period two -/
theorem endpoint_period2_row (a : Bool) (row : List Char) (hrow : row.all isDigit = true) (hr : row ≠ []) :
    cycleEndpoint (cycleEndpoint (withDollar a row)) = withDollar a row := by
  rw [cycleEndpoint_row a row hrow hr, cycleEndpoint_row _ row hrow hr, Bool.not_not]

/-! ### the cell denoted (link with the reference parser of C22) -/

/-- consume_reference_a1 expressed on the scan of cycle_endpoint: the two functions scan alike -/
def refOfParts (p : Parts) : Option (PRef × List Char) :=
  if (p.column.map asciiUpper).isEmpty then none else
  match columnToNumber (p.column.map asciiUpper) with
  | none => none
  | some c =>
    match parseI32 p.row with
    | none => none
    | some r =>
      if r > (LAST_ROW : Int) then none
      else some ({ column := c, row := r, absCol := p.absCol, absRow := p.absRow }, p.rest)

theorem consumeReferenceA1_eq (s : List Char) : consumeReferenceA1 s = refOfParts (decompose s) := rfl

/-- Pressing F4 on a cell endpoint does not change the cell the lexer reads from it. -/
theorem cycle_refers_same_cell (a b : Bool) (col row : List Char)
    (hcol : col.all isAsciiAlpha = true) (hrow : row.all isDigit = true) (hc : col ≠ []) (hr : row ≠ []) :
    (consumeReferenceA1 (cycleEndpoint (endpointText a col b row))).map (fun x => (x.1.column, x.1.row, x.2))
      = (consumeReferenceA1 (endpointText a col b row)).map (fun x => (x.1.column, x.1.row, x.2)) := by
  rw [cycleEndpoint_cell a b col row hcol hrow hc hr, consumeReferenceA1_eq, consumeReferenceA1_eq,
    decompose_cell _ _ _ row (all_map_upper col hcol) hrow (by simpa using hc) hr,
    decompose_cell a b col row hcol hrow hc hr]
  simp only [refOfParts, map_upper_idem]
  split
  · rfl
  · cases columnToNumber (col.map asciiUpper) with
    | none => rfl
    | some c =>
      cases parseI32 row with
      | none => rfl
      | some r =>
        simp only
        split <;> rfl

/-! ### token texts -/

theorem endpoints_only_dollars (s : List Char) : stripDollarUpper (cycleEndpoints s) = stripDollarUpper s := by
  unfold cycleEndpoints
  rw [sdu_joinColon_map _ _ endpoint_only_dollars, joinColon_split]
  simp

/-- Cycling a whole token text (sheet prefix, quotes, `:`-separated endpoints; any string) changes
    nothing but `$` markers and letter case. -/
theorem token_only_dollars (cc : CharClass) (t : List Char) :
    stripDollarUpper (cycleTokenText cc t) = stripDollarUpper t := by
  unfold cycleTokenText
  simp only
  rw [sdu_append, endpoints_only_dollars, ← sdu_append, List.append_assoc, splitPrefix_spec,
    List.takeWhile_append_dropWhile]

/-- The leading white space and the sheet prefix (everything up to the first `!`, or the quoted
    name with its quotes) are copied verbatim; only the endpoints after it are cycled. -/
theorem token_text_preserves_prefix (cc : CharClass) (t : List Char) :
    ∃ pre body, t = pre ++ body ∧ cycleTokenText cc t = pre ++ cycleEndpoints body
      ∧ pre = t.takeWhile cc.white ++ (splitPrefix (t.dropWhile cc.white)).1 := by
  refine ⟨t.takeWhile cc.white ++ (splitPrefix (t.dropWhile cc.white)).1,
    (splitPrefix (t.dropWhile cc.white)).2, ?_, rfl, rfl⟩
  rw [List.append_assoc, splitPrefix_spec, List.takeWhile_append_dropWhile]

/-- an unquoted sheet name followed by `!` is the prefix -/
theorem unquoted_prefix (name body : List Char) (hb : name.all (fun x => decide (x ≠ '!')) = true)
    (hq : ∀ t, name ≠ '\'' :: t) (hne : name ≠ []) :
    splitPrefix (name ++ '!' :: body) = (name ++ ['!'], body) := by
  cases name with
  | nil => exact absurd rfl hne
  | cons c u =>
    have hc : c ≠ '\'' := fun e => hq u (by rw [e])
    have hstop : stops (fun x => decide (x ≠ '!')) ('!' :: body) = true := by simp [stops]
    have e1 := takeWhile_app _ (c :: u) ('!' :: body) hb hstop
    have e2 := dropWhile_app _ (c :: u) ('!' :: body) hb hstop
    simp only [List.cons_append] at e1 e2
    unfold splitPrefix
    simp only [List.cons_append, hc, if_false]
    have hcont : (c :: (u ++ '!' :: body)).contains '!' = true := by
      simp
    simp only [hcont, if_true, e1, e2, List.tail_cons, List.cons_append]

example : cycleTokenText unicodeCC ['S', '1', '!', 'a', '1', ':', '$', 'B', '2']
    = ['S', '1', '!', '$', 'A', '$', '1', ':', 'B', '2'] := by decide +kernel

example : cycleTokenText unicodeCC [' ', '\'', 'a', '\'', '\'', 'b', '\'', '!', '1', ':', '$', '2']
    = [' ', '\'', 'a', '\'', '\'', 'b', '\'', '!', '$', '1', ':', '2'] := by decide +kernel

/-! ### what the pinned tree violates (F34a) -/

/-- F34a: a reference used as the left operand of the range operator (`A1:B`, `A1:OFFSET(..)`) is
    lexed as a Reference token, F4 turns it into `$A$1`, and the lexer's `$` branch does not read
    `$A$1:B` as reference + range operator: the cycled formula no longer lexes, so the property
    (same cells, period four) fails for such formulas. -/
theorem C34_full_false_range_operand :
    (nextTokenRef unicodeCC true (fun _ => false) ['A', '1', ':', 'B']).1
        = .ref none { column := 1, row := 1, absCol := false, absRow := false }
      ∧ cycleTokenText unicodeCC ['A', '1'] = ['$', 'A', '$', '1']
      ∧ (nextTokenRef unicodeCC true (fun _ => false) ['$', 'A', '$', '1', ':', 'B']).1 = .other := by
  refine ⟨?_, ?_, ?_⟩ <;> decide +kernel

end IronCalc.F4
