import IronCalc.Text.DatesProofs
/-
  C21 — Date serial numbers and calendar dates correspond one-to-one.
  Property theorems only (helpers are in Text/DatesProofs.lean).
  Model: Text/Dates.lean (models base/src/formatter/dates.rs + chrono's Gregorian arithmetic).
-/
namespace IronCalc.Dates

/-- every day number (days since 0000-03-01, unbounded) maps to a civil date that maps back -/
theorem civil_left_inv (z : Nat) : daysOfCivil (civilOfDays z) = z := by
  have hlt : z % 146097 < 146097 := Nat.mod_lt _ (by decide)
  obtain ⟨hy, hdoe, hm1, hm12, _, _⟩ := tableA_facts (z % 146097) hlt
  unfold daysOfCivil civilOfDays
  simp only
  generalize civilInEra (z % 146097) = c at *
  by_cases hm : c.m ≤ 2
  · simp only [hm, if_true]
    have e1 : (z / 146097 * 400 + c.y + 1 - 1) / 400 = z / 146097 := by omega
    have e2 : (z / 146097 * 400 + c.y + 1 - 1) % 400 = c.y := by omega
    rw [e1, e2, hdoe]; omega
  · simp only [hm, if_false]
    have e1 : (z / 146097 * 400 + c.y + 0) / 400 = z / 146097 := by omega
    have e2 : (z / 146097 * 400 + c.y + 0) % 400 = c.y := by omega
    rw [e1, e2, hdoe]; omega

/-- the civil date of any day from 0001-01-01 on is a valid date -/
theorem civil_valid (z : Nat) (hz : 306 ≤ z) : valid (civilOfDays z) = true := by
  have hlt : z % 146097 < 146097 := Nat.mod_lt _ (by decide)
  obtain ⟨hy, hdoe, hm1, hm12, hd1, hd⟩ := tableA_facts (z % 146097) hlt
  have hinv := civil_left_inv z
  unfold civilOfDays at hinv ⊢
  unfold valid
  simp only at hinv ⊢
  generalize civilInEra (z % 146097) = c at *
  have hdim : daysInMonth (z / 146097 * 400 + c.y + (if c.m ≤ 2 then 1 else 0)) c.m
      = daysInMonth (c.y + (if c.m ≤ 2 then 1 else 0)) c.m := by
    rw [Nat.add_assoc, daysInMonth_add_400]
  rw [hdim]
  have hyear : 1 ≤ z / 146097 * 400 + c.y + (if c.m ≤ 2 then 1 else 0) := by
    by_cases hm : c.m ≤ 2
    · simp [hm]
    · simp only [hm, if_false]
      -- year 0 with month ≥ 3 means z < 306
      by_cases h0 : z / 146097 * 400 + c.y = 0
      · exfalso
        have hz0 : z / 146097 = 0 := by omega
        have hc0 : c.y = 0 := by omega
        have : z % 146097 = z := by omega
        rw [this] at hdoe
        -- doeOf 0 m d with m ≥ 3 is < 306
        have hb : doeOf 0 c.m c.d < 306 := by
          unfold doeOf
          have hd31 : c.d ≤ 31 := by
            unfold daysInMonth at hd; split at hd
            · split at hd <;> omega
            · split at hd <;> omega
          simp only
          have : (c.m + 9) % 12 ≤ 9 := by omega
          omega
        rw [hc0] at hdoe; omega
      · omega
  simp only [Bool.and_eq_true, decide_eq_true_eq]
  exact ⟨⟨⟨⟨hyear, hm1⟩, hm12⟩, hd1⟩, hd⟩

/-- every valid civil date (year ≥ 1) maps to a day number that maps back to it -/
theorem civil_right_inv (t : YMD) (h : valid t = true) : civilOfDays (daysOfCivil t) = t := by
  obtain ⟨y, m, d⟩ := t
  unfold valid at h
  simp only [Bool.and_eq_true, decide_eq_true_eq] at h
  obtain ⟨⟨⟨⟨hy, hm1⟩, hm12⟩, hd1⟩, hd⟩ := h
  have hdk : d ≤ daysInMonth (y % 400) m := by
    have := daysInMonth_add_400 (y / 400) (y % 400) m
    have e : y / 400 * 400 + y % 400 = y := by omega
    rw [e] at this; rw [← this]; exact hd
  obtain ⟨hlt, hciv⟩ := tableB_facts (y % 400) m d (Nat.mod_lt _ (by decide)) hm1 hm12 hd1 hdk
  unfold daysOfCivil civilOfDays
  simp only at hlt hciv ⊢
  by_cases hm : m ≤ 2
  · simp only [hm, if_true] at hlt hciv ⊢
    have ey : (y - 1) % 400 = (y % 400 + 399) % 400 := by omega
    rw [ey]
    have e1 : ((y - 1) / 400 * 146097 + doeOf ((y % 400 + 399) % 400) m d) / 146097 = (y - 1) / 400 := by
      omega
    have e2 : ((y - 1) / 400 * 146097 + doeOf ((y % 400 + 399) % 400) m d) % 146097
        = doeOf ((y % 400 + 399) % 400) m d := by omega
    rw [e1, e2, hciv]
    simp only [hm, if_true]
    congr 1; omega
  · simp only [hm, if_false] at hlt hciv ⊢
    have e1 : (y / 400 * 146097 + doeOf (y % 400) m d) / 146097 = y / 400 := by omega
    have e2 : (y / 400 * 146097 + doeOf (y % 400) m d) % 146097 = doeOf (y % 400) m d := by omega
    rw [e1, e2, hciv]
    simp only [hm, if_false]
    congr 1; omega

/-- **C21 (serial → date → serial).** Every serial in the supported range maps to a valid
    calendar date whose serial is the one we started from. -/
theorem C21_serial_roundtrip (s : Nat) (h1 : 1 ≤ s) (h2 : s ≤ maxSerial) :
    ∃ t, fromSerial s = some t ∧ valid t = true ∧ toSerial t = some (s : Int) := by
  refine ⟨civilOfDays (s + zOfSerialOffset), ?_, ?_, ?_⟩
  · unfold fromSerial minSerial; simp; omega
  · apply civil_valid; unfold zOfSerialOffset excelDateBase; omega
  · unfold toSerial
    rw [civil_valid _ (by unfold zOfSerialOffset excelDateBase; omega), civil_left_inv]
    simp

/-- **C21 (date → serial → date).** A valid date whose serial is in range is the date of
    that serial. -/
theorem C21_date_roundtrip (t : YMD) (s : Nat) (hs : toSerial t = some (s : Int))
    (h1 : 1 ≤ s) (h2 : s ≤ maxSerial) : fromSerial s = some t := by
  unfold toSerial at hs
  split at hs
  · rename_i hv
    have hz : daysOfCivil t = s + zOfSerialOffset := by
      simp only [Option.some.injEq] at hs; omega
    unfold fromSerial minSerial
    have a : ¬ s < 1 := by omega
    have b : ¬ s > maxSerial := by omega
    simp only [a, b, if_false]
    rw [← hz, civil_right_inv t hv]
  · cases hs

/-- "exactly one": distinct serials have distinct dates -/
theorem C21_fromSerial_injective (s s' : Nat) (t : YMD)
    (h : fromSerial s = some t) (h' : fromSerial s' = some t) : s = s' := by
  unfold fromSerial at h h'
  split at h; · cases h
  split at h; · cases h
  split at h'; · cases h'
  split at h'; · cases h'
  simp only [Option.some.injEq] at h h'
  have := congrArg daysOfCivil (h.trans h'.symm)
  rw [civil_left_inv, civil_left_inv] at this
  omega

/-- "exactly one", the other way: two dates with the same in-range serial are the same date -/
theorem C21_toSerial_injective (t t' : YMD) (s : Nat) (h1 : 1 ≤ s) (h2 : s ≤ maxSerial)
    (h : toSerial t = some (s : Int)) (h' : toSerial t' = some (s : Int)) : t = t' := by
  have e := C21_date_roundtrip t s h h1 h2
  have e' := C21_date_roundtrip t' s h' h1 h2
  rw [e] at e'
  exact Option.some.inj e'

example : toSerial ⟨2024, 2, 29⟩ = some ((45351 : Nat) : Int) := by decide

/-- out-of-range serials are rejected (models the two error returns of `from_excel_date`) -/
theorem C21_out_of_range (s : Nat) (h : s < 1 ∨ maxSerial < s) : fromSerial s = none := by
  unfold fromSerial minSerial
  rcases h with h | h
  · simp [h]
  · have : ¬ s < 1 := by unfold maxSerial at h; omega
    simp [this, h]

theorem C21_min_date : fromSerial 1 = some ⟨1899, 12, 31⟩ := by decide
theorem C21_max_date : fromSerial 2958465 = some ⟨9999, 12, 31⟩ := by decide

/-- weekday advances by one per day and has period seven -/
theorem C21_weekday_step (s : Nat) :
    weekdayFromMonday (s + 1) = (weekdayFromMonday s + 1) % 7 := by
  unfold weekdayFromMonday; omega

theorem C21_weekday_period (s : Nat) : weekdayFromMonday (s + 7) = weekdayFromMonday s := by
  unfold weekdayFromMonday; omega

/-- the calendar fields of an in-range serial have at most 2, 2 and exactly 4 digits -/
theorem serial_fields (s : Nat) (h1 : 1 ≤ s) (h2 : s ≤ maxSerial) (t : YMD) (h : fromSerial s = some t) :
    1 ≤ t.d ∧ t.d ≤ 31 ∧ 1 ≤ t.m ∧ t.m ≤ 12 ∧ 1000 ≤ t.y ∧ t.y < 10000 := by
  unfold fromSerial minSerial at h
  have a : ¬ s < 1 := by omega
  have b : ¬ s > maxSerial := by omega
  simp only [a, b, if_false, Option.some.injEq] at h
  have hz1 : 693900 ≤ s + zOfSerialOffset := by unfold zOfSerialOffset excelDateBase; omega
  have hz2 : s + zOfSerialOffset ≤ 3652364 := by unfold zOfSerialOffset excelDateBase maxSerial at *; omega
  generalize s + zOfSerialOffset = z at *
  have hlt : z % 146097 < 146097 := Nat.mod_lt _ (by decide)
  obtain ⟨hy, hdoe, hm1, hm12, hd1, hd⟩ := tableA_facts (z % 146097) hlt
  subst h
  unfold civilOfDays
  simp only
  generalize civilInEra (z % 146097) = c at *
  have hd31 : c.d ≤ 31 := by
    have := daysInMonth_le (c.y + (if c.m ≤ 2 then 1 else 0)) c.m
    omega
  refine ⟨hd1, hd31, hm1, hm12, by omega, ?_⟩
  by_cases hm : c.m ≤ 2
  · simp only [hm, if_true]
    -- a January/February date of year-of-era 399 in era 24 would lie beyond 9999-12-31
    have : (c.m + 9) % 12 = 10 ∨ (c.m + 9) % 12 = 11 := by omega
    unfold doeOf at hdoe
    simp only at hdoe
    rcases this with e | e <;> rw [e] at hdoe <;> omega
  · simp only [hm, if_false]; omega

/-- **C21 (date number formats agree with the correspondence).** For every supported serial the
    layout `dd/mm/yyyy` (tokens `dd`, `mm`, `yyyy` of the number-format language) can be read back to
    the calendar date of the serial, whose serial number is the one we started from; the short year
    `yy` is the last two digits of the year and is always two digits wide. -/
theorem C21_format_roundtrip (s : Nat) (h1 : 1 ≤ s) (h2 : s ≤ maxSerial) :
    ∃ t, fromSerial s = some t ∧ readDMY (layoutDMY t) = t ∧
      toSerial (readDMY (layoutDMY t)) = some (s : Int) ∧
      (tokYY t).length = 2 ∧ read2 (tokYY t) = t.y % 100 ∧ read4 (tokYYYY t) % 100 = read2 (tokYY t) := by
  obtain ⟨t, ht, _, hs⟩ := C21_serial_roundtrip s h1 h2
  obtain ⟨hd1, hd31, hm1, hm12, hy1, hy2⟩ := serial_fields s h1 h2 t ht
  have hr : readDMY (layoutDMY t) = t := by
    unfold readDMY layoutDMY tokDD tokMM tokYYYY
    simp only
    rw [read4_digits t.y hy1 hy2, read2_padded2 t.m (by omega), read2_padded2 t.d (by omega)]
  refine ⟨t, ht, hr, by rw [hr]; exact hs, by simp [tokYY, digits2], ?_, ?_⟩
  · unfold tokYY; exact read2_digits2 _ (Nat.mod_lt _ (by decide))
  · unfold tokYY tokYYYY; rw [read4_digits t.y hy1 hy2, read2_digits2 _ (Nat.mod_lt _ (by decide))]

example : tokYY ⟨2005, 3, 4⟩ = [0, 5] ∧ layoutDMY ⟨2005, 3, 4⟩ = ([0, 4], [0, 3], [2, 0, 0, 5]) := by decide

/-- non-vacuity: a leap day inside the range satisfies the hypotheses -/
example : valid ⟨2020, 2, 29⟩ = true ∧ toSerial ⟨2020, 2, 29⟩ = some 43890 := by decide

end IronCalc.Dates
