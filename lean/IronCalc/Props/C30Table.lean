import IronCalc.Sheet.Styles
import IronCalc.Generated.NumFmts
/-
  C30 — obligations on the built-in number-format table extracted from the running code
  (Generated/NumFmts.lean is rewritten by `verif_harness extract` on every check; these theorems
  are re-checked against whatever the code currently says).
-/
namespace IronCalc.Sheet.Styles
open IronCalc.Generated

/-- the table is not empty (`DEFAULT_NUM_FMTS[0]` is the fallback of get_num_fmt) -/
theorem builtin_table_nonempty : builtinNumFmts ≠ [] := by decide

/-- the model's first-match lookup is what the running get_default_num_fmt_id answers, for every
    code of the table and for codes outside it -/
theorem builtin_ids_agree :
    builtinNumFmts.map (getDefaultNumFmtId builtinNumFmts) = builtinDefaultIds ∧
    ["", "General", "0.000", "#,##0.0", "yyyy-mm-dd"].map (getDefaultNumFmtId builtinNumFmts) = absentDefaultIds := by
  decide +kernel

/-- every built-in code is interned under an id that get_num_fmt resolves back to that code
    (duplicated codes such as the reserved "general" ids go to their first occurrence) -/
theorem builtin_first_match_ok :
    ∀ code ∈ builtinNumFmts, ∃ i, getDefaultNumFmtId builtinNumFmts code = some i ∧
      (getNumFmt builtinNumFmts i []).toOption = some code := by
  have h : builtinNumFmts.all (fun code =>
      match getDefaultNumFmtId builtinNumFmts code with
      | some i => decide ((getNumFmt builtinNumFmts i []).toOption = some code)
      | none => false) = true := by decide +kernel
  intro code hc
  have := List.all_eq_true.mp h code hc
  cases hd : getDefaultNumFmtId builtinNumFmts code with
  | none => simp [hd] at this
  | some i => exact ⟨i, rfl, by simpa [hd] using this⟩

/-- ids past the table resolve to the first entry, in the code as in the model -/
theorem builtin_fallback_is_first :
    outOfRangeNumFmts.map some =
      [builtinNumFmts.length, builtinNumFmts.length + 1, 1000000].map
        (fun (i : Nat) => (getNumFmt builtinNumFmts (Int.ofNat i) []).toOption) := by
  decide +kernel

end IronCalc.Sheet.Styles
