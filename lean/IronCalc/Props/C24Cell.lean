import IronCalc.Io.XlsxCellProofs
/-
  C24 — the cell level of the sheet XML: what the exporter's cell writer writes, the importer's cell
  reader reads back.  Property theorems only (helpers in Io/XlsxCellProofs.lean).
  Model: Io/XlsxCell.lean (models the per-cell match of xlsx/src/export/worksheets.rs::get_worksheet_xml
  and the cell reader of xlsx/src/import/worksheets.rs::load_sheet / get_cell_from_excel).
-/
namespace IronCalc.XlsxCell
open IronCalc.Codec IronCalc.XlsxEscape

/-- an `i32` -/
def I32 (i : Int) : Prop := -2147483648 ≤ i ∧ i ≤ 2147483647

def FVal.evaluated {N : Type} : FVal N → Prop
  | .unevaluated => False
  | _ => True

/-- What the cell level assumes of a cell at (row, col) of a sheet and of the reader's context:
    integers are `i32`; a formula value is evaluated (the exporter panics otherwise); the sheet name has no
    `!` (else `parse_reference` fails on `name!ref` and the import is an error); the second corner of an
    array formula's range is in the grid (else the exporter skips the cell / the importer rejects the ref);
    and the reader's array context is the cell's own: a spill cell lies in the range of its anchor, any
    other value cell in no array range (a sheet-level invariant — exact spills, C31 — not modelled here). -/
def WF {N F : Type} (ctx : Ctx) (row col : Nat) : Cell N F → Prop
  | .empty s => I32 s ∧ ctx.anchor = none
  | .boolean _ s => I32 s ∧ ctx.anchor = none
  | .number _ s => I32 s ∧ ctx.anchor = none
  | .error _ s => I32 s ∧ ctx.anchor = none
  | .shared si s => I32 si ∧ I32 s
  | .formula _ s v => I32 s ∧ v.evaluated ∧ ctx.sheetName.contains 33 = false
  | .array _ s (w, h) _ v =>
    I32 s ∧ v.evaluated ∧ ctx.sheetName.contains 33 = false ∧
      1 ≤ (col : Int) + w - 1 ∧ (col : Int) + w - 1 ≤ 16384 ∧
      1 ≤ (row : Int) + h - 1 ∧ (row : Int) + h - 1 ≤ 1048576
  | .spill _ s a => I32 s ∧ ctx.anchor = some a

variable {N F : Type}

/-- the simp set that evaluates the reader on a written element -/
macro "cell_simp" "[" extra:Lean.Parser.Tactic.simpLemma,* "]" : tactic =>
  `(tactic| simp [readCell, attr_elem, lk_append, lk_cons, lk_nil, lk_style_other, lk_style_s, orElse_none',
      tAttr, cmAttr, named_elem, vEl_tag, fEl_tag, fArr_tag, cellValue, cellType, readFormula, cellFromExcel,
      vEl_text, fEl_text, fArr_text, fEl_attr, bool_read', readNum, readErr_errText, readI32_intToDec,
      decode_xLayer, normalise, normVal, $extra,*])

/-- **C24, cell level.**  For every cell of every arm — any value, any string, any style index, any array
    shape — at a grid position: the exporter's cell writer produces an element (it neither skips nor
    panics), and the importer's cell reader makes of that element exactly `normalise` of the cell. -/
theorem cell_roundtrip (nc : NumCodec N) (fc : FCodec F)
    (hnum : ∀ n, nc.parse (nc.show_ n) = some n)
    (ctx : Ctx) (row col : Nat)
    (hc1 : 1 ≤ col) (hc2 : col ≤ 16384) (hr1 : 1 ≤ row) (hr2 : row ≤ 1048576)
    (c : Cell N F) (hwf : WF ctx row col c) :
    ∃ e sst, writeCell nc fc row col c = .node e ∧
      readCell nc fc ctx e = .ok (normalise fc ctx.sheetName (numToCol col ++ natToDec row) c) sst := by
  have hname := cellName_eq row col hc1 hc2
  have hpos := parseReferenceA1_name col row hc1 hc2 hr1 hr2
  have hctx : ctx.sheetName.contains 33 = false →
      contextOk ctx.sheetName (numToCol col ++ natToDec row) = true :=
    contextOk_name ctx.sheetName col row
  cases c with
  | empty s =>
    obtain ⟨hs, ha⟩ := hwf
    refine ⟨_, ctx.sst, by simp [writeCell, hname]; rfl, ?_⟩
    cell_simp [hpos, readStyle_style s hs.1 hs.2, ha]
  | boolean v s =>
    obtain ⟨hs, ha⟩ := hwf
    refine ⟨_, ctx.sst, by simp [writeCell, hname]; rfl, ?_⟩
    cell_simp [hpos, readStyle_style s hs.1 hs.2, ha]
  | number v s =>
    obtain ⟨hs, ha⟩ := hwf
    refine ⟨_, ctx.sst, by simp [writeCell, hname]; rfl, ?_⟩
    cell_simp [hpos, readStyle_style s hs.1 hs.2, ha, hnum]
  | error e s =>
    obtain ⟨hs, ha⟩ := hwf
    refine ⟨_, ctx.sst, by simp [writeCell, hname]; rfl, ?_⟩
    cell_simp [hpos, readStyle_style s hs.1 hs.2, ha]
  | shared si s =>
    obtain ⟨hsi, hs⟩ := hwf
    refine ⟨_, ctx.sst, by simp [writeCell, hname]; rfl, ?_⟩
    cell_simp [hpos, readStyle_style s hs.1 hs.2, readI32_intToDec si hsi.1 hsi.2]
  | spill v s a =>
    obtain ⟨hs, ha⟩ := hwf
    cases v with
    | bool b =>
      refine ⟨_, ctx.sst, by simp [writeCell, hname]; rfl, ?_⟩
      cell_simp [hpos, readStyle_style s hs.1 hs.2, ha]
    | num n =>
      refine ⟨_, ctx.sst, by simp [writeCell, hname]; rfl, ?_⟩
      cell_simp [hpos, readStyle_style s hs.1 hs.2, ha, hnum]
    | err e =>
      refine ⟨_, ctx.sst, by simp [writeCell, hname]; rfl, ?_⟩
      cell_simp [hpos, readStyle_style s hs.1 hs.2, ha]
    | text t =>
      refine ⟨_, (intern ctx.sst t).2, by simp [writeCell, hname]; rfl, ?_⟩
      cell_simp [hpos, readStyle_style s hs.1 hs.2, ha]
  | formula f s v =>
    obtain ⟨hs, hv, hsh⟩ := hwf
    cases v with
    | unevaluated => exact absurd hv (by simp [FVal.evaluated])
    | bool b =>
      refine ⟨_, ctx.sst, by simp [writeCell, hname]; rfl, ?_⟩
      cell_simp [hpos, readStyle_style s hs.1 hs.2, hctx hsh]
    | num n =>
      refine ⟨_, ctx.sst, by simp [writeCell, hname]; rfl, ?_⟩
      cell_simp [hpos, readStyle_style s hs.1 hs.2, hctx hsh, hnum]
    | text t =>
      refine ⟨_, ctx.sst, by simp [writeCell, hname]; rfl, ?_⟩
      cell_simp [hpos, readStyle_style s hs.1 hs.2, hctx hsh]
    | err e o m =>
      refine ⟨_, ctx.sst, by simp [writeCell, hname]; rfl, ?_⟩
      cell_simp [hpos, readStyle_style s hs.1 hs.2, hctx hsh]
  | array f s r k v =>
    obtain ⟨w, h⟩ := r
    obtain ⟨hs, hv, hsh, hd1, hd2, hs1, hs2⟩ := hwf
    obtain ⟨range, c2, r2, hrange, hpr, ew, eh⟩ :
        ∃ (range : List Char) (c2 r2 : Int), rangeStr row col w h = some range ∧
          parseRange range = some ({ column := col, row := row, absCol := false, absRow := false },
                                   { column := c2, row := r2, absCol := false, absRow := false }) ∧
          c2 - (col : Int) + 1 = w ∧ r2 - (row : Int) + 1 = h :=
      ⟨_, _, _, rangeStr_eq row col w h hc1 hc2 hd1 hd2 hs1,
        parseRange_names col row ((col : Int) + w - 1).toNat ((row : Int) + h - 1).toNat
          hc1 hc2 hr1 hr2 (by omega) (by omega) (by omega) (by omega), by omega, by omega⟩
    cases v with
    | unevaluated => exact absurd hv (by simp [FVal.evaluated])
    | bool b =>
      refine ⟨_, ctx.sst, by simp [writeCell, hname, hrange]; rfl, ?_⟩
      cases k <;> cell_simp [hpos, readStyle_style s hs.1 hs.2, hctx hsh, fArr_attr, hpr, ew, eh]
    | num n =>
      refine ⟨_, ctx.sst, by simp [writeCell, hname, hrange]; rfl, ?_⟩
      cases k <;> cell_simp [hpos, readStyle_style s hs.1 hs.2, hctx hsh, fArr_attr, hpr, ew, eh, hnum]
    | text t =>
      refine ⟨_, ctx.sst, by simp [writeCell, hname, hrange]; rfl, ?_⟩
      cases k <;> cell_simp [hpos, readStyle_style s hs.1 hs.2, hctx hsh, fArr_attr, hpr, ew, eh]
    | err e o m =>
      refine ⟨_, ctx.sst, by simp [writeCell, hname, hrange]; rfl, ?_⟩
      cases k <;> cell_simp [hpos, readStyle_style s hs.1 hs.2, hctx hsh, fArr_attr, hpr, ew, eh]


/-- arm coverage: the cell writer is total — on every well-formed cell of every arm it produces an element -/
theorem writeCell_total (nc : NumCodec N) (fc : FCodec F) (hnum : ∀ n, nc.parse (nc.show_ n) = some n)
    (ctx : Ctx) (row col : Nat)
    (hc1 : 1 ≤ col) (hc2 : col ≤ 16384) (hr1 : 1 ≤ row) (hr2 : row ≤ 1048576)
    (c : Cell N F) (hwf : WF ctx row col c) : ∃ e, writeCell nc fc row col c = .node e := by
  obtain ⟨e, _, h, _⟩ := cell_roundtrip nc fc hnum ctx row col hc1 hc2 hr1 hr2 c hwf
  exact ⟨e, h⟩

/-- … and the only other outcomes are the two the Rust has: the `panic!` on an unevaluated formula … -/
theorem writeCell_unevaluated_panics (nc : NumCodec N) (fc : FCodec F) (row col : Nat) (f : F) (s : Int) :
    writeCell nc fc row col (.formula f s .unevaluated : Cell N F) = .panic := by
  unfold writeCell; cases cellName row col <;> rfl

/-- … and the `continue` on an array formula whose range leaves the grid on the right -/
theorem writeCell_array_outside_skips (nc : NumCodec N) (fc : FCodec F) (row col : Nat)
    (hc1 : 1 ≤ col) (hc2 : col ≤ 16384) (f : F) (s w h : Int) (k : Kind) (b : Bool)
    (hout : 16384 < (col : Int) + w - 1) :
    writeCell nc fc row col (.array f s (w, h) k (.bool b) : Cell N F) = .skip := by
  have hno : numberToColumn ((col : Int) + w - 1) = none := by
    unfold numberToColumn
    have : isValidColumnNumber ((col : Int) + w - 1) = false := by
      cases hv : isValidColumnNumber ((col : Int) + w - 1) with
      | false => rfl
      | true =>
        exfalso
        simp [isValidColumnNumber, LAST_COLUMN] at hv
        obtain ⟨_, h2⟩ := hv
        first | omega | (have := of_decide_eq_true h2; omega)
    simp [this]
  simp [writeCell, cellName_eq row col hc1 hc2, rangeStr, hno]

/-- When the formula text round-trips (C09: printer ∘ parser = id on this formula) and the value is not an
    error, `normalise` is the identity: the cell comes back exactly. -/
theorem normalise_id_of_formula_roundtrip (fc : FCodec F) (sn : Txt) (name : List Char) (f : F) (s : Int)
    (hf : fc.parse false (fc.print false f) = f) (b : Bool) :
    normalise fc sn name (.formula f s (.bool b) : Cell N F) = .formula f s (.bool b) := by
  simp [normalise, normVal, hf]

/-- a formula codec whose importer side inserts an `@` (code point 64) into NON-array formulas, as
    `from_a1_to_rc` does through `add_implicit_intersection` (F24g), and leaves array formulas alone -/
def atCodec : FCodec Txt := { print := fun _ f => f, parse := fun isArray t => if isArray then t else 64 :: t }

/-- F24g is an explicit exception, not hidden in `normalise`: with a parser that inserts an implicit
    intersection, the image of a non-array formula cell differs from the cell … -/
theorem F24g_formula_cell_changes (s : Int) (b : Bool) :
    normalise atCodec [] [] (.formula [] s (.bool b) : Cell N Txt) ≠ .formula [] s (.bool b) := by
  simp [normalise, normVal, atCodec]

/-- … while an ARRAY formula (dynamic or CSE) keeps its text: the importer inserts nothing there, which is why
    the exporter must not drop any `@` of an array formula (F24h, fixed) -/
theorem array_formula_text_kept (s : Int) (r : Int × Int) (k : Kind) (b : Bool) (f : Txt) :
    normalise atCodec [] [] (.array f s r k (.bool b) : Cell N Txt) = .array f s r k (.bool b) := by
  simp [normalise, normVal, atCodec]

/-- the second explicit difference: origin and message of an error VALUE of a formula are re-derived -/
theorem error_origin_rederived (fc : FCodec F) (sn : Txt) (name : List Char) (f : F) (s : Int) (e : ErrK)
    (o m : Txt) :
    normalise fc sn name (.formula f s (.err e o m) : Cell N F) =
      .formula (fc.parse false (fc.print false f)) s (.err e (originOf sn name) (txt (errText e))) := by
  simp [normalise, normVal]

/-- every error name the exporter writes is read back as the same error (all twelve) -/
theorem error_names_roundtrip (e : ErrK) : errOfTxt (txt (errText e)) = some e := errOfTxt_errText e

end IronCalc.XlsxCell
