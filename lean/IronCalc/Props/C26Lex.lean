import IronCalc.Book.ReloadLex
import IronCalc.Props.C09Lex
/-
  C26 at CHARACTER level — saving to and loading from the internal format is lossless for the
  formula TEXTS that are stored: `parse_R1C1 (lex_R1C1 (to_rc_format e)) = e`.
  Property theorems only.  Model: Book/ReloadLex.lean (stored text = rendered printer tokens; load =
  R1C1 lexer model then parser model).  The token-level statement stays in Props/C26.lean.
-/
namespace IronCalc.Book
open IronCalc.Formula IronCalc.Codec

/-- **Reload through the real pipeline's shape: text → R1C1 lexer → parser.**  For workbooks of any
    size: every cell whose formula is well-formed, avoids the failing entries of the paren table `T`,
    and has no glue site of the stored form (an `OpRange` whose unparenthesised left operand ends in
    a reference — F09-glue-refref / -qualified; `C09Lex_colon_glue_r1c1`) is read back exactly from
    the CHARACTERS `to_rc_format` wrote, for any configuration satisfying `CfgRC` and any
    interpretation of the payloads satisfying `InterpOK` (names must be `rcSafe`: F26-r1c-name). -/
theorem C26Lex_reload (cfg : LexCfg) (hcfg : CfgRC cfg) (I : Interp) (hI : InterpOK cfg I)
    (ab : List CTok → List Tok) (iv : Nat → Bool) (T : Table) (cs : List Cell)
    (h : ∀ c ∈ cs, c.content.okC cfg I ab iv T) :
    ∃ f0, ∀ f, f0 ≤ f → loadAllC cfg ab iv f (cs.map (saveCellC cfg I T)) = some cs :=
  reload_cellsC cfg hcfg I hI ab iv T cs h

/-- **… with the code's own printer table and the running code's R1C1/English lexer tables**
    (both re-extracted on every run) -/
theorem C26Lex_reload_stringify (I : Interp) (hI : InterpOK cfgRc I)
    (ab : List CTok → List Tok) (iv : Nat → Bool) (cs : List Cell)
    (h : ∀ c ∈ cs, c.content.okC cfgRc I ab iv IronCalc.Generated.parenStringify) :
    ∃ f0, ∀ f, f0 ≤ f →
      loadAllC cfgRc ab iv f (cs.map (saveCellC cfgRc I IronCalc.Generated.parenStringify)) = some cs :=
  reload_cellsC cfgRc cfgRc_ok I hI ab iv _ cs h

/-- one formula: `parse_R1C1 (lex_R1C1 (to_rc_format e)) = e` -/
theorem C26Lex_formula (cfg : LexCfg) (hcfg : CfgRC cfg) (I : Interp) (hI : InterpOK cfg I)
    (ab : List CTok → List Tok) (iv : Nat → Bool) (T : Table) (e : Node)
    (h : (Content.formula e).okC cfg I ab iv T) :
    ∃ f0, ∀ f, f0 ≤ f →
      P iv f 0 (ab (lex cfg (render cfg (concL I (pr T e))))) = some (e, []) := by
  obtain ⟨f0, hf⟩ := reload_contentC cfg hcfg I hI ab iv T (.formula e) h
  refine ⟨f0, fun f hle => ?_⟩
  have := hf f hle
  simp only [saveContentC, loadContentC] at this
  split at this
  · rename_i e' heq
    simp only [Option.some.injEq, Content.formula.injEq] at this
    subst this
    exact heq
  · cases this

/-! ### non-vacuity: a concrete interpretation of the stored form -/

/-- one spelling per literal class in R1C1 / English -/
def rcLit : LitClass → List CTok
  | .number => [.num "1.5".toList]
  | .string => [.str "a\"\"b".toList]
  | .error => [.err 4]
  | .ref => [.ref none rcRel]
  | .range => [.range none rcAbs rcMix]
  | .wrongRef => [.ref (some "Ghost".toList) rcMix]
  | .wrongRange => [.range (some "My Sheet".toList) rcRel rcAbs]
  | .array => [.lbrace, .num "1".toList, .comma, .sub, .num "2".toList, .semi, .bool true, .comma,
               .str [], .rbrace]

def rcI : Interp where
  lit c _ := rcLit c
  ident x := if x = 0 then .ident "LAMBDA".toList else if x % 4 = 3 then .bool (x % 8 = 3)
    else if x ≥ 1000 then .ident "ROUND".toList else .ident "xvar".toList
  sep := .comma
  cmp k := match k % 6 with | 0 => .lt | 1 => .gt | 2 => .eq | 3 => .le | 4 => .ge | _ => .ne

theorem rcI_ok : InterpOK cfgRc rcI where
  lit_ok := by
    intro c a
    show ∀ t, t ∈ rcLit c → tokOK cfgRc t = true
    cases c <;> decide +kernel
  lit_glue := by
    intro c a
    show glueFree cfgRc (rcLit c) = true
    cases c <;> decide +kernel
  lit_ne := by intro c a; show rcLit c ≠ []; cases c <;> simp [rcLit]
  lit_first := by
    intro c a
    show ∀ ch, (render cfgRc (rcLit c)).head? = some ch → ch ≠ '=' ∧ ch ≠ '>'
    have : ∀ c, (match (render cfgRc (rcLit c)).head? with
        | some ch => decide (ch ≠ '=') && decide (ch ≠ '>') | none => true) = true := by
      intro c; cases c <;> decide +kernel
    intro ch hch
    have h := this c
    rw [hch] at h
    simpa using h
  lit_last := by
    intro c a
    show ∀ t, (rcLit c).getLast? = some t → closeOK cfgRc t = true
    have : ∀ c, (match (rcLit c).getLast? with | some t => closeOK cfgRc t | none => true) = true := by
      intro c; cases c <;> decide +kernel
    intro t ht
    have h := this c
    rw [ht] at h
    exact h
  ident_ok := by
    intro x
    simp only [rcI]
    split
    · decide +kernel
    · split
      · cases (decide (x % 8 = 3)) <;> rfl
      · split <;> decide +kernel
  ident_kind := by
    intro x
    simp only [rcI]
    split
    · exact Or.inl ⟨_, rfl⟩
    · split
      · exact Or.inr ⟨_, rfl⟩
      · split <;> exact Or.inl ⟨_, rfl⟩
  sep_ok := Or.inl ⟨rfl, by decide⟩
  spill_close := by decide +kernel

/-- the reading of concrete tokens back into the parser's tokens for `rcI` (single-token literals) -/
def rcAbTok : CTok → Tok
  | .num _ => .lit .number 0
  | .str _ => .lit .string 0
  | .err _ => .lit .error 0
  | .ref none _ => .lit .ref 0
  | .ref (some _) _ => .lit .wrongRef 0
  | .range none _ _ => .lit .range 0
  | .range (some _) _ _ => .lit .wrongRange 0
  | .ident s => if s = "LAMBDA".toList then .ident 0 else if s = "ROUND".toList then .ident 1000 else .ident 4
  | .bool b => if b then .ident 3 else .ident 7
  | .cmp .lt => .op (.cmp 0) | .cmp .gt => .op (.cmp 1) | .cmp .eq => .op (.cmp 2)
  | .cmp .le => .op (.cmp 3) | .cmp .ge => .op (.cmp 4) | .cmp .ne => .op (.cmp 5)
  | .amp => .op .cat | .add => .op .add | .sub => .op .sub | .mul => .op .mul | .div => .op .div
  | .pow => .op .pow | .pct => .pct | .colon => .colon | .at => .at | .spill => .hash
  | .lp => .lp | .rp => .rp | .lbk => .lbk | .rbk => .rbk
  | _ => .sep

def rcAb (ts : List CTok) : List Tok := ts.map rcAbTok

/-- `-1.5+ROUND(,@xvar:xvar,1.5:R[0]C[-2],"a""b":xvar)<=LAMBDA(xvar,[xvar],xvar%)(#N/A#)`:
    every node kind except array literals; a number, a name and a string before `:` (safe in the stored form) -/
def rcTree : Node :=
  .bin (.cmp 3)
    (.bin .add (.neg (.lit .number 0))
      (.call 1000 (.consE (.consN (.rng (.at (.name 4)) (.name 4))
        (.consN (.rng (.lit .number 0) (.lit .ref 0)) (.consN (.rng (.lit .string 0) (.name 4)) .nil))))))
    (.lamcall [(4, false), (4, true)] (.pct (.name 4)) (.consN (.spill (.lit .error 0)) .nil))

def rcBook : List Cell :=
  [{ sheet := 0, row := 1, col := 1, style := 0, content := .plain 7 },
   { sheet := 0, row := 2, col := 1, style := 3, content := .formula rcTree },
   { sheet := 1, row := 5, col := 2, style := 1,
     content := .formula (.bin .mul (.lit .range 0) (.lit .wrongRef 0)) }]

example : ∀ c ∈ rcBook,
    c.content.okC cfgRc rcI rcAb (fun x => x % 4 == 0) IronCalc.Generated.parenStringify := by
  intro c hc
  simp only [rcBook, List.mem_cons, List.not_mem_nil, or_false] at hc
  rcases hc with rfl | rfl | rfl
  · trivial
  · exact ⟨by decide +kernel, by decide +kernel, by decide +kernel, by decide +kernel⟩
  · exact ⟨by decide +kernel, by decide +kernel, by decide +kernel, by decide +kernel⟩

/-- the glue site of the stored form is excluded by the hypothesis: `(RC[-2]):Ghost!R[3]C16384` -/
example : (Node.rng (.lit .ref 0) (.lit .wrongRef 0)).noGlue (csOf cfgRc rcI)
    IronCalc.Generated.parenStringify = false := by decide +kernel

end IronCalc.Book
