import IronCalc.Text.IndexSafety
import IronCalc.Text.FormatLayout
import IronCalc.Text.FormatLayoutProofs
import IronCalc.Props.C20
/-
  C11 — text inputs never crash the engine.  A panic is a run-time event; what is logic is the
  index arithmetic.  For each kernel of Text/IndexSafety.lean (the Rust code re-written with every
  slice / index access checked) the theorem `no_panic_<kernel>` states, for ALL inputs, that the
  checked access never fails.  Everything else (control flow of the lexer / parser / formatter,
  `as` casts, recursion depth, allocation) is only fuzzed by the harness — level: partial.
-/
namespace IronCalc.Props.C11
open IronCalc.IndexSafety

theorem getElem?_of_lt {α} (a : Array α) (i : Nat) (h : i < a.size) : a[i]? = some a[i] := by
  simp [h]

theorem consumeStringLoop_no_panic (chars : Array Char) :
    ∀ fuel position acc, consumeStringLoop chars fuel position acc ≠ .panic := by
  intro fuel
  induction fuel with
  | zero => intro p a; simp [consumeStringLoop]
  | succ n ih =>
    intro p a
    unfold consumeStringLoop
    split
    · rename_i h
      rw [getElem?_of_lt chars p h]
      simp only []
      split
      · exact ih _ _
      · split
        · rename_i h2
          rw [getElem?_of_lt chars (p + 1) h2]
          simp only []
          split
          · exact ih _ _
          · simp
        · simp
    · simp

theorem no_panic_consume_string (chars : Array Char) (position : Nat) :
    consumeString chars position ≠ .panic := consumeStringLoop_no_panic chars _ _ _

theorem singleQuoteLoop_no_panic (chars : Array Char) :
    ∀ fuel position, singleQuoteLoop chars fuel position ≠ .panic := by
  intro fuel
  induction fuel with
  | zero => intro p; simp [singleQuoteLoop]
  | succ n ih =>
    intro p
    unfold singleQuoteLoop
    split
    · rename_i h
      rw [getElem?_of_lt chars p h]
      simp only []
      split
      · split
        · simp
        · rename_i h2
          have h3 : p + 1 < chars.size := by omega
          rw [getElem?_of_lt chars (p + 1) h3]
          simp only []
          split
          · simp
          · exact ih _
      · exact ih _
    · simp

/-- the loop only succeeds after reading a quote, i.e. at a position ≥ start + 1 and ≤ len -/
theorem singleQuoteLoop_bounds (chars : Array Char) :
    ∀ fuel position q, singleQuoteLoop chars fuel position = .ok (q, true) → position + 1 ≤ q ∧ q ≤ chars.size := by
  intro fuel
  induction fuel with
  | zero => intro p q; simp [singleQuoteLoop]
  | succ n ih =>
    intro p q
    unfold singleQuoteLoop
    split
    · rename_i h
      rw [getElem?_of_lt chars p h]
      simp only []
      split
      · split
        · intro e; simp at e; omega
        · rename_i h2
          have h3 : p + 1 < chars.size := by omega
          rw [getElem?_of_lt chars (p + 1) h3]
          simp only []
          split
          · intro e; simp at e; omega
          · intro e; have := ih _ _ e; omega
      · intro e; have := ih _ _ e; omega
    · simp

theorem no_panic_consume_single_quote_string (chars : Array Char) (start : Nat) :
    consumeSingleQuoteString chars start ≠ .panic := by
  unfold consumeSingleQuoteString
  split
  · rename_i h; exact absurd h (singleQuoteLoop_no_panic chars _ _)
  · simp
  · rename_i position success h
    cases success with
    | false => simp
    | true =>
      have hb := singleQuoteLoop_bounds chars _ _ _ h
      have h0 : position ≠ 0 := by omega
      simp only [Bool.not_true, Bool.false_eq_true, if_false, h0]
      have hs : slice chars start (position - 1) = .ok ((chars.toList.drop start).take (position - 1 - start)) := by
        unfold slice
        have : start ≤ position - 1 ∧ position - 1 ≤ chars.size := by omega
        simp [this]
      rw [hs]
      simp

theorem no_panic_consume_error (chars : Array Char) (position : Nat) :
    readThenConsumeError chars position ≠ .panic := by
  unfold readThenConsumeError slice
  split
  · have : ¬ (position + 1 = 0) := by omega
    simp only [this, if_false]
    simp
    omega
  · simp

theorem digitsLoop_no_panic (bs : Array UInt8) :
    ∀ fuel i acc, digitsLoop bs fuel i acc ≠ .panic := by
  intro fuel
  induction fuel with
  | zero => intro i a; simp [digitsLoop]
  | succ n ih =>
    intro i a
    unfold digitsLoop
    split
    · rename_i h
      rw [getElem?_of_lt bs i h]
      simp only []
      split
      · exact ih _ _
      · simp
    · simp

theorem rd_ok (bs : Array UInt8) (i : Nat) (h : i < bs.size) : rd bs i = .ok bs[i] := by
  simp [rd, h]

theorem scanWhile_no_panic (part : Array Char) (pred : Char → Bool) :
    ∀ fuel i, scanWhile part pred fuel i ≠ .panic := by
  intro fuel
  induction fuel with
  | zero => intro i; simp [scanWhile]
  | succ n ih =>
    intro i
    unfold scanWhile
    split
    · rename_i h
      rw [getElem?_of_lt part i h]
      simp only []
      split
      · exact ih _
      · simp
    · simp

/-- the scan never moves backwards nor past the end -/
theorem scanWhile_bounds (part : Array Char) (pred : Char → Bool) :
    ∀ fuel i j, i ≤ part.size → scanWhile part pred fuel i = .ok j → i ≤ j ∧ j ≤ part.size := by
  intro fuel
  induction fuel with
  | zero => intro i j _; simp [scanWhile]
  | succ n ih =>
    intro i j hi
    unfold scanWhile
    split
    · rename_i h
      rw [getElem?_of_lt part i h]
      simp only []
      split
      · intro e; have := ih _ _ (by omega) e; omega
      · intro e; simp at e; omega
    · intro e; simp at e; omega

theorem lastNonZeroLoop_no_panic (b : Array Char) (l : Nat) (hl : l < b.size) :
    ∀ fuel i, lastNonZeroLoop b l fuel i ≠ .panic := by
  intro fuel
  induction fuel with
  | zero => intro i; simp [lastNonZeroLoop]
  | succ n ih =>
    intro i
    unfold lastNonZeroLoop
    split
    · have h : l - i < b.size := by omega
      rw [getElem?_of_lt b (l - i) h]
      simp only []
      split
      · simp
      · exact ih _
    · simp

theorem lastNonZeroLoop_bounds (b : Array Char) (l : Nat) :
    ∀ fuel i x, lastNonZeroLoop b l fuel i = .ok (some x) → x ≤ l + 1 := by
  intro fuel
  induction fuel with
  | zero => intro i x; simp [lastNonZeroLoop]
  | succ n ih =>
    intro i x
    unfold lastNonZeroLoop
    split
    · split
      · simp
      · split
        · intro e; simp at e; omega
        · exact ih _ _
    · simp

theorem no_panic_get_fract_part (b : Array Char) (intLen : Nat) (hb : b.size ≠ 0) :
    getFractPartIdx b intLen ≠ .panic := by
  unfold getFractPartIdx
  simp only [hb, if_false]
  have hnp := lastNonZeroLoop_no_panic b (b.size - 1) (by omega) (b.size - 1) 0
  cases h : lastNonZeroLoop b (b.size - 1) (b.size - 1) 0 with
  | panic => exact absurd h hnp
  | fuel => simp
  | ok r =>
    simp only []
    have hM : 1 ≤ (if intLen > 15 then 2 else 15 - intLen + 1) := by split <;> omega
    generalize (if intLen > 15 then 2 else 15 - intLen + 1) = M at hM
    have key : ∀ lnz, lnz ≤ b.size →
        (if lnz < 2 then Outcome.ok [] else slice b 2 (min lnz (M + 1))) ≠ Outcome.panic := by
      intro lnz hr
      by_cases h2 : lnz < 2
      · simp [h2]
      · simp only [h2, if_false]
        unfold slice
        have : 2 ≤ min lnz (M + 1) ∧ min lnz (M + 1) ≤ b.size := by omega
        simp only [this, and_self, if_true]
        simp
    cases r with
    | none => exact key (b.size - 1) (by omega)
    | some x => exact key x (by have := lastNonZeroLoop_bounds b _ _ _ _ h; omega)

/-- the precondition is necessary: on an empty vector `b.len() - 1` underflows -/
theorem get_fract_part_panics_on_empty : getFractPartIdx #[] 0 = .panic := by decide

theorem no_panic_cycle_endpoint (part : Array Char) : cycleEndpointIdx part ≠ .panic := by
  unfold cycleEndpointIdx
  simp only []
  have h0 : (if part[0]? = some '$' then 1 else 0) ≤ part.size := by
    split
    · rename_i h
      cases hs : part.size with
      | zero => simp [Array.getElem?_eq_none, hs] at h
      | succ n => omega
    · omega
  generalize (if part[0]? = some '$' then 1 else 0) = i0 at h0
  split
  · rename_i h; exact absurd h (scanWhile_no_panic part _ _ _)
  · simp
  · rename_i i1 h1
    have b1 := scanWhile_bounds part _ _ _ _ h0 h1
    have hs1 : slice part i0 i1 = .ok ((part.toList.drop i0).take (i1 - i0)) := by
      unfold slice; simp [b1]
    rw [hs1]
    simp only []
    by_cases hlt : i1 < part.size
    · simp only [hlt, if_true, getElem?_of_lt part i1 hlt]
      split
      · rename_i h; split at h <;> simp at h
      · rename_i h; split at h <;> simp at h
      · rename_i i2 h2
        have hi2 : i1 ≤ i2 ∧ i2 ≤ part.size := by
          split at h2 <;> (simp at h2; omega)
        split
        · rename_i h; exact absurd h (scanWhile_no_panic part _ _ _)
        · simp
        · rename_i i3 h3
          have b3 := scanWhile_bounds part _ _ _ _ hi2.2 h3
          have hs3 : slice part i2 i3 = .ok ((part.toList.drop i2).take (i3 - i2)) := by
            unfold slice; simp [b3]
          rw [hs3]; simp
    · simp only [hlt, if_false]
      split
      · rename_i h; exact absurd h (scanWhile_no_panic part _ _ _)
      · simp
      · rename_i i3 h3
        have b3 := scanWhile_bounds part _ _ _ _ b1.2 h3
        have hs3 : slice part i1 i3 = .ok ((part.toList.drop i1).take (i3 - i1)) := by
          unfold slice; simp [b3]
        rw [hs3]; simp

theorem bind_no_panic {α β : Type} (x : Outcome α) (f : α → Outcome β)
    (hx : x ≠ .panic) (hf : ∀ a, x = .ok a → f a ≠ .panic) : x.bind f ≠ .panic := by
  cases x with
  | ok a => exact hf a rfl
  | panic => exact absurd rfl hx
  | fuel => simp [Outcome.bind]

theorem rd_no_panic (bs : Array UInt8) (i : Nat) (h : i < bs.size) : rd bs i ≠ .panic := by
  simp [rd, h]

theorem r1c1RowHead_no_panic (bs : Array UInt8) (h : 4 ≤ bs.size) : r1c1RowHead bs ≠ .panic := by
  unfold r1c1RowHead
  refine bind_no_panic _ _ (rd_no_panic bs 1 (by omega)) ?_
  intro c1 _
  split
  · refine bind_no_panic _ _ (rd_no_panic bs 2 (by omega)) ?_
    intro c2 _
    split <;> simp
  · simp

theorem r1c1Close_no_panic (bs : Array UInt8) (a : Bool) (i : Nat) : r1c1Close bs a i ≠ .panic := by
  unfold r1c1Close
  split
  · split
    · simp
    · refine bind_no_panic _ _ (rd_no_panic bs i (by omega)) ?_
      intro c _
      split <;> simp
  · simp

theorem r1c1ColHead_no_panic (bs : Array UInt8) (i : Nat) : r1c1ColHead bs i ≠ .panic := by
  unfold r1c1ColHead
  split
  · rename_i h
    refine bind_no_panic _ _ (rd_no_panic bs i h) ?_
    intro c _
    split
    · simp only []
      split
      · rename_i h2
        refine bind_no_panic _ _ (rd_no_panic bs (i + 1) h2) ?_
        intro d _
        split <;> simp
      · simp
    · simp
  · simp

theorem no_panic_parse_reference_r1c1 (bs : Array UInt8) : parseReferenceR1C1 bs ≠ .panic := by
  unfold parseReferenceR1C1
  simp only []
  split
  · simp
  · rename_i hlen
    refine bind_no_panic _ _ (rd_no_panic bs 0 (by omega)) ?_
    intro c0 _
    split
    · simp
    · refine bind_no_panic _ _ (r1c1RowHead_no_panic bs (by omega)) ?_
      intro ⟨i, absRow, rowPre⟩ _
      refine bind_no_panic _ _ (digitsLoop_no_panic bs _ _ _) ?_
      intro ⟨i, rowDigits⟩ _
      refine bind_no_panic _ _ (r1c1Close_no_panic bs _ _) ?_
      intro oi _
      cases oi with
      | none => simp
      | some i =>
        simp only []
        split
        · simp
        · rename_i hi
          refine bind_no_panic _ _ (rd_no_panic bs i (by omega)) ?_
          intro c _
          split
          · simp
          · refine bind_no_panic _ _ (r1c1ColHead_no_panic bs _) ?_
            intro ⟨i, absCol, colPre⟩ _
            refine bind_no_panic _ _ (digitsLoop_no_panic bs _ _ _) ?_
            intro ⟨i, colDigits⟩ _
            refine bind_no_panic _ _ (r1c1Close_no_panic bs _ _) ?_
            intro oi _
            cases oi with
            | none => simp
            | some i => simp only []; split <;> simp

/-- the `len < 4` guard is what protects the two unguarded reads: with `len < 2` instead, "R[" panics -/
example : (rd #[82, 91] 2) = .panic := by decide


/-! ### digit-placement loops of `format.rs` (the model of C20 with its `panicked` flag) -/

open IronCalc.Format in
/-- `int_part[number_index]` / `int_part[i]`: for every digit string longer than the number of
    placeholders and every block of placeholders of any kinds, no index leaves the digit vector -/
theorem no_panic_digit_placement_run (p : NumberPart) (loc : Loc) (ip fp : List Char) (ks : List Char)
    (hbig : p.digitCount < ip.length) (hks : ks.length = p.digitCount) :
    ((intToks ks 0).foldl (layoutStep p loc false ip fp) {}).panicked = false := by
  exact (IronCalc.Props.C20.int_block_big p loc ip fp hbig ks 0 0 {} (by omega) rfl rfl).2

/-! ### non-vacuity: the kernels compute something on concrete inputs -/

example : consumeString #['"', 'a', '"', '"', 'b', '"', 'x'] 1 = .ok (['a', '"', '"', 'b'], 6, true) := by decide
example : consumeString #['"', 'a'] 1 = .ok (['a'], 2, false) := by decide
example : consumeSingleQuoteString #['\'', 'a', '\'', '\'', 'b', '\'', '!'] 1 = .ok (some (['a', '\'', '\'', 'b'], 6)) := by decide
example : consumeSingleQuoteString #['\'', 'a', '\''] 1 = .ok (some (['a'], 3)) := by decide
example : readThenConsumeError #['#', 'R', 'E', 'F', '!'] 0 = .ok ['#', 'R', 'E', 'F', '!'] := by decide
example : parseReferenceR1C1 #[82, 91, 45, 49, 93, 67, 50] = .ok (some ⟨false, [45, 49], true, [50]⟩) := by decide
example : parseReferenceR1C1 #[82, 91, 45] = .ok none := by decide
example : getFractPartIdx #['0', '.', '1', '4', '0'] 1 = .ok ['1', '4'] := by decide
example : getFractPartIdx #['1', '.', '0', '0'] 0 = .ok [] := by decide
example : cycleEndpointIdx #['$', 'A', 'b', '$', '1', '2'] = .ok (['A', 'b'], ['1', '2'], 6) := by decide

/-! ### `structured_references.rs::consume_column_reference` -/

theorem columnRefLoop_no_panic (chars : Array Char) (e : Char) :
    ∀ fuel position, columnRefLoop chars e fuel position ≠ .panic := by
  intro fuel
  induction fuel with
  | zero => intro p; simp [columnRefLoop]
  | succ n ih =>
    intro p
    unfold columnRefLoop
    split
    · rename_i h
      rw [getElem?_of_lt chars p h]
      simp only []
      split
      · split
        · split
          · simp
          · exact ih _
        · exact ih _
      · simp
    · simp

/-- the scan never moves backwards and never passes the end of the input -/
theorem columnRefLoop_bounds (chars : Array Char) (e : Char) :
    ∀ fuel position q, position ≤ chars.size → columnRefLoop chars e fuel position = .ok (some q) →
      position ≤ q ∧ q ≤ chars.size := by
  intro fuel
  induction fuel with
  | zero => intro p q _; simp [columnRefLoop]
  | succ n ih =>
    intro p q hp
    unfold columnRefLoop
    split
    · rename_i h
      rw [getElem?_of_lt chars p h]
      simp only []
      split
      · split
        · split
          · simp
          · rename_i hne
            intro hq
            have := ih (p + 1 + 1) q (by omega) hq
            omega
        · intro hq
          have := ih (p + 1) q (by omega) hq
          omega
      · intro hq; simp at hq; omega
    · intro hq; simp at hq; omega

theorem no_panic_consume_column_reference (chars : Array Char) (start : Nat) (hs : start ≤ chars.size) :
    consumeColumnReference chars start ≠ .panic := by
  unfold consumeColumnReference
  simp only []
  have hstart : (if chars[start]? = some '[' then start + 1 else start) ≤ chars.size := by
    split
    · rename_i h
      by_cases hlt : start < chars.size
      · omega
      · have : chars[start]? = none := by simp; omega
        rw [this] at h; simp at h
    · exact hs
  generalize (if chars[start]? = some '[' then start + 1 else start) = st at hstart
  cases h : columnRefLoop chars (if chars[start]? = some '[' then ']' else ')') (chars.size + 1) st with
  | panic => exact absurd h (columnRefLoop_no_panic chars _ _ _)
  | fuel => simp
  | ok r =>
    cases r with
    | none => simp
    | some q =>
      have b := columnRefLoop_bounds chars _ _ _ _ hstart h
      have hsl : slice chars st q = .ok ((chars.toList.drop st).take (q - st)) := by
        unfold slice; simp [b]
      simp only [hsl]
      simp

/-- the new position never exceeds `len + 1` (it IS `len + 1` for an unclosed `[name`) -/
example : consumeColumnReference #['[', 'a', '\'', ']', 'b', ']', '+'] 0 = .ok (some (['a', '\'', ']', 'b'], 6)) := by decide
example : consumeColumnReference #['[', 'a', '\''] 0 = .ok none := by decide
example : consumeColumnReference #['[', 'a'] 0 = .ok (some (['a'], 3)) := by decide

end IronCalc.Props.C11
