import IronCalc.Book.SheetsProofs
/-
  C17 — Sheet rename, move and duplicate preserve values.
  Property theorems only.  Model: Formula/Rename.lean (`rename_sheet_in_node`, arm by arm) and
  Book/Sheets.lean (`rename_sheet_by_index`, `move_sheet`, `duplicate_sheet`, re-resolution by name
  = `reset_parsed_structures`).  The model is the REPAIRED code (`fixed = true`): the
  `WrongRangeKind` arm of `rename_sheet_in_node` leaves the node alone (fix of F17a); the pinned arm
  (`fixed = false`) is kept in the model and refuted below.

  "Value" statements are stated on `Book.erased`: the workbook as an evaluator that reads only
  through resolved references sees it (per sheet id, the formulas with every reference replaced
  by the id of the sheet it reads, `none` = #REF!).  Equal erasures ⇒ equal values for every
  such evaluator; formulas reading sheet names or formula text (SHEET, SHEETS, CELL,
  FORMULATEXT, INDIRECT) are outside (they read `SheetRes.name` / the text).
-/
namespace IronCalc.Book
open IronCalc.RefTree

/-- forget the displayed prefix, keep what each reference resolves to -/
def resolutionOf : Node → Tree (Option Nat) NameRes := Tree.map (fun _ r => r.idx) (fun v n => (v, n))

/-- **C17 (rename), commutation.** After a successful `rename_sheet_by_index i new`, parsing the
    stored formulas again (against the new name vector) yields exactly the old parse trees with
    `rename_sheet_in_node` applied — for every workbook with unique names, provided no reference
    to a *nonexistent* sheet spells the new name (then the rename creates that sheet). -/
theorem rename_preserves_resolution {F : Fold} {b b' : Book} {i : Nat} {new : String}
    (hU : b.UniqueNames F) (h : renameSheet true F b i new = .ok b') (hG : b.ghostFresh new = true) :
    b'.parsed F = (b.parsed F).map (List.map (renameSheetInNode true i new)) :=
  rename_parsed hU h hG

/-- every reference that resolved to sheet `j` still resolves to `j`, every reference that did not
    resolve still does not (formula by formula, reference by reference) -/
theorem rename_resolution_unchanged {F : Fold} {b b' : Book} {i : Nat} {new : String}
    (hU : b.UniqueNames F) (h : renameSheet true F b i new = .ok b') (hG : b.ghostFresh new = true) :
    (b'.parsed F).map (List.map resolutionOf) = (b.parsed F).map (List.map resolutionOf) := by
  rw [rename_parsed hU h hG, List.map_map]
  apply List.map_congr_left
  intro l _
  simp only [Function.comp, List.map_map]
  apply List.map_congr_left
  intro n _
  simp only [Function.comp]
  unfold resolutionOf renameSheetInNode
  rw [Tree.map_map]
  apply Tree.map_congr
  · intro kr _; exact renameSheetRef_idx true i new kr.1 kr.2
  · intro _ _; rfl

/-- what is displayed: a reference shows the new name iff it resolved to the renamed sheet and had
    an explicit prefix; every other reference (other sheets, nonexistent sheets, implicit) keeps
    its text -/
theorem rename_display (i : Nat) (new : String) (k : RefKind) (r : SheetRes) :
    (renameSheetRef true i new k r).name = if r.idx = some i ∧ r.name.isSome then some new else r.name :=
  renameSheetRef_name i new k r

/-- the stored text of references to other sheets, existing or not, is unchanged by the rewrite -/
theorem rename_other_refs_unchanged (i : Nat) (new : String) (k : RefKind) (r : SheetRes)
    (h : r.idx ≠ some i) : renameSheetRef true i new k r = r := by
  have h1 := renameSheetRef_name i new k r
  have h2 := renameSheetRef_idx true i new k r
  simp only [h, false_and, if_false] at h1
  cases r; cases hr : renameSheetRef true i new k _; simp_all

/-- **values**: what an evaluator reading through resolved references sees is unchanged by a
    rename (same sheet ids in the same order, each formula reading the same sheet ids) -/
theorem rename_preserves_evaluator_input {F : Fold} {b b' : Book} {i : Nat} {new : String}
    (hU : b.UniqueNames F) (h : renameSheet true F b i new = .ok b') (hG : b.ghostFresh new = true) :
    b'.erased F = b.erased F := by
  have hp := rename_parsed hU h hG
  obtain ⟨_, hids, _⟩ := rename_vectors h
  unfold Book.erased
  unfold Book.parsed at hp
  apply List.ext_getElem?
  intro p
  have hp' := congrArg (fun l => l[p]?) hp
  simp only [List.getElem?_map] at hp' ⊢
  have hid : (b'.sheets[p]?).map (·.id) = (b.sheets[p]?).map (·.id) := by
    have := congrArg (fun l => l[p]?) hids
    simpa [List.getElem?_map] using this
  cases h1 : b'.sheets[p]? with
  | none =>
    cases h2 : b.sheets[p]? with
    | none => rfl
    | some ws => rw [h1, h2] at hid; cases hid
  | some ws' =>
    cases h2 : b.sheets[p]? with
    | none => rw [h1, h2] at hid; cases hid
    | some ws =>
      rw [h1, h2] at hid hp'
      simp only [Option.map_some, Option.some.injEq] at hid hp' ⊢
      rw [hp', hid, List.map_map]
      congr 1
      apply List.map_congr_left
      intro n _
      simp only [Function.comp]
      unfold erase renameSheetInNode
      rw [Tree.map_map]
      apply Tree.map_congr
      · intro kr _
        rw [renameSheetRef_idx]
        cases kr.2.idx with
        | none => rfl
        | some j => exact idAt_congr hids j
      · intro vn _
        simp only
        cases vn.1 with
        | none => rfl
        | some s =>
          cases s with
          | none => rfl
          | some j => simp [idAt_congr hids j]

/-- the full statement for the PINNED arm (`fixed = false`), and its refutation (F17a):
    `=SUM(Ghost!A1:A2)` on Sheet1, renaming the unrelated sheet `Other` to `Renamed` -/
def C17_rename_full_pinned : Prop :=
  ∀ (F : Fold) (b b' : Book) (i : Nat) (new : String), b.UniqueNames F →
    renameSheet false F b i new = .ok b' → b.ghostFresh new = true →
    (b'.parsed F).map (List.map fun n => (resolutionOf n).refs)
      = (b.parsed F).map (List.map fun n => (resolutionOf n).refs)

def witnessF17a : Book :=
  { sheets := [ { name := "Sheet1", id := 1,
                  formulas := [.op "SUM" [.ref .range (some "Ghost") "R1C1:R2C1"]] },
                { name := "Other", id := 2, formulas := [] } ],
    names := [] }

theorem C17_rename_full_pinned_false : ¬ C17_rename_full_pinned := by
  intro h
  have := h ⟨id, id⟩ witnessF17a
    { sheets := [ { name := "Sheet1", id := 1,
                    formulas := [.op "SUM" [.ref .range (some "Renamed") "R1C1:R2C1"]] },
                  { name := "Renamed", id := 2, formulas := [] } ],
      names := [] } 1 "Renamed" (by decide) rfl (by decide)
  revert this
  decide

/-- **C17 (move).** `move_sheet` permutes the worksheet vector and rewrites nothing; since
    resolution is by name and names are unique, every stored reference (from any context sheet)
    denotes the same sheet id as before. -/
theorem move_preserves_resolution {F : Fold} {b b' : Book} {i j : Nat}
    (hU : b.UniqueNames F) (h : moveSheet b i j = .ok b') :
    b'.sheets.Perm b.sheets ∧ b'.names = b.names ∧
      ∀ ctx sn, refId b'.sheets ctx sn = refId b.sheets ctx sn := by
  obtain ⟨hp, hn⟩ := moveSheet_perm h
  refine ⟨hp, hn, ?_⟩
  intro ctx sn
  rw [refId_eq, refId_eq]
  exact idByName_perm hp (uniqueMem_of_nodupUp F.up hU) _

/-- **C17 (duplicate).** The copy is inserted right after the source with a fresh valid name and a
    fresh id; each reference of a copied formula denotes, in the new workbook, what the source's
    reference denoted, with the source sheet replaced by the copy (implicit and explicit
    self-references go to the copy, other sheets and nonexistent sheets stay). -/
theorem duplicate_equivalent {F : Fold} {b b' : Book} {i : Nat} {newName : String}
    (hU : b.UniqueNames F) (hI : b.UniqueIds) (h : duplicateSheet true F b i = .ok (b', newName)) :
    ∃ src, b.sheets[i]? = some src ∧ isValidSheetName newName = true ∧
      F.up newName ∉ b.sheetNames.map F.up ∧ (∀ s ∈ b.sheets, s.id ≠ newSheetId b) ∧
      b'.sheets = b.sheets.insertIdx (i + 1)
        { name := newName, id := newSheetId b,
          formulas := src.formulas.map (rewriteFormula true F b i newName src.name) } ∧
      ∀ (k : RefKind) (sn : Option String), GhostOK b.sheetNames newName sn →
        refId b'.sheets newName
            (renameSheetRef true i newName k (resolveRef b.sheetNames src.name sn)).name
          = (refId b.sheets src.name sn).map (fun d => if d = src.id then newSheetId b else d) := by
  obtain ⟨src, hsrc, hv, hfresh, hs⟩ := duplicateSheet_inv h
  refine ⟨src, hsrc, hv, hfresh, ?_, hs, ?_⟩
  · intro s hs e
    have := newSheetId_gt b s hs
    omega
  · intro k sn hg
    rw [hs]
    exact dup_ref (copy := { name := newName, id := newSheetId b, formulas := _ }) hU hI hsrc hfresh k sn hg

/-- existing sheets are not rewritten by a duplicate and their references keep their meaning
    (unless they named the not-yet-existing copy) -/
theorem duplicate_others_unchanged {F : Fold} {b b' : Book} {i : Nat} {newName : String}
    (hU : b.UniqueNames F) (h : duplicateSheet true F b i = .ok (b', newName))
    (x : Sheet) (hx : x ∈ b.sheets) :
    x ∈ b'.sheets ∧ idByName b'.sheets x.name = idByName b.sheets x.name := by
  obtain ⟨src, hsrc, _, hfresh, hs⟩ := duplicateSheet_inv h
  have hlt : i < b.sheets.length := (List.getElem?_eq_some_iff.mp hsrc).1
  have hmem : ∀ y, y ∈ b'.sheets ↔ y = _ ∨ y ∈ b.sheets := fun y => by rw [hs]; exact List.mem_insertIdx hlt
  have hUm : UniqueMem b.sheets := uniqueMem_of_nodupUp F.up hU
  have hne : ∀ y ∈ b.sheets, y.name ≠ newName := by
    intro y hy e
    apply hfresh
    rw [← e]
    exact List.mem_map.mpr ⟨y.name, List.mem_map.mpr ⟨y, hy, rfl⟩, rfl⟩
  have hUm' : UniqueMem b'.sheets := by
    intro y z hy hz e
    rcases (hmem y).mp hy with rfl | hy' <;> rcases (hmem z).mp hz with rfl | hz'
    · rfl
    · exact absurd e.symm (hne z hz')
    · exact absurd e (hne y hy')
    · exact hUm y z hy' hz' e
  refine ⟨(hmem x).mpr (Or.inr hx), ?_⟩
  unfold idByName
  rw [find_of_mem hUm' ((hmem x).mpr (Or.inr hx)) rfl, find_of_mem hUm hx rfl]

/-! ### non-vacuity -/

def exBook : Book :=
  { sheets := [ { name := "Sheet1", id := 1,
                  formulas := [ .op "+" [.ref .cell (some "Other") "R1C1", .ref .cell none "R2C1"],
                                .op "SUM" [.ref .range (some "Ghost") "R1C1:R2C1", .ref .cell (some "Ghost") "R1C1"] ] },
                { name := "Other", id := 2, formulas := [.ref .cell (some "Sheet1") "R1C1", .ident () "myname"] },
                { name := "Third", id := 5, formulas := [] } ],
    names := [ { name := "myname", scope := none, formula := .ref .cell (some "Other") "R1C1" } ] }

/-- the hypotheses of the rename theorems are met by a workbook with cross-sheet references,
    references (cell and range) to a nonexistent sheet and a name needing quotes; and the result is
    the expected one -/
example : exBook.UniqueNames ⟨id, id⟩ ∧ exBook.ghostFresh "My Sheet" = true ∧
    (renameSheet true ⟨id, id⟩ exBook 1 "My Sheet").toOption.map (fun b' =>
        (b'.sheetNames, (b'.parsed ⟨id, id⟩).map (List.map fun n => n.refs))) =
      some (["Sheet1", "My Sheet", "Third"],
            [ [ [(.cell, ⟨some "My Sheet", some 1⟩), (.cell, ⟨none, some 0⟩)],
                [(.range, ⟨some "Ghost", none⟩), (.cell, ⟨some "Ghost", none⟩)] ],
              [ [(.cell, ⟨some "Sheet1", some 0⟩)], [] ], [] ]) := by decide

/-- outside the ghost condition the rename *does* capture: `Ghost!A1` resolves once a sheet is
    renamed to `Ghost` (the text is unchanged, as the property demands) -/
example : exBook.ghostFresh "Ghost" = false ∧
    (renameSheet true ⟨id, id⟩ exBook 2 "Ghost").toOption.map (fun b' =>
        ((b'.parsed ⟨id, id⟩).map (List.map fun n => n.refs))[0]?) =
      some (some [ [(.cell, ⟨some "Other", some 1⟩), (.cell, ⟨none, some 0⟩)],
                   [(.range, ⟨some "Ghost", some 2⟩), (.cell, ⟨some "Ghost", some 2⟩)] ]) := by decide

example : (moveSheet exBook 0 2).toOption.map (fun b' =>
      (b'.sheetNames, refId b'.sheets "Other" (some "Sheet1"), refId exBook.sheets "Other" (some "Sheet1")))
    = some (["Other", "Third", "Sheet1"], some 1, some 1) := by decide

example : exBook.UniqueIds ∧
    (duplicateSheet true ⟨id, id⟩ exBook 0).toOption.map (fun r =>
        (r.2, r.1.sheetNames, r.1.sheets.map (·.id)))
      = some ("Sheet1 (1)", ["Sheet1", "Sheet1 (1)", "Other", "Third"], [1, 6, 2, 5]) := by decide

/-- the duplicate name search truncates the base to fit 31 characters -/
example : dupCandidate "abcdefghijklmnopqrstuvwxyz01234" 12 = "abcdefghijklmnopqrstuvwxyz (12)" := by decide

end IronCalc.Book
