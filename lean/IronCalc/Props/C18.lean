import IronCalc.Text.Reenter
import IronCalc.Generated.C19Locales
import IronCalc.Generated.C18Languages
/-
  C18 — Re-entering a cell's displayed content reproduces the cell.
  Model: Text/Reenter.lean (`classify` models `Model::set_user_input`, `display` models
  `Model::get_localized_cell_content` + `Cell::get_localized_text`, `needsQuote` models
  `utils::value_needs_quoting`), on top of the recogniser model of C19 (Text/Number.lean).
  Property theorems only.
-/
namespace IronCalc.Reenter
open IronCalc.Number

/-- a text input that is classified as plain text is stored verbatim -/
theorem classify_text_eq (ℓ : Locale) (lang : Lang) (x s : List Char)
    (h : classify ℓ lang x = .text s) : s = x := by
  unfold classify at h
  split at h
  · cases h
  · cases h
  · split at h
    · cases h
    · split at h
      · cases h
      · split at h
        · cases h
        · split at h
          · cases h
          · cases h; rfl

/-- **strings stay strings (any text)**: `'` followed by ANY text — a number, a date, a boolean or
    error name of any language, a formula — is a quote-prefixed string cell with exactly that text,
    in every locale and language -/
theorem quoted_any_text (ℓ : Locale) (lang : Lang) (s : List Char) :
    classify ℓ lang ('\'' :: s) = .quoted s := rfl

/-- **C18 for string cells, all texts, all locales and languages**: whatever text cell (quote
    prefixed or not) or empty cell user input produced, typing its displayed content back is
    classified exactly like the original input (same text, same quote-prefix style, same type) -/
theorem reenter_string (ℓ : Locale) (lang : Lang) (x : List Char) (c : CellC)
    (hc : cellOf (classify ℓ lang x) = some c)
    (hstr : c = .empty ∨ ∃ s q, c = .text s q) :
    classify ℓ lang (display ℓ lang c) = classify ℓ lang x := by
  cases hi : classify ℓ lang x with
  | empty =>
    rw [hi] at hc; cases hc
    simp [display, classify]
  | quoted t =>
    rw [hi] at hc; cases hc
    simp [display, classify]
  | text s =>
    rw [hi] at hc; cases hc
    have := classify_text_eq ℓ lang x s hi
    subst this
    simp only [display]; exact hi
  | formula t => rw [hi] at hc; cases hc
  | number v k => rw [hi] at hc; cases hc
  | boolean b =>
    rw [hi] at hc; cases hc
    rcases hstr with h | ⟨s, q, h⟩ <;> cases h
  | error i =>
    rw [hi] at hc; cases hc
    rcases hstr with h | ⟨s, q, h⟩ <;> cases h

/-- the quote decision of `update_cell_with_text` covers booleans and errors: a text that
    `set_user_input` would read as a boolean or an error is quoted (all locales / languages) -/
theorem needsQuote_covers_bool_error (ℓ : Locale) (lang : Lang) (x : List Char)
    (h : (∃ b, classify ℓ lang x = .boolean b) ∨ (∃ i, classify ℓ lang x = .error i)) :
    needsQuote lang x = true := by
  unfold classify at h
  unfold needsQuote
  split at h
  · rcases h with ⟨_, h⟩ | ⟨_, h⟩ <;> cases h
  · rcases h with ⟨_, h⟩ | ⟨_, h⟩ <;> cases h
  · split at h
    · rcases h with ⟨_, h⟩ | ⟨_, h⟩ <;> cases h
    · split at h
      · rcases h with ⟨_, h⟩ | ⟨_, h⟩ <;> cases h
      · split at h
        · rename_i b hb; simp [hb]
        · split at h
          · rename_i i hi; simp [hi]
          · rcases h with ⟨_, h⟩ | ⟨_, h⟩ <;> cases h

/-! ### the finite part: boolean and error names of every language, in every locale (tables
    regenerated from the running code on every check) -/

def allPairs : List (Locale × Lang) :=
  IronCalc.Generated.C19.locales.flatMap fun l => IronCalc.Generated.C18.languages.map fun g => (l.2, g.2)

def errorsReenter (p : Locale × Lang) : Bool :=
  (List.range p.2.errors.length).all fun i =>
    classify p.1 p.2 (display p.1 p.2 (.error i)) == .error i

def boolsReenter (p : Locale × Lang) : Bool :=
  [true, false].all fun b => classify p.1 p.2 (display p.1 p.2 (.boolean b)) == .boolean b

/-- **the full statement on the finite part**: in every locale × language, every error value and
    every boolean shows a text that re-enters as the same error / boolean -/
def C18_full : Prop := allPairs.all (fun p => errorsReenter p && boolsReenter p) = true

/-- errors re-enter as the same error in all 6 locales × 5 languages (12 errors each) -/
theorem errors_reenter_all : allPairs.all errorsReenter = true := by decide +kernel

/-- booleans re-enter as booleans when the language is English (all 6 locales) -/
theorem bools_reenter_english :
    (IronCalc.Generated.C19.locales.all fun l =>
      (IronCalc.Generated.C18.languages.lookup "en").all fun g => boolsReenter (l.2, g)) = true := by
  decide +kernel

/-- **C18, partial** (finite part): all errors in all pairs, booleans in English -/
theorem C18_partial :
    allPairs.all errorsReenter = true ∧
    (IronCalc.Generated.C19.locales.all fun l =>
      (IronCalc.Generated.C18.languages.lookup "en").all fun g => boolsReenter (l.2, g)) = true :=
  ⟨errors_reenter_all, bools_reenter_english⟩

/-- defect F18a: the boolean parse is English-only while booleans are shown localized, so the full
    statement fails (Spanish `VERDADERO` re-enters as text) -/
theorem C18_full_false : ¬ C18_full := by
  unfold C18_full; decide +kernel

/-- F18a, the concrete witness -/
theorem F18a_spanish_boolean :
    (do let l ← IronCalc.Generated.C19.locales.lookup "es"
        let g ← IronCalc.Generated.C18.languages.lookup "es"
        pure (classify l g (display l g (.boolean true)))) = some (.text "VERDADERO".toList) := by
  decide +kernel

/-- defect F18c: `value_needs_quoting` only knows plain Rust floats, so `update_cell_with_text("5%")`
    makes an unquoted string cell whose content re-enters as the number 0.05 (likewise `1,5` in a
    comma locale, `$5`, `1/2/2020`) -/
theorem F18c_needsQuote_incomplete :
    (do let l ← IronCalc.Generated.C19.locales.lookup "en"
        let g ← IronCalc.Generated.C18.languages.lookup "en"
        pure (needsQuote g "5%".toList, classify l g "5%".toList == .text "5%".toList)) = some (false, false) := by
  decide +kernel

/-- defect F18b: a number shown in exponent form (`1e16`) re-enters with the scientific format kind
    (the style changes), while `1000000000000000` (1e15, shown in full) re-enters as general -/
theorem F18b_exponent_display :
    (do let l ← IronCalc.Generated.C19.locales.lookup "en"
        let g ← IronCalc.Generated.C18.languages.lookup "en"
        let k := fun (d : Shown) => match classify l g (printShown l.dec d) with
          | .number _ k => some k | _ => none
        pure (printShown l.dec ⟨false, ['1'], 16⟩, k ⟨false, ['1'], 16⟩, k ⟨false, ['1'], 15⟩))
    = some ("1e16".toList, some .scientific, some .general) := by
  decide +kernel

/-! ### all prior cell states

  `set_user_input` starts from the style the cell already has.  The statements below quantify over
  every prior style (`quote_prefix` flag and number format) — added after a seeded defect (a boolean
  typed over a quote-prefixed cell kept the quote prefix) showed that the fresh-cell statements say
  nothing about that state. -/

/-- after any input the quote-prefix flag is decided by the input alone (set exactly by a `'`
    prefix), whatever the cell's style was before: the invariant the seeded defect broke -/
theorem styleAfter_quote (st : Style) (i : Input) :
    (styleAfter st i).quote = (match i with | .quoted _ => true | _ => false) := by
  cases i <;> simp only [styleAfter]
  case number v k =>
    generalize k.format = o
    cases o with
    | none => rfl
    | some f => simp only [numStyle]; split <;> rfl

/-- a boolean (or error, text, number, formula, empty input) typed over a quote-prefixed cell
    clears the quote prefix -/
theorem unquoted_input_clears_quote (ℓ : Locale) (lang : Lang) (shownOf : Value → Shown) (st : Style)
    (x : List Char) (h : ∀ t, classify ℓ lang x ≠ .quoted t) :
    (applyInput ℓ lang shownOf st x).2.quote = false := by
  unfold applyInput
  rw [styleAfter_quote]
  cases hi : classify ℓ lang x <;> simp
  exact absurd hi (h _)

/-- applying the same classified input twice leaves the style it left the first time -/
theorem styleAfter_idem (st : Style) (i : Input) : styleAfter (styleAfter st i) i = styleAfter st i := by
  cases i <;> simp only [styleAfter]
  case number v k =>
    generalize k.format = o
    cases o with
    | none => rfl
    | some f =>
      simp only [numStyle]
      by_cases h1 : (isLikelyDate st.fmt && isLikelyDate (some f)) = true
      · simp only [h1, if_true]
      · simp only [h1]
        by_cases h2 : isLikelyDate (some f) = true
        · simp [h2]
        · simp [h2]

/-- **re-entry from ANY prior state**: if the content the editor shows for the cell that input `x`
    left (on a cell with any prior style `st`) is classified like `x` itself, typing it back leaves
    exactly the same cell: same content, same quote prefix, same number format -/
theorem reenter_prior (ℓ : Locale) (lang : Lang) (shownOf : Value → Shown) (st : Style) (x d : List Char)
    (hcls : classify ℓ lang d = classify ℓ lang x) :
    applyInput ℓ lang shownOf (applyInput ℓ lang shownOf st x).2 d = applyInput ℓ lang shownOf st x := by
  unfold applyInput
  simp only [hcls, styleAfter_idem]

/-- **strings stay strings from any prior state** (all texts, locales, languages, prior styles —
    quote-prefixed, date-, percent-, currency-formatted, …): an input that is empty, `'text` or plain
    text leaves a cell whose displayed content exists and, typed back, reproduces that cell -/
theorem reenter_prior_string (ℓ : Locale) (lang : Lang) (shownOf : Value → Shown) (st : Style) (x : List Char)
    (hx : classify ℓ lang x = .empty ∨ (∃ t, classify ℓ lang x = .quoted t) ∨ (∃ s, classify ℓ lang x = .text s)) :
    ∃ d, displayS ℓ lang (applyInput ℓ lang shownOf st x).1 (applyInput ℓ lang shownOf st x).2 = some d ∧
      applyInput ℓ lang shownOf (applyInput ℓ lang shownOf st x).2 d = applyInput ℓ lang shownOf st x := by
  rcases hx with h | ⟨t, h⟩ | ⟨s, h⟩
  · refine ⟨[], ?_, reenter_prior ℓ lang shownOf st x [] (by rw [h]; rfl)⟩
    simp [applyInput, h, contentAfter, styleAfter, displayS, contentText]
  · refine ⟨'\'' :: t, ?_, reenter_prior ℓ lang shownOf st x _ (by rw [h]; rfl)⟩
    simp [applyInput, h, contentAfter, styleAfter, displayS, contentText]
  · have hs := classify_text_eq ℓ lang x s h
    subst hs
    refine ⟨s, ?_, reenter_prior ℓ lang shownOf st s s rfl⟩
    simp [applyInput, h, contentAfter, styleAfter, displayS, contentText]

/-- **booleans and errors from any prior state**: when the name a boolean / error is shown with is
    classified as that boolean / error (decided for every locale × language pair by
    `errors_reenter_all` and `bools_reenter_english`), typing the displayed content back reproduces the
    cell whatever style the cell had before the boolean / error was typed -/
theorem reenter_prior_bool_error (ℓ : Locale) (lang : Lang) (shownOf : Value → Shown) (st : Style) (x : List Char)
    (c : Content) (hc : (∃ b, c = .bool b ∧ classify ℓ lang x = .boolean b) ∨ (∃ i, c = .err i ∧ classify ℓ lang x = .error i))
    (hname : classify ℓ lang (contentText ℓ lang c) = classify ℓ lang x) :
    displayS ℓ lang (applyInput ℓ lang shownOf st x).1 (applyInput ℓ lang shownOf st x).2 = some (contentText ℓ lang c) ∧
      applyInput ℓ lang shownOf (applyInput ℓ lang shownOf st x).2 (contentText ℓ lang c) = applyInput ℓ lang shownOf st x := by
  refine ⟨?_, reenter_prior ℓ lang shownOf st x _ hname⟩
  rcases hc with ⟨b, rfl, h⟩ | ⟨i, rfl, h⟩ <;>
    simp [applyInput, h, contentAfter, styleAfter, displayS]

/-- the seeded sequence in the model: `'hello`, then `true`, then the displayed `TRUE` (en/en) -/
example :
    (do let l ← IronCalc.Generated.C19.locales.lookup "en"
        let g ← IronCalc.Generated.C18.languages.lookup "en"
        let sh : Value → Shown := fun _ => ⟨false, ['0'], 0⟩
        let s1 := (applyInput l g sh ⟨false, none⟩ "'hello".toList).2
        let r := applyInput l g sh s1 "true".toList
        let d ← displayS l g r.1 r.2
        pure (s1.quote, r, d, applyInput l g sh r.2 d == r)) =
      some (true, (.bool true, ⟨false, none⟩), "TRUE".toList, true) := by decide +kernel

/-! ### non-vacuity -/

/-- look-alikes typed with a quote stay strings and re-enter as themselves (German, fr locale) -/
example :
    (do let l ← IronCalc.Generated.C19.locales.lookup "fr"
        let g ← IronCalc.Generated.C18.languages.lookup "de"
        let x := "'#BEZUG!".toList
        let c ← cellOf (classify l g x)
        pure (c, classify l g (display l g c) == classify l g x)) =
      some (.text "#BEZUG!".toList true, true) := by decide +kernel

/-- numbers shown in plain form re-enter as the same decimal with the general kind (de: `-1234,5`) -/
example :
    (do let l ← IronCalc.Generated.C19.locales.lookup "de"
        let g ← IronCalc.Generated.C18.languages.lookup "de"
        match classify l g (printShown l.dec ⟨true, "12345".toList, -1⟩) with
        | .number (.num n neg pct) k => pure (n.mant, n.e10, n.neg, neg, pct, k)
        | _ => none) = some (12345, -1, true, false, false, .general) := by decide +kernel

end IronCalc.Reenter
