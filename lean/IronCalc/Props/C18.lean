import IronCalc.Text.Reenter
import IronCalc.Generated.C19Locales
import IronCalc.Generated.C18Languages
/-
  C18 — Re-entering a cell's displayed content reproduces the cell.
  Model: Text/Reenter.lean (`classify` models `Model::set_user_input`, `display` models
  `Model::get_localized_cell_content` + `Cell::get_localized_text`, `needsQuote` models
  `utils::value_needs_quoting`), on top of the recogniser model of C19 (Text/Number.lean).
  Property theorems only.
-/
namespace IronCalc.Reenter
open IronCalc.Number

/-- a text input that is classified as plain text is stored verbatim -/
theorem classify_text_eq (ℓ : Locale) (lang : Lang) (x s : List Char)
    (h : classify ℓ lang x = .text s) : s = x := by
  unfold classify at h
  split at h
  · cases h
  · cases h
  · split at h
    · cases h
    · split at h
      · cases h
      · split at h
        · cases h
        · split at h
          · cases h
          · cases h; rfl

/-- **strings stay strings (any text)**: `'` followed by ANY text — a number, a date, a boolean or
    error name of any language, a formula — is a quote-prefixed string cell with exactly that text,
    in every locale and language -/
theorem quoted_any_text (ℓ : Locale) (lang : Lang) (s : List Char) :
    classify ℓ lang ('\'' :: s) = .quoted s := rfl

/-- **C18 for string cells, all texts, all locales and languages**: whatever text cell (quote
    prefixed or not) or empty cell user input produced, typing its displayed content back is
    classified exactly like the original input (same text, same quote-prefix style, same type) -/
theorem reenter_string (ℓ : Locale) (lang : Lang) (x : List Char) (c : CellC)
    (hc : cellOf (classify ℓ lang x) = some c)
    (hstr : c = .empty ∨ ∃ s q, c = .text s q) :
    classify ℓ lang (display ℓ lang c) = classify ℓ lang x := by
  cases hi : classify ℓ lang x with
  | empty =>
    rw [hi] at hc; cases hc
    simp [display, classify]
  | quoted t =>
    rw [hi] at hc; cases hc
    simp [display, classify]
  | text s =>
    rw [hi] at hc; cases hc
    have := classify_text_eq ℓ lang x s hi
    subst this
    simp only [display]; exact hi
  | formula t => rw [hi] at hc; cases hc
  | number v k => rw [hi] at hc; cases hc
  | boolean b =>
    rw [hi] at hc; cases hc
    rcases hstr with h | ⟨s, q, h⟩ <;> cases h
  | error i =>
    rw [hi] at hc; cases hc
    rcases hstr with h | ⟨s, q, h⟩ <;> cases h

/-- the quote decision of `update_cell_with_text` covers booleans and errors: a text that
    `set_user_input` would read as a boolean or an error is quoted (all locales / languages) -/
theorem needsQuote_covers_bool_error (ℓ : Locale) (lang : Lang) (x : List Char)
    (h : (∃ b, classify ℓ lang x = .boolean b) ∨ (∃ i, classify ℓ lang x = .error i)) :
    needsQuote lang x = true := by
  unfold classify at h
  unfold needsQuote
  split at h
  · rcases h with ⟨_, h⟩ | ⟨_, h⟩ <;> cases h
  · rcases h with ⟨_, h⟩ | ⟨_, h⟩ <;> cases h
  · split at h
    · rcases h with ⟨_, h⟩ | ⟨_, h⟩ <;> cases h
    · split at h
      · rcases h with ⟨_, h⟩ | ⟨_, h⟩ <;> cases h
      · split at h
        · rename_i b hb; simp [hb]
        · split at h
          · rename_i i hi; simp [hi]
          · rcases h with ⟨_, h⟩ | ⟨_, h⟩ <;> cases h

/-! ### the finite part: boolean and error names of every language, in every locale (tables
    regenerated from the running code on every check) -/

def allPairs : List (Locale × Lang) :=
  IronCalc.Generated.C19.locales.flatMap fun l => IronCalc.Generated.C18.languages.map fun g => (l.2, g.2)

def errorsReenter (p : Locale × Lang) : Bool :=
  (List.range p.2.errors.length).all fun i =>
    classify p.1 p.2 (display p.1 p.2 (.error i)) == .error i

def boolsReenter (p : Locale × Lang) : Bool :=
  [true, false].all fun b => classify p.1 p.2 (display p.1 p.2 (.boolean b)) == .boolean b

/-- **the full statement on the finite part**: in every locale × language, every error value and
    every boolean shows a text that re-enters as the same error / boolean -/
def C18_full : Prop := allPairs.all (fun p => errorsReenter p && boolsReenter p) = true

/-- errors re-enter as the same error in all 6 locales × 5 languages (12 errors each) -/
theorem errors_reenter_all : allPairs.all errorsReenter = true := by decide +kernel

/-- booleans re-enter as booleans when the language is English (all 6 locales) -/
theorem bools_reenter_english :
    (IronCalc.Generated.C19.locales.all fun l =>
      (IronCalc.Generated.C18.languages.lookup "en").all fun g => boolsReenter (l.2, g)) = true := by
  decide +kernel

/-- **C18, partial** (finite part): all errors in all pairs, booleans in English -/
theorem C18_partial :
    allPairs.all errorsReenter = true ∧
    (IronCalc.Generated.C19.locales.all fun l =>
      (IronCalc.Generated.C18.languages.lookup "en").all fun g => boolsReenter (l.2, g)) = true :=
  ⟨errors_reenter_all, bools_reenter_english⟩

/-- defect F18a: the boolean parse is English-only while booleans are shown localized, so the full
    statement fails (Spanish `VERDADERO` re-enters as text) -/
theorem C18_full_false : ¬ C18_full := by
  unfold C18_full; decide +kernel

/-- F18a, the concrete witness -/
theorem F18a_spanish_boolean :
    (do let l ← IronCalc.Generated.C19.locales.lookup "es"
        let g ← IronCalc.Generated.C18.languages.lookup "es"
        pure (classify l g (display l g (.boolean true)))) = some (.text "VERDADERO".toList) := by
  decide +kernel

/-- defect F18c: `value_needs_quoting` only knows plain Rust floats, so `update_cell_with_text("5%")`
    makes an unquoted string cell whose content re-enters as the number 0.05 (likewise `1,5` in a
    comma locale, `$5`, `1/2/2020`) -/
theorem F18c_needsQuote_incomplete :
    (do let l ← IronCalc.Generated.C19.locales.lookup "en"
        let g ← IronCalc.Generated.C18.languages.lookup "en"
        pure (needsQuote g "5%".toList, classify l g "5%".toList == .text "5%".toList)) = some (false, false) := by
  decide +kernel

/-- defect F18b: a number shown in exponent form (`1e16`) re-enters with the scientific format kind
    (the style changes), while `1000000000000000` (1e15, shown in full) re-enters as general -/
theorem F18b_exponent_display :
    (do let l ← IronCalc.Generated.C19.locales.lookup "en"
        let g ← IronCalc.Generated.C18.languages.lookup "en"
        let k := fun (d : Shown) => match classify l g (printShown l.dec d) with
          | .number _ k => some k | _ => none
        pure (printShown l.dec ⟨false, ['1'], 16⟩, k ⟨false, ['1'], 16⟩, k ⟨false, ['1'], 15⟩))
    = some ("1e16".toList, some .scientific, some .general) := by
  decide +kernel

/-! ### non-vacuity -/

/-- look-alikes typed with a quote stay strings and re-enter as themselves (German, fr locale) -/
example :
    (do let l ← IronCalc.Generated.C19.locales.lookup "fr"
        let g ← IronCalc.Generated.C18.languages.lookup "de"
        let x := "'#BEZUG!".toList
        let c ← cellOf (classify l g x)
        pure (c, classify l g (display l g c) == classify l g x)) =
      some (.text "#BEZUG!".toList true, true) := by decide +kernel

/-- numbers shown in plain form re-enter as the same decimal with the general kind (de: `-1234,5`) -/
example :
    (do let l ← IronCalc.Generated.C19.locales.lookup "de"
        let g ← IronCalc.Generated.C18.languages.lookup "de"
        match classify l g (printShown l.dec ⟨true, "12345".toList, -1⟩) with
        | .number (.num n neg pct) k => pure (n.mant, n.e10, n.neg, neg, pct, k)
        | _ => none) = some (12345, -1, true, false, false, .general) := by decide +kernel

end IronCalc.Reenter
