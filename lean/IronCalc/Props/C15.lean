import IronCalc.Sheet.StructureEval
/-
  C15 — Moving rows or columns is a pure permutation.
  Property theorems only.  Model: Sheet/Structure.lean (`move1` = move_row_unchecked / move_column_unchecked and
  DisplaceData::RowMove / ColumnMove; `blockOps` = the loop of move_rows_action / move_columns_action;
  `userDelta` = the hidden-line adjustment of user_model/common.rs), Sheet/StructureEval.lean.
-/
namespace IronCalc.Structure.C15

/-- **block_move_is_fold.** The chain of single moves the code performs (descending for a positive offset,
    ascending otherwise) moves every line exactly as the closed form says: the block `[r, r+n)` goes to `r+d`,
    the `|d|` lines it jumps over shift by `∓n`, everything else stays.  For every block size and offset. -/
theorem C15_block_move_is_fold (r : Int) (n : Nat) (d x : Int) :
    sigmaList (blockOps r n d) x = some (sigmaBlock r n d x) := by
  unfold blockOps
  split
  · rename_i hd; exact sigmaList_blockOpsPos r d hd n x
  · rename_i hd; exact sigmaList_blockOpsNeg d hd n r x

/-- the same for references: the chain of `RowMove`/`ColumnMove` rewrites sends the coordinate of a reference
    to the closed form — references follow their cells through a block move -/
theorem C15_rho_block_is_fold (r : Int) (n : Nat) (d x : Int) :
    rhoList (blockOps r n d) x = some (sigmaBlock r n d x) := by
  rw [rhoList_eq_sigmaList _ (blockOps_valid r n d)]
  exact C15_block_move_is_fold r n d x

/-- the closed form, case by case -/
theorem C15_closed_form (r : Int) (n : Nat) (d x : Int) :
    (r ≤ x ∧ x < r + n → sigmaBlock r n d x = x + d) ∧
    (0 < d → r + n ≤ x → x < r + n + d → sigmaBlock r n d x = x - n) ∧
    (d < 0 → r + d ≤ x → x < r → sigmaBlock r n d x = x + n) ∧
    (x < min r (r + d) ∨ max (r + n) (r + n + d) ≤ x → sigmaBlock r n d x = x) := by
  unfold sigmaBlock
  refine ⟨?_, ?_, ?_, ?_⟩ <;> grind

/-- **pure permutation**: moving the block back is the inverse, on both sides -/
theorem C15_block_inverse (r : Int) (n : Nat) (d x : Int) :
    sigmaBlock (r + d) n (-d) (sigmaBlock r n d x) = x ∧ sigmaBlock r n d (sigmaBlock (r + d) n (-d) x) = x := by
  unfold sigmaBlock
  constructor <;> grind

theorem C15_block_injective (r : Int) (n : Nat) (d x y : Int) (h : sigmaBlock r n d x = sigmaBlock r n d y) :
    x = y := by
  have hx := (C15_block_inverse r n d x).1
  have hy := (C15_block_inverse r n d y).1
  rw [h] at hx; rw [← hx, hy]

theorem C15_block_surjective (r : Int) (n : Nat) (d y : Int) : ∃ x, sigmaBlock r n d x = y :=
  ⟨_, (C15_block_inverse r n d y).2⟩

/-- the permutation stays inside the grid when the block and its destination are inside it (the checks of
    `move_rows_action`): a bijection of `1..last` -/
theorem C15_block_preserves_grid (last r : Int) (n : Nat) (d x : Int)
    (h1 : 1 ≤ r) (h2 : r + n - 1 ≤ last) (h3 : 1 ≤ r + d) (h4 : r + n - 1 + d ≤ last)
    (hx : 1 ≤ x ∧ x ≤ last) : 1 ≤ sigmaBlock r n d x ∧ sigmaBlock r n d x ≤ last := by
  unfold sigmaBlock
  grind

/-- links, row descriptors and conditional-format corners are permuted by the same map at every step -/
theorem C15_links_rows_cf_follow (r d x : Int) :
    linkCoord (.move1 r d) x = sigma (.move1 r d) x ∧ rowDescCoord (.move1 r d) x = sigma (.move1 r d) x ∧
    cfCoord (.move1 r d) x = sigma (.move1 r d) x :=
  ⟨linkCoord_eq_sigma (.move1 r d) trivial x, rowDescCoord_eq_sigma (.move1 r d) trivial x,
   (cfCoord_eq_rhoCoord (.move1 r d) trivial x).trans (rhoCoord_eq_sigma (.move1 r d) trivial x)⟩

/-- **ref_follows_cell** (one step of a move).  A single-cell reference on the edited sheet, hosted anywhere,
    any flags, is rewritten to the place its cell moved to; it never becomes `#REF!` while the moved line and
    its target are inside the grid. -/
theorem C15_ref_follows_cell (ax : Axis) (s : Nat) (r d : Int) (h : Host) (q : Ref) (hs : q.sheet = s)
    (hr : 1 ≤ r ∧ r ≤ ax.last) (ht : 1 ≤ r + d ∧ r + d ≤ ax.last)
    (hx : inGrid .row (q.row.resolve h.row) = true) (hy : inGrid .col (q.col.resolve h.col) = true) :
    match ax with
    | .row => rhoRef ⟨.row, s, .move1 r d⟩ h q = some (move1Fn r d (q.row.resolve h.row), q.col.resolve h.col)
    | .col => rhoRef ⟨.col, s, .move1 r d⟩ h q = some (q.row.resolve h.row, move1Fn r d (q.col.resolve h.col)) := by
  have hx' := (inGrid_iff _ _).1 hx
  have hy' := (inGrid_iff _ _).1 hy
  have hin : ∀ x, 1 ≤ x → x ≤ ax.last → inGrid ax (move1Fn r d x) = true := by
    intro x h1 h2
    rw [inGrid_iff]
    unfold move1Fn
    grind
  cases ax with
  | row =>
    simp only
    rw [rhoRef_row_of_sigma s (.move1 r d) trivial h q hs hy, sigma_move1_eq]
    simp only [hin _ hx'.1 hx'.2, if_true]
  | col =>
    simp only
    rw [rhoRef_col_of_sigma s (.move1 r d) trivial h q hs hx, sigma_move1_eq]
    simp only [hin _ hy'.1 hy'.2, if_true]

/-- the ranges the property speaks about: entirely inside the moved block, entirely inside the band the block
    jumps over, or entirely outside both -/
def RangeCompatible (r : Int) (n : Nat) (d a b : Int) : Prop :=
  (r ≤ a ∧ b < r + n) ∨
  (0 < d ∧ r + n ≤ a ∧ b < r + n + d) ∨ (d < 0 ∧ r + d ≤ a ∧ b < r) ∨
  (b < min r (r + d) ∨ max (r + n) (r + n + d) ≤ a)

instance (r : Int) (n : Nat) (d a b : Int) : Decidable (RangeCompatible r n d a b) := by
  unfold RangeCompatible; infer_instance

/-- on such a range the permutation is a translation: the rewritten range `[σ a, σ b]` has the same size and
    covers exactly the images of the cells of `[a, b]`, in the same order -/
theorem C15_range_follows (r : Int) (n : Nat) (d a b : Int) (hab : a ≤ b) (hc : RangeCompatible r n d a b) :
    ∀ x, a ≤ x → x ≤ b → sigmaBlock r n d x = sigmaBlock r n d a + (x - a) := by
  intro x h1 h2
  unfold RangeCompatible at hc
  unfold sigmaBlock
  grind

/-- formulas in the move fragment: single-cell references anywhere, ranges only `RangeCompatible` -/
def MoveSafe {V J} (r : Int) (n : Nat) (d h : Int) : Fm V J → Prop
  | .const _ => True
  | .cell _ _ _ => True
  | .agg _ on a b _ => on = true → (a.resolve h ≤ b.resolve h ∧ RangeCompatible r n d (a.resolve h) (b.resolve h))
  | .app1 _ x => MoveSafe r n d h x
  | .app2 _ x y => MoveSafe r n d h x ∧ MoveSafe r n d h y

/-- `f'` (hosted at `h'`) is `f` (hosted at `h`) with every coordinate on the edited sheet sent through the
    block permutation — what `C15_rho_block_is_fold` shows the chain of rewrites does to each coordinate -/
def Renamed {V J} (r : Int) (n : Nat) (d h h' : Int) : Fm V J → Fm V J → Prop
  | .const v, .const v' => v = v'
  | .cell on e j, .cell on' e' j' =>
    on = on' ∧ j = j' ∧ e'.resolve h' = (if on then sigmaBlock r n d (e.resolve h) else e.resolve h)
  | .agg g on a b j, .agg g' on' a' b' j' =>
    g = g' ∧ on = on' ∧ j = j' ∧
    a'.resolve h' = (if on then sigmaBlock r n d (a.resolve h) else a.resolve h) ∧
    b'.resolve h' = (if on then sigmaBlock r n d (b.resolve h) else b.resolve h)
  | .app1 f x, .app1 f' x' => f = f' ∧ Renamed r n d h h' x x'
  | .app2 f x y, .app2 f' x' y' => f = f' ∧ Renamed r n d h h' x x' ∧ Renamed r n d h h' y y'
  | _, _ => False

/-- **C15, values (closed form).**  `G'` is the grid after the block move (every line at its image under the
    permutation, other sheets untouched).  A formula using only single-cell references and compatible ranges,
    hosted anywhere, whose coordinates have been sent through the permutation, computes exactly the value it
    computed before.  (That the engine's chain of single-step rewrites sends each coordinate through the
    permutation is `C15_rho_block_is_fold`; that no corner swap happens in between is tied by `c15-sigma`.) -/
theorem C15_values_closed_form {V J : Type} (I : Interp V) (r : Int) (n : Nat) (d : Int)
    (G G' : Grid V J)
    (hmove : ∀ x j, G' true (sigmaBlock r n d x) j = G true x j)
    (hoff : ∀ x j, G' false x j = G false x j)
    (h h' : Int) (f f' : Fm V J)
    (hsafe : MoveSafe r n d h f) (hren : Renamed r n d h h' f f') :
    eval I G' h' f' = eval I G h f := by
  induction f generalizing f' with
  | const v =>
    cases f' <;> simp only [Renamed] at hren
    subst hren; rfl
  | cell on e j =>
    cases f' <;> simp only [Renamed] at hren
    obtain ⟨rfl, rfl, he⟩ := hren
    simp only [eval, he]
    cases on
    · simp [hoff]
    · simp [hmove]
  | agg g on a b j =>
    cases f' <;> simp only [Renamed] at hren
    obtain ⟨rfl, rfl, rfl, ha, hb⟩ := hren
    simp only [eval, ha, hb]
    cases on with
    | false =>
      simp only [Bool.false_eq_true, if_false]
      congr 1
      have := lines_congr (fun x => G' false x j) (fun x => G false x j) (a.resolve h) 0
        ((b.resolve h) - (a.resolve h) + 1).toNat (fun i _ _ => by simp [hoff])
      simpa using this
    | true =>
      simp only [if_true]
      obtain ⟨hab, hc⟩ := hsafe rfl
      have htr := C15_range_follows r n d _ _ hab hc
      have eb := htr (b.resolve h) hab (Int.le_refl _)
      have e : (sigmaBlock r n d (b.resolve h) - sigmaBlock r n d (a.resolve h) + 1).toNat
          = ((b.resolve h) - (a.resolve h) + 1).toNat := by rw [eb]; congr 1; omega
      rw [e]
      congr 1
      symm
      have := lines_congr (fun x => G true x j) (fun x => G' true x j) (a.resolve h)
        (sigmaBlock r n d (a.resolve h) - a.resolve h) ((b.resolve h) - (a.resolve h) + 1).toNat (by
          intro i hi1 hi2
          have hi : sigmaBlock r n d i = i + (sigmaBlock r n d (a.resolve h) - a.resolve h) := by
            have := htr i hi1 (by omega)
            omega
          show G true i j = G' true (i + (sigmaBlock r n d (a.resolve h) - a.resolve h)) j
          rw [← hi, hmove])
      have e3 : a.resolve h + (sigmaBlock r n d (a.resolve h) - a.resolve h) = sigmaBlock r n d (a.resolve h) := by
        omega
      rw [e3] at this
      exact this
  | app1 fn x ih =>
    cases f' <;> simp only [Renamed] at hren
    obtain ⟨rfl, hx⟩ := hren
    simp only [eval, ih _ hsafe hx]
  | app2 fn x y ihx ihy =>
    cases f' <;> simp only [Renamed] at hren
    obtain ⟨rfl, hx, hy⟩ := hren
    simp only [eval, ihx _ hsafe.1 hx, ihy _ hsafe.2 hy]

/-- the user-level adjustment only ever lengthens the move in its own direction (it skips hidden lines), so
    the action performed is still a block move, with offset `userDelta` -/
theorem C15_user_delta_direction (a : Axis) (hidden : Int → Bool) (r n d d' : Int)
    (h : userDelta a hidden r n d = some d') : (0 < d → d ≤ d') ∧ (d < 0 → d' ≤ d) := by
  have hc : ∀ m lo c, countHidden a hidden lo m = some c → 0 ≤ c := by
    intro m
    induction m with
    | zero => intro lo c hc; simp only [countHidden, Option.some.injEq] at hc; omega
    | succ m ih =>
      intro lo c hc
      simp only [countHidden] at hc
      split at hc
      · cases hrec : countHidden a hidden (lo + 1) m with
        | none => rw [hrec] at hc; cases hc
        | some c0 =>
          rw [hrec] at hc
          simp only [Option.map_some, Option.some.injEq] at hc
          have := ih _ _ hrec
          split at hc <;> omega
      · cases hc
  unfold userDelta at h
  split at h
  · cases hrec : countHidden a hidden (r + n) (d + 1).toNat with
    | none => rw [hrec] at h; cases h
    | some c =>
      rw [hrec] at h
      simp only [Option.map_some, Option.some.injEq] at h
      have := hc _ _ _ hrec
      constructor <;> intro _ <;> omega
  · cases hrec : countHidden a hidden (r + d) (-d).toNat with
    | none => rw [hrec] at h; cases h
    | some c =>
      rw [hrec] at h
      simp only [Option.map_some, Option.some.injEq] at h
      have := hc _ _ _ hrec
      constructor <;> intro _ <;> omega

/-! non-vacuity -/

-- rows 3..4 moved down by 3: 3→6, 4→7, 5→3, 6→4, 7→5, 8 stays; the fold of the code's two single moves agrees
example : (List.range 9).map (fun (i : Nat) => sigmaBlock 3 2 3 i) = [0, 1, 2, 6, 7, 3, 4, 5, 8] := by decide
example : (List.range 9).map (fun (i : Nat) => sigmaList (blockOps 3 2 3) i) =
    [some 0, some 1, some 2, some 6, some 7, some 3, some 4, some 5, some 8] := by decide
example : RangeCompatible 3 2 3 5 7 ∧ RangeCompatible 3 2 3 3 4 ∧ ¬ RangeCompatible 3 2 3 4 5 := by decide
-- two hidden rows in the landing zone lengthen a move by two
example : userDelta .row (fun x => x == 6 || x == 7) 3 2 2 = some 4 := by decide

end IronCalc.Structure.C15
