import IronCalc.Formula.Partial
import IronCalc.Formula.Image
import IronCalc.Generated.ParenStringify
/-
  C09 — Printing a formula and parsing it back preserves its meaning.
  Property theorems only.  Model: Formula/Syntax.lean (printer, parametrised by the paren table),
  Formula/Parse.lean (parser).  Helper lemmas: Formula/RoundTrip.lean, RoundTripMain.lean,
  Partial.lean, TableCheck.lean.
  `Generated/ParenStringify.lean` is re-extracted from the running stringify.rs on every check.
-/
namespace IronCalc.Formula

/-- **Round trip, for every paren table that satisfies the grammar's requirements.**
    For every well-formed tree (any depth, any nesting of the 9 precedence levels, argument
    lists with empty arguments, LAMBDA definitions and calls), parsing the printed token list
    consumes it completely and returns the tree — for all sufficiently large fuel. -/
theorem C09_roundtrip (iv : Nat → Bool) (T : Table) (hT : TableOK T) (e : Node)
    (hwf : e.wf iv = true) : ∃ f0, ∀ f, f0 ≤ f → P iv f 0 (pr T e) = some (e, []) :=
  roundtrip_main iv hT e hwf

/-- **Round trip for whatever table the code has**: it holds for every well-formed tree that
    contains no (slot, child kind) occurrence at which the table fails the grammar. -/
theorem C09_partial (iv : Nat → Bool) (T : Table) (e : Node) (hwf : e.wf iv = true)
    (hnb : e.noBad T = true) : ∃ f0, ∀ f, f0 ≤ f → P iv f 0 (pr T e) = some (e, []) :=
  roundtrip_partial iv T e hwf hnb

/-- The entries at which the pinned tree's printer is known to fail the grammar (known findings
    F09-assoc: `1+(2+3)` and `1+(2-3)` are deliberately printed as `1+2+3`, `1+2-3`, pinned by the
    repository's own test `correct_parenthesis`). -/
def knownBadStringify : List (Slot × Kind) :=
  [(.binR .add, .bin .add), (.binR .add, .bin .sub)]

/-- **The obligation re-checked on every run**: the table extracted from the running
    `stringify.rs` fails the grammar's requirement at exactly the known entries — any other
    missing parenthesis breaks this theorem, and the entry is the failing input. -/
theorem C09_stringify_table_failures :
    tableFailures IronCalc.Generated.parenStringify = knownBadStringify := by decide

/-- the printer's decision is a function of (slot, child kind) — the modelling assumption of
    the table, checked by the extractor on several variants per entry -/
theorem C09_no_context_dependence : IronCalc.Generated.parenStringifyContextDependent = [] := by
  decide

/-- **C09 for the code's own printer** (internal and display forms share `stringify`), on the
    trees without a `+` whose right operand is itself a `+`/`-`. -/
theorem C09_stringify_roundtrip (iv : Nat → Bool) (e : Node) (hwf : e.wf iv = true)
    (hnb : e.noBad IronCalc.Generated.parenStringify = true) :
    ∃ f0, ∀ f, f0 ≤ f → P iv f 0 (pr IronCalc.Generated.parenStringify e) = some (e, []) :=
  C09_partial iv _ e hwf hnb

/-- the full statement for the code's printer … -/
def C09_full : Prop :=
  ∀ (iv : Nat → Bool) (e : Node), e.wf iv = true →
    ∃ f0, ∀ f, f0 ≤ f → P iv f 0 (pr IronCalc.Generated.parenStringify e) = some (e, [])

/-- … is false on the pinned tree: `1+(2+3)` prints as `1+2+3`, which parses as `(1+2)+3`. -/
theorem C09_full_false : ¬ C09_full := by
  intro h
  let one := Node.lit .number 1
  let two := Node.lit .number 2
  let three := Node.lit .number 3
  let e := Node.bin .add one (Node.bin .add two three)
  let e' := Node.bin .add (Node.bin .add one two) three
  obtain ⟨f1, h1⟩ := h (fun _ => true) e (by decide)
  obtain ⟨f2, h2⟩ := C09_partial (fun _ => true) IronCalc.Generated.parenStringify e' (by decide) (by decide)
  have hp : pr IronCalc.Generated.parenStringify e = pr IronCalc.Generated.parenStringify e' := by decide
  have a := h1 (max f1 f2) (Nat.le_max_left _ _)
  have b := h2 (max f1 f2) (Nat.le_max_right _ _)
  rw [hp] at a
  rw [a] at b
  have : e = e' := by injection b with b; injection b
  injection this with _ h3 _
  cases h3

/-- **`wf` is exactly the parser's image** (non-vacuity of the hypothesis above): whatever
    the parser returns, at any level and with any fuel, is well-formed. -/
theorem C09_parse_image_wf (iv : Nat → Bool) (f L : Nat) (ts : List Tok) (n : Node) (r : List Tok)
    (h : P iv f L ts = some (n, r)) : n.wf iv = true :=
  parse_image_wf iv f L ts n r h

/-- **Typed, shown, re-read**: any token list the parser accepts yields a tree whose printed
    form (with whatever table the code has) parses back to that same tree, provided the tree
    avoids the table's failing entries — no well-formedness hypothesis is left. -/
theorem C09_parse_print_parse (iv : Nat → Bool) (T : Table) (f : Nat) (ts : List Tok) (n : Node)
    (r : List Tok) (h : P iv f 0 ts = some (n, r)) (hnb : n.noBad T = true) :
    ∃ f0, ∀ f', f0 ≤ f' → P iv f' 0 (pr T n) = some (n, []) :=
  roundtrip_partial iv T n (parse_image_wf iv f 0 ts n r h) hnb

/-- extra parentheses are harmless: a parenthesised printed tree parses to the same tree -/
theorem C09_paren_transparent (iv : Nat → Bool) (T : Table) (hT : TableOK T) (e : Node)
    (hwf : e.wf iv = true) :
    ∃ f0, ∀ f, f0 ≤ f → P iv f 0 (wrap true (pr T e)) = some (e, []) := by
  have h := item iv e (claimN iv hT e hwf) true 0 0 (by omega) (Nat.le_refl _)
    (fun hb => by cases hb) [] (e, []) NoTighter_nil Chain.nil
  simpa [R, Ev] using h

/-- non-vacuity: a tree mixing every level is well-formed and avoids the known entries -/
example : let e := (Node.pct (Node.bin .add (Node.neg (Node.lit .number 1))
    (Node.call 7 (Args.consE (Args.consN (Node.rng (Node.at (Node.name 4)) (Node.name 8)) Args.nil)))))
    e.wf (fun x => x % 4 == 0) = true ∧ e.noBad IronCalc.Generated.parenStringify = true := by decide

/-- the obligation is not vacuous either: a table that never parenthesises under `%` fails it,
    and the two-level tree `(1+2)%` is a concrete witness of the broken round trip -/
example : ¬ TableOK (fun s k => if s = Slot.pct then false else needs s k) := by
  intro h; have := h .pct (.bin .add) (by decide); simp at this

end IronCalc.Formula
