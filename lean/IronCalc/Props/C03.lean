import IronCalc.User.DiffsProofs
/-
  C03 — Replicas that apply the diff queue converge, for any history and any flush schedule.
  Model: User/History.lean: the primary queues `(Redo, ds)` on `push_diff_list` and `redo`,
  `(Undo, ds)` on `undo`; `flush_send_queue` hands out the queue as one batch;
  `applyQueue` models `apply_external_diffs` on one batch.  Property theorems only.
-/
namespace IronCalc.User.C03
open IronCalc.User

variable {W D Op E O : Type}

/-- the `schedules` quantifier: however the outgoing queue is cut into batches, feeding the
    batches one after the other is the same as feeding their concatenation -/
theorem flush_schedule_irrelevant (S : Sys W D Op E) (w : W) (bs : List (List (Tag × List D))) :
    applyBatches S w bs = applyQueue S w bs.flatten :=
  applyBatches_flatten S bs w

/-- two ways of cutting the same queue give the same replica -/
theorem flush_schedules_agree (S : Sys W D Op E) (w : W) (bs bs' : List (List (Tag × List D)))
    (h : bs.flatten = bs'.flatten) : applyBatches S w bs = applyBatches S w bs' := by
  rw [flush_schedule_irrelevant, flush_schedule_irrelevant, h]

/-- GENERIC, all histories (operations of the domain, undo, redo, flush at arbitrary points): a
    replica that starts observably equal to the primary and applies every flushed batch, then the
    final flush, reports no error and ends observably equal to the primary.  The laws are used on
    the REPLICA's state, which is only observably equal to the primary's: they are stated up to
    `obs` (see `Linked`), which is the lock-step requirement the engine's diffs must meet. -/
theorem replica_converges (S : Sys W D Op E) (obs : W → O) (dom : W → Op → Prop)
    (L : Laws S obs dom) (w0 r0 : W) (h0 : obs r0 = obs w0) (cs : List (Cmd Op))
    (hd : AllDom S dom ({ w := w0, undo := [], redo := [], queue := [] } : St W D) cs) :
    let s := run S ({ w := w0, undo := [], redo := [], queue := [] } : St W D) cs
    (applyBatches S r0 (s.sent ++ [s.queue])).ok = true ∧
      obs (applyBatches S r0 (s.sent ++ [s.queue])).w = obs s.w := by
  intro s
  rw [flush_schedule_irrelevant]
  have hlog : (s.sent ++ [s.queue]).flatten = log s := by simp [log, List.flatten_append]
  rw [hlog]
  exact run_insync S obs dom L r0 cs _ ⟨obs w0, [], []⟩
    (refines_init S obs w0 [] []) ⟨rfl, h0⟩ hd

/-- CONCRETE: primary and replica both start from the initial workbook; any history over the
    domain, any flush schedule: the replica ends with exactly the primary's modelled state. -/
theorem C03_partial (env : Env) (cs : List (Cmd User.Op))
    (hd : AllDom (sys env) (fun b o => dom env b o = true) St.init cs) :
    let s := run (sys env) St.init cs
    (applyBatches (sys env) Book.init (s.sent ++ [s.queue])).ok = true ∧
      (applyBatches (sys env) Book.init (s.sent ++ [s.queue])).w = s.w :=
  replica_converges (sys env) (fun w => w) _ (laws env) Book.init Book.init rfl cs hd

/-! non-vacuity: a history with undo, redo and two flush points -/
def envEx : Env :=
  { validTz := fun s => s == "UTC" || s == "Europe/Berlin",
    validLocale := fun s => s == "en" || s == "de", upper := String.toUpper }

def histEx : List (Cmd User.Op) :=
  [.op (.setLocale "de"), .flush, .op (.setRowsHeight 0 1 3 40), .undo, .flush, .redo,
   .op (.setShowGridLines 0 false)]

example : allDomB envEx St.init histEx = true := by decide
example : (run (sys envEx) St.init histEx).sent.map List.length = [1, 2] ∧
    (run (sys envEx) St.init histEx).queue.length = 2 := by decide
example : ((applyBatches (sys envEx) Book.init
    ((run (sys envEx) St.init histEx).sent ++ [(run (sys envEx) St.init histEx).queue])).w.sheets.map
      fun s => ((s.rowAt 2).height, s.grid)) = [(40, false)] := by decide

/-- a row move over a hidden row: the engine moves row 2 by TWO (it skips hidden row 3) and records
    that effective delta, so that undo, redo and the replica move by the same amount -/
def histMove : List (Cmd User.Op) :=
  [.op (.setRowsHeight 0 2 2 40), .op (.setRowsHidden 0 3 3 true), .op (.moveRows 0 2 1 1), .flush,
   .undo, .redo]

def recordedDelta : List Diff → Option Int
  | [.moveRows _ _ _ d] => some d
  | _ => none

example : allDomB envEx St.init histMove = true := by decide
example : ((run (sys envEx) St.init histMove).undo.head?.bind recordedDelta) = some 2 := by decide
example : ((run (sys envEx) St.init histMove).w.sheets.map
    fun s => ((s.rowAt 2).hidden, (s.rowAt 4).height)) = [(true, 40)] := by decide
example : ((applyBatches (sys envEx) Book.init
    ((run (sys envEx) St.init histMove).sent ++ [(run (sys envEx) St.init histMove).queue])).w.sheets.map
      fun s => ((s.rowAt 2).hidden, (s.rowAt 4).height)) = [(true, 40)] := by decide

/-- the column twin: column 2 moved by 1 skips hidden column 3 (effective delta 2) -/
def histMoveCols : List (Cmd User.Op) :=
  [.op (.setColumnsWidth 0 2 2 40), .op (.setColumnsHidden 0 3 3 true), .op (.moveColumns 0 2 1 1),
   .flush, .undo, .redo]

def recordedColDelta : List Diff → Option Int
  | [.moveColumns _ _ _ d] => some d
  | _ => none

example : allDomB envEx St.init histMoveCols = true := by decide
example : ((run (sys envEx) St.init histMoveCols).undo.head?.bind recordedColDelta) = some 2 := by
  decide
example : ((applyBatches (sys envEx) Book.init
    ((run (sys envEx) St.init histMoveCols).sent ++ [(run (sys envEx) St.init histMoveCols).queue])).w.sheets.map
      fun s => ((s.colAt 2).hidden, (s.colAt 4).width)) = [(true, 40)] := by decide

end IronCalc.User.C03
