import IronCalc.Text.NumberProofs
import IronCalc.Generated.C19Locales
/-
  C19 — Typed numbers are recognised exactly.
  Model: Text/Number.lean (models base/src/formatter/format.rs `parse_number`,
  `parse_formatted_number`, `parse_date` and the route through `Model::set_user_input`).
  Specification: Text/NumberSpec.lean (`IsNumberLit`, `IsDateText`, `IsNumberText`).
  Helper lemmas: Text/NumberProofs.lean.  Property theorems only in this file.
-/
namespace IronCalc.Number

/-- **the full statement** (soundness half): whatever the recogniser stores as a number is a number
    text of the grammar, with that denotation and that format kind. -/
def C19_full : Prop :=
  ∀ (ℓ : Locale) (curs : List (List Char)) (s : List Char) (v : Value) (k : Kind),
    parseFormattedNumber ℓ curs s = some (v, k) → IsNumberText ℓ curs s v k

/-- **C19 (soundness), partial**: for every locale record, currency list and text, a recognised
    value whose group separators are strictly placed (`Value.strictGroups`, decidable; it excludes
    exactly defect F19b) is a number text of the grammar with that exact denotation and kind. -/
theorem recognise_sound_partial (ℓ : Locale) (curs : List (List Char)) (s : List Char) (v : Value) (k : Kind)
    (h : parseFormattedNumber ℓ curs s = some (v, k)) (hstrict : v.strictGroups = true) :
    IsNumberText ℓ curs s v k :=
  recognise_sound_aux h hstrict

/-- without group separators in the text the domain predicate holds trivially -/
theorem strictGroups_of_no_groups (n : Num) (a b : Bool) (h : n.hasGroups = false) :
    (Value.num n a b).strictGroups = true := by
  unfold Num.hasGroups at h
  show groupCheck n.intText = true
  generalize n.intText = t at h
  induction t with
  | nil => rfl
  | cons c cs ih =>
    simp only [List.any_cons, Bool.or_eq_false_iff, Bool.not_eq_false'] at h
    unfold groupCheck
    simp [h.1, ih h.2]

/-- the pinned code violates the full statement: `1,` (en) is stored as the number 1 (F19b) -/
theorem C19_full_false : ¬ C19_full := by
  intro h
  have hen : (IronCalc.Generated.C19.locales.lookup "en").isSome = true := by decide
  obtain ⟨ℓ, hℓ⟩ := Option.isSome_iff_exists.mp hen
  have hgrp : isDigit ℓ.grp = false := by
    have : (IronCalc.Generated.C19.locales.lookup "en").all (fun l => !isDigit l.grp) = true := by decide
    rw [hℓ] at this; simpa using this
  have hp : ((IronCalc.Generated.C19.locales.lookup "en").bind
      (fun l => parseFormattedNumber l (currencies l) "1,".toList)).any
      (fun r => !r.1.strictGroups) = true := by decide
  rw [hℓ] at hp
  simp only [Option.bind_some] at hp
  cases hr : parseFormattedNumber ℓ (currencies ℓ) "1,".toList with
  | none => rw [hr] at hp; cases hp
  | some r =>
    rw [hr] at hp
    have := isNumberText_strict hgrp (h ℓ (currencies ℓ) _ r.1 r.2 hr)
    simp [this] at hp

/-- **C19 (completeness on number literals, group separators included)**: every rendering of a
    well-formed number (sign, strictly grouped or plain digits, fraction, exponent; finite) is
    recognised by `parse_number` as exactly that number, in every locale whose separators are
    sane (`SepsOk`). -/
theorem recognise_complete_literal (dec grp : Char) (hl : SepsOk dec grp = true) (t : List Char) (n : Num)
    (h : IsNumberLit dec grp t n) : parseNumber dec grp t = some n :=
  parseNumber_complete hl h

/-- and conversely (soundness on literals), under the strict-groups domain predicate -/
theorem recognise_sound_literal (dec grp : Char) (t : List Char) (n : Num)
    (h : parseNumber dec grp t = some n) (hs : groupCheck n.intText = true) : IsNumberLit dec grp t n :=
  parseNumber_sound h hs

/-- the separators of every locale of the running code (regenerated table) are sane -/
theorem locales_seps_ok :
    IronCalc.Generated.C19.locales.all (fun p => SepsOk p.2.dec p.2.grp) = true := by decide

/-- **completeness, percent production**: `number %` is recognised with that number divided by 100
    (the percent branch is tried first, so no side condition). -/
theorem recognise_complete_percent (ℓ : Locale) (curs : List (List Char)) (hl : SepsOk ℓ.dec ℓ.grp = true)
    (s p : List Char) (n : Num) (hp : stripSuffix ['%'] (trim s) = some p)
    (h : IsNumberLit ℓ.dec ℓ.grp (trim p) n) :
    parseFormattedNumber ℓ curs s =
      some (.num n false true, if n.isSci then .scientific else .percent n.hasDot) := by
  unfold parseFormattedNumber
  simp only [hp, parseNumber_complete hl h]

/-- **completeness, plain production**: a number literal (after trimming) that is not shadowed by
    an earlier branch (no `%` suffix, no currency affix, not a date) is recognised as that number,
    with the grouped / scientific / general kind. -/
theorem recognise_complete_plain (ℓ : Locale) (curs : List (List Char)) (hl : SepsOk ℓ.dec ℓ.grp = true)
    (s : List Char) (n : Num) (h : IsNumberLit ℓ.dec ℓ.grp (trim s) n)
    (hpct : stripSuffix ['%'] (trim s) = none) (hcur : currencyLoop ℓ (trim s) curs = none)
    (hdate : parseDate ℓ s = none) :
    parseFormattedNumber ℓ curs s =
      some (.num n false false,
        if n.isSci then .scientific else if n.hasGroups then .grouped n.hasDot else .general) := by
  unfold parseFormattedNumber
  simp only [hpct, hcur, hdate, parseNumber_complete hl h]

/-- **the sign is preserved**: the recognised literal is negative exactly when the text starts
    with `-` (no strictness needed) -/
theorem sign_preserved (dec grp : Char) (t : List Char) (n : Num) (h : parseNumber dec grp t = some n) :
    n.neg = true ↔ t.head? = some '-' := by
  unfold parseNumber at h
  split at h
  · cases h
  · rename_i n' hscan
    split at h
    · cases h
      unfold scanNumber at hscan
      split at hscan
      rename_i sign r0 hsign
      split at hscan
      · cases hscan
      · split at hscan
        · cases hscan
        · split at hscan
          · cases hscan
          · split at hscan
            split at hscan
            · cases hscan
            · cases hscan
              unfold Num.neg
              simp only
              unfold takeSign at hsign
              split at hsign
              · rename_i c r
                split at hsign
                · rename_i hc; cases hsign; simp at hc; simp [hc]
                · rename_i hc
                  split at hsign
                  · cases hsign; simp at hc; simp [hc]
                  · cases hsign; simp at hc; simp [hc]
              · cases hsign
    · cases h

/-- a `-` in front of a currency symbol negates an unsigned amount (fixes F19a, F19c): the value is
    negative -/
theorem negated_currency_is_negative (ℓ : Locale) (curs : List (List Char)) (s : List Char) (n : Num)
    (pct : Bool) (k : Kind) (h : parseFormattedNumber ℓ curs s = some (.num n true pct, k))
    (hs : (Value.num n true pct).strictGroups = true) :
    (Value.num n true pct).isNegative = true := by
  have := recognise_sound_partial ℓ curs s _ k h hs
  cases this with
  | negCurrency _ _ _ hsign => simp [Value.isNegative, Num.neg, hsign]

/-- **format kinds**: a `%`-suffixed text that is recognised gets the percent format, or the
    scientific one when it has an exponent; the value is the number divided by 100 -/
theorem format_kind_percent (ℓ : Locale) (curs : List (List Char)) (s p : List Char) (v : Value) (k : Kind)
    (hp : stripSuffix ['%'] (trim s) = some p) (h : parseFormattedNumber ℓ curs s = some (v, k)) :
    ∃ n, v = .num n false true ∧ k = (if n.isSci then .scientific else .percent n.hasDot) := by
  unfold parseFormattedNumber at h
  simp only [hp] at h
  split at h
  · cases h
  · rename_i n _
    simp only [Option.some.injEq, Prod.mk.injEq] at h
    exact ⟨n, h.1.symm, h.2.symm⟩

/-- a recognised date is a date serial in the supported range with a date format -/
theorem format_kind_date (ℓ : Locale) (curs : List (List Char)) (s : List Char) (serial : Nat) (k : Kind)
    (h : parseFormattedNumber ℓ curs s = some (.serial serial, k)) :
    ∃ fmt, k = .date fmt ∧ IsDateText ℓ s serial fmt := by
  have := recognise_sound_partial ℓ curs s _ k h rfl
  cases this with
  | date hd => exact ⟨_, rfl, hd⟩

/-- a recognised number always fits a double (fix F08b): the literal's exact value is below the
    rounding threshold of +∞ -/
theorem recognised_is_finite (dec grp : Char) (t : List Char) (n : Num) (h : parseNumber dec grp t = some n) :
    overflowsF64 n.mant n.e10 = false := by
  unfold parseNumber at h
  split at h
  · cases h
  · split at h
    · rename_i hok; cases h
      simp only [Bool.and_eq_true, Bool.not_eq_true'] at hok
      exact hok.2
    · cases h

/-- defect F19f (known finding, found by the oracle): in a month-first locale a four-byte month name
    in first position is taken for an ISO year: `July-20-2020` is not a date while `March-20-2020` is -/
theorem F19f_four_byte_month_name_first :
    (IronCalc.Generated.C19.locales.lookup "en").map
      (fun l => ((parseDate l "July-20-2020".toList).isSome, (parseDate l "March-20-2020".toList).isSome))
    = some (false, true) := by decide +kernel

/-! ### non-vacuity and the decided witnesses -/

/-- `-$1,234.5e-3` (en) is recognised, strictly grouped, negative, scientific -/
example : (do
    let l ← IronCalc.Generated.C19.locales.lookup "en"
    let r ← parseFormattedNumber l (currencies l) "-$1,234.5e-3".toList
    pure (r.1.strictGroups, r.1.isNegative, r.2 == .scientific)) = some (true, true, true) := by decide

/-- F19a repaired: `-$1e3` is negative -/
example : (do
    let l ← IronCalc.Generated.C19.locales.lookup "en"
    let r ← parseFormattedNumber l (currencies l) "-$1e3".toList
    pure r.1.isNegative) = some true := by decide

/-- F19b (known): `1,,000` and `1,000,` are accepted by the pinned code, outside the domain predicate -/
example : (do
    let l ← IronCalc.Generated.C19.locales.lookup "en"
    let r ← parseFormattedNumber l (currencies l) "1,,000".toList
    pure r.1.strictGroups) = some false := by decide

/-- F08b repaired: `1e999` is not a number; F19c: `-$-5` is not; F19d: `1/1/+1` is not; F19e: `0100-01-01` is not -/
example : (do
    let l ← IronCalc.Generated.C19.locales.lookup "en"
    pure ((parseFormattedNumber l (currencies l) "1e999".toList).isNone,
          (parseFormattedNumber l (currencies l) "-$-5".toList).isNone,
          (parseFormattedNumber l (currencies l) "1/1/+1".toList).isNone,
          (parseFormattedNumber l (currencies l) "0100-01-01".toList).isNone)) = some (true, true, true, true) := by
  decide

/-- a leap day typed in ISO layout is the serial C21 gives it -/
example : (do
    let l ← IronCalc.Generated.C19.locales.lookup "de"
    let r ← parseFormattedNumber l (currencies l) "2020-02-29".toList
    pure r.1) = some (.serial 43890) := by decide +kernel

end IronCalc.Number
