import IronCalc.Text.NumberComplete
import IronCalc.Props.C21
import IronCalc.Generated.C19Locales
/-
  C19 — Typed numbers are recognised exactly.
  Model: Text/Number.lean (models base/src/formatter/format.rs `parse_number`,
  `parse_formatted_number`, `parse_date` and the route through `Model::set_user_input`).
  Specification: Text/NumberSpec.lean (`IsNumberLit`, `IsDateText`, `IsNumberText`).
  Helper lemmas: Text/NumberProofs.lean.  Property theorems only in this file.
-/
namespace IronCalc.Number

/-- **the full statement** (soundness half): whatever the recogniser stores as a number is a number
    text of the grammar, with that denotation and that format kind. -/
def C19_full : Prop :=
  ∀ (ℓ : Locale) (curs : List (List Char)) (s : List Char) (v : Value) (k : Kind),
    parseFormattedNumber ℓ curs s = some (v, k) → IsNumberText ℓ curs s v k

/-- **C19 (soundness), partial**: for every locale record, currency list and text, a recognised
    value whose group separators are strictly placed (`Value.strictGroups`, decidable; it excludes
    exactly defect F19b) is a number text of the grammar with that exact denotation and kind. -/
theorem recognise_sound_partial (ℓ : Locale) (curs : List (List Char)) (s : List Char) (v : Value) (k : Kind)
    (h : parseFormattedNumber ℓ curs s = some (v, k)) (hstrict : v.strictGroups = true) :
    IsNumberText ℓ curs s v k :=
  recognise_sound_aux h hstrict

/-- without group separators in the text the domain predicate holds trivially -/
theorem strictGroups_of_no_groups (n : Num) (a b : Bool) (h : n.hasGroups = false) :
    (Value.num n a b).strictGroups = true := by
  unfold Num.hasGroups at h
  show groupCheck n.intText = true
  generalize n.intText = t at h
  induction t with
  | nil => rfl
  | cons c cs ih =>
    simp only [List.any_cons, Bool.or_eq_false_iff, Bool.not_eq_false'] at h
    unfold groupCheck
    simp [h.1, ih h.2]

/-- the pinned code violates the full statement: `1,` (en) is stored as the number 1 (F19b) -/
theorem C19_full_false : ¬ C19_full := by
  intro h
  have hen : (IronCalc.Generated.C19.locales.lookup "en").isSome = true := by decide
  obtain ⟨ℓ, hℓ⟩ := Option.isSome_iff_exists.mp hen
  have hgrp : isDigit ℓ.grp = false := by
    have : (IronCalc.Generated.C19.locales.lookup "en").all (fun l => !isDigit l.grp) = true := by decide
    rw [hℓ] at this; simpa using this
  have hp : ((IronCalc.Generated.C19.locales.lookup "en").bind
      (fun l => parseFormattedNumber l (currencies l) "1,".toList)).any
      (fun r => !r.1.strictGroups) = true := by decide
  rw [hℓ] at hp
  simp only [Option.bind_some] at hp
  cases hr : parseFormattedNumber ℓ (currencies ℓ) "1,".toList with
  | none => rw [hr] at hp; cases hp
  | some r =>
    rw [hr] at hp
    have := isNumberText_strict hgrp (h ℓ (currencies ℓ) _ r.1 r.2 hr)
    simp [this] at hp

/-- **C19 (completeness on number literals, group separators included)**: every rendering of a
    well-formed number (sign, strictly grouped or plain digits, fraction, exponent; finite) is
    recognised by `parse_number` as exactly that number, in every locale whose separators are
    sane (`SepsOk`). -/
theorem recognise_complete_literal (dec grp : Char) (hl : SepsOk dec grp = true) (t : List Char) (n : Num)
    (h : IsNumberLit dec grp t n) : parseNumber dec grp t = some n :=
  parseNumber_complete hl h

/-- and conversely (soundness on literals), under the strict-groups domain predicate -/
theorem recognise_sound_literal (dec grp : Char) (t : List Char) (n : Num)
    (h : parseNumber dec grp t = some n) (hs : groupCheck n.intText = true) : IsNumberLit dec grp t n :=
  parseNumber_sound h hs

/-- the separators of every locale of the running code (regenerated table) are sane -/
theorem locales_seps_ok :
    IronCalc.Generated.C19.locales.all (fun p => SepsOk p.2.dec p.2.grp) = true := by decide

/-- **completeness, percent production**: `number %` is recognised with that number divided by 100
    (the percent branch is tried first, so no side condition). -/
theorem recognise_complete_percent (ℓ : Locale) (curs : List (List Char)) (hl : SepsOk ℓ.dec ℓ.grp = true)
    (s p : List Char) (n : Num) (hp : stripSuffix ['%'] (trim s) = some p)
    (h : IsNumberLit ℓ.dec ℓ.grp (trim p) n) :
    parseFormattedNumber ℓ curs s =
      some (.num n false true, if n.isSci then .scientific else .percent n.hasDot) := by
  unfold parseFormattedNumber
  simp only [hp, parseNumber_complete hl h]

/-- **completeness, plain production**: a number literal (after trimming) that is not shadowed by
    an earlier branch (no `%` suffix, no currency affix, not a date) is recognised as that number,
    with the grouped / scientific / general kind. -/
theorem recognise_complete_plain (ℓ : Locale) (curs : List (List Char)) (hl : SepsOk ℓ.dec ℓ.grp = true)
    (s : List Char) (n : Num) (h : IsNumberLit ℓ.dec ℓ.grp (trim s) n)
    (hpct : stripSuffix ['%'] (trim s) = none) (hcur : currencyLoop ℓ (trim s) curs = none)
    (hdate : parseDate ℓ s = none) :
    parseFormattedNumber ℓ curs s =
      some (.num n false false,
        if n.isSci then .scientific else if n.hasGroups then .grouped n.hasDot else .general) := by
  unfold parseFormattedNumber
  simp only [hpct, hcur, hdate, parseNumber_complete hl h]

/-! ### completeness of the currency productions -/

/-- the currency lists of every locale of the running code (regenerated table) satisfy the
    non-shadowing condition `CursOk`: the decimal separator is neither white space nor `%`; every
    symbol begins and ends with a character that is not white space, a digit, a sign, the decimal
    separator or `%`; different symbols differ in their first and in their last character -/
theorem locales_curs_ok :
    IronCalc.Generated.C19.locales.all (fun p => CursOk p.2 (currencies p.2)) = true := by decide

/-- **completeness, `symbol number`**: for every locale with sane separators and currency list,
    every currency `cur` of the list, every well-formed finite number `n` (signed or not, with or
    without group separators, fraction, exponent) and any white space before, between and after,
    `[ws] cur [ws] literal [ws]` is recognised as exactly `n` with the currency format (or the
    scientific one when `n` has an exponent) -/
theorem recognise_complete_currency_before (ℓ : Locale) (curs : List (List Char))
    (hl : SepsOk ℓ.dec ℓ.grp = true) (hc : CursOk ℓ curs = true) (cur : List Char) (hcur : cur ∈ curs)
    (n : Num) (hwf : WellFormed ℓ.grp n) (pre w post : List Char)
    (hpre : ∀ c ∈ pre, isWs c = true) (hw : ∀ c ∈ w, isWs c = true) (hpost : ∀ c ∈ post, isWs c = true) :
    parseFormattedNumber ℓ curs (pre ++ (cur ++ (w ++ n.render ℓ.dec)) ++ post) =
      some (.num n false false, if n.isSci then .scientific else .currencyPrefix cur n.hasDot) :=
  complete_currency_before hl hc hcur hwf hpre hw hpost

/-- **completeness, `- symbol number`** (the number itself unsigned): recognised as `−n` -/
theorem recognise_complete_currency_negated (ℓ : Locale) (curs : List (List Char))
    (hl : SepsOk ℓ.dec ℓ.grp = true) (hc : CursOk ℓ curs = true) (cur : List Char) (hcur : cur ∈ curs)
    (n : Num) (hwf : WellFormed ℓ.grp n) (hsign : n.sign = none) (pre w post : List Char)
    (hpre : ∀ c ∈ pre, isWs c = true) (hw : ∀ c ∈ w, isWs c = true) (hpost : ∀ c ∈ post, isWs c = true) :
    parseFormattedNumber ℓ curs (pre ++ ('-' :: (cur ++ (w ++ n.render ℓ.dec))) ++ post) =
      some (.num n true false, if n.isSci then .scientific else .currencyPrefix cur n.hasDot) :=
  complete_currency_negated hl hc hcur hwf hsign hpre hw hpost

/-- **completeness, `number symbol`** -/
theorem recognise_complete_currency_after (ℓ : Locale) (curs : List (List Char))
    (hl : SepsOk ℓ.dec ℓ.grp = true) (hc : CursOk ℓ curs = true) (cur : List Char) (hcur : cur ∈ curs)
    (n : Num) (hwf : WellFormed ℓ.grp n) (pre w post : List Char)
    (hpre : ∀ c ∈ pre, isWs c = true) (hw : ∀ c ∈ w, isWs c = true) (hpost : ∀ c ∈ post, isWs c = true) :
    parseFormattedNumber ℓ curs (pre ++ (n.render ℓ.dec ++ (w ++ cur)) ++ post) =
      some (.num n false false, if n.isSci then .scientific else .currencySuffix cur n.hasDot) :=
  complete_currency_after hl hc hcur hwf hpre hw hpost

/-! ### completeness of the date productions -/

/-- **completeness of `parse_date`**: every date rendering (three separator-free fields in ISO order
    or in the locale's order, numeric or named month, valid date, serial in range) is recognised with
    exactly its serial and format; conversely `parseDate_sound` -/
theorem recognise_complete_parse_date (ℓ : Locale) (t : List Char) (serial : Nat) (fmt : List Char)
    (h : IsDateRendering ℓ t serial fmt) : parseDate ℓ t = some (serial, fmt) :=
  parseDate_complete h

/-- **completeness, date production at the top level**: a date rendering whose first character is
    not white space, `-` or the first character of a currency symbol and whose last character is a
    digit (`DateEdgeOk`, decidable) is stored as its serial with its date format -/
theorem recognise_complete_date (ℓ : Locale) (curs : List (List Char)) (hc : CursOk ℓ curs = true)
    (t : List Char) (serial : Nat) (fmt : List Char) (h : IsDateRendering ℓ t serial fmt)
    (he : DateEdgeOk curs t = true) :
    parseFormattedNumber ℓ curs t = some (.serial serial, .date fmt) :=
  date_toplevel hc he (parseDate_complete h)

/-- **every numeric ISO rendering** `yyyy sep m sep d` (four year digits, one or two month and day
    digits, separator `/`, `-` or `.`) of a calendar date that exists and whose serial is in the
    supported range is stored as that serial with the format `yyyy sep m|mm sep d|dd` -/
theorem recognise_complete_date_iso (ℓ : Locale) (curs : List (List Char)) (hc : CursOk ℓ curs = true)
    (sep : Char) (hsep : sep = '/' ∨ sep = '-' ∨ sep = '.') (yT mT dT : List Char)
    (hy : allDigits yT = true) (hyl : yT.length = 4)
    (hm : allDigits mT = true) (hml : mT.length = 1 ∨ mT.length = 2)
    (hd : allDigits dT = true) (hdl : dT.length = 1 ∨ dT.length = 2)
    (serial : Nat)
    (hser : IronCalc.Dates.toSerial ⟨yearOf (digitsVal yT), digitsVal mT, digitsVal dT⟩ = some (serial : Int))
    (h1 : 1 ≤ serial) (h2 : serial ≤ 2958465) :
    parseFormattedNumber ℓ curs (yT ++ sep :: mT ++ sep :: dT) =
      some (.serial serial, .date (['y', 'y', 'y', 'y'] ++ [sep] ++ monthFmt mT ++ [sep] ++ dayFmt dT)) := by
  have hyne : yT ≠ [] := by intro h0; subst h0; simp at hyl
  apply recognise_complete_date ℓ curs hc
  · refine ⟨sep, yT, mT, dT, dT, mT, yT, dayFmt dT, monthFmt mT, yearFmt (digitsVal yT), digitsVal dT, digitsVal mT,
      yearOf (digitsVal yT), hsep, rfl, fieldOk_digits hsep hy, fieldOk_digits hsep hm, fieldOk_digits hsep hd,
      Or.inl ⟨by simp [isoYear, utf8Len_digits hy, hyl, hy], rfl, rfl, rfl, hm, hd, rfl⟩,
      parseDay_digits hd hdl, parseMonth_digits ℓ hm hml, parseYear_digits hy (Or.inr hyl), hser, h1, h2⟩
  · exact dateEdgeOk_fields hc hy hyne hd (len_ne_nil hdl)

/-- **every numeric rendering in the locale's order** (`d sep m sep y` when the locale's short date
    starts with the day, else `m sep d sep y`; one or two day and month digits; two or four year digits,
    two-digit years read as 1930–2029) of an existing date with a serial in range is stored as that
    serial, with the matching format -/
theorem recognise_complete_date_locale (ℓ : Locale) (curs : List (List Char)) (hc : CursOk ℓ curs = true)
    (sep : Char) (hsep : sep = '/' ∨ sep = '-' ∨ sep = '.') (yT mT dT : List Char)
    (hy : allDigits yT = true) (hyl : yT.length = 2 ∨ yT.length = 4)
    (hm : allDigits mT = true) (hml : mT.length = 1 ∨ mT.length = 2)
    (hd : allDigits dT = true) (hdl : dT.length = 1 ∨ dT.length = 2)
    (serial : Nat)
    (hser : IronCalc.Dates.toSerial ⟨yearOf (digitsVal yT), digitsVal mT, digitsVal dT⟩ = some (serial : Int))
    (h1 : 1 ≤ serial) (h2 : serial ≤ 2958465) :
    parseFormattedNumber ℓ curs
        (if ℓ.dayFirst then dT ++ sep :: mT ++ sep :: yT else mT ++ sep :: dT ++ sep :: yT) =
      some (.serial serial,
        .date (if ℓ.dayFirst then dayFmt dT ++ [sep] ++ monthFmt mT ++ [sep] ++ yearFmt (digitsVal yT)
               else monthFmt mT ++ [sep] ++ dayFmt dT ++ [sep] ++ yearFmt (digitsVal yT))) := by
  have hyne : yT ≠ [] := by intro h0; subst h0; simp at hyl
  cases hdf : ℓ.dayFirst
  · simp only [Bool.false_eq_true, if_false]
    apply recognise_complete_date ℓ curs hc
    · refine ⟨sep, mT, dT, yT, dT, mT, yT, dayFmt dT, monthFmt mT, yearFmt (digitsVal yT), digitsVal dT, digitsVal mT,
        yearOf (digitsVal yT), hsep, rfl, fieldOk_digits hsep hm, fieldOk_digits hsep hd, fieldOk_digits hsep hy,
        Or.inr (Or.inr ⟨by simp only [isoYear, utf8Len_digits hm, Bool.and_eq_false_iff, beq_eq_false_iff_ne]; left; omega, hdf, rfl, rfl, rfl, rfl⟩),
        parseDay_digits hd hdl, parseMonth_digits ℓ hm hml, parseYear_digits hy hyl, hser, h1, h2⟩
    · exact dateEdgeOk_fields hc hm (len_ne_nil hml) hy hyne
  · simp only [if_true]
    apply recognise_complete_date ℓ curs hc
    · refine ⟨sep, dT, mT, yT, dT, mT, yT, dayFmt dT, monthFmt mT, yearFmt (digitsVal yT), digitsVal dT, digitsVal mT,
        yearOf (digitsVal yT), hsep, rfl, fieldOk_digits hsep hd, fieldOk_digits hsep hm, fieldOk_digits hsep hy,
        Or.inr (Or.inl ⟨by simp only [isoYear, utf8Len_digits hd, Bool.and_eq_false_iff, beq_eq_false_iff_ne]; left; omega, hdf, rfl, rfl, rfl, rfl⟩),
        parseDay_digits hd hdl, parseMonth_digits ℓ hm hml, parseYear_digits hy hyl, hser, h1, h2⟩
    · exact dateEdgeOk_fields hc hd (len_ne_nil hdl) hy hyne

/-- **month names** (regenerated table, all 6 locales × 24 names): every short and long month name
    is read by `parse_month` as its month; is free of `/` and `-` (so it can be a field with these
    separators; with `.` only when it has no `.`: the French short names `janv.` … do); is never taken
    for an ISO year (fix F19f); and starts
    with a character that is not white space, `-`, or the first character of a currency symbol -/
theorem month_names_table :
    IronCalc.Generated.C19.locales.all (fun p =>
      (List.range 12).all fun i =>
        [p.2.monthsShort.getD i [], p.2.months.getD i []].all fun nm =>
          ((parseMonth p.2 nm).map (·.1) == some (i + 1)) && fieldOk '/' nm && fieldOk '-' nm && !isoYear nm &&
          (match nm.head? with
           | some h => !isWs h && h != '-' && (currencies p.2).all (fun c => c.head? != some h)
           | none => false)) = true := by
  decide +kernel

/-- a recognised date is a date of the calendar: its serial converts back (C21) to the year, month
    and day that were typed -/
theorem recognised_date_is_calendar_date (ℓ : Locale) (t : List Char) (serial : Nat) (fmt : List Char)
    (h : parseDate ℓ t = some (serial, fmt)) :
    ∃ ymd : IronCalc.Dates.YMD, IronCalc.Dates.fromSerial serial = some ymd ∧
      IronCalc.Dates.toSerial ymd = some (serial : Int) := by
  obtain ⟨_, _, _, _, _, _, _, _, _, _, day, month, year, _, _, _, _, _, _, hser, h1, h2⟩ := parseDate_sound h
  exact ⟨⟨year, month, day⟩,
    IronCalc.Dates.C21_date_roundtrip ⟨year, month, day⟩ serial hser h1 (by unfold IronCalc.Dates.maxSerial; exact h2), hser⟩

/-- **the sign is preserved**: the recognised literal is negative exactly when the text starts
    with `-` (no strictness needed) -/
theorem sign_preserved (dec grp : Char) (t : List Char) (n : Num) (h : parseNumber dec grp t = some n) :
    n.neg = true ↔ t.head? = some '-' := by
  unfold parseNumber at h
  split at h
  · cases h
  · rename_i n' hscan
    split at h
    · cases h
      unfold scanNumber at hscan
      split at hscan
      rename_i sign r0 hsign
      split at hscan
      · cases hscan
      · split at hscan
        · cases hscan
        · split at hscan
          · cases hscan
          · split at hscan
            split at hscan
            · cases hscan
            · cases hscan
              unfold Num.neg
              simp only
              unfold takeSign at hsign
              split at hsign
              · rename_i c r
                split at hsign
                · rename_i hc; cases hsign; simp at hc; simp [hc]
                · rename_i hc
                  split at hsign
                  · cases hsign; simp at hc; simp [hc]
                  · cases hsign; simp at hc; simp [hc]
              · cases hsign
    · cases h

/-- a `-` in front of a currency symbol negates an unsigned amount (fixes F19a, F19c): the value is
    negative -/
theorem negated_currency_is_negative (ℓ : Locale) (curs : List (List Char)) (s : List Char) (n : Num)
    (pct : Bool) (k : Kind) (h : parseFormattedNumber ℓ curs s = some (.num n true pct, k))
    (hs : (Value.num n true pct).strictGroups = true) :
    (Value.num n true pct).isNegative = true := by
  have := recognise_sound_partial ℓ curs s _ k h hs
  cases this with
  | negCurrency _ _ _ hsign => simp [Value.isNegative, Num.neg, hsign]

/-- **format kinds**: a `%`-suffixed text that is recognised gets the percent format, or the
    scientific one when it has an exponent; the value is the number divided by 100 -/
theorem format_kind_percent (ℓ : Locale) (curs : List (List Char)) (s p : List Char) (v : Value) (k : Kind)
    (hp : stripSuffix ['%'] (trim s) = some p) (h : parseFormattedNumber ℓ curs s = some (v, k)) :
    ∃ n, v = .num n false true ∧ k = (if n.isSci then .scientific else .percent n.hasDot) := by
  unfold parseFormattedNumber at h
  simp only [hp] at h
  split at h
  · cases h
  · rename_i n _
    simp only [Option.some.injEq, Prod.mk.injEq] at h
    exact ⟨n, h.1.symm, h.2.symm⟩

/-- **format kinds, currency before**: a `symbol#,##0[.00]` format is attached only to a text that,
    trimmed, is `symbol rest` or `-symbol rest` with `symbol` in the currency list and `rest`
    (trimmed) a number without exponent; the value is that number (negated in the second case),
    not divided by 100; the format has decimals exactly when a decimal separator was typed
    (no strictness needed) -/
theorem format_kind_currency_prefix (ℓ : Locale) (curs : List (List Char)) (s c : List Char) (v : Value) (d : Bool)
    (h : parseFormattedNumber ℓ curs s = some (v, .currencyPrefix c d)) :
    c ∈ curs ∧ ∃ n negated p, v = .num n negated false ∧ d = n.hasDot ∧ n.isSci = false ∧
      stripPrefix (if negated then '-' :: c else c) (trim s) = some p ∧
      parseNumber ℓ.dec ℓ.grp (trim p) = some n := by
  obtain ⟨cur, hm, hstep⟩ := currency_kind_from_loop h (Or.inl ⟨c, d, rfl⟩)
  obtain ⟨hc, hrest⟩ := currencyStep_prefix_kind hstep
  subst hc
  exact ⟨hm, hrest⟩

/-- **format kinds, currency after**: a `#,##0[.00]symbol` format is attached only to `rest symbol` -/
theorem format_kind_currency_suffix (ℓ : Locale) (curs : List (List Char)) (s c : List Char) (v : Value) (d : Bool)
    (h : parseFormattedNumber ℓ curs s = some (v, .currencySuffix c d)) :
    c ∈ curs ∧ ∃ n p, v = .num n false false ∧ d = n.hasDot ∧ n.isSci = false ∧
      stripSuffix c (trim s) = some p ∧ parseNumber ℓ.dec ℓ.grp (trim p) = some n := by
  obtain ⟨cur, hm, hstep⟩ := currency_kind_from_loop h (Or.inr ⟨c, d, rfl⟩)
  obtain ⟨hc, hrest⟩ := currencyStep_suffix_kind hstep
  subst hc
  exact ⟨hm, hrest⟩

/-- a recognised date is a date serial in the supported range with a date format -/
theorem format_kind_date (ℓ : Locale) (curs : List (List Char)) (s : List Char) (serial : Nat) (k : Kind)
    (h : parseFormattedNumber ℓ curs s = some (.serial serial, k)) :
    ∃ fmt, k = .date fmt ∧ IsDateText ℓ s serial fmt := by
  have := recognise_sound_partial ℓ curs s _ k h rfl
  cases this with
  | date hd => exact ⟨_, rfl, hd⟩

/-- a recognised number always fits a double (fix F08b): the literal's exact value is below the
    rounding threshold of +∞ -/
theorem recognised_is_finite (dec grp : Char) (t : List Char) (n : Num) (h : parseNumber dec grp t = some n) :
    overflowsF64 n.mant n.e10 = false := by
  unfold parseNumber at h
  split at h
  · cases h
  · split at h
    · rename_i hok; cases h
      simp only [Bool.and_eq_true, Bool.not_eq_true'] at hok
      exact hok.2
    · cases h

/-- defect F19f repaired: in a month-first locale a four-byte month name in first position is no
    longer taken for an ISO year: `July-20-2020` is a date like `March-20-2020` -/
theorem F19f_four_byte_month_name_first :
    (IronCalc.Generated.C19.locales.lookup "en").map
      (fun l => ((parseDate l "July-20-2020".toList).isSome, (parseDate l "March-20-2020".toList).isSome))
    = some (true, true) := by decide +kernel

/-! ### non-vacuity and the decided witnesses -/

/-- `-$1,234.5e-3` (en) is recognised, strictly grouped, negative, scientific -/
example : (do
    let l ← IronCalc.Generated.C19.locales.lookup "en"
    let r ← parseFormattedNumber l (currencies l) "-$1,234.5e-3".toList
    pure (r.1.strictGroups, r.1.isNegative, r.2 == .scientific)) = some (true, true, true) := by decide

/-- F19a repaired: `-$1e3` is negative -/
example : (do
    let l ← IronCalc.Generated.C19.locales.lookup "en"
    let r ← parseFormattedNumber l (currencies l) "-$1e3".toList
    pure r.1.isNegative) = some true := by decide

/-- F19b (known): `1,,000` and `1,000,` are accepted by the pinned code, outside the domain predicate -/
example : (do
    let l ← IronCalc.Generated.C19.locales.lookup "en"
    let r ← parseFormattedNumber l (currencies l) "1,,000".toList
    pure r.1.strictGroups) = some false := by decide

/-- F08b repaired: `1e999` is not a number; F19c: `-$-5` is not; F19d: `1/1/+1` is not; F19e: `0100-01-01` is not -/
example : (do
    let l ← IronCalc.Generated.C19.locales.lookup "en"
    pure ((parseFormattedNumber l (currencies l) "1e999".toList).isNone,
          (parseFormattedNumber l (currencies l) "-$-5".toList).isNone,
          (parseFormattedNumber l (currencies l) "1/1/+1".toList).isNone,
          (parseFormattedNumber l (currencies l) "0100-01-01".toList).isNone)) = some (true, true, true, true) := by
  decide

/-- the hypotheses of the currency completeness theorems are met: `1,234.5` is a well-formed
    number of `en` (groups, fraction), and the recogniser does store `- $ 1,234.5 ` as −1234.5 -/
example : WellFormed ',' ⟨none, "1,234".toList, true, "5".toList, none⟩ :=
  { sign := Or.inl rfl
    int := ⟨['1'], ",234".toList, rfl, by unfold AllDigits; decide,
      Groups.cons (by decide) (by decide) (by decide) Groups.nil, fun _ => by simp⟩
    frac := by unfold AllDigits; decide
    noDot := by intro h; cases h
    mant := by decide
    exp := trivial
    finite := by decide }

example : (do
    let l ← IronCalc.Generated.C19.locales.lookup "en"
    let r ← parseFormattedNumber l (currencies l) " -$ 1,234.5 ".toList
    pure (r.1.isNegative, r.2 == .currencyPrefix ['$'] true)) = some (true, true) := by decide

/-- the hypotheses of `recognise_complete_date_locale` are met (de, `29.02.24`): an existing date,
    two-digit year read as 2024, serial 45351 in range -/
example : IronCalc.Dates.toSerial ⟨yearOf (digitsVal "24".toList), digitsVal "02".toList, digitsVal "29".toList⟩
    = some 45351 := by decide +kernel

/-- a leap day typed in ISO layout is the serial C21 gives it -/
example : (do
    let l ← IronCalc.Generated.C19.locales.lookup "de"
    let r ← parseFormattedNumber l (currencies l) "2020-02-29".toList
    pure r.1) = some (.serial 43890) := by decide +kernel

end IronCalc.Number
