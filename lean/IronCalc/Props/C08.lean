import IronCalc.Eval.StoreProofs
/-
  C08 — No cell ever stores a non-finite number.
  Property theorems only (helpers: Eval/StoreProofs.lean).
  Model: Eval/Store.lean (models base/src/model.rs::set_cells_with_result, its helpers, the typed
  number branch of set_user_input and the anchor value returned by evaluate_cell).
  `guard = true` is the repaired code (fix commits F08a, F08b); `guard = false` the pinned tree.
-/
namespace IronCalc.Store

/-- **C08 (formula results).** Whatever result `r` an evaluation produces — a scalar, NaN, ±inf, a
    range, a lambda, an array of any shape whose elements may themselves be non-finite — and
    whatever kind of cell it is stored into (plain formula, CSE array, dynamic array, no formula),
    at any position, with any blockers: if no cell of the sheet held a non-finite number before
    `set_cells_with_result`, none does afterwards (also when the function returns `Err`). -/
theorem C08_store {N : Type} (S : NumSpec N) (g : Grid N) (row col : Nat) (cell : Cell N)
    (r : CalcResult N) (hg : AllFinite S g) : AllFinite S (store S true g row col cell r).grid := by
  unfold store
  split
  · exact hg
  · split
    · exact storeArray_finite S g row col cell _ hg
    · split
      · exact hg
      · rename_i fv hfv
        exact storeFormulaValue_finite S g row col cell fv hg (scalarFormulaValue_finite S _ fv hfv)

/-- the hypotheses of `C08_store` are met by a non-trivial sheet, and the conclusion is about a
    non-trivial write: a 1×2 array with an infinite element spilled by a dynamic formula -/
example :
    let S : NumSpec (Option Int) := ⟨fun n => n.isSome, some 0, rfl⟩   -- `none` plays ±inf / NaN
    let g : Grid (Option Int) := [((1, 1), .arrayFormula 1 1 .dynamic .unevaluated), ((5, 5), .number (some 7))]
    let out := store S true g 1 1 (.arrayFormula 1 1 .dynamic .unevaluated) (.array [[.number none, .number (some 1)]])
    allFiniteB S g = true ∧ out.ok = true ∧ allFiniteB S out.grid = true ∧ out.grid.length = 3 := by
  decide

/-- **C08 (typed input).** Whatever text is typed and whatever number the recogniser returns for it
    (including `inf` for "1e999"), the cell written by the typed-number branch of `set_user_input`
    holds no non-finite number, provided the rest of the cascade (boolean / error / text) stores no
    number at all. -/
theorem C08_typed {N : Type} (S : NumSpec N) (parse : String → Option N) (other : String → Cell N)
    (hother : ∀ s, cellFinite S (other s) = true) (s : String) :
    cellFinite S (typedCell S true parse other s) = true := by
  unfold typedCell
  split
  · rename_i n _
    cases hf : S.finite n
    · simpa [hf] using hother s
    · simp [hf, cellFinite]
  · exact hother s

example :
    let S : NumSpec (Option Int) := ⟨fun n => n.isSome, some 0, rfl⟩
    cellFinite S (typedCell S true (fun s => if s = "1e999" then some none else none) (fun s => .sharedString s) "1e999") = true
    ∧ cellFinite S (typedCell S false (fun s => if s = "1e999" then some none else none) (fun s => .sharedString s) "1e999") = false := by
  decide

/-- **C08 (value handed to dependents).** The value `evaluate_cell` returns for an array anchor in
    the same pass is never a non-finite number either, and it is the value that was stored. -/
theorem C08_anchor_return {N : Type} (S : NumSpec N) (nd : ArrayNode N) :
    (match anchorReturn S true nd with | .number n => S.finite n | _ => true) = true
    ∧ (match anchorReturn S true nd, nodeToFormulaValue S true nd with
       | .number a, .number _ => S.finite a
       | .error a, .error b => decide (a = b)
       | .boolean _, .boolean _ => true
       | .string _, .text _ => true
       | .emptyCell, .number _ => true
       | _, _ => false) = true := by
  cases nd with
  | number n => cases h : S.finite n <;> simp [anchorReturn, nodeToFormulaValue, h]
  | _ => simp [anchorReturn, nodeToFormulaValue]

/-- the full statement for a given code version -/
def C08_full (guard : Bool) : Prop :=
  ∀ (N : Type) (S : NumSpec N) (g : Grid N) (row col : Nat) (cell : Cell N) (r : CalcResult N),
    AllFinite S g → AllFinite S (store S guard g row col cell r).grid

/-- the repaired code satisfies the full statement -/
theorem C08_full_repaired : C08_full true :=
  fun _ S g row col cell r hg => C08_store S g row col cell r hg

/-- the pinned tree did not (F08a): `={1E308,1}*10` entered in A1 — the array path copies the
    infinite element into the anchor cell. Kept machine-checked so that a revert of the fix is a
    counter-example of the model, not only of the sweep. -/
theorem C08_pinned_false : ¬ C08_full false := by
  intro h
  let S : NumSpec (Option Int) := ⟨fun n => n.isSome, some 0, rfl⟩
  have := h (Option Int) S [((1, 1), .arrayFormula 1 1 .dynamic .unevaluated)] 1 1
    (.arrayFormula 1 1 .dynamic .unevaluated) (.array [[.number none, .number (some 10)]])
    (by intro p hp; simp at hp; subst hp; rfl)
  have hb := (allFinite_iff_allFiniteB S _).mp this
  revert hb
  decide

/-- the scalar path alone was already safe on the pinned tree (the "safety belt") -/
theorem C08_partial_pinned_scalar {N : Type} (S : NumSpec N) (guard : Bool) (g : Grid N) (row col : Nat)
    (cell : Cell N) (r : CalcResult N) (hr : ∀ a, r ≠ .array a) (hg : AllFinite S g) :
    AllFinite S (store S guard g row col cell r).grid := by
  unfold store
  split
  · exact hg
  · split
    · rename_i a; exact absurd rfl (hr a)
    · split
      · exact hg
      · rename_i fv hfv
        exact storeFormulaValue_finite S g row col cell fv hg (scalarFormulaValue_finite S _ fv hfv)

end IronCalc.Store
