import IronCalc.User.DiffsProofs
/-
  C01 — Undo restores the exact state before the undone operation; repeated undo walks back.
  Model: User/History.lean (generic machine), User/Diffs.lean (concrete attribute operations, each
  `back1` arm transcribed from `undo_redo.rs::apply_undo_diff_list`).
  Property theorems only; helpers in User/HistoryProofs.lean, User/DiffsProofs.lean.
-/
namespace IronCalc.User.C01
open IronCalc.User

variable {W D Op E O : Type}

/-- GENERIC: if the local inverse law holds for an operation, then from ANY machine state a
    successful recording operation followed by `undo` gives back the observable state before the
    operation, and the undo call succeeds. -/
theorem undo_exact_generic (S : Sys W D Op E) (obs : W → O) (dom : W → Op → Prop)
    (hInv : LocalInv S obs dom) (s : St W D) (o : Op) (ds : List D) (hd : dom s.w o)
    (herr : (S.doOp s.w o).err = none) (hp : (S.doOp s.w o).pushed = some ds) :
    (undoStep S (step S s (Cmd.op o)).1).2 = true ∧
      obs (undoStep S (step S s (Cmd.op o)).1).1.w = obs s.w ∧
      (undoStep S (step S s (Cmd.op o)).1).1.undo = s.undo := by
  have h := hInv s.w o ds hd herr hp (S.doOp s.w o).w rfl
  simp [step, doUser, hp, pushDiffList, undoStep, h.1, h.2]

/-- GENERIC: `k` successive undos walk back through the last `k` not-yet-undone operations: the
    observable state is the one the cursor specification remembers `k` operations back. -/
theorem run_undo_walks_back (S : Sys W D Op E) (obs : W → O) (dom : W → Op → Prop)
    (L : Laws S obs dom) (s : St W D) (c : Cur Op O) (h : Refines S obs s c)
    (k : Nat) (hk : k ≤ c.done.length) :
    obs (run S s (List.replicate k Cmd.undo)).w = curOf c.base (c.done.drop k) := by
  have hr := run_refines S obs dom L _ s c h (allDom_undos S dom k s)
  rw [specRun_undos] at hr
  have hu := Cur.undoN_done k c hk
  rw [hr.1, Cur.cur, hu.1, hu.2.1]

/-- GENERIC: undoing everything returns to the state the history started from -/
theorem undo_all_returns_to_base (S : Sys W D Op E) (obs : W → O) (dom : W → Op → Prop)
    (L : Laws S obs dom) (s : St W D) (c : Cur Op O) (h : Refines S obs s c) :
    obs (run S s (List.replicate c.done.length Cmd.undo)).w = c.base := by
  rw [run_undo_walks_back S obs dom L s c h _ (Nat.le_refl _)]
  simp [curOf]

/-- the full statement on the concrete model: EVERY successful recording operation is undone
    exactly, from every model state -/
def C01_full (env : Env) : Prop :=
  ∀ (b : Book) (o : User.Op) (ds : List Diff), (doOp env b o).err = none →
    (doOp env b o).pushed = some ds →
    (applyBack env (doOp env b o).w ds).ok = true ∧ (applyBack env (doOp env b o).w ds).w = b

/-- CONCRETE, what is true: on the decidable domain `dom` every modelled operation is undone
    exactly (the whole modelled workbook state is restored, `undo()` returns Ok). -/
theorem C01_partial (env : Env) (b : Book) (o : User.Op) (ds : List Diff)
    (hd : dom env b o = true) (herr : (doOp env b o).err = none)
    (hp : (doOp env b o).pushed = some ds) :
    (applyBack env (doOp env b o).w ds).ok = true ∧ (applyBack env (doOp env b o).w ds).w = b := by
  rw [chain_back env (op_chain env b o ds hd herr hp)]; exact ⟨rfl, rfl⟩

/-- CONCRETE: after ANY history of operations of the domain interleaved with undo/redo/flush,
    undoing everything returns to the initial workbook -/
theorem C01_partial_history (env : Env) (cs : List (Cmd User.Op))
    (hd : AllDom (sys env) (fun b o => dom env b o = true) St.init cs) :
    let c := specRun (sys env) (fun w => w) St.init ⟨Book.init, [], []⟩ cs
    (run (sys env) (run (sys env) St.init cs) (List.replicate c.done.length Cmd.undo)).w
      = Book.init := by
  intro c
  have hr := run_refines (sys env) (fun w => w) _ (laws env) cs St.init ⟨Book.init, [], []⟩
    (refines_init (sys env) (fun w => w) Book.init [] []) hd
  have hb : c.base = Book.init := by
    have : ∀ (cs : List (Cmd User.Op)) (s : St Book Diff) (c0 : Cur User.Op Book),
        (specRun (sys env) (fun w => w) s c0 cs).base = c0.base := by
      intro cs
      induction cs with
      | nil => intro s c0; rfl
      | cons cmd cs ih =>
        intro s c0
        simp only [specRun]
        rw [ih]
        cases cmd with
        | op o =>
          simp only [specStep]
          split <;> simp [Cur.doOp]
        | undo => simp only [specStep, Cur.undo]; split <;> rfl
        | redo => simp only [specStep, Cur.redo]; split <;> rfl
        | flush => rfl
    exact this cs St.init _
  have := undo_all_returns_to_base (sys env) (fun w => w) _ (laws env) _ c hr
  rw [this, hb]

/-! Outside the domain the model (faithful to the engine) still violates the property in one place,
    F01o: `delete_sheet` deletes the names local to the sheet and records one `DeleteDefinedName`
    diff per name; undo re-creates them with `new_defined_name`, which APPENDS, so a local name
    that stood in front of another name in `workbook.defined_names` (the order
    `get_defined_name_list` reports) comes back behind it.  Everything else of the sheet — since
    the fix of F01d also its links — is restored. -/

def envEx : Env :=
  { validTz := fun s => s == "UTC", validLocale := fun s => s == "en", upper := fun s => s }

def namedBook : Book :=
  { Book.init with
    sheets := [emptySheet "Sheet1" 1, emptySheet "Sheet2" 2],
    names := [⟨"a", "Sheet2!$A$1", some 2⟩, ⟨"b", "Sheet1!$A$1", none⟩] }

theorem C01_full_false : ¬ C01_full envEx := by
  intro h
  have h1 := h namedBook (.deleteSheet 1)
    [.deleteDefinedName "a" 1 "Sheet2!$A$1", .deleteSheet 1 (emptySheet "Sheet2" 2)]
    (by decide) rfl
  have h2 : ((applyBack envEx (doOp envEx namedBook (.deleteSheet 1)).w
      [.deleteDefinedName "a" 1 "Sheet2!$A$1", .deleteSheet 1 (emptySheet "Sheet2" 2)]).w.names.map
        fun d => d.name) = ["b", "a"] := by decide
  rw [h1.2] at h2
  exact absurd h2 (by decide)

/-- links are restored by the undo of `delete_sheet` (fixed finding F01d): inside the domain -/
def linkedBook : Book :=
  { Book.init with sheets :=
      [emptySheet "Sheet1" 1,
       { emptySheet "Sheet2" 2 with links := [(1, 1, "https://example.com")] }] }

/-- the hidden-column resize (fixed finding F01c) is now inside the domain and undone exactly -/
def hiddenBook : Book :=
  { Book.init with sheets :=
      [{ emptySheet "Sheet1" 1 with colAt := upd (fun _ => ColView.default) 3 ⟨200, true, none⟩ }] }

/-! non-vacuity of `C01_partial` -/
example : dom envEx Book.init (.setColumnsWidth 0 2 5 40) = true := by decide
example : (doOp envEx Book.init (.setColumnsWidth 0 2 5 40)).pushed.map List.length = some 4 := by
  decide
example : dom envEx hiddenBook (.setColumnsWidth 0 3 3 50) = true := by decide
example : dom envEx linkedBook (.deleteSheet 1) = true := by decide
example : dom envEx namedBook (.deleteSheet 1) = false := by decide
example : ((applyBack envEx (doOp envEx linkedBook (.deleteSheet 1)).w
    [.deleteSheet 1 { emptySheet "Sheet2" 2 with links := [(1, 1, "https://example.com")] }]).w.sheets.map
      fun s => s.links.length) = [0, 1] := by decide
example : ((applyBack envEx (doOp envEx hiddenBook (.setColumnsWidth 0 3 3 50)).w
    [.setColumnWidth 0 3 200 50]).w.sheets.map fun s => (s.colAt 3).width) = [200] := by decide

/-! plain cells: typed text and range clear are inside the domain (non-vacuity of `C01_partial`) -/
example : dom envEx Book.init (.setPlainInput 0 2 1 "alpha") = true := by decide
example : (doOp envEx Book.init (.setPlainInput 0 2 1 "alpha")).pushed.map List.length = some 1 := by
  decide
example : dom envEx Book.init (.rangeClearContents 0 1 1 3 3) = true := by decide
example : (doOp envEx Book.init (.rangeClearContents 0 1048576 1 1 2)).err = some .invalidRow := by
  decide

end IronCalc.User.C01
