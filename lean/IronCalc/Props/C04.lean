import IronCalc.User.DiffsProofs
/-
  C04 — A failed operation changes nothing (workbook, undo stack, redo stack, outgoing queue).
  Model: User/Diffs.lean — every user-level operation written in the order the code performs
  read old value / fallible model call / `push_diff_list`; User/History.lean `doUser`.
  The model follows the REPAIRED order (fix commits, see notes/C04.md); the order of the pinned
  tree is kept as `…Pinned` and shown to violate the property.  Property theorems only.
-/
namespace IronCalc.User.C04
open IronCalc.User

variable {W D Op E : Type}

/-- GENERIC shape: if every operation is atomic on the workbook (a failing call neither mutates
    nor records), a failing call leaves the WHOLE machine state unchanged: workbook, undo stack,
    redo stack (not discarded), outgoing queue. -/
theorem C04_atomic_generic (S : Sys W D Op E) (dom : W → Op → Prop) (hA : Atomic S dom)
    (s : St W D) (o : Op) (e : E) (hd : dom s.w o) (h : (doUser S s o).2 = some e) :
    (doUser S s o).1 = s :=
  doUser_atomic S dom hA s o e hd h

/-- CONCRETE, every modelled operation, every state, no domain restriction: a failing call
    returns the workbook it was given and records nothing. -/
theorem C04_atomic_op (env : Env) (b : Book) (o : User.Op) (e : Err)
    (h : (doOp env b o).err = some e) : (doOp env b o).w = b ∧ (doOp env b o).pushed = none :=
  doOp_atomic env b o e h

/-- CONCRETE: `doUser s o = (s', error) → s' = s` for the whole machine state -/
theorem C04_atomic (env : Env) (s : St Book Diff) (o : User.Op) (e : Err)
    (h : (doUser (sys env) s o).2 = some e) : (doUser (sys env) s o).1 = s :=
  doUser_atomic (sys env) (fun _ _ => True) (fun b o e _ h => doOp_atomic env b o e h) s o e
    trivial h

/-- … hence undoing afterwards behaves as if the failed call never happened -/
theorem C04_undo_after_failure (env : Env) (s : St Book Diff) (o : User.Op) (e : Err)
    (h : (doUser (sys env) s o).2 = some e) :
    undoStep (sys env) (doUser (sys env) s o).1 = undoStep (sys env) s := by
  rw [C04_atomic env s o e h]

/-- the loops: once the repaired code's range check has passed, the column loop cannot fail, so
    no partial edit can be left behind (same for the three other loops, `…Loop_ok`) -/
theorem C04_loop_cannot_fail (b : Book) (sheet : Nat) (c1 c2 w : Int)
    (hc : checkColsRange b sheet c1 c2 = none) (hw : ¬ w < 0) :
    (colsWidthLoop sheet w (rangeCount c1 c2) c1 b []).err = none := by
  obtain ⟨⟨sh, hsh⟩, hb⟩ := checkCols_bounds hc
  rcases hb with h0 | ⟨h1, h2⟩
  · rw [h0]; rfl
  · exact colsWidthLoop_ok sheet w hw _ _ _ _ sh hsh h1 h2

/-! The pinned tree's order (fixed defects F04a–h, F04j): kept as a machine-checked record. -/

def envEx : Env :=
  { validTz := fun s => s == "UTC", validLocale := fun s => s == "en", upper := String.toUpper }

/-- F04a: `set_timezone("Nowhere/Land")` with push-before-validate returns an error AND records -/
theorem C04_pinned_order_false :
    (setTimezonePinned envEx Book.init "Nowhere/Land").err = some Err.invalidTz ∧
      ((setTimezonePinned envEx Book.init "Nowhere/Land").pushed.map List.length) = some 1 := by
  decide

/-- F04j: `set_columns_width(0, 16383, 16385, 30)` without the range check fails at column 16385
    after having resized 16383 and 16384 -/
theorem C04_pinned_loop_false :
    (setColumnsWidthPinned Book.init 0 16383 16385 30).err = some Err.invalidColumn ∧
      ((setColumnsWidthPinned Book.init 0 16383 16385 30).w.sheets.map
        fun s => (s.colAt 16384).width) = [30] := by
  decide

/-! non-vacuity: failing calls exist for every error class used -/
example : (doOp envEx Book.init (.setTimezone "Nowhere/Land")).err = some .invalidTz := by decide
example : (doOp envEx Book.init (.deleteSheet 0)).err = some .onlySheet := by decide
example : (doOp envEx Book.init (.setFrozenRows 0 (-1))).err = some .negative := by decide
example : (doOp envEx Book.init (.setColumnsWidth 0 16383 16385 30)).err = some .invalidColumn := by
  decide
example : (doOp envEx Book.init (.renameSheet 0 "a[b")).err = some .invalidName := by decide
example : (doOp envEx Book.init (.hideSheet 7)).err = some .invalidSheet := by decide

end IronCalc.User.C04
