import IronCalc.Io.XlsxEscapeProofs
/-
  C24 — xlsx export then import preserves the workbook: the string codec.
  Property theorems only (helpers are in Io/XlsxEscapeProofs.lean).
  Model: Io/XlsxEscape.lean (models xlsx/src/export/escape.rs, the XML parser's text decoding
  [assumption, tied by the c24-codec suite] and xlsx/src/import/shared_strings.rs::decode_xlsx_escapes).
  Strings are lists of code points; every statement is for ALL lists (no length or alphabet bound).
-/
namespace IronCalc.XlsxEscape

/-- the exporter's output is well-formed element text, and the XML parser gives back exactly the
    `_xHHHH_` layer (the entity layer is undone) — for every string -/
theorem xml_layer_inverse (s : List Nat) : xmlText (escape s) = some (xLayer s) :=
  xmlText_escape s

/-- `decode_xlsx_escapes` undoes the `_xHHHH_` layer — for every string -/
theorem decode_inverse (s : List Nat) : decode (xLayer s) = s :=
  decode_xLayer s

/-- C24 (string codec), current tree: every string — any code points, including every C0 control,
    U+FFFE/U+FFFF, XML specials, literal `_xHHHH_` look-alikes in any arrangement — written by
    `escape_xml` and read back by the XML parser and `decode_xlsx_escapes` is unchanged -/
theorem escape_roundtrip (s : List Nat) : importText (escape s) = some s := by
  unfold importText
  rw [xml_layer_inverse]
  simp [decode_inverse]

example : importText (escape [0x5F, 0x78, 0x30, 0x30, 0x34, 0x31, 0x01]) =
    some [0x5F, 0x78, 0x30, 0x30, 0x34, 0x31, 0x01] := escape_roundtrip _
example : escape [0x5F, 0x78, 0x30, 0x30, 0x34, 0x31, 0x01, 0x3C, 0xFFFF]
    = [0x5F, 0x78, 0x30, 0x30, 0x35, 0x46, 0x5F, 0x78, 0x30, 0x30, 0x34, 0x31,
       0x5F, 0x78, 0x30, 0x30, 0x30, 0x31, 0x5F, 0x26, 0x6C, 0x74, 0x3B,
       0x5F, 0x78, 0x46, 0x46, 0x46, 0x46, 0x5F] := by decide

/-- the byte-level look-ahead of the importer is the character-level one (UTF-8 never produces an
    ASCII byte inside a multi-byte character) -/
theorem startsPat_utf8 (s : List Nat) : startsPat (utf8s s) = startsPat s :=
  startsPat_utf8s s

example : startsPat (utf8s [0x5F, 0x78, 0xE9, 0x31, 0x32, 0x5F]) = false := by decide

/-! ### the pinned tree (before the two `fix:` commits) -/

/-- the full statement for the pinned exporter -/
def C24_codec_full_pinned : Prop := ∀ s, importText (escapeOld s) = some s

/-- F24a: `_x0041` followed by U+0001 is written `_x0041_x0001_` and read back as `Ax0001_` -/
theorem escapeOld_lookalike_witness :
    importText (escapeOld [0x5F, 0x78, 0x30, 0x30, 0x34, 0x31, 0x01]) =
      some [0x41, 0x78, 0x30, 0x30, 0x30, 0x31, 0x5F] := by decide

/-- F24b: a string containing U+FFFF is written to a file that does not parse -/
theorem escapeOld_nonchar_witness : importText (escapeOld [0x61, 0xFFFF]) = none := by decide

theorem C24_codec_pinned_false : ¬ C24_codec_full_pinned := by
  intro h
  have := h [0x61, 0xFFFF]
  rw [escapeOld_nonchar_witness] at this
  cases this

/-- the strongest true statement for the pinned exporter: outside the two decidable sets
    (`_xHHHH` followed by a C0 control; U+FFFE/U+FFFF present) every string round-trips -/
theorem escapeOld_roundtrip_partial (s : List Nat)
    (h1 : lookalikeBeforeCtl s = false) (h2 : hasNonChar s = false) :
    importText (escapeOld s) = some s := by
  rw [escapeOld_eq s h1 h2]
  exact escape_roundtrip s

example : lookalikeBeforeCtl [0x5F, 0x78, 0x30, 0x30, 0x34, 0x31, 0x5F, 0x01, 0x3C] = false ∧
    hasNonChar [0x5F, 0x78, 0x30, 0x30, 0x34, 0x31, 0x5F, 0x01, 0x3C] = false := by decide
example : lookalikeBeforeCtl [0x5F, 0x78, 0x30, 0x30, 0x34, 0x31, 0x01] = true := by decide

end IronCalc.XlsxEscape
