import IronCalc.Text.F4LexProofs4
import IronCalc.Formula.LexCfgs
import IronCalc.Formula.LexCfgProofs
/-
  C34 — F4 cycling at the level of the WHOLE FORMULA TEXT, lexer inside the model.
  Property theorems only.  Model: Text/F4Lex.lean (`cycleReferenceLex` = lexer/util.rs::cycle_reference
  with `get_tokens_with_locale` played by the character-level lexer model Formula/Lex.lean) on top of
  Text/F4.lean.  Helper lemmas: Text/F4LexProofs*.lean; lexer facts: Formula/LexProofs.lean (C09Lex).

  The full statement (every text, every cursor) is `C34_full`; it is false on the pinned tree
  (`C34_full_false`, finding F34a).  What is proved is named `…_partial`, under the decidable side
  condition `cycleSiteOK` (below) on texts that are printed token lists.
-/
namespace IronCalc.F4
open IronCalc.Codec IronCalc.Formula

/-! ### the statement -/

/-- `n` presses of F4, each starting from the text and cursor the previous one returned -/
def pressN (cfg : LexCfg) : Nat → List Char × Nat × Nat → Option (List Char × Nat × Nat)
  | 0, st => some st
  | n + 1, st =>
    match cycleReferenceLex cfg st.1 st.2.1 st.2.2 with
    | some st' => pressN cfg n st'
    | none => none

/-- **C34, full statement at text level**: for every text and every cursor/selection inside it, four
    presses succeed and return the original text up to letter case. -/
def C34_full (cfg : LexCfg) : Prop :=
  ∀ (v : List Char) (s e : Nat), s ≤ v.length → e ≤ v.length →
    ∃ st, pressN cfg 4 (v, s, e) = some st ∧ st.1.map asciiUpper = v.map asciiUpper

/-- The side condition under which the statement is proved, decidable: the formula is the printed
    form of the token list `pre ++ t :: post`; `t` — the token under the cursor — is a
    Reference/Range token; and in each of the four `$` states of `t` (`siteOK`): the printed shape of
    `t` is stable, all tokens are well formed (`tokOK`), the two neighbours of `t` are not
    Reference/Range tokens, and no token is followed by a character that glues to it (`glueFree`,
    Formula/LexGlue.lean). -/
def cycleSiteOK (cfg : LexCfg) (pre : List CTok) (t : CTok) (post : List CTok) : Bool :=
  siteOK cfg pre t post && siteOK cfg pre (advance t) post &&
    siteOK cfg pre (advance (advance t)) post && siteOK cfg pre (advance (advance (advance t))) post

/-- the cursor touches the token `t` and nothing else: it lies within the token's span (edges included) -/
def CursorOn (cfg : LexCfg) (pre : List CTok) (t : CTok) (s e : Nat) : Prop :=
  (render cfg pre).length + 1 ≤ min s e ∧ max s e ≤ (render cfg pre).length + (renderTok cfg t).length + 1

/-- where `cycle_reference` leaves the cursor: collapsed at the end of the cycled token, or selecting it -/
def cursorAfter (cfg : LexCfg) (pre : List CTok) (t' : CTok) (collapsed : Bool) : Nat × Nat :=
  (if collapsed then (render cfg pre).length + (renderTok cfg t').length + 1 else (render cfg pre).length + 1,
   (render cfg pre).length + (renderTok cfg t').length + 1)

/-! ### one press -/

/-- **(1)+(3) One press, text level.**  On a site, with the cursor on the token: the new text is the
    printed form of the same token list with only that token's `$` flags advanced — so everything
    before and after the token's text is unchanged, character for character — and the cursor is
    where `cycle_reference` documents it. -/
theorem C34_step_partial (cfg : LexCfg) (h : CfgOK cfg) (pre : List CTok) (t : CTok) (post : List CTok)
    (hs : siteOK cfg pre t post = true) (s e : Nat) (hc : CursorOn cfg pre t s e) :
    cycleReferenceLex cfg ('=' :: render cfg (pre ++ t :: post)) s e =
      some ('=' :: (render cfg pre ++ (renderTok cfg (advance t) ++ render cfg post)),
            cursorAfter cfg pre (advance t) (decide (s = e))) := by
  rw [cycleReferenceLex_site cfg h pre t post hs s e hc.1 hc.2, render_append, render_cons]
  by_cases hse : s = e <;> simp [cursorAfter, hse]

/-- **(1) The cycled text re-lexes into the same token sequence with only that token's flags
    changed**, and the lexer model finds the tokens at the same spans up to the length change of the
    cycled token (`spansOf` places every token after the texts of its predecessors). -/
theorem C34_relex_partial (cfg : LexCfg) (h : CfgOK cfg) (pre : List CTok) (t : CTok) (post : List CTok)
    (hs' : siteOK cfg pre (advance t) post = true) :
    lex cfg (render cfg (pre ++ advance t :: post)) = pre ++ advance t :: post ∧
    markedTokens cfg ((render cfg (pre ++ advance t :: post)).length + 1) 0
        (render cfg (pre ++ advance t :: post)) = spansOf cfg 0 (pre ++ advance t :: post) := by
  simp only [siteOK, Bool.and_eq_true] at hs'
  obtain ⟨⟨⟨⟨_, hok⟩, _⟩, _⟩, hg⟩ := hs'
  refine ⟨?_, ?_⟩
  · unfold lex
    have := render_length_ge cfg h _ hok
    have hm := markedTokens_render cfg h (pre ++ advance t :: post)
      ((render cfg (pre ++ advance t :: post)).length + 1) 0 (by omega) hok hg
    -- the token list of `lexN` is the first component of the marked tokens
    have key : ∀ (n pos : Nat) (s : List Char), lexN cfg n s = (markedTokens cfg n pos s).map (fun m => m.1) := by
      intro n
      induction n with
      | zero => intro pos s; rfl
      | succ k ih =>
        intro pos s
        simp only [lexN, markedTokens]
        cases nextToken cfg s with
        | none => rfl
        | some p =>
          simp only [List.map_cons]
          rw [ih (pos + (s.length - p.2.length)) p.2]
    rw [key _ 0, hm]
    have : ∀ (l : List CTok) (pos : Nat), (spansOf cfg pos l).map (fun m => m.1) = l := by
      intro l
      induction l with
      | nil => intro pos; rfl
      | cons a tl ih => intro pos; simp [spansOf, ih]
    exact this _ 0
  · exact markedTokens_render cfg h _ _ 0 (by have := render_length_ge cfg h _ hok; omega) hok hg

/-- the cursor after a press is again on the (advanced) token, collapsed iff it was -/
theorem cursorAfter_on (cfg : LexCfg) (h : CfgOK cfg) (pre : List CTok) (t' : CTok) (c : Bool)
    (hok : tokOK cfg t' = true) :
    CursorOn cfg pre t' (cursorAfter cfg pre t' c).1 (cursorAfter cfg pre t' c).2 ∧
      (decide ((cursorAfter cfg pre t' c).1 = (cursorAfter cfg pre t' c).2) = c) := by
  have hpos : 0 < (renderTok cfg t').length := List.length_pos_iff.mpr (renderTok_ne_nil cfg h t' hok)
  cases c
  · simp only [cursorAfter, Bool.false_eq_true, if_false, CursorOn]
    refine ⟨⟨by omega, by omega⟩, ?_⟩
    simp only [decide_eq_false_iff_not]; omega
  · simp only [cursorAfter, if_true, CursorOn]
    exact ⟨⟨by omega, by omega⟩, by simp⟩

theorem siteOK_tokOK (cfg : LexCfg) (pre : List CTok) (t : CTok) (post : List CTok)
    (hs : siteOK cfg pre t post = true) : tokOK cfg t = true := by
  simp only [siteOK, Bool.and_eq_true] at hs
  obtain ⟨⟨⟨⟨_, hok⟩, _⟩, _⟩, _⟩ := hs
  rw [List.all_append, List.all_cons] at hok
  simp only [Bool.and_eq_true] at hok
  exact hok.2.1

theorem siteOK_stable (cfg : LexCfg) (pre : List CTok) (t : CTok) (post : List CTok)
    (hs : siteOK cfg pre t post = true) : stable t = true := by
  simp only [siteOK, Bool.and_eq_true] at hs
  exact hs.1.1.1.1.2

/-! ### four presses -/

/-- **(2) Period four, text level.**  On a site whose four `$` states all satisfy the side condition,
    with the cursor (collapsed or a selection) on the token: four presses return exactly the original
    text (not only up to case: a printed token list is already upper-case), with the cursor on the
    token. -/
theorem C34_period4_partial (cfg : LexCfg) (h : CfgOK cfg) (pre : List CTok) (t : CTok) (post : List CTok)
    (hs : cycleSiteOK cfg pre t post = true) (s e : Nat) (hc : CursorOn cfg pre t s e) :
    pressN cfg 4 ('=' :: render cfg (pre ++ t :: post), s, e) =
      some ('=' :: render cfg (pre ++ t :: post), cursorAfter cfg pre t (decide (s = e))) := by
  simp only [cycleSiteOK, Bool.and_eq_true] at hs
  obtain ⟨⟨⟨h0, h1⟩, h2⟩, h3⟩ := hs
  have hst := siteOK_stable cfg pre t post h0
  have e4 := advance4 t hst
  have c1 := cursorAfter_on cfg h pre (advance t) (decide (s = e)) (siteOK_tokOK _ _ _ _ h1)
  have c2 := cursorAfter_on cfg h pre (advance (advance t)) (decide (s = e)) (siteOK_tokOK _ _ _ _ h2)
  have c3 := cursorAfter_on cfg h pre (advance (advance (advance t))) (decide (s = e)) (siteOK_tokOK _ _ _ _ h3)
  have p1 := C34_step_partial cfg h pre t post h0 s e hc
  have p2 := C34_step_partial cfg h pre (advance t) post h1 _ _ c1.1
  have p3 := C34_step_partial cfg h pre (advance (advance t)) post h2 _ _ c2.1
  have p4 := C34_step_partial cfg h pre (advance (advance (advance t))) post h3 _ _ c3.1
  rw [c1.2] at p2
  rw [c2.2] at p3
  rw [c3.2, e4] at p4
  have r : ∀ u : CTok, render cfg pre ++ (renderTok cfg u ++ render cfg post) = render cfg (pre ++ u :: post) := by
    intro u; rw [render_append, render_cons]
  simp only [r] at p1 p2 p3 p4
  simp only [pressN, p1, p2, p3, p4]

/-- whole-column and whole-row ranges (`D:D`, `$5:7`) return after two presses -/
theorem C34_period2_partial (cfg : LexCfg) (h : CfgOK cfg) (pre : List CTok) (sh : Option (List Char))
    (l r : PRef) (post : List CTok)
    (h0 : siteOK cfg pre (.range sh l r) post = true) (h1 : siteOK cfg pre (advance (.range sh l r)) post = true)
    (hopen : (fullRowOf l r || fullColOf l r) = true) (s e : Nat) (hc : CursorOn cfg pre (.range sh l r) s e) :
    pressN cfg 2 ('=' :: render cfg (pre ++ .range sh l r :: post), s, e) =
      some ('=' :: render cfg (pre ++ .range sh l r :: post), cursorAfter cfg pre (.range sh l r) (decide (s = e))) := by
  have hst := siteOK_stable cfg pre _ post h0
  have e2 := advance2_open sh l r hst hopen
  have c1 := cursorAfter_on cfg h pre (advance (.range sh l r)) (decide (s = e)) (siteOK_tokOK _ _ _ _ h1)
  have p1 := C34_step_partial cfg h pre _ post h0 s e hc
  have p2 := C34_step_partial cfg h pre _ post h1 _ _ c1.1
  rw [c1.2, e2] at p2
  have r' : ∀ u : CTok, render cfg pre ++ (renderTok cfg u ++ render cfg post) = render cfg (pre ++ u :: post) := by
    intro u; rw [render_append, render_cons]
  simp only [r'] at p1 p2
  simp only [pressN, p1, p2]

/-! ### non-vacuity: a site of the running code's configuration -/

/-- `=SUM(Sheet1!$A1:B$2,3)` with the cursor anywhere on the range -/
def exSite : List CTok × CTok × List CTok :=
  ([.ident "SUM".toList, .lp],
   .range (some "Sheet1".toList) { column := 1, row := 1, absCol := true, absRow := false }
     { column := 2, row := 2, absCol := false, absRow := true },
   [.comma, .num ['3'], .rp])

theorem exSite_ok : cycleSiteOK cfgEn exSite.1 exSite.2.1 exSite.2.2 = true := by decide +kernel

example : pressN cfgEn 4 ("=SUM(Sheet1!$A1:B$2,3)".toList, 7, 7) =
    some ("=SUM(Sheet1!$A1:B$2,3)".toList, 19, 19) := by decide +kernel

/-! ### the pinned tree: F34a falls outside the side condition, and refutes the full statement -/

def refA1 : PRef := { column := 1, row := 1, absCol := false, absRow := false }

/-- F34a's witness `=A1:B` is the printed form of `[A1, :, B]`, which is **not** a site: the plain
    reference is followed by `:`, a gluing character (`badNext`), so `glueFree` fails -/
theorem F34a_not_a_site :
    siteOK cfgEn [] (.ref none refA1) [.colon, .ident ['B']] = false ∧
    glueFree cfgEn [.ref none refA1, .colon, .ident ['B']] = false ∧
    badNext cfgEn (.ref none refA1) ':' = true ∧
    render cfgEn [.ref none refA1, .colon, .ident ['B']] = ['A', '1', ':', 'B'] := by
  refine ⟨?_, ?_, ?_, ?_⟩ <;> decide +kernel

/-- on that text the model (lexer included) does what the engine does: one press gives `=$A$1:B`,
    which no longer lexes as a reference, so further presses change nothing -/
theorem F34a_four_presses :
    pressN cfgEn 4 (['=', 'A', '1', ':', 'B'], 1, 1) = some (['=', '$', 'A', '$', '1', ':', 'B'], 5, 5) := by
  decide +kernel

/-- **The full statement is false for the running code's English configuration** (finding F34a). -/
theorem C34_full_false : ¬ C34_full cfgEn := by
  intro hfull
  obtain ⟨st, hst, hup⟩ := hfull ['=', 'A', '1', ':', 'B'] 1 1 (by decide) (by decide)
  rw [F34a_four_presses] at hst
  injection hst with hst
  subst hst
  revert hup
  decide

end IronCalc.F4
