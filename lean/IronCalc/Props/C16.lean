import IronCalc.Formula.MapLit
import IronCalc.Formula.CutRefs
import IronCalc.Generated.ParenMove
/-
  C16 — Cut and paste moves meaning, copy and paste translates it.
  Property theorems only.  Models: Formula/Syntax.lean + Parse.lean (the cut/paste printer is
  the shared printer model with the SECOND extracted table `Generated.parenMove`),
  Formula/CutRefs.lean (reference arithmetic of move_formula.rs).
-/
namespace IronCalc.Formula

/-- The entries at which the cut/paste printer of the pinned (repaired) tree fails the grammar:
    the same two deliberate `1+(2+3)` entries as the display printer. -/
def knownBadMove : List (Slot × Kind) :=
  [(.binR .add, .bin .add), (.binR .add, .bin .sub)]

/-- **Obligation re-checked on every run** on the table extracted from the running
    `move_formula.rs::to_string_moved`. -/
theorem C16_move_table_failures :
    tableFailures IronCalc.Generated.parenMove = knownBadMove := by decide

theorem C16_no_context_dependence : IronCalc.Generated.parenMoveContextDependent = [] := by decide

/-- **The moved text parses to the moved tree**: whatever rewriting `g` of the reference payloads
    the move performs (shifting the references into the cut area), the text the cut/paste
    printer produces parses, completely, to exactly the rewritten tree — for every well-formed
    tree avoiding the known entries. -/
theorem C16_cut_text_roundtrip (iv : Nat → Bool) (g : LitClass → Nat → Nat) (e : Node)
    (hwf : e.wf iv = true) (hnb : e.noBad IronCalc.Generated.parenMove = true) :
    ∃ f0, ∀ f, f0 ≤ f →
      P iv f 0 (pr IronCalc.Generated.parenMove (e.mapLit g)) = some (e.mapLit g, []) := by
  apply roundtrip_partial
  · rw [wf_mapLit]; exact hwf
  · rw [noBad_mapLit]; exact hnb

namespace Cut

/-- a reference to a cut cell points at the moved location -/
theorem C16_cut_ref_follows (A : Area) (dr dc hr hc : Int) (r : Ref)
    (h : inArea A (resolve hr hc r) = true) :
    cutDenotes A dr dc hr hc r =
      ⟨(resolve hr hc r).sheet, (resolve hr hc r).row + dr, (resolve hr hc r).col + dc⟩ := by
  unfold cutDenotes cutRef
  simp only [h, if_true]
  unfold resolve
  cases r.absRow <;> cases r.absCol <;> simp <;> omega

/-- a reference to any other cell is untouched -/
theorem C16_cut_ref_outside (A : Area) (dr dc hr hc : Int) (r : Ref)
    (h : inArea A (resolve hr hc r) = false) :
    cutDenotes A dr dc hr hc r = resolve hr hc r := by
  unfold cutDenotes cutRef
  simp [h]

/-- a range lying entirely inside the cut area is translated as a whole: a cell is covered by
    the new range iff it is the image of a cell covered by the old one -/
theorem C16_cut_range_inside (A : Area) (dr dc hr hc : Int) (r1 r2 : Ref)
    (h1 : inArea A (resolve hr hc r1) = true) (h2 : inArea A (resolve hr hc r2) = true)
    (x y : Int) :
    let q := cutRange A dr dc hr hc r1 r2
    ((resolve hr hc q.1).row ≤ x + dr ∧ x + dr ≤ (resolve hr hc q.2).row ∧
      (resolve hr hc q.1).col ≤ y + dc ∧ y + dc ≤ (resolve hr hc q.2).col) ↔
    ((resolve hr hc r1).row ≤ x ∧ x ≤ (resolve hr hc r2).row ∧
      (resolve hr hc r1).col ≤ y ∧ y ≤ (resolve hr hc r2).col) := by
  unfold cutRange
  simp only [h1, h2, Bool.and_self, if_true]
  unfold resolve
  cases r1.absRow <;> cases r1.absCol <;> cases r2.absRow <;> cases r2.absCol <;> simp <;> omega

/-- a range that is not entirely inside the area is left alone -/
theorem C16_cut_range_partial (A : Area) (dr dc hr hc : Int) (r1 r2 : Ref)
    (h : (inArea A (resolve hr hc r1) && inArea A (resolve hr hc r2)) = false) :
    cutRange A dr dc hr hc r1 r2 = (r1, r2) := by
  unfold cutRange; simp [h]

/-- copy/paste translates: relative parts move with the paste offset, absolute parts stay -/
theorem C16_copy_translates (hr hc dr dc : Int) (r : Ref) :
    copyDenotes hr hc dr dc r =
      ⟨r.sheet, (resolve hr hc r).row + (if r.absRow then 0 else dr),
        (resolve hr hc r).col + (if r.absCol then 0 else dc)⟩ := by
  unfold copyDenotes resolve
  cases r.absRow <;> cases r.absCol <;> simp <;> omega

/-- non-vacuity: B1 seen from A3, cut area A1:E4 moved by 47 rows → B48 -/
example : cutDenotes ⟨0, 1, 1, 5, 4⟩ 47 0 3 1 ⟨0, false, false, -2, 1⟩ = ⟨0, 48, 2⟩ := by decide

end Cut
end IronCalc.Formula
