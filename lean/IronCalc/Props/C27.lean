import IronCalc.User.WFProofs
/-
  C27 — Workbook structure stays well-formed, on the attribute model (`User/WF.lean: WFBook`):
  sheet names valid and unique ignoring case, sheet ids unique, at least one sheet, defined names
  refer to existing sheets.  The remaining clauses of the property (cells in grid, indices in
  range, column descriptors sorted/disjoint, rows unique, spill invariant) are evaluated on the
  implementation after every step by `harness/src/suites/um.rs::wf_check`.
  Property theorems only; helpers in User/WFProofs.lean.
-/
namespace IronCalc.User.C27
open IronCalc.User

def envEx : Env :=
  { validTz := fun s => s == "UTC", validLocale := fun s => s == "en", upper := fun s => s }

/-- the new workbook is well-formed -/
theorem wf_init : WFBook envEx Book.init = true := by decide

/-- for every environment: the initial book has one validly named sheet -/
theorem wf_init_any (env : Env) : WFBook env Book.init = true := by
  simp [WFBook, Book.init, namesValid, namesUnique, idsUnique, namesScoped, distinct, emptySheet,
    isValidSheetName]
  decide

/-- the full statement on the model: every operation, failed or not, preserves `WFBook` -/
def C27_full (env : Env) : Prop :=
  ∀ (b : Book) (o : User.Op), WFBook env b = true → WFBook env (doOp env b o).w = true

/-- what is proved: every operation that does not change the sheet list (13 of the 16 modelled
    ones, including their failing calls and the four range loops) preserves `WFBook` -/
theorem wf_step_partial (env : Env) (b : Book) (o : User.Op) (hk : keepsSheets o = true)
    (h : WFBook env b = true) : WFBook env (doOp env b o).w = true := by
  have := ks_doOp env b o hk
  rw [WFBook_congr env this.1 this.2]; exact h

/-- the domain of `wf_reachable_partial`: `dom` restricted to the operations that keep the sheet
    list (new/delete/rename sheet are compared with the code but their `WFBook` step is not proved) -/
def domK (env : Env) (b : Book) (o : User.Op) : Bool := dom env b o && keepsSheets o

theorem lawsK (env : Env) : Laws (sys env) (fun w => w) (fun b o => domK env b o = true) where
  inv := fun w o ds hd => (laws env).inv w o ds (by simp [domK] at hd; exact hd.1)
  fwd := fun w o ds hd => (laws env).fwd w o ds (by simp [domK] at hd; exact hd.1)
  quiet := fun w o hd => (laws env).quiet w o (by simp [domK] at hd; exact hd.1)
  atomic := fun w o e hd => (laws env).atomic w o e (by simp [domK] at hd; exact hd.1)

theorem dom_keepsSheets (env : Env) (b : Book) (o : User.Op) (h : domK env b o = true) :
    keepsSheets o = true := by
  simp [domK] at h; exact h.2

/-- all histories over the domain (operations, failed calls, undo, redo, flush): every state
    reached is well-formed.  Undo/redo are covered through the cursor refinement: they return to a
    state that an operation produced earlier. -/
theorem wf_reachable_partial (env : Env) (cs : List (Cmd User.Op))
    (hd : AllDom (sys env) (fun b o => domK env b o = true) St.init cs) :
    WFBook env (run (sys env) St.init cs).w = true := by
  -- invariant: the machine refines a cursor whose remembered states are all well-formed
  let Inv : St Book Diff → Cur User.Op Book → Prop := fun s c =>
    Refines (sys env) (fun w => w) s c ∧ WFBook env c.base = true ∧
      (∀ e ∈ c.done, WFBook env e.2 = true) ∧ (∀ e ∈ c.undone, WFBook env e.2 = true)
  have wfcur : ∀ s c, Inv s c → WFBook env s.w = true := by
    intro s c ⟨hr, hb, hdn, _⟩
    have : s.w = c.cur := hr.1
    rw [this, Cur.cur]
    cases hc : c.done with
    | nil => exact hb
    | cons e dn => exact hdn e (by rw [hc]; exact List.mem_cons_self)
  have stepInv : ∀ s c cmd, Inv s c → CmdDom (fun b o => domK env b o = true) s cmd →
      Inv (step (sys env) s cmd).1 (specStep (sys env) (fun w => w) s c cmd) := by
    intro s c cmd hI hcd
    obtain ⟨hr, hb, hdn, hun⟩ := hI
    refine ⟨step_refines (sys env) (fun w => w) _ (lawsK env) s c hr cmd hcd, ?_⟩
    cases cmd with
    | op o =>
      have hwf : WFBook env (doOp env s.w o).w = true :=
        wf_step_partial env s.w o (dom_keepsSheets env s.w o hcd) (wfcur s c ⟨hr, hb, hdn, hun⟩)
      simp only [specStep]
      split
      · refine ⟨hb, ?_, ?_⟩
        · intro e he
          simp only [Cur.doOp, List.mem_cons] at he
          rcases he with rfl | he
          · exact hwf
          · exact hdn e he
        · intro e he; simp [Cur.doOp] at he
      · exact ⟨hb, hdn, hun⟩
    | undo =>
      simp only [specStep, Cur.undo]
      split
      · exact ⟨hb, hdn, hun⟩
      · next e r hc =>
        refine ⟨hb, fun x hx => hdn x (by rw [hc]; exact List.mem_cons_of_mem _ hx), ?_⟩
        intro x hx
        simp only [List.mem_cons] at hx
        rcases hx with rfl | hx
        · exact hdn _ (by rw [hc]; exact List.mem_cons_self)
        · exact hun x hx
    | redo =>
      simp only [specStep, Cur.redo]
      split
      · exact ⟨hb, hdn, hun⟩
      · next e r hc =>
        refine ⟨hb, ?_, fun x hx => hun x (by rw [hc]; exact List.mem_cons_of_mem _ hx)⟩
        intro x hx
        simp only [List.mem_cons] at hx
        rcases hx with rfl | hx
        · exact hun _ (by rw [hc]; exact List.mem_cons_self)
        · exact hdn x hx
    | flush => exact ⟨hb, hdn, hun⟩
  have runInv : ∀ (cs : List (Cmd User.Op)) s c, Inv s c →
      AllDom (sys env) (fun b o => domK env b o = true) s cs →
      ∃ c', Inv (run (sys env) s cs) c' := by
    intro cs
    induction cs with
    | nil => intro s c h _; exact ⟨c, h⟩
    | cons cmd cs ih =>
      intro s c h hd
      exact ih _ _ (stepInv s c cmd h hd.1) hd.2
  obtain ⟨c', hc'⟩ := runInv cs St.init ⟨Book.init, [], []⟩
    ⟨refines_init (sys env) (fun w => w) Book.init [] [], wf_init_any env,
      (by intro e he; cases he), (by intro e he; cases he)⟩ hd
  exact wfcur _ _ hc'

/-! F27a: `delete_sheet` leaves the deleted sheet's sheet-scoped defined names behind. -/

def namedBook : Book :=
  { Book.init with
    sheets := [emptySheet "Sheet1" 1, emptySheet "Sheet2" 2],
    names := [⟨"loc", "Sheet2!$A$1", some 2⟩] }

theorem C27_full_false : ¬ C27_full envEx := by
  intro h
  have := h namedBook (.deleteSheet 1) (by decide)
  exact absurd this (by decide)

/-! non-vacuity -/
example : WFBook envEx namedBook = true := by decide
example : keepsSheets (.setColumnsWidth 0 1 3 40) = true := rfl
example : WFBook envEx (doOp envEx namedBook (.setColumnsHidden 1 2 3 true)).w = true := by decide

end IronCalc.User.C27
