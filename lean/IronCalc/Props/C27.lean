import IronCalc.User.WFProofs
import IronCalc.Sheet.ColsWF
import IronCalc.Props.C29
import IronCalc.Props.C30
/-
  C27 — Workbook structure stays well-formed, on the attribute model (`User/WF.lean: WFBook`):
  sheet names valid and unique ignoring case, sheet ids unique, at least one sheet, defined names
  refer to existing sheets.  The remaining clauses of the property (cells in grid, indices in
  range, column descriptors sorted/disjoint, rows unique, spill invariant) are evaluated on the
  implementation after every step by `harness/src/suites/um.rs::wf_check`.
  Property theorems only; helpers in User/WFProofs.lean.
-/
namespace IronCalc.User.C27
open IronCalc.User

def envEx : Env :=
  { validTz := fun s => s == "UTC", validLocale := fun s => s == "en", upper := fun s => s }

/-- the new workbook is well-formed -/
theorem wf_init : WFBook envEx Book.init = true := by decide

/-- for every environment: the initial book has one validly named sheet -/
theorem wf_init_any (env : Env) : WFBook env Book.init = true := by
  simp [WFBook, Book.init, namesValid, namesUnique, idsUnique, namesScoped, distinct, emptySheet,
    isValidSheetName]
  decide

/-- the full statement on the model: every operation, failed or not, preserves `WFBook` -/
def C27_full (env : Env) : Prop :=
  ∀ (b : Book) (o : User.Op), WFBook env b = true → WFBook env (doOp env b o).w = true

/-- what is proved: every operation that does not change the sheet list (13 of the 16 modelled
    ones, including their failing calls and the four range loops) preserves `WFBook` -/
theorem wf_step_partial (env : Env) (b : Book) (o : User.Op) (hk : keepsSheets o = true)
    (h : WFBook env b = true) : WFBook env (doOp env b o).w = true := by
  have := ks_doOp env b o hk
  rw [WFBook_congr env this.1 this.2]; exact h

/-- the domain of `wf_reachable_partial`: `dom` restricted to the operations that keep the sheet
    list (new/delete/rename sheet are compared with the code but their `WFBook` step is not proved) -/
def domK (env : Env) (b : Book) (o : User.Op) : Bool := dom env b o && keepsSheets o

theorem lawsK (env : Env) : Laws (sys env) (fun w => w) (fun b o => domK env b o = true) where
  inv := fun w o ds hd => (laws env).inv w o ds (by simp [domK] at hd; exact hd.1)
  fwd := fun w o ds hd => (laws env).fwd w o ds (by simp [domK] at hd; exact hd.1)
  quiet := fun w o hd => (laws env).quiet w o (by simp [domK] at hd; exact hd.1)
  atomic := fun w o e hd => (laws env).atomic w o e (by simp [domK] at hd; exact hd.1)

theorem dom_keepsSheets (env : Env) (b : Book) (o : User.Op) (h : domK env b o = true) :
    keepsSheets o = true := by
  simp [domK] at h; exact h.2

/-- all histories over the domain (operations, failed calls, undo, redo, flush): every state
    reached is well-formed.  Undo/redo are covered through the cursor refinement: they return to a
    state that an operation produced earlier. -/
theorem wf_reachable_partial (env : Env) (cs : List (Cmd User.Op))
    (hd : AllDom (sys env) (fun b o => domK env b o = true) St.init cs) :
    WFBook env (run (sys env) St.init cs).w = true := by
  -- invariant: the machine refines a cursor whose remembered states are all well-formed
  let Inv : St Book Diff → Cur User.Op Book → Prop := fun s c =>
    Refines (sys env) (fun w => w) s c ∧ WFBook env c.base = true ∧
      (∀ e ∈ c.done, WFBook env e.2 = true) ∧ (∀ e ∈ c.undone, WFBook env e.2 = true)
  have wfcur : ∀ s c, Inv s c → WFBook env s.w = true := by
    intro s c ⟨hr, hb, hdn, _⟩
    have : s.w = c.cur := hr.1
    rw [this, Cur.cur]
    cases hc : c.done with
    | nil => exact hb
    | cons e dn => exact hdn e (by rw [hc]; exact List.mem_cons_self)
  have stepInv : ∀ s c cmd, Inv s c → CmdDom (fun b o => domK env b o = true) s cmd →
      Inv (step (sys env) s cmd).1 (specStep (sys env) (fun w => w) s c cmd) := by
    intro s c cmd hI hcd
    obtain ⟨hr, hb, hdn, hun⟩ := hI
    refine ⟨step_refines (sys env) (fun w => w) _ (lawsK env) s c hr cmd hcd, ?_⟩
    cases cmd with
    | op o =>
      have hwf : WFBook env (doOp env s.w o).w = true :=
        wf_step_partial env s.w o (dom_keepsSheets env s.w o hcd) (wfcur s c ⟨hr, hb, hdn, hun⟩)
      simp only [specStep]
      split
      · refine ⟨hb, ?_, ?_⟩
        · intro e he
          simp only [Cur.doOp, List.mem_cons] at he
          rcases he with rfl | he
          · exact hwf
          · exact hdn e he
        · intro e he; simp [Cur.doOp] at he
      · exact ⟨hb, hdn, hun⟩
    | undo =>
      simp only [specStep, Cur.undo]
      split
      · exact ⟨hb, hdn, hun⟩
      · next e r hc =>
        refine ⟨hb, fun x hx => hdn x (by rw [hc]; exact List.mem_cons_of_mem _ hx), ?_⟩
        intro x hx
        simp only [List.mem_cons] at hx
        rcases hx with rfl | hx
        · exact hdn _ (by rw [hc]; exact List.mem_cons_self)
        · exact hun x hx
    | redo =>
      simp only [specStep, Cur.redo]
      split
      · exact ⟨hb, hdn, hun⟩
      · next e r hc =>
        refine ⟨hb, ?_, fun x hx => hun x (by rw [hc]; exact List.mem_cons_of_mem _ hx)⟩
        intro x hx
        simp only [List.mem_cons] at hx
        rcases hx with rfl | hx
        · exact hun _ (by rw [hc]; exact List.mem_cons_self)
        · exact hdn x hx
    | flush => exact ⟨hb, hdn, hun⟩
  have runInv : ∀ (cs : List (Cmd User.Op)) s c, Inv s c →
      AllDom (sys env) (fun b o => domK env b o = true) s cs →
      ∃ c', Inv (run (sys env) s cs) c' := by
    intro cs
    induction cs with
    | nil => intro s c h _; exact ⟨c, h⟩
    | cons cmd cs ih =>
      intro s c h hd
      exact ih _ _ (stepInv s c cmd h hd.1) hd.2
  obtain ⟨c', hc'⟩ := runInv cs St.init ⟨Book.init, [], []⟩
    ⟨refines_init (sys env) (fun w => w) Book.init [] [], wf_init_any env,
      (by intro e he; cases he), (by intro e he; cases he)⟩ hd
  exact wfcur _ _ hc'

/-! F27a (repaired, repo fix "delete_sheet deletes the defined names local to the sheet"): the names
    local to the deleted sheet go with it, so the step preserves `WFBook` — for every well-formed
    book, failing calls included.  (`C27_full` remains open only for `new_sheet` and `rename_sheet`,
    whose steps are compared with the code but not proved; no counterexample is known.) -/

def namedBook : Book :=
  { Book.init with
    sheets := [emptySheet "Sheet1" 1, emptySheet "Sheet2" 2],
    names := [⟨"loc", "Sheet2!$A$1", some 2⟩] }

theorem wf_step_deleteSheet (env : Env) (b : Book) (i : Nat) (h : WFBook env b = true) :
    WFBook env (doOp env b (.deleteSheet i)).w = true :=
  wf_deleteSheet env b i h

/-- the former counterexample (`C27_full_false` on the pinned tree): the local name is gone with its
    sheet, and the recorded diffs delete it before the sheet (undo re-creates it after the sheet) -/
example : WFBook envEx (doOp envEx namedBook (.deleteSheet 1)).w = true ∧
    (doOp envEx namedBook (.deleteSheet 1)).w.names = [] ∧
    ((doOp envEx namedBook (.deleteSheet 1)).pushed.map fun ds => ds.length) = some 2 := by decide

/-! non-vacuity -/
example : WFBook envEx namedBook = true := by decide
example : keepsSheets (.setColumnsWidth 0 1 3 40) = true := rfl
example : WFBook envEx (doOp envEx namedBook (.setColumnsHidden 1 2 3 true)).w = true := by decide

end IronCalc.User.C27

/-!
  ## Column descriptors, row entries and style indices (clauses of C27 formerly only evaluated on
  the implementation)

  `ColsWF` — sorted by `min`, pairwise disjoint, `1 ≤ min ≤ max ≤ 16384` — and `RowsWF` — one
  entry per row index, `1 ≤ r ≤ 1048576` — are preserved by every operation that rewrites
  `worksheet.cols` / `worksheet.rows`: insert / delete / move columns and rows (models of
  base/src/actions.rs in Sheet/Structure*.lean, authoritative for the structural rewrites) and
  set width / hidden / style, delete style (C29 models Sheet/Cols.lean, Sheet/Rows.lean).
  Helpers: Sheet/ColsWF.lean.
-/
namespace IronCalc.ColsWF
open IronCalc.Structure

/-- delete_columns (arguments as the code accepts them: `count > 0`, `1 ≤ column`) preserves the
    column clause, for ALL well-formed descriptor lists — every position of the deleted band
    relative to every descriptor (cases A–F, band ends on `min`, on `max`, …) -/
theorem cols_delete_wf {α : Type} (column count : Int) (hk : 0 < count) (hc : 1 ≤ column)
    (cols : List (ColD α)) (h : ColsWF cols) : ColsWF (deleteCols column count cols) :=
  deleteCols_sorted column count hk cols h (Int.le_refl _) (by omega)

/-- F27b (pinned `column_start < min`): deleting exactly the columns of a descriptor left it with
    `min > max`; deleting the head of `[3,6]` kept `min = 3` only because case D happens to agree -/
theorem pinned_delete_cols_not_wf :
    ColsWF [(⟨3, 3, ()⟩ : ColD Unit)] ∧ ¬ ColsWF (deleteColsPinned 3 1 [(⟨3, 3, ()⟩ : ColD Unit)]) := by
  decide

/-- the seeded defect `column_end <= min` (a descriptor whose first column is the last deleted one
    is displaced whole) yields overlapping descriptors — not an instance of `deleteCols` -/
example : deleteCols 2 1 [(⟨1, 2, 1⟩ : ColD Nat), ⟨3, 4, 2⟩] = [⟨1, 1, 1⟩, ⟨2, 3, 2⟩] := by decide
example : deleteCols 2 2 [(⟨1, 2, 1⟩ : ColD Nat), ⟨3, 4, 2⟩] = [⟨1, 1, 1⟩, ⟨2, 2, 2⟩] := by decide

/-- insert_columns (`count > 0`, any `column`) keeps the descriptors sorted, disjoint and `≥ 1`;
    they stay inside the grid when no descriptor is pushed past the last column -/
theorem cols_insert_wf {α : Type} (column count : Int) (hk : 0 < count) (cols : List (ColD α)) (h : ColsWF cols) :
    SortedD 0 (16384 + count) (insertCols column count cols) ∧
    ((∀ d ∈ cols, column ≤ d.max → d.max + count ≤ 16384) → ColsWF (insertCols column count cols)) :=
  ⟨insertCols_sorted column count hk cols h, fun hfit => insertCols_wf column count hk cols h hfit⟩

/-- F27e: the code checks only the cells against the last column, so a descriptor reaching the
    last column (a whole-sheet style, a styled last column) is pushed off the grid -/
theorem insert_cols_off_grid :
    ColsWF [(⟨1, 16384, ()⟩ : ColD Unit)] ∧ ¬ ColsWF (insertCols 5 1 [(⟨1, 16384, ()⟩ : ColD Unit)]) := by
  decide

/-- move_columns_action (block `[column, column+n)` by `d`, both inside the grid as the code
    demands) preserves the column clause -/
theorem cols_move_wf (column : Int) (n : Nat) (d : Int) (cols : List (ColD CAtt)) (h : ColsWF cols)
    (h1 : 1 ≤ column) (h2 : column + n - 1 ≤ 16384) (h3 : 1 ≤ column + d) (h4 : column + n - 1 + d ≤ 16384) :
    ColsWF ((blockOps column n d).foldl (fun cs o => stepColsD o cs) cols) :=
  moveBlock_sorted column n d cols h (by omega) h2 (by omega) h4

/-- the descriptors of the edited sheet after one structural step of the book model are
    `stepColsD` of its descriptors; the other sheets' descriptors are untouched -/
theorem stepCols_colsOf (s : Nat) (o : Op) (b : Book) :
    (((stepCols .col s o b).filter (·.1 = s)).map (·.2) = stepColsD o (colsOf b s)) ∧
    ∀ s', s' ≠ s → ((stepCols .col s o b).filter (·.1 = s')).map (·.2) = colsOf b s' := by
  constructor
  · simp only [stepCols, List.filter_append, List.map_append]
    have h1 : (b.cols.filter (fun x => decide (x.1 ≠ s))).filter (fun x => decide (x.1 = s)) = [] := by
      simp [List.filter_eq_nil_iff]
    rw [h1]
    cases o <;> simp [stepColsD, List.filter_map, Function.comp_def, List.filter_eq_self.mpr]
  · intro s' hs'
    simp only [stepCols, List.filter_append, List.map_append, colsOf]
    have h2 : ∀ (l : List (ColD CAtt)), (l.map (fun c => (s, c))).filter (fun x => decide (x.1 = s')) = [] := by
      intro l; simp [List.filter_eq_nil_iff]; intro _ _ h; exact absurd h.symm hs'
    rw [h2]
    simp only [List.map_nil, List.append_nil, List.filter_filter]
    congr 1
    apply List.filter_congr
    intro x _
    by_cases hx : x.1 = s'
    · have : x.1 ≠ s := by rw [hx]; exact hs'
      simp [hx, hs']
    · simp [hx]

/-! ### the attribute operations (C29 model) -/

/-- a C29 descriptor seen as a span with an opaque payload -/
def toD {W : Type} (c : Sheet.Col W) : ColD (W × Bool × Bool × Option Int) :=
  ⟨c.min, c.max, (c.width, c.customWidth, c.hidden, c.style)⟩

theorem sortedIn_iff {W : Type} (lo hi : Int) (cols : List (Sheet.Col W)) :
    Sheet.SortedIn lo hi cols ↔ SortedD lo hi (cols.map toD) := by
  induction cols generalizing lo with
  | nil => simp [Sheet.SortedIn, SortedD]
  | cons d rest ih => simp only [Sheet.SortedIn, List.map_cons, SortedD, toD, ih]

/-- the C29 well-formedness predicate is the column clause of C27 -/
theorem wfCols_iff {W : Type} (cols : List (Sheet.Col W)) : Sheet.WfCols cols ↔ ColsWF (cols.map toD) :=
  sortedIn_iff 0 16384 cols

/-- set_column_width / set_column_hidden / set_column_style / delete_column_style preserve the
    column clause (either variant of the code) -/
theorem cols_attr_ops_wf {W : Type} (wo : Sheet.WidthOps W) (q : Sheet.Quirks) (cols cols' : List (Sheet.Col W))
    (h : ColsWF (cols.map toD)) :
    (∀ c w, Sheet.setColumnWidth wo q cols c w = .ok cols' → ColsWF (cols'.map toD)) ∧
    (∀ c b, Sheet.setColumnHidden wo q cols c b = .ok cols' → ColsWF (cols'.map toD)) ∧
    (∀ c k, Sheet.setColumnStyle wo q cols c k = .ok cols' → ColsWF (cols'.map toD)) ∧
    (∀ c, Sheet.deleteColumnStyle q cols c = .ok cols' → ColsWF (cols'.map toD)) := by
  obtain ⟨a, b, c, d⟩ := Sheet.col_ops_preserve_wf wo q cols cols' ((wfCols_iff cols).mpr h)
  exact ⟨fun x w hx => (wfCols_iff _).mp (a x w hx), fun x w hx => (wfCols_iff _).mp (b x w hx),
         fun x w hx => (wfCols_iff _).mp (c x w hx), fun x hx => (wfCols_iff _).mp (d x hx)⟩

/-! ### rows -/

/-- delete_rows / move_rows_action preserve the row clause; insert_rows preserves uniqueness and
    the lower bound, and the upper bound when no entry is pushed past the last row -/
theorem rows_structural_wf (rs : List Int) (h : RowsWF rs) :
    (∀ r k : Int, 0 < k → 1 ≤ r → RowsWF (stepRowIdx (.delete r k) rs)) ∧
    (∀ r k : Int, 0 < k → (∀ y ∈ rs, r ≤ y → y + k ≤ 1048576) → RowsWF (stepRowIdx (.insert r k) rs)) ∧
    (∀ r k : Int, 0 < k → (stepRowIdx (.insert r k) rs).Nodup ∧ ∀ x ∈ stepRowIdx (.insert r k) rs, 1 ≤ x) ∧
    (∀ (r : Int) (n : Nat) (d : Int), 1 ≤ r → r + n - 1 ≤ 1048576 → 1 ≤ r + d → r + n - 1 + d ≤ 1048576 →
        RowsWF ((blockOps r n d).foldl (fun rs o => stepRowIdx o rs) rs)) := by
  refine ⟨fun r k hk hr => rows_delete_wf r k hk hr rs h, fun r k hk hf => rows_insert_wf r k hk rs h hf, ?_,
    fun r n d a b c e => rows_moveBlock_wf r n d a b c e rs h⟩
  intro r k hk
  refine ⟨stepRowIdx_nodup (.insert r k) hk rs h.1, ?_⟩
  intro x hx
  obtain ⟨y, hy, he⟩ := mem_stepRowIdx hx
  have := h.2 y hy
  simp only [rowDescCoord] at he
  split at he <;> (try split at he) <;> simp_all <;> omega

/-- F27e for rows: an entry on the last row is pushed off the grid by insert_rows -/
theorem insert_rows_off_grid : RowsWF [1048576] ∧ ¬ RowsWF (stepRowIdx (.insert 1 1) [1048576]) := by
  constructor
  · exact ⟨by simp, by intro r hr; simp at hr; omega⟩
  · intro h
    have := h.2 1048577 (by decide)
    omega

/-- the row entries of one sheet after a structural step of the book model -/
theorem stepRows_idx (s : Nat) (o : Op) (rows : List RowE) :
    ((stepRows .row s o rows).filter (·.sheet = s)).map (·.r)
      = stepRowIdx o ((rows.filter (·.sheet = s)).map (·.r)) := by
  induction rows with
  | nil => rfl
  | cons e rest ih =>
    simp only [stepRows, List.filterMap_cons, stepRowIdx] at ih ⊢
    by_cases hs : e.sheet = s
    · simp only [hs, if_true, List.filter_cons, decide_true, List.map_cons, List.filterMap_cons]
      cases hc : rowDescCoord o e.r with
      | none => simpa [hc] using ih
      | some x => simp [hc, hs, ih]
    · simp [hs, ih]

theorem noDupRows_iff {H : Type} (rows : List (Sheet.Row H)) :
    Sheet.NoDupRows rows ↔ (rows.map (·.r)).Nodup := by
  induction rows with
  | nil => simp [Sheet.NoDupRows]
  | cons d rest ih =>
    simp only [Sheet.NoDupRows, List.map_cons, List.nodup_cons, List.mem_map, ih]
    constructor
    · rintro ⟨h1, h2⟩
      exact ⟨fun ⟨e, he, hr⟩ => h1 e he hr, h2⟩
    · rintro ⟨h1, h2⟩
      exact ⟨fun e he hr => h1 ⟨e, he, hr⟩, h2⟩

theorem mem_updOrPush {H : Type} {row : Int} {f : Sheet.Row H → Sheet.Row H} (hf : ∀ d, (f d).r = d.r)
    {n : Sheet.Row H} (hn : n.r = row) {rows : List (Sheet.Row H)} {e : Sheet.Row H}
    (he : e ∈ Sheet.updOrPush row f n rows) : e.r = row ∨ ∃ e0 ∈ rows, e.r = e0.r := by
  unfold Sheet.updOrPush at he
  cases hu : Sheet.updFirst row f rows with
  | some rows' =>
    rw [hu] at he
    exact Or.inr (Sheet.mem_updFirst hf hu e he)
  | none =>
    rw [hu] at he
    rcases List.mem_append.mp he with he | he
    · exact Or.inr ⟨e, he, rfl⟩
    · simp only [List.mem_singleton] at he
      subst he; exact Or.inl hn

/-- set_row_height / set_row_hidden (which validate the row) and set_row_style on a valid row,
    delete_row_style preserve the row clause (set_row_style itself does not validate the row:
    `Model::set_row_style(sheet, 0, …)` creates an entry for row 0) -/
theorem rows_attr_ops_wf {H : Type} (ho : Sheet.HeightOps H) (rows : List (Sheet.Row H))
    (h : RowsWF (rows.map (·.r))) :
    (∀ r v rows', Sheet.setRowHeight ho rows r v = .ok rows' → RowsWF (rows'.map (·.r))) ∧
    (∀ r b rows', Sheet.setRowHidden ho rows r b = .ok rows' → RowsWF (rows'.map (·.r))) ∧
    (∀ r k, Sheet.validRow r = true → RowsWF ((Sheet.setRowStyle ho rows r k).map (·.r))) ∧
    (∀ r, RowsWF ((Sheet.deleteRowStyle rows r).map (·.r))) := by
  have hnd := (noDupRows_iff rows).mpr h.1
  obtain ⟨a, b, c, d⟩ := Sheet.row_ops_preserve_nodup ho rows hnd
  have bound : ∀ (row : Int) (f : Sheet.Row H → Sheet.Row H) (n : Sheet.Row H), (∀ d, (f d).r = d.r) → n.r = row →
      Sheet.validRow row = true → ∀ x ∈ (Sheet.updOrPush row f n rows).map (·.r), 1 ≤ x ∧ x ≤ 1048576 := by
    intro row f n hf hn hv x hx
    obtain ⟨e, he, rfl⟩ := List.mem_map.mp hx
    rcases mem_updOrPush hf hn he with h1 | ⟨e0, h0, h1⟩
    · have hv' : 1 ≤ row ∧ row ≤ 1048576 := by
        unfold Sheet.validRow at hv
        have h2 := (Bool.and_eq_true _ _).mp hv
        exact ⟨of_decide_eq_true h2.1, of_decide_eq_true h2.2⟩
      show 1 ≤ e.r ∧ e.r ≤ 1048576
      rw [h1]; exact hv'
    · show 1 ≤ e.r ∧ e.r ≤ 1048576
      rw [h1]; exact h.2 _ (List.mem_map.mpr ⟨e0, h0, rfl⟩)
  refine ⟨?_, ?_, ?_, ?_⟩
  · intro r v rows' hr
    refine ⟨(noDupRows_iff _).mp (a r v rows' hr), ?_⟩
    unfold Sheet.setRowHeight at hr
    by_cases hv : Sheet.validRow r = true
    · simp only [hv, Bool.not_true, Bool.false_eq_true, if_false] at hr
      cases hneg : ho.isNeg v
      · simp only [hneg, Bool.false_eq_true, if_false, Sheet.isRowHidden, hv, Bool.not_true] at hr
        cases hf : Sheet.findRow rows r <;> simp only [hf, Except.ok.injEq] at hr <;> subst hr <;>
          exact bound r _ _ (by intro _; rfl) (by rfl) hv
      · simp [hneg] at hr
    · simp [hv] at hr
  · intro r b' rows' hr
    refine ⟨(noDupRows_iff _).mp (b r b' rows' hr), ?_⟩
    unfold Sheet.setRowHidden at hr
    by_cases hv : Sheet.validRow r = true
    · simp only [hv, Bool.not_true, Bool.false_eq_true, if_false, Except.ok.injEq] at hr
      subst hr
      exact bound r _ _ (by intro _; rfl) (by rfl) hv
    · simp [hv] at hr
  · intro r k hv
    exact ⟨(noDupRows_iff _).mp (c r k), bound r _ _ (by intro _; rfl) (by rfl) hv⟩
  · intro r
    refine ⟨(noDupRows_iff _).mp (d r), ?_⟩
    intro x hx
    obtain ⟨e, he, rfl⟩ := List.mem_map.mp hx
    unfold Sheet.deleteRowStyle at he
    cases hu : Sheet.updFirst r (fun d => { d with s := 0, customFormat := false }) rows with
    | some rows' =>
      rw [hu] at he
      obtain ⟨e0, h0, h1⟩ := Sheet.mem_updFirst (by intro _; rfl) hu e he
      rw [h1]; exact h.2 _ (List.mem_map.mpr ⟨e0, h0, rfl⟩)
    | none =>
      rw [hu] at he
      exact h.2 _ (List.mem_map.mpr ⟨e, he, rfl⟩)

/-! ### style indices -/
open IronCalc.Sheet.Styles in
/-- the index interning returns (what set_cell_style / set_row_style / set_column_style store) is an
    index of `cell_xfs`, and `cell_xfs` only grows: indices stored earlier stay in range -/
theorem style_index_in_range {F L B A : Type} [DecidableEq F] [DecidableEq L] [DecidableEq B] [DecidableEq A]
    {T : List String} {sf : Bool} {p q : Pool F L B A} (hp : PoolInv T sf p) {s : Style F L B A} {i : Int}
    (h : intern T sf p s = .ok (q, i)) :
    (0 ≤ i ∧ i < (q.cellXfs.length : Int)) ∧
    ∀ j : Int, (0 ≤ j ∧ j < (p.cellXfs.length : Int)) → (0 ≤ j ∧ j < (q.cellXfs.length : Int)) := by
  have hrt := intern_roundtrip hp h
  constructor
  · unfold getStyle at hrt
    cases hx : idx q.cellXfs i with
    | none => simp [hx] at hrt
    | some xf => exact ⟨(idx_some hx).1, (idx_some hx).2.1⟩
  · have hlen : p.cellXfs.length ≤ q.cellXfs.length := by
      unfold intern at h
      cases hg : getStyleIndex T p s with
      | error e => simp [hg] at h
      | ok r =>
        cases r with
        | some k =>
          simp only [hg, Except.ok.injEq, Prod.mk.injEq] at h
          rw [← h.1]; exact Nat.le_refl _
        | none =>
          simp only [hg, Except.ok.injEq] at h
          unfold createNewStyle at h
          simp only [Prod.mk.injEq] at h
          obtain ⟨rfl, _⟩ := h
          obtain ⟨he, _⟩ := componentIds_spec hp s _ rfl
          simp only [List.length_append, he.xfs]
          omega
    intro j hj
    exact ⟨hj.1, by omega⟩

end IronCalc.ColsWF
