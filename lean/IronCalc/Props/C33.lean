import IronCalc.Sheet.MetadataProofs
/-
  C33 — Cell-attached metadata follows its cells.
  Property theorems only.  Model: Sheet/Metadata.lean (links, conditional-format sqref parts and rule formulas under
  insert / delete / move, cut and copy paste; clearing and its undo), on top of Sheet/Structure.lean (σ, ρ).
-/
namespace IronCalc.Structure.C33

/-- the map σ along the edited axis, identity on the other coordinate -/
def sigRow (ax : Axis) (o : Op) (x : Int) : Option Int := match ax with | .row => sigma o x | .col => some x
def sigCol (ax : Axis) (o : Op) (x : Int) : Option Int := match ax with | .col => sigma o x | .row => some x

/-- **links_follow.** The separately written `displace_links` closures of insert / delete / move are the cell
    map σ: for every structural step the links of the edited sheet are exactly the σ-images of the old links
    (a link whose cell is deleted disappears), links of other sheets are untouched. -/
theorem C33_links_follow (ax : Axis) (s : Nat) (o : Op) (hv : o.valid) (links : List LinkE) :
    stepLinks ax s o links = links.filterMap fun l =>
      if l.sheet = s then
        match ax with
        | .row => (sigma o l.row).map (fun x => { l with row := x })
        | .col => (sigma o l.col).map (fun x => { l with col := x })
      else some l := by
  unfold stepLinks
  congr 1
  funext l
  split
  · cases ax <;> simp only [linkCoord_eq_sigma o hv]
  · rfl

theorem cfRow_eq (ax : Axis) (o : Op) (hv : o.valid) (x : Int) : cfRow ax o x = sigRow ax o x := by
  cases ax <;> simp [cfRow, sigRow, cfCoord_eq_rhoCoord o hv, rhoCoord_eq_sigma o hv]

theorem cfCol_eq (ax : Axis) (o : Op) (hv : o.valid) (x : Int) : cfCol ax o x = sigCol ax o x := by
  cases ax <;> simp [cfCol, sigCol, cfCoord_eq_rhoCoord o hv, rhoCoord_eq_sigma o hv]

theorem cfEdges_of_some (o : Op) (a b x y : Int) (h1 : cfCoord o a = some x) (h2 : cfCoord o b = some y) :
    cfEdges o a b = some (x, y, a) := by
  simp only [cfEdges, h1, h2]

/-- **cf_range_follows.** When every corner of a sqref part survives the edit (and no column leaves the grid)
    the corners of the new part are the σ-images of the old corners — the part follows its cells — and its
    first corner is the image of the old first corner. -/
theorem C33_cf_range_follows (ax : Axis) (o : Op) (hv : o.valid) (p : CfPart)
    (a b c d : Int)
    (h1 : sigRow ax o p.r1 = some a) (h2 : sigCol ax o p.c1 = some b)
    (h3 : sigRow ax o p.r2 = some c) (h4 : sigCol ax o p.c2 = some d)
    (hb : inGrid .col b = true) (hd : inGrid .col d = true) :
    cfPartDisp ax o p = some (⟨p.single, a, b, c, d⟩, (p.r1, p.c1)) := by
  rw [← cfRow_eq ax o hv] at h1 h3
  rw [← cfCol_eq ax o hv] at h2 h4
  unfold cfPartDisp cfRowEdges cfColEdges
  cases ax with
  | row =>
    simp only [cfRow, cfCol, Option.some.injEq] at h1 h2 h3 h4
    subst h2 h4
    simp only [cfEdges_of_some o _ _ _ _ h1 h3, hb, hd, Bool.and_self, if_true]
  | col =>
    simp only [cfRow, cfCol, Option.some.injEq] at h1 h2 h3 h4
    subst h1 h3
    simp only [cfEdges_of_some o _ _ _ _ h2 h4, hb, hd, Bool.and_self, if_true]

/-- the absolute range `$c1$r1:$c2$r2` on sheet `s` that covers the same cells as the part -/
def partRange (s : Nat) (p : CfPart) : Range :=
  ⟨s, false, ⟨true, p.r1⟩, ⟨true, p.c1⟩, ⟨true, p.r2⟩, ⟨true, p.c2⟩⟩

/-- **cf_agrees_with_formula_rewrite.** On that domain (all corners survive, the result stays inside the grid, the
    range is not a whole-row/column range) the conditional-format displacement and the formula-range rewrite ρ
    — two different pieces of code — produce the same corners, whatever cell hosts the formula. -/
theorem C33_cf_agrees_with_formula_rewrite (ax : Axis) (s : Nat) (o : Op) (hv : o.valid) (h : Host) (p : CfPart)
    (hp : p.single = false) (hfr : (partRange s p).fullRow = false) (hfc : (partRange s p).fullCol = false)
    (a b c d : Int)
    (h1 : sigRow ax o p.r1 = some a) (h2 : sigCol ax o p.c1 = some b)
    (h3 : sigRow ax o p.r2 = some c) (h4 : sigCol ax o p.c2 = some d)
    (ga : inGrid .row a = true) (gb : inGrid .col b = true) (gc : inGrid .row c = true) (gd : inGrid .col d = true) :
    rhoRange ⟨ax, s, o⟩ h (partRange s p) = (some (a, b), some (c, d)) ∧
    cfPartDisp ax o p = some (⟨false, a, b, c, d⟩, (p.r1, p.c1)) := by
  refine ⟨?_, by rw [← hp]; exact C33_cf_range_follows ax o hv p a b c d h1 h2 h3 h4 gb gd⟩
  have e : ∀ hh v, (End.resolve hh ⟨true, v⟩) = v := fun _ _ => rfl
  cases ax with
  | row =>
    simp only [sigRow, sigCol, Option.some.injEq] at h1 h2 h3 h4
    subst h2 h4
    simp only [partRange] at hfr hfc
    simp [rhoRange, rhoPoint, hfr, hfc, partRange, e, rhoCoord_eq_sigma o hv, h1, h3, ga, gb, gc, gd]
  | col =>
    simp only [sigRow, sigCol, Option.some.injEq] at h1 h2 h3 h4
    subst h1 h3
    simp only [partRange] at hfr hfc
    simp [rhoRange, rhoPoint, hfr, hfc, partRange, e, rhoCoord_eq_sigma o hv, h2, h4, ga, gb, gc, gd]

/-- **C33, ranges under deletion** (repaired code, fix F33a).  For every deletion of rows and every part
    (`r1 ≤ r2`, columns inside the grid): if some row of the part survives, the new part is exactly the image of
    the surviving cells — every surviving row of the old part is inside it, every row of it is the image of a row
    of the old part — with the same columns, and its first corner is the image of the first surviving cell; if no
    row survives the part is dropped. -/
theorem C33_cf_full (r k : Int) (hk : 0 < k) (p : CfPart) (hr : p.r1 ≤ p.r2)
    (hc : inGrid .col p.c1 = true ∧ inGrid .col p.c2 = true) :
    match cfPartDisp .row (.delete r k) p with
    | some (q, src) =>
        q.c1 = p.c1 ∧ q.c2 = p.c2 ∧ q.single = p.single ∧ q.r1 ≤ q.r2 ∧
        src.2 = p.c1 ∧ p.r1 ≤ src.1 ∧ src.1 ≤ p.r2 ∧ sigma (.delete r k) src.1 = some q.r1 ∧
        (∀ u u', p.r1 ≤ u → u ≤ p.r2 → sigma (.delete r k) u = some u' → q.r1 ≤ u' ∧ u' ≤ q.r2) ∧
        (∀ v, q.r1 ≤ v → v ≤ q.r2 → ∃ u, p.r1 ≤ u ∧ u ≤ p.r2 ∧ sigma (.delete r k) u = some v)
    | none => ∀ u, p.r1 ≤ u → u ≤ p.r2 → sigma (.delete r k) u = none := by
  have h := cfEdges_delete r k p.r1 p.r2 hk hr
  unfold cfPartDisp cfRowEdges cfColEdges
  cases he : cfEdges (.delete r k) p.r1 p.r2 with
  | none => rw [he] at h; simpa using h
  | some t =>
    obtain ⟨x, y, src⟩ := t
    rw [he] at h
    simp only at h
    obtain ⟨h1, h2, h3, h4, h5, h6⟩ := h
    simp only [hc.1, hc.2, Bool.and_self, if_true]
    refine ⟨by trivial, by trivial, by trivial, h1, by trivial, h2, h3, h4, h5, ?_⟩
    intro v hv1 hv2
    exact ⟨_, h6 v hv1 hv2⟩

/-- the same along the other axis: deleting columns -/
theorem C33_cf_full_cols (r k : Int) (hk : 0 < k) (p : CfPart) (hr : p.c1 ≤ p.c2)
    (hg : ∀ x, p.c1 ≤ x → x ≤ p.c2 → inGrid .col x = true) (hr1 : 1 ≤ r) :
    match cfPartDisp .col (.delete r k) p with
    | some (q, src) =>
        q.r1 = p.r1 ∧ q.r2 = p.r2 ∧ q.c1 ≤ q.c2 ∧
        src.1 = p.r1 ∧ p.c1 ≤ src.2 ∧ src.2 ≤ p.c2 ∧ sigma (.delete r k) src.2 = some q.c1 ∧
        (∀ u u', p.c1 ≤ u → u ≤ p.c2 → sigma (.delete r k) u = some u' → q.c1 ≤ u' ∧ u' ≤ q.c2) ∧
        (∀ v, q.c1 ≤ v → v ≤ q.c2 → ∃ u, p.c1 ≤ u ∧ u ≤ p.c2 ∧ sigma (.delete r k) u = some v)
    | none => ∀ u, p.c1 ≤ u → u ≤ p.c2 → sigma (.delete r k) u = none := by
  have h := cfEdges_delete r k p.c1 p.c2 hk hr
  unfold cfPartDisp cfRowEdges cfColEdges
  cases he : cfEdges (.delete r k) p.c1 p.c2 with
  | none => rw [he] at h; simpa using h
  | some t =>
    obtain ⟨x, y, src⟩ := t
    rw [he] at h
    simp only at h
    obtain ⟨h1, h2, h3, h4, h5, h6⟩ := h
    -- the images of surviving columns of the grid stay inside the grid
    have gx : inGrid .col x = true := by
      have := hg src h2 h3
      simp only [inGrid_iff, Axis.last] at this ⊢
      simp only [sigma, sigmaDelete] at h4
      grind
    have gy : inGrid .col y = true := by
      obtain ⟨hy1, hy2, hy3⟩ := h6 y h1 (Int.le_refl _)
      have := hg _ hy1 hy2
      simp only [inGrid_iff, Axis.last] at this ⊢
      simp only [sigma, sigmaDelete] at hy3
      grind
    simp only [gx, gy, Bool.and_self, if_true]
    refine ⟨by trivial, by trivial, h1, by trivial, h2, h3, h4, h5, ?_⟩
    intro v hv1 hv2
    exact ⟨_, h6 v hv1 hv2⟩

/-- **C33, ranges under insertion**: the part grows over the inserted rows, nothing is ever dropped; every row of
    the new part is the image of a row of the old one or one of the new blank rows -/
theorem C33_cf_full_insert (r k : Int) (hk : 0 < k) (p : CfPart) (hr : p.r1 ≤ p.r2)
    (hc : inGrid .col p.c1 = true ∧ inGrid .col p.c2 = true) :
    ∃ q, cfPartDisp .row (.insert r k) p = some (q, (p.r1, p.c1)) ∧
      q.c1 = p.c1 ∧ q.c2 = p.c2 ∧ q.r1 ≤ q.r2 ∧ sigma (.insert r k) p.r1 = some q.r1 ∧
      (∀ u u', p.r1 ≤ u → u ≤ p.r2 → sigma (.insert r k) u = some u' → q.r1 ≤ u' ∧ u' ≤ q.r2) ∧
      (∀ v, q.r1 ≤ v → v ≤ q.r2 → (r ≤ v ∧ v < r + k) ∨ ∃ u, p.r1 ≤ u ∧ u ≤ p.r2 ∧ sigma (.insert r k) u = some v) := by
  have h := cfEdges_insert r k p.r1 p.r2 hk hr
  unfold cfPartDisp cfRowEdges cfColEdges
  cases he : cfEdges (.insert r k) p.r1 p.r2 with
  | none => rw [he] at h; exact absurd h id
  | some t =>
    obtain ⟨x, y, src⟩ := t
    rw [he] at h
    simp only at h
    obtain ⟨h1, h2, h3, h4, h5⟩ := h
    subst h2
    simp only [hc.1, hc.2, Bool.and_self, if_true]
    refine ⟨_, rfl, by trivial, by trivial, h1, h3, h4, ?_⟩
    intro v hv1 hv2
    rcases h5 v hv1 hv2 with hb | hb
    · exact Or.inl hb
    · exact Or.inr ⟨_, hb⟩

/-- **cut.** A part whose corners are all inside the cut area moves with the area (by the paste offset), any other
    part stays — the rule of `move_formula` for ranges. -/
theorem C33_cut_part_follows (a : Rect) (dr dc : Int) (p : CfPart) (hp : p.single = false)
    (hg : inGrid .col (p.c1 + dc) = true ∧ inGrid .col (p.c2 + dc) = true) :
    (a.has p.r1 p.c1 = true ∧ a.has p.r2 p.c2 = true →
      cfPartCut a dr dc p = ⟨false, p.r1 + dr, p.c1 + dc, p.r2 + dr, p.c2 + dc⟩) ∧
    (¬ (a.has p.r1 p.c1 = true ∧ a.has p.r2 p.c2 = true) → cfPartCut a dr dc p = p) := by
  unfold cfPartCut
  constructor
  · intro ⟨h1, h2⟩; simp [hp, h1, h2, hg.1, hg.2]
  · intro h
    simp only [hp, Bool.false_eq_true, if_false]
    by_cases h1 : a.has p.r1 p.c1 = true
    · have h2 : a.has p.r2 p.c2 = false := by
        cases hh : a.has p.r2 p.c2
        · rfl
        · exact absurd ⟨h1, hh⟩ h
      simp [h1, h2]
    · simp [h1]

/-- the same rule is applied to a formula range by the cut printer: both agree on absolute ranges -/
theorem C33_cut_agrees_with_formula_rewrite (a : Rect) (s : Nat) (dr dc : Int) (h : Host) (p : CfPart)
    (hfr : (partRange s p).fullRow = false) (hfc : (partRange s p).fullCol = false)
    (hin : a.has p.r1 p.c1 = true ∧ a.has p.r2 p.c2 = true)
    (g1 : inGrid .row (p.r1 + dr) = true ∧ inGrid .col (p.c1 + dc) = true)
    (g2 : inGrid .row (p.r2 + dr) = true ∧ inGrid .col (p.c2 + dc) = true) :
    cutAtom a s dr dc h (.range (partRange s p)) =
      .range (mkRange h s false true (p.r1 + dr) true (p.c1 + dc) true (p.r2 + dr) true (p.c2 + dc)) := by
  have e : ∀ hh v, (End.resolve hh ⟨true, v⟩) = v := fun _ _ => rfl
  simp only [cutAtom, cutPoint, partRange, e, hin.1, hin.2, decide_true, Bool.and_self, Bool.true_and,
    if_true, g1.1, g1.2, g2.1, g2.2]
  simp only [partRange] at hfr hfc
  simp [hfr, hfc]

/-- **copy.** The copied part is the translate of the intersection of the part with the copied rectangle:
    a cell belongs to it iff its pre-image belongs to both. -/
theorem C33_copy_part (sr1 sc1 sr2 sc2 tr tc : Int) (p q : CfPart)
    (h : cfPartCopy sr1 sc1 sr2 sc2 tr tc p = some q) (r c : Int) :
    (q.r1 ≤ r ∧ r ≤ q.r2 ∧ q.c1 ≤ c ∧ c ≤ q.c2) ↔
    (p.r1 ≤ r - (tr - sr1) ∧ r - (tr - sr1) ≤ p.r2 ∧ p.c1 ≤ c - (tc - sc1) ∧ c - (tc - sc1) ≤ p.c2 ∧
     sr1 ≤ r - (tr - sr1) ∧ r - (tr - sr1) ≤ sr2 ∧ sc1 ≤ c - (tc - sc1) ∧ c - (tc - sc1) ≤ sc2) := by
  unfold cfPartCopy at h
  simp only at h
  split at h
  · cases h
  · split at h
    · simp only [Option.some.injEq] at h
      subst h
      simp only
      omega
    · cases h

/-- **copy, rule formulas** (repaired code, fix F33b): a rule formula read at the old top-left cell `a` and written
    as seen from the new one `n` keeps its absolute coordinates and moves its relative coordinates by `n - a` —
    what copying a cell formula does -/
theorem C33_copy_formula_translates (h a n : Int) (e : End) :
    (retypeEnd h a e).resolve n = if e.abs then e.resolve h else e.resolve h + (n - a) := by
  cases e with
  | mk abs v => cases abs <;> simp [retypeEnd, End.ofA1, End.resolve] <;> omega

/-- **links under cut/copy paste**: the target cells get the links of the cells pasted onto them, a cut removes
    them from the source cells that were not overwritten, every other cell keeps its link -/
theorem C33_paste_links {L : Type} (src : Rect) (tr tc : Int) (isCut : Bool) (m : LinkMap L) (r c : Int) :
    let tgt : Rect := ⟨tr, tc, src.height, src.width⟩
    (tgt.has r c = true → pasteLinks src tr tc isCut m r c = m (r - (tr - src.row)) (c - (tc - src.col))) ∧
    (tgt.has r c = false → src.has r c = true → isCut = true → pasteLinks src tr tc isCut m r c = none) ∧
    (tgt.has r c = false → (src.has r c = false ∨ isCut = false) → pasteLinks src tr tc isCut m r c = m r c) := by
  simp only [pasteLinks]
  refine ⟨?_, ?_, ?_⟩
  · intro h; simp [h]
  · intro h1 h2 h3; simp [h1, h2, h3]
  · intro h1 h2
    rcases h2 with h2 | h2 <;> simp [h1, h2]

/-- the source cell of a target cell is inside the copied rectangle: the link really is the one of a copied cell -/
theorem C33_paste_source_in_area (src : Rect) (tr tc r c : Int)
    (h : (⟨tr, tc, src.height, src.width⟩ : Rect).has r c = true) :
    src.has (r - (tr - src.row)) (c - (tc - src.col)) = true := by
  simp only [Rect.has, decide_eq_true_eq] at h ⊢
  omega

/-- **clear_removes_link**: after clearing an area no cell of it has a link; cells outside keep theirs -/
theorem C33_clear_removes_link {L : Type} (a : Rect) (m : LinkMap L) (r c : Int) :
    (a.has r c = true → clearLinks a m r c = none) ∧ (a.has r c = false → clearLinks a m r c = m r c) := by
  simp only [clearLinks]
  constructor <;> intro h <;> simp [h]

/-- **undo_restores_link**: undoing the `SetCellLink` diffs recorded by the clear gives back the link map -/
theorem C33_undo_restores_link {L : Type} (a : Rect) (m : LinkMap L) :
    undoClearLinks a m (clearLinks a m) = m := by
  funext r c
  simp only [undoClearLinks, clearLinks]
  split
  · cases m r c <;> rfl
  · rfl

/-! non-vacuity -/

-- `B3:C6`, insert two rows at 4: `B3:C8`; delete row 3 (a corner): the string is kept
example : cfPartDisp .row (.insert 4 2) ⟨false, 3, 2, 6, 3⟩ = some (⟨false, 3, 2, 8, 3⟩, (3, 2)) := by decide
-- delete row 3 (a corner): the part shrinks to the surviving rows 4..6, now 3..5; delete all of it: dropped
example : cfPartDisp .row (.delete 3 1) ⟨false, 3, 2, 6, 3⟩ = some (⟨false, 3, 2, 5, 3⟩, (4, 2)) := by decide
example : cfPartDisp .row (.delete 2 2) ⟨false, 2, 1, 3, 1⟩ = none := by decide
example : cfPartDisp .row (.delete 2 1) ⟨false, 2, 1, 5, 1⟩ = some (⟨false, 2, 1, 4, 1⟩, (3, 1)) := by decide
-- the formula range breaks on the same edit
example : (rhoRange ⟨.row, 0, .delete 3 1⟩ ⟨0, 9, 9⟩ (partRange 0 ⟨false, 3, 2, 6, 3⟩)).1 = none := by decide
-- copy `B2:D5` restricted to the copied `C1:C3`, pasted at `F10`: `F11:F12`
example : cfPartCopy 1 3 3 3 10 6 ⟨false, 2, 2, 5, 4⟩ = some ⟨false, 11, 6, 12, 6⟩ := by decide
example : cfPartCut ⟨2, 2, 4, 3⟩ 5 1 ⟨false, 2, 2, 5, 4⟩ = ⟨false, 7, 3, 10, 5⟩ := by decide

end IronCalc.Structure.C33
