import IronCalc.Sheet.Styles
/-
  Helper lemmas for C30: list indexing, number-format lookup, freshness of new format ids.
-/
namespace IronCalc.Sheet.Styles

/-! ### `idx`, `firstIndex`, `internIn` -/

theorem idx_some {α : Type} {l : List α} {i : Int} {x : α} (h : idx l i = some x) :
    0 ≤ i ∧ i < (l.length : Int) ∧ l[i.toNat]? = some x := by
  unfold idx at h
  split at h
  · cases h
  · have hlt : i.toNat < l.length := by
      rcases Nat.lt_or_ge i.toNat l.length with hlt | hge
      · exact hlt
      · rw [List.getElem?_eq_none hge] at h; cases h
    refine ⟨by omega, by omega, h⟩

theorem idx_append_left {α : Type} {l : List α} (m : List α) {i : Int} {x : α} (h : idx l i = some x) :
    idx (l ++ m) i = some x := by
  obtain ⟨h0, h1, h2⟩ := idx_some h
  unfold idx
  have : ¬ i < 0 := by omega
  simp only [this, if_false]
  rw [List.getElem?_append_left (by omega)]
  exact h2

theorem idx_length_append {α : Type} (l : List α) (x : α) : idx (l ++ [x]) (l.length : Int) = some x := by
  unfold idx
  have : ¬ ((l.length : Int) < 0) := by omega
  simp only [this, if_false, Int.toNat_natCast]
  simp

theorem idx_of_lt {α : Type} {l : List α} {i : Int} (h0 : 0 ≤ i) (h1 : i < (l.length : Int)) :
    ∃ x, idx l i = some x := by
  unfold idx
  have : ¬ i < 0 := by omega
  simp only [this, if_false]
  have hlt : i.toNat < l.length := by omega
  exact ⟨l[i.toNat], List.getElem?_eq_getElem hlt⟩

theorem firstIndex_some {α : Type} [DecidableEq α] {x : α} {l : List α} {i : Nat}
    (h : firstIndex x l = some i) : l[i]? = some x := by
  induction l generalizing i with
  | nil => cases h
  | cons y rest ih =>
    simp only [firstIndex] at h
    by_cases hy : y = x
    · simp only [hy, if_true, Option.some.injEq] at h
      subst h; simp [hy]
    · simp only [hy, if_false] at h
      cases hf : firstIndex x rest with
      | none => simp [hf] at h
      | some j =>
        simp only [hf, Option.map_some, Option.some.injEq] at h
        subst h
        simpa using ih hf

theorem internIn_spec {α : Type} [DecidableEq α] (x : α) (l : List α) :
    idx (internIn x l).1 (internIn x l).2 = some x ∧
    (∃ m, (internIn x l).1 = l ++ m) := by
  unfold internIn
  cases hf : firstIndex x l with
  | some i =>
    refine ⟨?_, [], by simp⟩
    have := firstIndex_some hf
    unfold idx
    have h0 : ¬ ((i : Int) < 0) := by omega
    simp only [h0, if_false, Int.toNat_natCast]
    exact this
  | none => exact ⟨idx_length_append l x, [x], rfl⟩

/-! ### number formats -/

theorem findNumFmt_some {id : Int} {nfs : List NumFmt} {nf : NumFmt} (h : findNumFmt id nfs = some nf) :
    nf ∈ nfs ∧ nf.numFmtId = id := by
  induction nfs with
  | nil => cases h
  | cons a rest ih =>
    simp only [findNumFmt] at h
    by_cases ha : a.numFmtId = id
    · simp only [ha, if_true, Option.some.injEq] at h
      subst h; exact ⟨List.mem_cons_self, ha⟩
    · simp only [ha, if_false] at h
      exact ⟨List.mem_cons_of_mem _ (ih h).1, (ih h).2⟩

theorem findNumFmt_none {id : Int} {nfs : List NumFmt} (h : findNumFmt id nfs = none) :
    ∀ nf ∈ nfs, nf.numFmtId ≠ id := by
  induction nfs with
  | nil => intro nf hm; cases hm
  | cons a rest ih =>
    simp only [findNumFmt] at h
    by_cases ha : a.numFmtId = id
    · simp [ha] at h
    · simp only [ha, if_false] at h
      intro nf hm
      rcases List.mem_cons.mp hm with rfl | hm
      · exact ha
      · exact ih h nf hm

theorem findNumFmt_append (id : Int) (nfs : List NumFmt) (n : NumFmt) :
    findNumFmt id (nfs ++ [n]) =
      match findNumFmt id nfs with
      | some x => some x
      | none => if n.numFmtId = id then some n else none := by
  induction nfs with
  | nil => simp [findNumFmt]
  | cons a rest ih =>
    simp only [List.cons_append, findNumFmt, ih]
    by_cases ha : a.numFmtId = id <;> simp [ha]

theorem findNumFmtByCode_some {code : String} {nfs : List NumFmt} {id : Int}
    (h : findNumFmtByCode code nfs = some id) : ∃ nf ∈ nfs, nf.formatCode = code ∧ nf.numFmtId = id := by
  induction nfs with
  | nil => cases h
  | cons a rest ih =>
    simp only [findNumFmtByCode] at h
    by_cases ha : a.formatCode = code
    · simp only [ha, if_true, Option.some.injEq] at h
      exact ⟨a, List.mem_cons_self, ha, h⟩
    · simp only [ha, if_false] at h
      obtain ⟨nf, hm, h1, h2⟩ := ih h
      exact ⟨nf, List.mem_cons_of_mem _ hm, h1, h2⟩

/-- number of entries whose id is at least `i` (the measure of the `while` loop) -/
def countGe (nfs : List NumFmt) (i : Int) : Nat := nfs.countP (fun nf => decide (i ≤ nf.numFmtId))

theorem countGe_succ_lt {nfs : List NumFmt} {i : Int} (h : nfs.any (fun nf => nf.numFmtId == i) = true) :
    countGe nfs (i + 1) < countGe nfs i := by
  induction nfs with
  | nil => simp at h
  | cons a rest ih =>
    simp only [List.any_cons, Bool.or_eq_true, beq_iff_eq] at h
    simp only [countGe, List.countP_cons]
    have hmono : List.countP (fun nf => decide (i + 1 ≤ nf.numFmtId)) rest
        ≤ List.countP (fun nf => decide (i ≤ nf.numFmtId)) rest := by
      apply List.countP_mono_left
      intro nf _ hnf
      simp only [decide_eq_true_eq] at hnf ⊢
      omega
    by_cases ha : a.numFmtId = i
    · have h1 : decide (i + 1 ≤ a.numFmtId) = false := by simp; omega
      have h2 : decide (i ≤ a.numFmtId) = true := by simp; omega
      simp only [h1, h2, if_true, Bool.false_eq_true, if_false]
      omega
    · have hr : rest.any (fun nf => nf.numFmtId == i) = true := by
        rcases h with h | h
        · exact absurd h ha
        · simpa using h
      have := ih hr
      simp only [countGe] at this
      by_cases h1 : i + 1 ≤ a.numFmtId
      · have h2 : i ≤ a.numFmtId := by omega
        simp only [h1, h2, decide_true, if_true]; omega
      · simp only [h1, decide_false, Bool.false_eq_true, if_false]
        split <;> omega

theorem newIdxLoop_spec (nfs : List NumFmt) (fuel : Nat) (i : Int) (h : countGe nfs i < fuel) :
    i ≤ newIdxLoop nfs fuel i ∧ nfs.any (fun nf => nf.numFmtId == newIdxLoop nfs fuel i) = false := by
  induction fuel generalizing i with
  | zero => omega
  | succ f ih =>
    simp only [newIdxLoop]
    cases ha : nfs.any (fun nf => nf.numFmtId == i)
    · simp [ha]
    · simp only [if_true]
      have hlt := countGe_succ_lt ha
      have := ih (i + 1) (by omega)
      exact ⟨by omega, this.2⟩

/-- get_new_num_fmt_index returns an id that is not in use and not a built-in id -/
theorem newIdx_fresh (T : List String) (nfs : List NumFmt) :
    (T.length : Int) ≤ getNewNumFmtIndex T nfs ∧ findNumFmt (getNewNumFmtIndex T nfs) nfs = none := by
  unfold getNewNumFmtIndex
  have hc : countGe nfs (T.length : Int) < nfs.length + 1 := by
    unfold countGe
    have := List.countP_le_length (p := fun nf : NumFmt => decide ((T.length : Int) ≤ nf.numFmtId)) (l := nfs)
    omega
  obtain ⟨h1, h2⟩ := newIdxLoop_spec nfs _ _ hc
  refine ⟨h1, ?_⟩
  cases hf : findNumFmt (newIdxLoop nfs (nfs.length + 1) (T.length : Int)) nfs with
  | none => rfl
  | some nf =>
    obtain ⟨hm, hid⟩ := findNumFmt_some hf
    have : nfs.any (fun nf => nf.numFmtId == newIdxLoop nfs (nfs.length + 1) (T.length : Int)) = true := by
      simp only [List.any_eq_true, beq_iff_eq]
      exact ⟨nf, hm, hid⟩
    rw [h2] at this; cases this

/-! ### number-format resolution -/

theorem getNumFmt_of_found {T : List String} {id : Int} {nfs : List NumFmt} {nf : NumFmt}
    (h : findNumFmt id nfs = some nf) : getNumFmt T id nfs = .ok nf.formatCode := by
  simp [getNumFmt, h]

/-- a number-format id that is defined or built-in keeps its meaning when a fresh custom id is added -/
theorem getNumFmt_push_stable {T : List String} {id : Int} {nfs : List NumFmt} {n : NumFmt}
    (hfresh : findNumFmt n.numFmtId nfs = none) (hge : (T.length : Int) ≤ n.numFmtId)
    (hid : (findNumFmt id nfs).isSome ∨ (0 ≤ id ∧ id < (T.length : Int))) :
    getNumFmt T id (nfs ++ [n]) = getNumFmt T id nfs := by
  unfold getNumFmt
  rw [findNumFmt_append]
  cases hf : findNumFmt id nfs with
  | some x => rfl
  | none =>
    have hlt : 0 ≤ id ∧ id < (T.length : Int) := by
      rcases hid with h | h
      · simp [hf] at h
      · exact h
    have : ¬ n.numFmtId = id := by omega
    simp [this]

section
variable {F L B A : Type} [DecidableEq F] [DecidableEq L] [DecidableEq B] [DecidableEq A]

/-- get_num_fmt_index returns an id that get_num_fmt resolves back to the code -/
theorem getNumFmtIndex_resolves {T : List String} {sf : Bool} {nfs : List NumFmt} {code : String} {i : Int}
    (hcons : ∀ nf ∈ nfs, (findNumFmt nf.numFmtId nfs).map (·.formatCode) = some nf.formatCode)
    (hshadow : sf = false → ∀ nf ∈ nfs, nf.numFmtId < (T.length : Int) → idx T nf.numFmtId = some nf.formatCode)
    (h : getNumFmtIndex T sf nfs code = some i) :
    getNumFmt T i nfs = .ok code ∧ ((findNumFmt i nfs).isSome ∨ (0 ≤ i ∧ i < (T.length : Int))) := by
  have byCode : ∀ j, findNumFmtByCode code nfs = some j →
      getNumFmt T j nfs = .ok code ∧ ((findNumFmt j nfs).isSome ∨ (0 ≤ j ∧ j < (T.length : Int))) := by
    intro j hj
    obtain ⟨nf, hm, hc, hid⟩ := findNumFmtByCode_some hj
    have := hcons nf hm
    rw [hid] at this
    cases hf : findNumFmt j nfs with
    | none => simp [hf] at this
    | some x =>
      simp only [hf, Option.map_some, Option.some.injEq] at this
      refine ⟨?_, Or.inl rfl⟩
      rw [getNumFmt_of_found hf, this, hc]
  unfold getNumFmtIndex getDefaultNumFmtId at h
  cases hd : firstIndex code T with
  | none =>
    simp only [hd, Option.map_none] at h
    exact byCode i h
  | some k =>
    have hk := firstIndex_some hd
    have hklt : k < T.length := by
      rcases Nat.lt_or_ge k T.length with h1 | h1
      · exact h1
      · rw [List.getElem?_eq_none h1] at hk; cases hk
    have hidx : idx T (k : Int) = some code := by
      unfold idx
      have : ¬ ((k : Int) < 0) := by omega
      simp only [this, if_false, Int.toNat_natCast]; exact hk
    simp only [hd, Option.map_some, Int.ofNat_eq_natCast] at h
    cases hsf : sf
    · -- pinned: the built-in id whatever the workbook defines
      simp only [hsf, Bool.false_eq_true, if_false, Option.some.injEq] at h
      subst h
      refine ⟨?_, Or.inr ⟨by omega, by omega⟩⟩
      unfold getNumFmt
      cases hf : findNumFmt (k : Int) nfs with
      | some nf =>
        obtain ⟨hm, hid⟩ := findNumFmt_some hf
        have := hshadow hsf nf hm (by omega)
        rw [hid, hidx] at this
        simp only [Option.some.injEq] at this
        simp [this]
      | none =>
        have : (k : Int) < (T.length : Int) := by omega
        simp [this, hidx]
    · simp only [hsf, if_true] at h
      cases hg : getNumFmt T (k : Int) nfs with
      | error e =>
        simp only [hg] at h
        exact byCode i h
      | ok c =>
        simp only [hg] at h
        by_cases hc : c = code
        · simp only [hc, if_true, Option.some.injEq] at h
          subst h
          exact ⟨by rw [hg, hc], Or.inr ⟨by omega, by omega⟩⟩
        · simp only [hc, if_false] at h
          exact byCode i h

/-- `q` extends `p`: same xfs, component pools extended at the end, at most one new number format
    under a fresh, non-built-in id -/
structure Ext (T : List String) (p q : Pool F L B A) : Prop where
  fonts : ∃ m, q.fonts = p.fonts ++ m
  fills : ∃ m, q.fills = p.fills ++ m
  borders : ∃ m, q.borders = p.borders ++ m
  xfs : q.cellXfs = p.cellXfs
  numFmts : q.numFmts = p.numFmts ∨
    ∃ n, q.numFmts = p.numFmts ++ [n] ∧ findNumFmt n.numFmtId p.numFmts = none ∧ (T.length : Int) ≤ n.numFmtId

theorem getNumFmt_ext {T : List String} {p q : Pool F L B A} (he : Ext T p q) {id : Int}
    (hid : (findNumFmt id p.numFmts).isSome ∨ (0 ≤ id ∧ id < (T.length : Int))) :
    getNumFmt T id q.numFmts = getNumFmt T id p.numFmts := by
  rcases he.numFmts with h | ⟨n, h, hf, hge⟩
  · rw [h]
  · rw [h]; exact getNumFmt_push_stable hf hge hid

theorem findNumFmt_ext {T : List String} {p q : Pool F L B A} (he : Ext T p q) {id : Int}
    (hid : (findNumFmt id p.numFmts).isSome) : findNumFmt id q.numFmts = findNumFmt id p.numFmts := by
  rcases he.numFmts with h | ⟨n, h, _, _⟩
  · rw [h]
  · rw [h, findNumFmt_append]
    cases hf : findNumFmt id p.numFmts with
    | some x => rfl
    | none => simp [hf] at hid

theorem isSome_idx_append {α : Type} {l m : List α} {i : Int} (h : (idx l i).isSome) :
    idx (l ++ m) i = idx l i := by
  cases hx : idx l i with
  | none => simp [hx] at h
  | some x => exact idx_append_left m hx

/-- an xf that is well-formed in `p` decodes to the same style in any extension of `p` -/
theorem decodeXf_ext {T : List String} {p q : Pool F L B A} (he : Ext T p q) {xf : CellXf A}
    (hc : (idx p.fonts xf.fontId).isSome ∧ (idx p.fills xf.fillId).isSome ∧ (idx p.borders xf.borderId).isSome)
    (hf : (findNumFmt xf.numFmtId p.numFmts).isSome ∨ (0 ≤ xf.numFmtId ∧ xf.numFmtId < (T.length : Int))) :
    decodeXf T q xf = decodeXf T p xf := by
  obtain ⟨m1, h1⟩ := he.fonts
  obtain ⟨m2, h2⟩ := he.fills
  obtain ⟨m3, h3⟩ := he.borders
  unfold decodeXf
  rw [getNumFmt_ext he hf, h1, h2, h3, isSome_idx_append hc.1, isSome_idx_append hc.2.1, isSome_idx_append hc.2.2]

/-- what get_or_create_component_ids delivers -/
theorem componentIds_spec {T : List String} {sf : Bool} {p : Pool F L B A} (hp : PoolInv T sf p) (s : Style F L B A)
    (r : Pool F L B A × Int × Int × Int × Int) (hr : getOrCreateComponentIds T sf p s = r) :
    Ext T p r.1 ∧
    getNumFmt T r.2.1 r.1.numFmts = .ok s.numFmt ∧
    ((findNumFmt r.2.1 r.1.numFmts).isSome ∨ (0 ≤ r.2.1 ∧ r.2.1 < (T.length : Int))) ∧
    idx r.1.fonts r.2.2.1 = some s.font ∧
    idx r.1.fills r.2.2.2.1 = some s.fill ∧
    idx r.1.borders r.2.2.2.2 = some s.border := by
  have hfo := internIn_spec s.font p.fonts
  have hfi := internIn_spec s.fill p.fills
  have hbo := internIn_spec s.border p.borders
  unfold getOrCreateComponentIds at hr
  cases hn : getNumFmtIndex T sf p.numFmts s.numFmt with
  | some i =>
    simp only [hn] at hr
    subst hr
    obtain ⟨h1, h2⟩ := getNumFmtIndex_resolves hp.consistent hp.noShadow hn
    exact ⟨⟨hfo.2, hfi.2, hbo.2, rfl, Or.inl rfl⟩, h1, h2, hfo.1, hfi.1, hbo.1⟩
  | none =>
    simp only [hn] at hr
    subst hr
    obtain ⟨hge, hfresh⟩ := newIdx_fresh T p.numFmts
    refine ⟨⟨hfo.2, hfi.2, hbo.2, rfl, Or.inr ⟨_, rfl, hfresh, hge⟩⟩, ?_, ?_, hfo.1, hfi.1, hbo.1⟩
    · simp only [getNumFmt, findNumFmt_append, hfresh, if_true]
    · left
      simp only [findNumFmt_append, hfresh, if_true, Option.isSome_some]

/-- extensions keep the pool invariant -/
theorem PoolInv.ext {T : List String} {sf : Bool} {p q : Pool F L B A} (hp : PoolInv T sf p) (he : Ext T p q) :
    PoolInv T sf q := by
  obtain ⟨m1, h1⟩ := he.fonts
  obtain ⟨m2, h2⟩ := he.fills
  obtain ⟨m3, h3⟩ := he.borders
  refine ⟨?_, ?_, ?_, ?_⟩
  · intro xf hx
    rw [he.xfs] at hx
    obtain ⟨a, b, c⟩ := hp.comp xf hx
    rw [h1, h2, h3, isSome_idx_append a, isSome_idx_append b, isSome_idx_append c]
    exact ⟨a, b, c⟩
  · intro xf hx
    rw [he.xfs] at hx
    rcases hp.fmt xf hx with h | h
    · left; rw [findNumFmt_ext he h]; exact h
    · right; exact h
  · intro nf hm
    rcases he.numFmts with h | ⟨n, h, hf, hge⟩
    · rw [h] at hm ⊢; exact hp.consistent nf hm
    · rw [h] at hm ⊢
      rcases List.mem_append.mp hm with hm | hm
      · have := hp.consistent nf hm
        rw [findNumFmt_append]
        cases hx : findNumFmt nf.numFmtId p.numFmts with
        | some x => simpa [hx] using this
        | none => simp [hx] at this
      · simp only [List.mem_singleton] at hm
        subst hm
        simp [findNumFmt_append, hf]
  · intro hsf nf hm hlt
    rcases he.numFmts with h | ⟨n, h, hf, hge⟩
    · rw [h] at hm; exact hp.noShadow hsf nf hm hlt
    · rw [h] at hm
      rcases List.mem_append.mp hm with hm | hm
      · exact hp.noShadow hsf nf hm hlt
      · simp only [List.mem_singleton] at hm
        subst hm; omega

/-- under the invariant every xf decodes (no index panic) -/
theorem decodeXf_ok {T : List String} {sf : Bool} {p : Pool F L B A} (hT : T ≠ []) (hp : PoolInv T sf p)
    {xf : CellXf A} (hx : xf ∈ p.cellXfs) : ∃ s, decodeXf T p xf = .ok s := by
  obtain ⟨a, b, c⟩ := hp.comp xf hx
  unfold decodeXf
  have hn : ∃ c, getNumFmt T xf.numFmtId p.numFmts = .ok c := by
    rcases hp.fmt xf hx with h | h
    · cases hf : findNumFmt xf.numFmtId p.numFmts with
      | none => simp [hf] at h
      | some nf => exact ⟨_, getNumFmt_of_found hf⟩
    · unfold getNumFmt
      cases hf : findNumFmt xf.numFmtId p.numFmts with
      | some nf => exact ⟨_, rfl⟩
      | none =>
        obtain ⟨c, hc⟩ := idx_of_lt h.1 h.2
        simp [h.2, hc]
  obtain ⟨c0, hc0⟩ := hn
  cases h1 : idx p.fills xf.fillId with
  | none => simp [h1] at b
  | some fill =>
    cases h2 : idx p.fonts xf.fontId with
    | none => simp [h2] at a
    | some font =>
      cases h3 : idx p.borders xf.borderId with
      | none => simp [h3] at c
      | some border => exact ⟨⟨xf.alignment, c0, fill, font, border, xf.quotePrefix⟩, by rw [hc0]⟩

/-- the scan of get_style_index: a hit is an xf that decodes to the style -/
theorem scanXfs_some {T : List String} {p : Pool F L B A} {s : Style F L B A} {l : List (CellXf A)} {n : Nat} {i : Int}
    (h : scanXfs T p s l n = .ok (some i)) :
    ∃ xf, (n : Int) ≤ i ∧ l[(i - n).toNat]? = some xf ∧ decodeXf T p xf = .ok s := by
  induction l generalizing n with
  | nil => simp [scanXfs] at h
  | cons xf rest ih =>
    simp only [scanXfs] at h
    have step : ∀ (hr : scanXfs T p s rest (n + 1) = .ok (some i)),
        ∃ xf', (n : Int) ≤ i ∧ (xf :: rest)[(i - n).toNat]? = some xf' ∧ decodeXf T p xf' = .ok s := by
      intro hr
      obtain ⟨xf', h1, h2, h3⟩ := ih hr
      refine ⟨xf', by omega, ?_, h3⟩
      have : (i - (n : Int)).toNat = (i - ((n + 1 : Nat) : Int)).toNat + 1 := by omega
      rw [this, List.getElem?_cons_succ]; exact h2
    by_cases hx : xf.xfId ≠ 0
    · rw [if_pos hx] at h
      exact step h
    · rw [if_neg hx] at h
      cases hd : decodeXf T p xf with
      | error e => simp [hd] at h
      | ok s' =>
        simp only [hd] at h
        by_cases hs : s = s'
        · simp only [hs, if_true, Except.ok.injEq, Option.some.injEq] at h
          subst h
          exact ⟨xf, by omega, by simp, by rw [hd, hs]⟩
        · simp only [hs, if_false] at h
          exact step h

/-- under the invariant the scan never faults -/
theorem scanXfs_no_fault {T : List String} {sf : Bool} {p : Pool F L B A} (hT : T ≠ []) (hp : PoolInv T sf p)
    (s : Style F L B A) (l : List (CellXf A)) (hl : ∀ xf ∈ l, xf ∈ p.cellXfs) (n : Nat) :
    ∃ r, scanXfs T p s l n = .ok r := by
  induction l generalizing n with
  | nil => exact ⟨none, rfl⟩
  | cons xf rest ih =>
    have hrest := ih (fun x hx => hl x (List.mem_cons_of_mem _ hx)) (n + 1)
    simp only [scanXfs]
    by_cases hx : xf.xfId ≠ 0
    · rw [if_pos hx]; exact hrest
    · rw [if_neg hx]
      obtain ⟨s', hs'⟩ := decodeXf_ok hT hp (hl xf List.mem_cons_self)
      rw [hs']
      by_cases hs : s = s'
      · exact ⟨some (n : Int), by simp [hs]⟩
      · simp only [hs, if_false]; exact hrest

end

end IronCalc.Sheet.Styles
