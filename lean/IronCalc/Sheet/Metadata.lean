import IronCalc.Sheet.StructureSheet
/-
  C33 — cell-attached metadata: hyperlinks (`worksheet.links`, keyed by (row, column)) and conditional formats
  (`ConditionalFormatting { range: sqref string, cf_rule }`).
  Model of base/src/actions.rs::{displace_links, displace_cf_row/col, displace_cf_sqref_part, displace_cf_ranges},
  base/src/cut_paste.rs::{cf_range_part_update_for_cut, map_cf_range_part_to_target, cf_sqref_anchor,
  cf_rule_move_formulas}, the link part of base/src/user_model/clipboard.rs::paste_from_clipboard and of
  user_model/common.rs::{range_clear_contents, range_link_diffs} + the `SetCellLink` undo.
  No Mathlib (imported by the driver).
-/
namespace IronCalc.Structure

/-! ## conditional-format ranges -/

/-- one part of a sqref: `A1` (single) or `A1:B5`, corners in the order they are written -/
structure CfPart where
  single : Bool
  r1 : Int
  c1 : Int
  r2 : Int
  c2 : Int
deriving DecidableEq, Repr, Inhabited

-- models actions.rs::displace_cf_row / displace_cf_col for an edit along `ax` (the other coordinate is kept)
def cfRow (ax : Axis) (o : Op) (x : Int) : Option Int := match ax with | .row => cfCoord o x | .col => some x
def cfCol (ax : Axis) (o : Op) (x : Int) : Option Int := match ax with | .col => cfCoord o x | .row => some x

-- models actions.rs::deleted_cf_rows / deleted_cf_cols: the lines `first..=last` a deletion removes
def deletedBand : Op → Option (Int × Int)
  | .delete r k => some (r, r + k - 1)
  | _ => none

-- models actions.rs::displace_cf_edges: the two edges `a`, `b` of a range along the edited axis.  If both survive
-- they are displaced on their own; if an edge is deleted the range shrinks to its surviving lines.  Result: the
-- new edges and the OLD position of the first one; `none` when no line of the range survives.
def cfEdges (o : Op) (a b : Int) : Option (Int × Int × Int) :=
  match cfCoord o a, cfCoord o b with
  | some na, some nb => some (na, nb, a)
  | _, _ =>
    match deletedBand o with
    | none => none
    | some (s, e) =>
      let lo := min a b
      let hi := max a b
      let lo := if s ≤ lo ∧ lo ≤ e then e + 1 else lo
      let hi := if s ≤ hi ∧ hi ≤ e then s - 1 else hi
      if lo > hi then none
      else match cfCoord o lo, cfCoord o hi with
        | some x, some y => some (x, y, lo)
        | _, _ => none

def cfRowEdges (ax : Axis) (o : Op) (a b : Int) : Option (Int × Int × Int) :=
  match ax with | .row => cfEdges o a b | .col => some (a, b, a)
def cfColEdges (ax : Axis) (o : Op) (a b : Int) : Option (Int × Int × Int) :=
  match ax with | .col => cfEdges o a b | .row => some (a, b, a)

-- models actions.rs::displace_cf_sqref_part: the part follows its cells; it shrinks when some of its lines are
-- deleted; `none` when all its cells are deleted.  If a column leaves the grid (`number_to_column` = None) the
-- ORIGINAL string is kept.  Rows are not checked against the grid.  Second component: the cell (before the edit)
-- that becomes the first corner of the new part.
def cfPartDisp (ax : Axis) (o : Op) (p : CfPart) : Option (CfPart × (Int × Int)) :=
  match cfRowEdges ax o p.r1 p.r2, cfColEdges ax o p.c1 p.c2 with
  | some (a, c, sr), some (b, d, sc) =>
    if inGrid .col b && inGrid .col d then some (⟨p.single, a, b, c, d⟩, (sr, sc))
    else some (p, (p.r1, p.c1))
  | _, _ => none

/-- a rectangle `row, column, height, width` (`expressions::types::Area` on the CF's sheet) -/
structure Rect where
  row : Int
  col : Int
  height : Int
  width : Int
deriving DecidableEq, Repr, Inhabited

-- models move_formula.rs::ref_is_in_area
def Rect.has (a : Rect) (r c : Int) : Bool :=
  decide (a.row ≤ r ∧ r ≤ a.row + a.height - 1 ∧ a.col ≤ c ∧ c ≤ a.col + a.width - 1)

-- models cut_paste.rs::cf_range_part_update_for_cut: a part moves only when every corner is inside the cut area
def cfPartCut (a : Rect) (dr dc : Int) (p : CfPart) : CfPart :=
  if p.single then
    if a.has p.r1 p.c1 && inGrid .col (p.c1 + dc) then ⟨true, p.r1 + dr, p.c1 + dc, p.r1 + dr, p.c1 + dc⟩ else p
  else
    if a.has p.r1 p.c1 && a.has p.r2 p.c2 && inGrid .col (p.c1 + dc) && inGrid .col (p.c2 + dc) then
      ⟨false, p.r1 + dr, p.c1 + dc, p.r2 + dr, p.c2 + dc⟩
    else p

-- models cut_paste.rs::map_cf_range_part_to_target (copy/paste): intersect with the copied rectangle
-- `[sr1,sr2]×[sc1,sc2]`, translate to the target corner; `none` when they do not overlap
def cfPartCopy (sr1 sc1 sr2 sc2 tr tc : Int) (p : CfPart) : Option CfPart :=
  let ir1 := max p.r1 sr1
  let ic1 := max p.c1 sc1
  let ir2 := min p.r2 sr2
  let ic2 := min p.c2 sc2
  if ir1 > ir2 ∨ ic1 > ic2 then none
  else
    let nr1 := tr + (ir1 - sr1)
    let nc1 := tc + (ic1 - sc1)
    let nr2 := tr + (ir2 - sr1)
    let nc2 := tc + (ic2 - sc1)
    if inGrid .col nc1 && inGrid .col nc2 then
      some ⟨decide (nr1 = nr2 ∧ nc1 = nc2), nr1, nc1, nr2, nc2⟩
    else none

-- models cut_paste.rs::cf_sqref_anchor: the first written corner of the first part
def cfAnchor (parts : List CfPart) : Option (Int × Int) :=
  match parts with
  | p :: _ => some (p.r1, p.c1)
  | [] => none

/-! ## rule formulas under cut (move_formula.rs::to_string_moved, reference arms) -/

-- a reference inside the moved area is displaced by the offset, otherwise it is printed unchanged;
-- printing goes through stringify_reference (grid checks)
def cutPoint (a : Rect) (sheet : Nat) (dr dc : Int) (h : Host) (rsheet : Nat) (row col : End) (moved : Bool) :
    Option (Int × Int) :=
  let r0 := row.resolve h.row
  let c0 := col.resolve h.col
  let (r, c) := if moved && rsheet = sheet then (r0 + dr, c0 + dc) else (r0, c0)
  if inGrid .row r && inGrid .col c then some (r, c) else none

def cutAtom (a : Rect) (sheet : Nat) (dr dc : Int) (h : Host) : Atom → Atom
  | .ref q =>
    let inA := q.sheet = sheet && a.has (q.row.resolve h.row) (q.col.resolve h.col)
    match cutPoint a sheet dr dc h q.sheet q.row q.col inA with
    | some (x, y) => .ref (mkRef h q.sheet q.named q.row.abs x q.col.abs y)
    | none => .err
  | .range g =>
    let inA := g.sheet = sheet && a.has (g.r1.resolve h.row) (g.c1.resolve h.col) &&
      a.has (g.r2.resolve h.row) (g.c2.resolve h.col)
    match cutPoint a sheet dr dc h g.sheet g.r1 g.c1 inA, cutPoint a sheet dr dc h g.sheet g.r2 g.c2 inA with
    | some (x1, y1), some (x2, y2) =>
      let (x1, x2) := if g.fullRow then (1, LAST_ROW) else (x1, x2)
      let (y1, y2) := if g.fullCol then (1, LAST_COLUMN) else (y1, y2)
      .range (mkRange h g.sheet g.named g.r1.abs x1 g.c1.abs y1 g.r2.abs x2 g.c2.abs y2)
    | some (x1, y1), none => .broken (some (mkRef h g.sheet g.named g.r1.abs x1 g.c1.abs y1)) none
    | none, some (x2, y2) => .broken none (some (mkRef h h.sheet false g.r2.abs x2 g.c2.abs y2))
    | none, none => .broken none none
  | a => a

/-! ## one conditional format -/

structure CfE where
  parts : List CfPart
  /-- the formulas of the rule (`formula`, `formula2`): template text + reference atoms, hosted at the anchor -/
  formulas : List (String × List Atom)
deriving Repr, Inhabited

def CfE.host (s : Nat) (e : CfE) : Host :=
  match cfAnchor e.parts with
  | some (r, c) => ⟨s, r, c⟩
  | none => ⟨s, 1, 1⟩

-- models actions.rs::displace_cf_ranges for one entry: the range is displaced part by part (parts with no
-- surviving cell are dropped; `none` = no part is left and the entry is removed); the rule formulas are read at
-- the OLD anchor and written, displaced, as seen from the cell that becomes the new anchor (the old anchor
-- itself unless it is deleted); the stored text is then read at the new anchor
def cfStep (ax : Axis) (s : Nat) (o : Op) (e : CfE) : Option CfE :=
  let res := e.parts.filterMap (cfPartDisp ax o)
  match res with
  | [] => none
  | (_, (sr, sc)) :: _ =>
    let parts' := res.map (·.1)
    let e' : CfE := { parts := parts', formulas := [] }
    let h' := e'.host s
    let hs : Host := ⟨s, sr, sc⟩
    some { parts := parts',
           formulas := e.formulas.map fun (tpl, atoms) =>
             (tpl, atoms.map fun a => retypeAtom hs h' (rhoAtom ⟨ax, s, o⟩ hs a)) }

-- models cut_paste.rs::get_conditional_formatting_updates_for_cut for one entry
def cfCut (s : Nat) (a : Rect) (tr tc : Int) (e : CfE) : CfE :=
  let dr := tr - a.row
  let dc := tc - a.col
  if dr = 0 ∧ dc = 0 then e else
  let h := e.host s
  let parts' := e.parts.map (cfPartCut a dr dc)
  let e' : CfE := { parts := parts', formulas := [] }
  let h' := e'.host s
  { parts := parts',
    formulas := e.formulas.map fun (tpl, atoms) =>
      (tpl, atoms.map fun x => retypeAtom h h' (cutAtom a s dr dc h x)) }

-- models cut_paste.rs::cf_sqref_top_left: top-left cell of the bounding box of all areas (the cell the rule
-- formulas are read relative to when the rule is evaluated)
def cfTopLeft (parts : List CfPart) : Option (Int × Int) :=
  match parts with
  | [] => none
  | p :: ps =>
    some (ps.foldl (fun (acc : Int × Int) q => (min acc.1 (min q.r1 q.r2), min acc.2 (min q.c1 q.c2)))
      (min p.r1 p.r2, min p.c1 p.c2))

-- models cut_paste.rs::get_cf_rules_to_copy + cf_rule_copy_formulas for one entry: the overlapping parts are
-- mapped to the target; the rule formulas are read at the old top-left cell and written as seen from the new
-- one (relative references follow the copy, absolute ones stay; a reference that leaves the grid prints #REF!)
def cfCopy (s : Nat) (sr1 sc1 sr2 sc2 tr tc : Int) (e : CfE) : Option CfE :=
  let parts' := e.parts.filterMap (cfPartCopy sr1 sc1 sr2 sc2 tr tc)
  if parts'.isEmpty then none else
  let h := e.host s
  let e' : CfE := { parts := parts', formulas := [] }
  let h' := e'.host s
  match cfTopLeft e.parts, cfTopLeft parts' with
  | some (ar, ac), some (nr, nc) =>
    let a : Host := ⟨s, ar, ac⟩
    let n : Host := ⟨s, nr, nc⟩
    if a = n then
      some { parts := parts', formulas := e.formulas.map fun (tpl, atoms) => (tpl, atoms.map (retypeAtom h h')) }
    else
      some { parts := parts',
             formulas := e.formulas.map fun (tpl, atoms) =>
               -- offsets as parsed at `a`, printed (with the grid checks) at `n`, then read at the new anchor
               (tpl, atoms.map fun x => retypeAtom n h' (rhoAtom noDisp n (retypeAtom h a x))) }
  | _, _ => some { parts := parts', formulas := e.formulas.map fun (tpl, atoms) => (tpl, atoms.map (retypeAtom h h')) }

/-! ## links -/

/-- the link map of one sheet as a total function -/
abbrev LinkMap (L : Type) := Int → Int → Option L

-- models `range_clear_contents` / `set_user_input("")` on links: every link inside the area is removed
def clearLinks {L} (a : Rect) (m : LinkMap L) : LinkMap L :=
  fun r c => if a.has r c then none else m r c

-- models `range_link_diffs` + undo of the `SetCellLink` diffs it produces: the old value of every key of the
-- area that had a link is put back
def undoClearLinks {L} (a : Rect) (old cur : LinkMap L) : LinkMap L :=
  fun r c => if a.has r c then (match old r c with | some l => some l | none => cur r c) else cur r c

-- models the link part of clipboard.rs::paste_from_clipboard: the target area is cleared, every copied cell's link
-- (taken when the clipboard was filled) is put at its target, a cut removes the links of the source cells that
-- were not overwritten by the paste
def pasteLinks {L} (src : Rect) (tr tc : Int) (isCut : Bool) (m : LinkMap L) : LinkMap L :=
  let dr := tr - src.row
  let dc := tc - src.col
  let tgt : Rect := ⟨tr, tc, src.height, src.width⟩
  fun r c =>
    if tgt.has r c then m (r - dr) (c - dc)
    else if isCut && src.has r c then none
    else m r c

/-- the list form used by the driver -/
def pasteLinksList (src : Rect) (tr tc : Int) (isCut : Bool) (links : List ((Int × Int) × String)) :
    List ((Int × Int) × String) :=
  let dr := tr - src.row
  let dc := tc - src.col
  let tgt : Rect := ⟨tr, tc, src.height, src.width⟩
  let kept := links.filter fun ((r, c), _) => !(tgt.has r c) && !(isCut && src.has r c)
  let pasted := (links.filter fun ((r, c), _) => src.has r c).map fun ((r, c), l) => ((r + dr, c + dc), l)
  kept ++ pasted

end IronCalc.Structure
