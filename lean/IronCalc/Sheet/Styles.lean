/-
  Style pools of a workbook (`Workbook.styles : Styles`) and style interning.

  Models base/src/styles.rs (get_font_index, get_fill_index, get_border_index,
  get_num_fmt_index, get_or_create_component_ids, create_new_style, get_style_index,
  get_style_index_or_create, get_style) and base/src/number_format.rs (get_default_num_fmt_id,
  get_num_fmt, get_new_num_fmt_index).

  Fonts, fills, borders and alignments are opaque values with decidable equality (the code only
  clones and compares them); number formats are strings.  The built-in number-format table is a
  parameter `T` (the driver and the obligations instantiate it with the table extracted from the
  running code, Generated/NumFmts.lean).

  Rust indexing `v[i as usize]` panics when out of range (a negative `i32` becomes a huge
  `usize`): modelled as `Fault.panic`.  `Err("Invalid index provided")` is `Fault.invalidIndex`.

  `shadowFix` selects the repaired (`true`) or pinned (`false`) form of get_num_fmt_index
  (finding F30a: a built-in id is returned for a code even when the workbook redefines that id).
-/
namespace IronCalc.Sheet.Styles

inductive Fault
  | invalidIndex
  | panic
deriving DecidableEq, Repr

instance exceptDecEq {ε α : Type} [DecidableEq ε] [DecidableEq α] : DecidableEq (Except ε α)
  | .ok a, .ok b => if h : a = b then isTrue (by rw [h]) else isFalse (by intro e; cases e; exact h rfl)
  | .error a, .error b => if h : a = b then isTrue (by rw [h]) else isFalse (by intro e; cases e; exact h rfl)
  | .ok _, .error _ => isFalse (by intro e; cases e)
  | .error _, .ok _ => isFalse (by intro e; cases e)

/-- models base/src/types.rs::Style -/
structure Style (F L B A : Type) where
  alignment : Option A
  numFmt : String
  fill : L
  font : F
  border : B
  quotePrefix : Bool
deriving DecidableEq, Repr

/-- models base/src/types.rs::NumFmt -/
structure NumFmt where
  numFmtId : Int
  formatCode : String
deriving DecidableEq, Repr

/-- models base/src/types.rs::CellXfs (the `apply_*` flags are written `false` by
    create_new_style and read by nothing modelled here; they are left out) -/
structure CellXf (A : Type) where
  xfId : Int
  numFmtId : Int
  fontId : Int
  fillId : Int
  borderId : Int
  quotePrefix : Bool
  alignment : Option A
deriving DecidableEq, Repr

/-- models base/src/types.rs::Styles (the pools interning touches) -/
structure Pool (F L B A : Type) where
  fonts : List F
  fills : List L
  borders : List B
  numFmts : List NumFmt
  cellXfs : List (CellXf A)
deriving DecidableEq, Repr

/-- `v[i as usize]` for an `i32` index: panics when negative or past the end -/
def idx {α : Type} (l : List α) (i : Int) : Option α :=
  if i < 0 then none else l[i.toNat]?

/-- `for (index, item) in v.iter().enumerate() { if item == x { return Some(index) } } None` -/
def firstIndex {α : Type} [DecidableEq α] (x : α) : List α → Option Nat
  | [] => none
  | y :: rest => if y = x then some 0 else (firstIndex x rest).map (· + 1)

/-- models number_format.rs::get_default_num_fmt_id -/
def getDefaultNumFmtId (T : List String) (code : String) : Option Int :=
  (firstIndex code T).map Int.ofNat

/-- `for num_fmt in num_fmts { if num_fmt.num_fmt_id == id { return … } }` -/
def findNumFmt (id : Int) : List NumFmt → Option NumFmt
  | [] => none
  | nf :: rest => if nf.numFmtId = id then some nf else findNumFmt id rest

/-- models number_format.rs::get_num_fmt: workbook-defined id first, then the built-in table,
    else "general" (`DEFAULT_NUM_FMTS[0]`); a negative undefined id indexes out of bounds -/
def getNumFmt (T : List String) (id : Int) (nfs : List NumFmt) : Except Fault String :=
  match findNumFmt id nfs with
  | some nf => .ok nf.formatCode
  | none =>
    if id < (T.length : Int) then
      match idx T id with
      | some c => .ok c
      | none => .error .panic
    else
      match T[0]? with
      | some c => .ok c
      | none => .error .panic

/-- the `while found { … }` loop of get_new_num_fmt_index with explicit fuel -/
def newIdxLoop (nfs : List NumFmt) : Nat → Int → Int
  | 0, i => i
  | fuel + 1, i => if nfs.any (fun nf => nf.numFmtId == i) then newIdxLoop nfs fuel (i + 1) else i

/-- models number_format.rs::get_new_num_fmt_index: the smallest id ≥ table length not in use
    (fuel `len + 1` suffices: `newIdx_fresh`) -/
def getNewNumFmtIndex (T : List String) (nfs : List NumFmt) : Int :=
  newIdxLoop nfs (nfs.length + 1) (T.length : Int)

/-- `for item in self.num_fmts.iter() { if item.format_code == code { return Some(item.num_fmt_id) } }` -/
def findNumFmtByCode (code : String) : List NumFmt → Option Int
  | [] => none
  | nf :: rest => if nf.formatCode = code then some nf.numFmtId else findNumFmtByCode code rest

section
variable {F L B A : Type} [DecidableEq F] [DecidableEq L] [DecidableEq B] [DecidableEq A]

/-- models styles.rs::get_num_fmt_index.
    pinned: the built-in id of the code, whatever the workbook defines under that id;
    repaired (`shadowFix`): only when that id still resolves to the code -/
def getNumFmtIndex (T : List String) (shadowFix : Bool) (nfs : List NumFmt) (code : String) : Option Int :=
  match getDefaultNumFmtId T code with
  | some i =>
    if shadowFix then
      match getNumFmt T i nfs with
      | .ok c => if c = code then some i else findNumFmtByCode code nfs
      | .error _ => findNumFmtByCode code nfs  -- unreachable: `i` is an index of the table
    else some i
  | none => findNumFmtByCode code nfs

/-- `if let Some(index) = find(x) { index } else { v.push(x); v.len() - 1 }` -/
def internIn {α : Type} [DecidableEq α] (x : α) (l : List α) : List α × Int :=
  match firstIndex x l with
  | some i => (l, i)
  | none => (l ++ [x], l.length)

/-- models styles.rs::get_or_create_component_ids: (pool', num_fmt_id, font_id, fill_id, border_id) -/
def getOrCreateComponentIds (T : List String) (shadowFix : Bool) (p : Pool F L B A) (s : Style F L B A) :
    Pool F L B A × Int × Int × Int × Int :=
  let fo := internIn s.font p.fonts
  let fi := internIn s.fill p.fills
  let bo := internIn s.border p.borders
  match getNumFmtIndex T shadowFix p.numFmts s.numFmt with
  | some i => ({ p with fonts := fo.1, fills := fi.1, borders := bo.1 }, i, fo.2, fi.2, bo.2)
  | none =>
    let i := getNewNumFmtIndex T p.numFmts
    ({ p with fonts := fo.1, fills := fi.1, borders := bo.1, numFmts := p.numFmts ++ [⟨i, s.numFmt⟩] },
     i, fo.2, fi.2, bo.2)

/-- models styles.rs::create_new_style -/
def createNewStyle (T : List String) (shadowFix : Bool) (p : Pool F L B A) (s : Style F L B A) :
    Pool F L B A × Int :=
  let r := getOrCreateComponentIds T shadowFix p s
  ({ r.1 with cellXfs := r.1.cellXfs ++ [⟨0, r.2.1, r.2.2.1, r.2.2.2.1, r.2.2.2.2, s.quotePrefix, s.alignment⟩] },
   r.1.cellXfs.length)

/-- the `Style { … }` expression shared by get_style and get_style_index: decode one xf -/
def decodeXf (T : List String) (p : Pool F L B A) (xf : CellXf A) : Except Fault (Style F L B A) :=
  match getNumFmt T xf.numFmtId p.numFmts, idx p.fills xf.fillId, idx p.fonts xf.fontId, idx p.borders xf.borderId with
  | .ok nf, some fill, some font, some border => .ok ⟨xf.alignment, nf, fill, font, border, xf.quotePrefix⟩
  | _, _, _, _ => .error .panic

/-- models styles.rs::get_style -/
def getStyle (T : List String) (p : Pool F L B A) (index : Int) : Except Fault (Style F L B A) :=
  match idx p.cellXfs index with
  | none => .error .invalidIndex
  | some xf => decodeXf T p xf

/-- the loop of styles.rs::get_style_index over the xfs from position `n` on -/
def scanXfs (T : List String) (p : Pool F L B A) (s : Style F L B A) : List (CellXf A) → Nat → Except Fault (Option Int)
  | [], _ => .ok none
  | xf :: rest, n =>
    if xf.xfId ≠ 0 then scanXfs T p s rest (n + 1)
    else
      match decodeXf T p xf with
      | .error e => .error e
      | .ok s' => if s = s' then .ok (some (n : Int)) else scanXfs T p s rest (n + 1)

/-- models styles.rs::get_style_index (only anonymous xfs, `xf_id == 0`, qualify) -/
def getStyleIndex (T : List String) (p : Pool F L B A) (s : Style F L B A) : Except Fault (Option Int) :=
  scanXfs T p s p.cellXfs 0

/-- models styles.rs::get_style_index_or_create — the interning every style assignment of the
    public API goes through (Model::set_cell_style, set_row_style, set_column_style) -/
def intern (T : List String) (shadowFix : Bool) (p : Pool F L B A) (s : Style F L B A) :
    Except Fault (Pool F L B A × Int) :=
  match getStyleIndex T p s with
  | .error e => .error e
  | .ok (some i) => .ok (p, i)
  | .ok none => .ok (createNewStyle T shadowFix p s)

/-- the pools the theorems are about.  `comp`: component indices in range; `fmt`: every xf's
    number-format id is defined by the workbook or is a built-in id (no dangling custom id that a
    later new format could take over; no negative id); `consistent`: two workbook definitions of
    one id agree; `noShadow` (pinned get_num_fmt_index only): a workbook definition of a built-in
    id repeats the built-in code -/
structure PoolInv (T : List String) (shadowFix : Bool) (p : Pool F L B A) : Prop where
  comp : ∀ xf ∈ p.cellXfs,
    (idx p.fonts xf.fontId).isSome ∧ (idx p.fills xf.fillId).isSome ∧ (idx p.borders xf.borderId).isSome
  fmt : ∀ xf ∈ p.cellXfs,
    (findNumFmt xf.numFmtId p.numFmts).isSome ∨ (0 ≤ xf.numFmtId ∧ xf.numFmtId < (T.length : Int))
  consistent : ∀ nf ∈ p.numFmts,
    (findNumFmt nf.numFmtId p.numFmts).map (·.formatCode) = some nf.formatCode
  noShadow : shadowFix = false → ∀ nf ∈ p.numFmts, nf.numFmtId < (T.length : Int) →
    idx T nf.numFmtId = some nf.formatCode

end

end IronCalc.Sheet.Styles
