import IronCalc.Sheet.Structure
/-
  Helper lemmas for C12–C15 / C33 (coordinate level).  The property theorems are in Props/C12 … C15.
-/
namespace IronCalc.Structure

/-! ### the separately coded maps agree with σ -/

theorem rhoCoord_eq_sigma (o : Op) (hv : o.valid) (x : Int) : rhoCoord o x = sigma o x := by
  cases o with
  | insert r k =>
    simp only [Op.valid] at hv
    simp only [rhoCoord, sigma, shiftDisp, sigmaInsert]
    have : ¬ k < 0 := by omega
    simp only [this, if_false]
  | delete r k =>
    simp only [Op.valid] at hv
    simp only [rhoCoord, sigma, shiftDisp, sigmaDelete]
    have : -k < 0 := by omega
    simp only [this, if_true]
    by_cases h1 : x ≥ r
    · simp only [h1, if_true]
      by_cases h2 : x ≥ r + k
      · have : ¬ x < r - -k := by omega
        simp only [this, h2, if_true, if_false]
        congr 1
      · have : x < r - -k := by omega
        simp only [this, h2, if_true, if_false]
    · simp only [h1, if_false]
  | move1 r d =>
    simp only [rhoCoord, sigma, shiftMove, sigmaMove1]
    by_cases h1 : x = r
    · subst h1; simp
    · simp only [h1, if_false]
      by_cases hd : d > 0
      · simp only [hd, if_true]
        by_cases h2 : x > r ∧ x ≤ r + d
        · have : r + 1 ≤ x ∧ x ≤ r + d := by omega
          simp only [h2, this, and_self, if_true]
        · have : ¬ (r + 1 ≤ x ∧ x ≤ r + d) := by omega
          simp only [h2, this, if_false]
      · simp only [hd, if_false]
        by_cases hd2 : d < 0
        · simp only [hd2, if_true]
          by_cases h2 : x < r ∧ x ≥ r + d
          · have : r + d ≤ x ∧ x ≤ r - 1 := by omega
            simp only [h2, this, and_self, if_true]
          · have : ¬ (r + d ≤ x ∧ x ≤ r - 1) := by omega
            simp only [h2, this, if_false]
        · have : ¬ (r + d ≤ x ∧ x ≤ r - 1) := by omega
          simp only [hd2, this, if_false]

theorem linkCoord_eq_sigma (o : Op) (hv : o.valid) (x : Int) : linkCoord o x = sigma o x := by
  cases o with
  | insert r k => simp only [linkCoord, sigma, sigmaInsert]
  | delete r k =>
    simp only [Op.valid] at hv
    simp only [linkCoord, sigma, sigmaDelete]
    by_cases h1 : x < r
    · have : ¬ x ≥ r := by omega
      simp only [h1, this, if_true, if_false]
    · have h1' : x ≥ r := by omega
      simp only [h1, h1', if_true, if_false]
      by_cases h2 : x < r + k
      · have : ¬ x ≥ r + k := by omega
        simp only [h2, this, if_true, if_false]
      · have : x ≥ r + k := by omega
        simp only [h2, this, if_true, if_false]
  | move1 r d =>
    simp only [linkCoord, sigma, sigmaMove1]
    by_cases h1 : x = r
    · simp only [h1, if_true]
    · simp only [h1, if_false]
      by_cases hd : d > 0
      · have hd' : ¬ d < 0 := by omega
        simp only [hd, hd', true_and, false_and, if_true, if_false]
        by_cases h2 : x > r ∧ x ≤ r + d
        · have : r + 1 ≤ x ∧ x ≤ r + d := by omega
          simp only [h2, this, and_self, if_true]
        · have : ¬ (r + 1 ≤ x ∧ x ≤ r + d) := by omega
          simp only [h2, this, if_false]
      · simp only [hd, false_and, if_false]
        by_cases h2 : d < 0 ∧ x ≥ r + d ∧ x < r
        · have : r + d ≤ x ∧ x ≤ r - 1 := by omega
          simp only [h2, this, and_self, if_true]
        · have : ¬ (r + d ≤ x ∧ x ≤ r - 1) := by omega
          simp only [h2, this, if_false]

theorem rowDescCoord_eq_sigma (o : Op) (hv : o.valid) (x : Int) : rowDescCoord o x = sigma o x := by
  cases o with
  | insert r k =>
    simp only [rowDescCoord, sigma, sigmaInsert]
    by_cases h1 : x < r
    · have : ¬ x ≥ r := by omega
      simp only [h1, this, if_true, if_false]
    · have : x ≥ r := by omega
      simp only [h1, this, if_true, if_false]
  | delete r k =>
    simp only [Op.valid] at hv
    simp only [rowDescCoord, sigma, sigmaDelete]
    by_cases h1 : x < r
    · have : ¬ x ≥ r := by omega
      simp only [h1, this, if_true, if_false]
    · have h1' : x ≥ r := by omega
      simp only [h1, h1', if_true, if_false]
  | move1 r d =>
    simp only [rowDescCoord, sigma, sigmaMove1]
    by_cases h1 : x = r
    · simp only [h1, if_true]
    · simp only [h1, if_false]
      by_cases hd : d > 0
      · have hd' : ¬ d < 0 := by omega
        simp only [hd, hd', true_and, false_and, if_true, if_false]
        by_cases h2 : x > r ∧ x ≤ r + d
        · have : r + 1 ≤ x ∧ x ≤ r + d := by omega
          simp only [h2, this, and_self, if_true]
        · have : ¬ (r + 1 ≤ x ∧ x ≤ r + d) := by omega
          simp only [h2, this, if_false]
      · simp only [hd, false_and, if_false]
        by_cases h2 : d < 0 ∧ x < r ∧ x ≥ r + d
        · have : r + d ≤ x ∧ x ≤ r - 1 := by omega
          simp only [h2, this, and_self, if_true]
        · have : ¬ (r + d ≤ x ∧ x ≤ r - 1) := by omega
          simp only [h2, this, if_false]

theorem cfCoord_eq_rhoCoord (o : Op) (hv : o.valid) (x : Int) : cfCoord o x = rhoCoord o x := by
  cases o with
  | insert r k =>
    simp only [Op.valid] at hv
    have : ¬ k < 0 := by omega
    simp only [cfCoord, rhoCoord, cfDisp, shiftDisp, this, false_and, if_false]
  | delete r k =>
    simp only [Op.valid] at hv
    have : -k < 0 := by omega
    simp only [cfCoord, rhoCoord, cfDisp, shiftDisp, this, true_and, if_true]
  | move1 r d =>
    simp only [cfCoord, rhoCoord, shiftMove]
    by_cases h1 : x = r
    · simp only [h1, if_true]
    · simp only [h1, if_false]
      by_cases hd : d > 0
      · have hd' : ¬ d < 0 := by omega
        simp only [hd, hd', true_and, false_and, if_true, if_false]
      · simp only [hd, false_and, if_false]
        by_cases hd2 : d < 0
        · simp only [hd2, true_and, if_true]
        · simp only [hd2, false_and, if_false]

/-! ### σ facts used everywhere -/

theorem sigma_insert_some (r k x : Int) : sigma (.insert r k) x = some (if x ≥ r then x + k else x) := by
  simp only [sigma, sigmaInsert]; split <;> rfl

theorem sigma_move1_some (r d x : Int) : ∃ y, sigma (.move1 r d) x = some y := by
  simp only [sigma, sigmaMove1]
  split
  · exact ⟨_, rfl⟩
  · split
    · split <;> exact ⟨_, rfl⟩
    · split <;> exact ⟨_, rfl⟩

/-- the closed form of one step of a move, as a total function -/
def move1Fn (r d x : Int) : Int :=
  if x = r then r + d
  else if d > 0 ∧ r < x ∧ x ≤ r + d then x - 1
  else if d < 0 ∧ r + d ≤ x ∧ x < r then x + 1
  else x

theorem sigma_move1_eq (r d x : Int) : sigma (.move1 r d) x = some (move1Fn r d x) := by
  simp only [sigma, sigmaMove1, move1Fn]
  by_cases h1 : x = r
  · simp only [h1, if_true]
  · simp only [h1, if_false]
    by_cases hd : d > 0
    · have hd' : ¬ d < 0 := by omega
      simp only [hd, hd', true_and, false_and, if_true, if_false]
      by_cases h2 : r + 1 ≤ x ∧ x ≤ r + d
      · have : r < x ∧ x ≤ r + d := by omega
        simp only [h2, this, and_self, if_true]
      · have : ¬ (r < x ∧ x ≤ r + d) := by omega
        simp only [h2, this, if_false]
    · simp only [hd, false_and, if_false]
      by_cases h2 : r + d ≤ x ∧ x ≤ r - 1
      · have : d < 0 ∧ r + d ≤ x ∧ x < r := by omega
        simp only [h2, this, and_self, if_true]
      · have : ¬ (d < 0 ∧ r + d ≤ x ∧ x < r) := by omega
        simp only [h2, this, if_false]

/-! ### block move = fold of single moves -/

theorem sigmaBlock_zero (r d x : Int) : sigmaBlock r 0 d x = x := by
  unfold sigmaBlock
  have h1 : ¬ (r ≤ x ∧ x < r + ((0 : Nat) : Int)) := by omega
  have h2 : ¬ (d > 0 ∧ r + ((0 : Nat) : Int) ≤ x ∧ x < r + ((0 : Nat) : Int) + d) ∨ x - ((0 : Nat) : Int) = x := by omega
  have h3 : ¬ (d < 0 ∧ r + d ≤ x ∧ x < r) ∨ x + ((0 : Nat) : Int) = x := by omega
  simp only [h1, if_false]
  split
  · omega
  · split
    · omega
    · rfl

theorem sigmaBlock_pos_step (r d x : Int) (n : Nat) (hd : d > 0) :
    sigmaBlock r (n + 1) d x = sigmaBlock r n d (move1Fn (r + n) d x) := by
  unfold sigmaBlock move1Fn
  grind

theorem sigmaBlock_neg_step (r d x : Int) (n : Nat) (hd : ¬ d > 0) :
    sigmaBlock r (n + 1) d x = sigmaBlock (r + 1) n d (move1Fn r d x) := by
  unfold sigmaBlock move1Fn
  grind

theorem sigmaList_blockOpsPos (r d : Int) (hd : d > 0) (n : Nat) (x : Int) :
    sigmaList (blockOpsPos r d n) x = some (sigmaBlock r n d x) := by
  induction n generalizing x with
  | zero => simp only [blockOpsPos, sigmaList, sigmaBlock_zero]
  | succ n ih =>
    simp only [blockOpsPos, sigmaList, sigma_move1_eq, Option.bind_some, ih]
    rw [sigmaBlock_pos_step r d x n hd]

theorem sigmaList_blockOpsNeg (d : Int) (hd : ¬ d > 0) (n : Nat) (r x : Int) :
    sigmaList (blockOpsNeg r d n) x = some (sigmaBlock r n d x) := by
  induction n generalizing r x with
  | zero => simp only [blockOpsNeg, sigmaList, sigmaBlock_zero]
  | succ n ih =>
    simp only [blockOpsNeg, sigmaList, sigma_move1_eq, Option.bind_some, ih]
    rw [sigmaBlock_neg_step r d x n hd]

theorem rhoList_eq_sigmaList (os : List Op) (hv : ∀ o ∈ os, o.valid) (x : Int) :
    rhoList os x = sigmaList os x := by
  induction os generalizing x with
  | nil => rfl
  | cons o os ih =>
    simp only [rhoList, sigmaList]
    rw [rhoCoord_eq_sigma o (hv o (List.mem_cons_self ..))]
    cases sigma o x with
    | none => rfl
    | some y => simp only [Option.bind_some]; exact ih (fun o' ho' => hv o' (List.mem_cons_of_mem _ ho')) y

theorem blockOps_valid (r : Int) (n : Nat) (d : Int) : ∀ o ∈ blockOps r n d, o.valid := by
  have hp : ∀ n, ∀ o ∈ blockOpsPos r d n, o.valid := by
    intro n; induction n with
    | zero => intro o ho; simp [blockOpsPos] at ho
    | succ n ih =>
      intro o ho
      simp only [blockOpsPos, List.mem_cons] at ho
      rcases ho with rfl | ho
      · trivial
      · exact ih o ho
  have hn : ∀ n r, ∀ o ∈ blockOpsNeg r d n, o.valid := by
    intro n; induction n with
    | zero => intro r o ho; simp [blockOpsNeg] at ho
    | succ n ih =>
      intro r o ho
      simp only [blockOpsNeg, List.mem_cons] at ho
      rcases ho with rfl | ho
      · trivial
      · exact ih _ o ho
  unfold blockOps
  split
  · exact hp n
  · exact hn n r

/-! ### the 2-D reference rewrite in terms of the coordinate rewrite -/

theorem inGrid_iff (a : Axis) (x : Int) : inGrid a x = true ↔ (1 ≤ x ∧ x ≤ a.last) := by
  simp [inGrid]

theorem inGrid_false_iff (a : Axis) (x : Int) : inGrid a x = false ↔ ¬ (1 ≤ x ∧ x ≤ a.last) := by
  simp [inGrid]

theorem rhoRef_row (s : Nat) (o : Op) (h : Host) (q : Ref) (hs : q.sheet = s) :
    rhoRef ⟨.row, s, o⟩ h q = (rhoCoord o (q.row.resolve h.row)).bind fun r =>
      if inGrid .row r && inGrid .col (q.col.resolve h.col) then some (r, q.col.resolve h.col) else none := by
  simp only [rhoRef, rhoPoint, hs, Bool.and_false, and_self, if_true]
  cases rhoCoord o (q.row.resolve h.row) <;> rfl

theorem rhoRef_col (s : Nat) (o : Op) (h : Host) (q : Ref) (hs : q.sheet = s) :
    rhoRef ⟨.col, s, o⟩ h q = (rhoCoord o (q.col.resolve h.col)).bind fun c =>
      if inGrid .row (q.row.resolve h.row) && inGrid .col c then some (q.row.resolve h.row, c) else none := by
  simp only [rhoRef, rhoPoint, hs, Bool.and_false, and_self, if_true]
  cases rhoCoord o (q.col.resolve h.col) <;> rfl

theorem rhoRef_row_of_sigma (s : Nat) (o : Op) (hv : o.valid) (h : Host) (q : Ref) (hs : q.sheet = s)
    (hy : inGrid .col (q.col.resolve h.col) = true) :
    rhoRef ⟨.row, s, o⟩ h q =
      match sigma o (q.row.resolve h.row) with
      | some x' => if inGrid .row x' then some (x', q.col.resolve h.col) else none
      | none => none := by
  rw [rhoRef_row s o h q hs, rhoCoord_eq_sigma o hv]
  cases sigma o (q.row.resolve h.row) with
  | none => rfl
  | some x' => simp [hy]

theorem rhoRef_col_of_sigma (s : Nat) (o : Op) (hv : o.valid) (h : Host) (q : Ref) (hs : q.sheet = s)
    (hx : inGrid .row (q.row.resolve h.row) = true) :
    rhoRef ⟨.col, s, o⟩ h q =
      match sigma o (q.col.resolve h.col) with
      | some y' => if inGrid .col y' then some (q.row.resolve h.row, y') else none
      | none => none := by
  rw [rhoRef_col s o h q hs, rhoCoord_eq_sigma o hv]
  cases sigma o (q.col.resolve h.col) with
  | none => rfl
  | some y' => simp [hx]

end IronCalc.Structure
