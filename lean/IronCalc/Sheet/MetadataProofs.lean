import IronCalc.Sheet.Metadata
import IronCalc.Sheet.StructureProofs
/-
  Helper lemmas for C33: what `cfEdges` (actions.rs::displace_cf_edges) does along the edited axis.
-/
namespace IronCalc.Structure

theorem cfCoord_delete (r k x : Int) (hk : 0 < k) :
    cfCoord (.delete r k) x = if x < r then some x else if x < r + k then none else some (x - k) := by
  simp only [cfCoord, cfDisp]
  grind

theorem cfCoord_insert (r k x : Int) (hk : 0 < k) :
    cfCoord (.insert r k) x = if x < r then some x else some (x + k) := by
  simp only [cfCoord, cfDisp]
  grind

theorem cfEdges_delete (r k a b : Int) (hk : 0 < k) (hab : a ≤ b) :
    match cfEdges (.delete r k) a b with
    | some (x, y, src) => x ≤ y ∧ a ≤ src ∧ src ≤ b ∧ sigma (.delete r k) src = some x ∧
        (∀ u u', a ≤ u → u ≤ b → sigma (.delete r k) u = some u' → x ≤ u' ∧ u' ≤ y) ∧
        (∀ v, x ≤ v → v ≤ y →
          a ≤ (if v < r then v else v + k) ∧ (if v < r then v else v + k) ≤ b ∧
          sigma (.delete r k) (if v < r then v else v + k) = some v)
    | none => ∀ u, a ≤ u → u ≤ b → sigma (.delete r k) u = none := by
  have hmin : min a b = a := by omega
  have hmax : max a b = b := by omega
  simp only [cfEdges, deletedBand, hmin, hmax, cfCoord_delete _ _ _ hk, sigma, sigmaDelete]
  by_cases a1 : a < r <;> by_cases a2 : a < r + k <;> by_cases b1 : b < r <;> by_cases b2 : b < r + k <;>
    simp only [a1, a2, b1, b2, if_true, if_false] <;> try omega
  all_goals grind

theorem cfEdges_insert (r k a b : Int) (hk : 0 < k) (hab : a ≤ b) :
    match cfEdges (.insert r k) a b with
    | some (x, y, src) => x ≤ y ∧ src = a ∧ sigma (.insert r k) src = some x ∧
        (∀ u u', a ≤ u → u ≤ b → sigma (.insert r k) u = some u' → x ≤ u' ∧ u' ≤ y) ∧
        (∀ v, x ≤ v → v ≤ y → (r ≤ v ∧ v < r + k) ∨
          (a ≤ (if v < r then v else v - k) ∧ (if v < r then v else v - k) ≤ b ∧
           sigma (.insert r k) (if v < r then v else v - k) = some v))
    | none => False := by
  simp only [cfEdges, cfCoord_insert _ _ _ hk, sigma, sigmaInsert]
  by_cases a1 : a < r <;> by_cases b1 : b < r <;> simp only [a1, b1, if_true, if_false] <;> grind
end IronCalc.Structure
