import IronCalc.Sheet.Cols
/-
  Helper lemmas for C29 (columns): what `setCore` / `delCore` do to the denotation `colAttr`,
  and preservation of `SortedIn`.
-/
namespace IronCalc.Sheet

variable {W : Type}

theorem colAttr_nil (ops : WidthOps W) (x : Int) : colAttr ops ([] : List (Col W)) x = noDesc ops := rfl

theorem colAttr_cons (ops : WidthOps W) (d : Col W) (rest : List (Col W)) (x : Int) :
    colAttr ops (d :: rest) x = if d.min ≤ x ∧ x ≤ d.max then descAttr ops d else colAttr ops rest x := by
  unfold colAttr
  simp only [findCol]
  by_cases h : d.min ≤ x ∧ x ≤ d.max <;> simp [h]

theorem colAttr_optcons (ops : WidthOps W) (c : Prop) [Decidable c] (p : Col W) (l : List (Col W)) (x : Int) :
    colAttr ops ((if c then [p] else []) ++ l) x =
      if c ∧ p.min ≤ x ∧ x ≤ p.max then descAttr ops p else colAttr ops l x := by
  by_cases hc : c
  · simp only [hc, if_true, List.cons_append, List.nil_append, colAttr_cons, true_and]
  · simp only [hc, if_false, List.nil_append, false_and]

/-- the central lemma: after the body of set_column_width_and_style (repaired split branch),
    column `column` has exactly the new descriptor's attributes and every other column keeps its
    own — for ANY descriptor list (sorted or not: getters and setters use the same first-match rule) -/
theorem colAttr_setCore (ops : WidthOps W) (q : Quirks) (hq : q.splitKeepsOldStyle = false)
    (column : Int) (nw : W) (ncw hidden : Bool) (style : Option Int)
    (cols : List (Col W)) (x : Int) :
    colAttr ops (setCore q column nw ncw hidden style cols) x =
      if x = column then ⟨if ncw then ops.load nw else ops.dflt, hidden, style⟩ else colAttr ops cols x := by
  induction cols with
  | nil =>
    simp only [setCore, colAttr_cons, colAttr_nil, descAttr]
    grind
  | cons d rest ih =>
    simp only [setCore, hq]
    by_cases hin : d.min ≤ column ∧ column ≤ d.max
    · simp only [hin, and_self, if_true]
      by_cases hex : d.min = column ∧ d.max = column
      · simp only [hex, and_self, if_true, colAttr_cons, descAttr]
        grind
      · simp only [hex, if_false]
        simp only [colAttr_optcons, colAttr_cons, descAttr]
        grind
    · simp only [hin, if_false]
      by_cases hlt : column < d.min
      · simp only [hlt, if_true, colAttr_cons, descAttr]
        grind
      · simp only [hlt, if_false, colAttr_cons, ih]
        grind

theorem SortedIn.mono {lo lo' hi : Int} {cols : List (Col W)} (h : SortedIn lo hi cols) (hl : lo' ≤ lo) :
    SortedIn lo' hi cols := by
  cases cols with
  | nil => trivial
  | cons d rest => simp only [SortedIn] at h ⊢; exact ⟨by omega, h.2.1, h.2.2.1, h.2.2.2⟩

/-- in a sorted list, nothing at or below the lower bound is described -/
theorem colAttr_below (ops : WidthOps W) {lo hi : Int} {cols : List (Col W)} (h : SortedIn lo hi cols)
    (x : Int) (hx : x ≤ lo) : colAttr ops cols x = noDesc ops := by
  induction cols generalizing lo with
  | nil => rfl
  | cons d rest ih =>
    simp only [SortedIn] at h
    rw [colAttr_cons, ih h.2.2.2 (by omega)]
    have : ¬ (d.min ≤ x ∧ x ≤ d.max) := by omega
    simp [this]

/-- the body of the repaired delete_column_style clears the style of `column` and nothing else
    (sorted, disjoint lists: a default-width visible column loses its descriptor, so a later
    overlapping descriptor would show through) -/
theorem colAttr_delCore (ops : WidthOps W) (q : Quirks) (hq : q.deleteStyleUnhides = false)
    (column : Int) {lo hi : Int} (cols : List (Col W)) (hs : SortedIn lo hi cols) (x : Int) :
    colAttr ops (delCore q column cols) x =
      if x = column then { colAttr ops cols column with style := none } else colAttr ops cols x := by
  induction cols generalizing lo with
  | nil => simp [delCore, colAttr_nil, noDesc]
  | cons d rest ih =>
    simp only [SortedIn] at hs
    simp only [delCore, hq, Bool.false_eq_true, if_false]
    by_cases hin : d.min ≤ column ∧ column ≤ d.max
    · simp only [hin, and_self, if_true, colAttr_optcons, colAttr_cons, descAttr]
      have hb := colAttr_below ops hs.2.2.2 column (by omega)
      by_cases hx : x = column
      · subst hx
        rw [hb]
        simp only [noDesc]
        cases hcw : d.customWidth <;> cases hh : d.hidden <;> grind
      · grind
    · simp only [hin, if_false]
      by_cases hlt : column < d.min
      · simp only [hlt, if_true, colAttr_cons]
        have hb := colAttr_below ops hs.2.2.2 column (by omega)
        grind [noDesc]
      · simp only [hlt, if_false, colAttr_cons, ih hs.2.2.2]
        grind

/-- closes a conjunction of linear facts ending in the sortedness of the untouched suffix -/
macro "sorted_close " h:ident : tactic =>
  `(tactic| (repeat' apply And.intro) <;> first | omega | exact $h | exact SortedIn.mono $h (by omega) | trivial)

/-- set_column_width_and_style keeps a sorted, disjoint, in-range layout sorted, disjoint, in range -/
theorem sortedIn_setCore (q : Quirks) (column : Int) (nw : W) (ncw hidden : Bool) (style : Option Int)
    {lo hi : Int} (cols : List (Col W)) (hs : SortedIn lo hi cols) (h1 : lo < column) (h2 : column ≤ hi) :
    SortedIn lo hi (setCore q column nw ncw hidden style cols) := by
  induction cols generalizing lo with
  | nil => simp only [setCore, SortedIn]; exact ⟨h1, Int.le_refl _, h2, trivial⟩
  | cons d rest ih =>
    simp only [SortedIn] at hs
    have hrest := hs.2.2.2
    simp only [setCore]
    by_cases hin : d.min ≤ column ∧ column ≤ d.max
    · simp only [hin, and_self, if_true]
      by_cases hex : d.min = column ∧ d.max = column
      · simp only [hex, and_self, if_true, SortedIn]
        rw [hex.2] at hrest
        sorted_close hrest
      · simp only [hex, if_false]
        by_cases hmin : column ≠ d.min <;> by_cases hmax : column ≠ d.max <;>
          (first | rw [if_pos hmin] | rw [if_neg hmin]) <;> (first | rw [if_pos hmax] | rw [if_neg hmax]) <;>
          simp only [List.nil_append, List.cons_append, SortedIn] <;>
          sorted_close hrest
    · simp only [hin, if_false]
      by_cases hlt : column < d.min
      · simp only [hlt, if_true, SortedIn]
        sorted_close hrest
      · simp only [hlt, if_false, SortedIn]
        have := ih hrest (by omega)
        sorted_close this

/-- delete_column_style keeps a sorted, disjoint, in-range layout sorted, disjoint, in range -/
theorem sortedIn_delCore (q : Quirks) (column : Int) {lo hi : Int} (cols : List (Col W))
    (hs : SortedIn lo hi cols) : SortedIn lo hi (delCore q column cols) := by
  induction cols generalizing lo with
  | nil => trivial
  | cons d rest ih =>
    simp only [SortedIn] at hs
    simp only [delCore]
    have hrest := hs.2.2.2
    by_cases hin : d.min ≤ column ∧ column ≤ d.max
    · simp only [hin, and_self, if_true]
      generalize (if q.deleteStyleUnhides = true then d.customWidth else d.customWidth || d.hidden) = keep
      generalize (if q.deleteStyleUnhides = true then false else d.hidden) = hid
      by_cases hmin : column ≠ d.min <;> by_cases hmax : column ≠ d.max <;> cases keep <;>
        (first | rw [if_pos hmin] | rw [if_neg hmin]) <;> (first | rw [if_pos hmax] | rw [if_neg hmax]) <;>
        simp only [if_true, if_false, Bool.false_eq_true, List.nil_append, List.cons_append, SortedIn] <;>
        sorted_close hrest
    · simp only [hin, if_false]
      by_cases hlt : column < d.min
      · simp only [hlt, if_true, SortedIn]; sorted_close hrest
      · simp only [hlt, if_false, SortedIn]
        have := ih hrest
        sorted_close this

/-! ### when the operations are accepted -/

theorem getters_attr (wo : WidthOps W) (cols : List (Col W)) (c : Int) (hv : validColumn c = true) :
    getActualColumnWidth wo cols c = .ok (colAttr wo cols c).width ∧
    isColumnHidden cols c = .ok (colAttr wo cols c).hidden ∧
    getColumnStyle cols c = .ok (colAttr wo cols c).style ∧
    getColumnWidth wo cols c =
      .ok (if (colAttr wo cols c).hidden then wo.zero else (colAttr wo cols c).width) := by
  unfold getActualColumnWidth isColumnHidden getColumnStyle getColumnWidth colAttr
  simp only [hv, Bool.not_true, Bool.false_eq_true, if_false]
  cases findCol cols c with
  | none => simp [noDesc]
  | some d => cases hh : d.hidden <;> cases hc : d.customWidth <;> simp [descAttr, hh, hc]

theorem setWS_toBool (wo : WidthOps W) (q : Quirks) (cols : List (Col W)) (c : Int) (w : W) (b : Bool) (s : Option Int) :
    (setColumnWidthAndStyle wo q cols c w b s).toBool = (validColumn c && !wo.isNeg w) := by
  unfold setColumnWidthAndStyle
  cases validColumn c <;> cases wo.isNeg w <;> simp [Except.toBool]

theorem setColumnWidth_toBool (wo : WidthOps W) (q : Quirks) (cols : List (Col W)) (c : Int) (w : W) :
    (setColumnWidth wo q cols c w).toBool = (validColumn c && !wo.isNeg w) := by
  unfold setColumnWidth
  cases hv : validColumn c
  · simp [getColumnStyle, hv, bind, Except.bind, Except.toBool]
  · obtain ⟨_, hh, hs, _⟩ := getters_attr wo cols c hv
    rw [hs, hh]
    simp only [bind, Except.bind, setWS_toBool, hv]

theorem setColumnHidden_toBool (wo : WidthOps W) (q : Quirks) (cols : List (Col W)) (c : Int) (b : Bool) :
    (setColumnHidden wo q cols c b).toBool = (validColumn c && !wo.isNeg (colAttr wo cols c).width) := by
  unfold setColumnHidden
  cases hv : validColumn c
  · simp [getColumnStyle, hv, bind, Except.bind, Except.toBool]
  · obtain ⟨ha, _, hs, _⟩ := getters_attr wo cols c hv
    rw [hs, ha]
    simp only [bind, Except.bind, unwrapOrDefault, setWS_toBool, hv]

theorem setColumnStyle_toBool (wo : WidthOps W) (q : Quirks) (hq : q.styleUsesVisibleWidth = false)
    (cols : List (Col W)) (c : Int) (k : Int) :
    (setColumnStyle wo q cols c k).toBool = (validColumn c && !wo.isNeg (colAttr wo cols c).width) := by
  unfold setColumnStyle
  cases hv : validColumn c
  · simp [isColumnHidden, hv, bind, Except.bind, Except.toBool]
  · obtain ⟨ha, hh, _, _⟩ := getters_attr wo cols c hv
    simp only [hq, Bool.false_eq_true, if_false]
    rw [hh, ha]
    simp only [bind, Except.bind, unwrapOrDefault, setWS_toBool, hv]

theorem deleteColumnStyle_toBool (q : Quirks) (cols : List (Col W)) (c : Int) :
    (deleteColumnStyle q cols c).toBool = validColumn c := by
  unfold deleteColumnStyle
  cases validColumn c <;> simp [Except.toBool]

end IronCalc.Sheet
