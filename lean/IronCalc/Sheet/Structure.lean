/-
  M-Sigma — structural edits (insert / delete / move of rows and columns) on one axis.
  Model of base/src/actions.rs (cell move loops, row/column descriptors, links, CF corners),
  base/src/expressions/parser/stringify.rs::stringify_reference (reference rewrite under
  DisplaceData::{Row,Column,RowMove,ColumnMove}), the A1 re-parse of base/src/expressions/parser/mod.rs
  (relative offsets against the host, range normalisation) and the hidden-row delta adjustment of
  base/src/user_model/common.rs.  Rows and columns are symmetric: everything is written once for an
  `Axis`.  No Mathlib (imported by the driver).
-/
namespace IronCalc.Structure

-- models base/src/constants.rs
def LAST_ROW : Int := 1048576
def LAST_COLUMN : Int := 16384

inductive Axis where
  | row | col
deriving DecidableEq, Repr, Inhabited

def Axis.last : Axis → Int
  | .row => LAST_ROW
  | .col => LAST_COLUMN

/-- one structural step along one axis (what one `DisplaceData` value describes) -/
inductive Op where
  | insert (r k : Int)   -- insert_rows(row = r, row_count = k)        DisplaceData::Row{row: r, delta:  k}
  | delete (r k : Int)   -- delete_rows(row = r, row_count = k)        DisplaceData::Row{row: r, delta: -k}
  | move1 (r d : Int)    -- move_row_unchecked(row = r, delta = d)      DisplaceData::RowMove{row: r, delta: d}
deriving DecidableEq, Repr, Inhabited

/-! ## σ : where a cell (its row/column index) ends up -/

-- models actions.rs::insert_rows `if r >= row { move_cell(r, c → r + row_count, c) }`
--        actions.rs::insert_columns `if col >= column { move_cell(.. col + column_count) }`
def sigmaInsert (r k x : Int) : Option Int :=
  if x ≥ r then some (x + k) else some x

-- models actions.rs::delete_rows `if r >= row { if r >= row + row_count { move_cell(r → r - row_count) } else { remove } }`
--        actions.rs::delete_columns `if col >= column_start { if col > column_end { move } else { remove_cell } }`
def sigmaDelete (r k x : Int) : Option Int :=
  if x ≥ r then (if x ≥ r + k then some (x - k) else none) else some x

-- models actions.rs::move_row_unchecked / move_column_unchecked: the row is taken out, rows
-- `row+1 ..= target` go up by one (delta > 0) or rows `target ..= row-1` go down by one, the row is
-- re-entered at `target = row + delta`
def sigmaMove1 (r d x : Int) : Option Int :=
  if x = r then some (r + d)
  else if d > 0 then (if r + 1 ≤ x ∧ x ≤ r + d then some (x - 1) else some x)
  else (if r + d ≤ x ∧ x ≤ r - 1 then some (x + 1) else some x)

def sigma : Op → Int → Option Int
  | .insert r k, x => sigmaInsert r k x
  | .delete r k, x => sigmaDelete r k x
  | .move1 r d, x => sigmaMove1 r d x

/-- the ops the engine performs: counts are positive (`row_count <= 0` is rejected) -/
def Op.valid : Op → Prop
  | .insert _ k => 0 < k
  | .delete _ k => 0 < k
  | .move1 _ _ => True

instance : DecidablePred Op.valid := fun o => by cases o <;> unfold Op.valid <;> infer_instance

/-! ## ρ : how the coordinate of a reference is rewritten (stringify_reference) -/

-- models stringify.rs::stringify_reference, arms DisplaceData::Row / DisplaceData::Column:
--   if delta < 0 { if row >= displace_row { if row < displace_row - delta { return "#REF!" } row += delta } }
--   else if row >= displace_row { row += delta }
def shiftDisp (dr delta x : Int) : Option Int :=
  if delta < 0 then
    (if x ≥ dr then (if x < dr - delta then none else some (x + delta)) else some x)
  else if x ≥ dr then some (x + delta) else some x

-- models stringify.rs::stringify_reference, arms DisplaceData::RowMove / ColumnMove
def shiftMove (mr delta x : Int) : Option Int :=
  if x = mr then some (x + delta)
  else if delta > 0 then (if x > mr ∧ x ≤ mr + delta then some (x - 1) else some x)
  else if delta < 0 then (if x < mr ∧ x ≥ mr + delta then some (x + 1) else some x)
  else some x

/-- `none` = the arm returned `"#REF!"` -/
def rhoCoord : Op → Int → Option Int
  | .insert r k, x => shiftDisp r k x
  | .delete r k, x => shiftDisp r (-k) x
  | .move1 r d, x => shiftMove r d x

-- models stringify_reference after the match: `if !(1..=LAST_ROW).contains(&row) { "#REF!" }` (rows) and
-- `number_to_column(column)` = None outside 1..=LAST_COLUMN (columns)
def inGrid (a : Axis) (x : Int) : Bool := decide (1 ≤ x ∧ x ≤ a.last)

/-! ## the other, separately coded, copies of σ in actions.rs -/

-- models the `displace_links` closures of insert_rows / delete_rows / move_row_unchecked (and column twins);
-- for a move the links of the moved row are taken out (`None`) and re-attached at `target_row`
def linkCoord : Op → Int → Option Int
  | .insert r k, x => if x ≥ r then some (x + k) else some x
  | .delete r k, x => if x < r then some x else if x < r + k then none else some (x - k)
  | .move1 r d, x =>
    if x = r then some (r + d)           -- `moved_links` re-inserted at (target_row, c)
    else if d > 0 ∧ x > r ∧ x ≤ r + d then some (x - 1)
    else if d < 0 ∧ x ≥ r + d ∧ x < r then some (x + 1)
    else some x

-- models the `rows` descriptor loops of insert_rows / delete_rows / move_row_unchecked
def rowDescCoord : Op → Int → Option Int
  | .insert r k, x => if x < r then some x else if x ≥ r then some (x + k) else none
  | .delete r k, x => if x < r then some x else if x ≥ r + k then some (x - k) else none
  | .move1 r d, x =>
    if x = r then some (r + d)
    else if d > 0 ∧ x > r ∧ x ≤ r + d then some (x - 1)
    else if d < 0 ∧ x < r ∧ x ≥ r + d then some (x + 1)
    else some x

-- models actions.rs::displace_cf_row / displace_cf_col (corner of a conditional-format sqref),
-- arms DisplaceData::Row / Column
def cfDisp (dr delta x : Int) : Option Int :=
  if x ≥ dr then (if delta < 0 ∧ x < dr - delta then none else some (x + delta)) else some x

def cfCoord : Op → Int → Option Int
  | .insert r k, x => cfDisp r k x
  | .delete r k, x => cfDisp r (-k) x
  | .move1 r d, x =>       -- arms RowMove / ColumnMove
    if x = r then some (x + d)
    else if d > 0 ∧ x > r ∧ x ≤ r + d then some (x - 1)
    else if d < 0 ∧ x < r ∧ x ≥ r + d then some (x + 1)
    else some x

/-! ## block moves: the fold of single moves in the order the code uses -/

-- models actions.rs::move_rows_action `for r in (row..row + row_count).rev() { move_row_unchecked(r, delta) }`
def blockOpsPos (r d : Int) : Nat → List Op
  | 0 => []
  | n + 1 => .move1 (r + n) d :: blockOpsPos r d n

-- models actions.rs::move_rows_action `for r in row..row + row_count { move_row_unchecked(r, delta) }`
def blockOpsNeg (r d : Int) : Nat → List Op
  | 0 => []
  | n + 1 => .move1 r d :: blockOpsNeg (r + 1) d n

def blockOps (r : Int) (n : Nat) (d : Int) : List Op :=
  if d > 0 then blockOpsPos r d n else blockOpsNeg r d n

/-- apply the steps one after the other (a deleted index stays deleted) -/
def sigmaList : List Op → Int → Option Int
  | [], x => some x
  | o :: os, x => (sigma o x).bind (sigmaList os)

def rhoList : List Op → Int → Option Int
  | [], x => some x
  | o :: os, x => (rhoCoord o x).bind (rhoList os)

/-- closed form: block `[r, r+n)` goes to `r+d`, the `|d|` rows it jumps over shift by `∓n` -/
def sigmaBlock (r : Int) (n : Nat) (d : Int) (x : Int) : Int :=
  if r ≤ x ∧ x < r + n then x + d
  else if d > 0 ∧ r + n ≤ x ∧ x < r + n + d then x - n
  else if d < 0 ∧ r + d ≤ x ∧ x < r then x + n
  else x

/-! ## user level: delta adjustment for hidden rows/columns -/

-- models user_model/common.rs::move_rows_action / move_columns_action:
--   delta > 0: `for r in row + row_count ..= row + row_count + delta { if hidden(r)? { new_delta += 1 } }`
--   delta < 0: `for r in row + delta .. row { if hidden(r)? { new_delta -= 1 } }`
-- `is_row_hidden` / `is_column_hidden` fail outside the grid, which fails the whole action (`none`)
def countHidden (a : Axis) (hidden : Int → Bool) (lo : Int) : Nat → Option Int
  | 0 => some 0
  | n + 1 =>
    if inGrid a lo then
      (countHidden a hidden (lo + 1) n).map (fun c => if hidden lo then c + 1 else c)
    else none

def userDelta (a : Axis) (hidden : Int → Bool) (r n d : Int) : Option Int :=
  if d > 0 then (countHidden a hidden (r + n) (d + 1).toNat).map (fun c => d + c)
  else (countHidden a hidden (r + d) (-d).toNat).map (fun c => d - c)

/-! ## references as the parser stores them, and their A1 view -/

/-- one coordinate of a `parser::Reference`: `absolute_row`/`row` (or column) -/
structure End where
  abs : Bool
  v : Int
deriving DecidableEq, Repr, Inhabited

-- models stringify_reference `let mut row = if absolute_row { row } else { row + context.row }`
def End.resolve (h : Int) (e : End) : Int := if e.abs then e.v else e.v + h

-- models parser/mod.rs (TokenType::Reference arm) `if absolute_row { row } else { row - context.row }`
def End.ofA1 (h : Int) (abs : Bool) (x : Int) : End := ⟨abs, if abs then x else x - h⟩

/-- `Node::ReferenceKind` (sheet by index; `named` = the sheet name is written in the formula) -/
structure Ref where
  sheet : Nat
  named : Bool
  row : End
  col : End
deriving DecidableEq, Repr, Inhabited

/-- `Node::RangeKind` -/
structure Range where
  sheet : Nat
  named : Bool
  r1 : End
  c1 : End
  r2 : End
  c2 : End
deriving DecidableEq, Repr, Inhabited

/-- the cell a formula lives in (`CellReferenceRC` + sheet index) -/
structure Host where
  sheet : Nat
  row : Int
  col : Int
deriving DecidableEq, Repr, Inhabited

/-- `DisplaceData::{Row,Column,RowMove,ColumnMove}` -/
structure Disp where
  axis : Axis
  sheet : Nat
  op : Op
deriving DecidableEq, Repr, Inhabited

/-- which displacement arms look at the `full_row` / `full_column` flag: Row/Column do, the moves do not -/
def Op.respectsFull : Op → Bool
  | .move1 _ _ => false
  | _ => true

-- models stringify_reference (context = Some): resolve against the host, displace the coordinate on the
-- displaced axis when the sheet matches (and, for Row/Column, the range is not a full column/row), then the
-- grid checks.  Result: the absolute (row, column) that is printed, `none` = "#REF!".
def rhoPoint (d : Disp) (h : Host) (sheet : Nat) (row col : End) (fullRow fullCol : Bool) :
    Option (Int × Int) :=
  let r0 := row.resolve h.row
  let c0 := col.resolve h.col
  let moved : Option (Int × Int) :=
    match d.axis with
    | .row =>
      if sheet = d.sheet ∧ (d.op.respectsFull && fullRow) = false then (rhoCoord d.op r0).map (fun r => (r, c0))
      else some (r0, c0)
    | .col =>
      if sheet = d.sheet ∧ (d.op.respectsFull && fullCol) = false then (rhoCoord d.op c0).map (fun c => (r0, c))
      else some (r0, c0)
  moved.bind fun (r, c) => if inGrid .row r && inGrid .col c then some (r, c) else none

def rhoRef (d : Disp) (h : Host) (r : Ref) : Option (Int × Int) :=
  rhoPoint d h r.sheet r.row r.col false false

-- models stringify.rs::stringify, RangeKind arm: `full_row = absolute_row1 && absolute_row2 && row1 == 1 && row2 == LAST_ROW`
-- (a range over whole columns such as A:B), `full_column` likewise (a range over whole rows such as 2:5)
def Range.fullRow (g : Range) : Bool := g.r1.abs && g.r2.abs && g.r1.v == 1 && g.r2.v == LAST_ROW
def Range.fullCol (g : Range) : Bool := g.c1.abs && g.c2.abs && g.c1.v == 1 && g.c2.v == LAST_COLUMN

/-- both corners are rewritten independently -/
def rhoRange (d : Disp) (h : Host) (g : Range) : Option (Int × Int) × Option (Int × Int) :=
  (rhoPoint d h g.sheet g.r1 g.c1 g.fullRow g.fullCol, rhoPoint d h g.sheet g.r2 g.c2 g.fullRow g.fullCol)

/-! ## what a formula's reference atoms are, and one displacement step on them -/

/-- the reference-bearing atoms of a formula. `broken l r` is a range one corner of which became `#REF!`
    (`A1:#REF!`, `#REF!:A3`): it no longer lexes as a range, the surviving corner is a plain reference. -/
inductive Atom where
  | ref (r : Ref)
  | range (g : Range)
  | err
  | broken (l r : Option Ref)
  /-- a whole-column / whole-row range one corner of which became `#REF!` (`#REF!:2`, `$A:#REF!`): the text no
      longer contains a reference at all (the surviving half is a number or a name); it is never displaced
      again.  Kept as what was printed: sheet prefix, the two corners (abs flags and coordinates), which part
      of a corner was omitted. -/
  | frozen (pre : Option Nat) (p1 p2 : Option (Bool × Int × Bool × Int)) (omitRow omitCol : Bool)
deriving DecidableEq, Repr, Inhabited

-- models parser/mod.rs TokenType::Reference arm at host `h`
def mkRef (h : Host) (sheet : Nat) (named : Bool) (ra : Bool) (r : Int) (ca : Bool) (c : Int) : Ref :=
  ⟨sheet, named, End.ofA1 h.row ra r, End.ofA1 h.col ca c⟩

-- models parser/mod.rs TokenType::Range arm at host `h`: in A1 mode inverted corners are swapped
-- (coordinate and absolute flag together), then made relative to the host
def mkRange (h : Host) (sheet : Nat) (named : Bool)
    (ra1 : Bool) (r1 : Int) (ca1 : Bool) (c1 : Int) (ra2 : Bool) (r2 : Int) (ca2 : Bool) (c2 : Int) : Range :=
  let (ra1, r1, ra2, r2) := if r1 > r2 then (ra2, r2, ra1, r1) else (ra1, r1, ra2, r2)
  let (ca1, c1, ca2, c2) := if c1 > c2 then (ca2, c2, ca1, c1) else (ca1, c1, ca2, c2)
  ⟨sheet, named, End.ofA1 h.row ra1 r1, End.ofA1 h.col ca1 c1, End.ofA1 h.row ra2 r2, End.ofA1 h.col ca2 c2⟩

/-- one displacement of a reference atom of a formula hosted at `h` (= to_string_displaced followed by the
    re-parse at the same host that `update_cell_with_formula` does) -/
def rhoAtom (d : Disp) (h : Host) : Atom → Atom
  | .ref r =>
    match rhoRef d h r with
    | some (x, y) => .ref (mkRef h r.sheet r.named r.row.abs x r.col.abs y)
    | none => .err
  | .range g =>
    match rhoRange d h g with
    | (some (x1, y1), some (x2, y2)) =>
      -- a full column/row range is printed without its rows/columns and re-read as 1..LAST
      let (x1, x2) := if g.fullRow then (1, LAST_ROW) else (x1, x2)
      let (y1, y2) := if g.fullCol then (1, LAST_COLUMN) else (y1, y2)
      .range (mkRange h g.sheet g.named g.r1.abs x1 g.c1.abs y1 g.r2.abs x2 g.c2.abs y2)
    | (p1, p2) =>
      if g.fullRow || g.fullCol then
        .frozen (if g.named then some g.sheet else none)
          (p1.map fun (x, y) => (g.r1.abs, x, g.c1.abs, y)) (p2.map fun (x, y) => (g.r2.abs, x, g.c2.abs, y))
          g.fullRow g.fullCol
      else match p1, p2 with
        | some (x1, y1), _ => .broken (some (mkRef h g.sheet g.named g.r1.abs x1 g.c1.abs y1)) none
        -- the sheet name is printed with the first corner only: the second corner alone reads on the host's sheet
        | none, some (x2, y2) => .broken none (some (mkRef h h.sheet false g.r2.abs x2 g.c2.abs y2))
        | none, none => .broken none none
  | .err => .err
  | .broken l r =>
    let f (o : Option Ref) : Option Ref :=
      o.bind fun q => (rhoRef d h q).map fun (x, y) => mkRef h q.sheet q.named q.row.abs x q.col.abs y
    .broken (f l) (f r)
  | .frozen pre p1 p2 oR oC => .frozen pre p1 p2 oR oC

/-- re-entering the displayed formula at another host (`move_cell`: `get_cell_formula` at the source,
    `set_user_input` at the target): the A1 text is the same, the stored offsets change -/
def retypeEnd (h h' : Int) (e : End) : End := End.ofA1 h' e.abs (e.resolve h)

def retypeRef (h h' : Host) (r : Ref) : Ref :=
  { r with row := retypeEnd h.row h'.row r.row, col := retypeEnd h.col h'.col r.col }

def retypeAtom (h h' : Host) : Atom → Atom
  | .ref r => .ref (retypeRef h h' r)
  | .range g => .range { g with r1 := retypeEnd h.row h'.row g.r1, c1 := retypeEnd h.col h'.col g.c1,
                                r2 := retypeEnd h.row h'.row g.r2, c2 := retypeEnd h.col h'.col g.c2 }
  | .err => .err
  | .broken l r => .broken (l.map (retypeRef h h')) (r.map (retypeRef h h'))
  | .frozen pre p1 p2 oR oC => .frozen pre p1 p2 oR oC

/-! ## column descriptors -/

/-- `types::Col` with the attributes as one opaque payload -/
structure ColD (α : Type) where
  min : Int
  max : Int
  att : α
deriving DecidableEq, Repr

-- models actions.rs::insert_columns, the `cols` loop (keep / displace / augment)
def insertCols {α} (column count : Int) (cols : List (ColD α)) : List (ColD α) :=
  cols.map fun c =>
    if column > c.max then c
    else if column ≤ c.min then { c with min := c.min + count, max := c.max + count }
    else { c with max := c.max + count }

-- models actions.rs::delete_columns, the `cols` loop (cases A–F)
def deleteCols {α} (column count : Int) (cols : List (ColD α)) : List (ColD α) :=
  let cs := column
  let ce := column + count - 1
  cols.filterMap fun c =>
    if cs ≤ c.min then                                                                    -- (F27b fix: `<=`)
      if ce < c.min then some { c with min := c.min - count, max := c.max - count }      -- A
      else if ce < c.max then some { c with min := cs, max := c.max - count }            -- B
      else none                                                                           -- C
    else if cs ≤ c.max then
      if ce ≤ c.max then some { c with max := c.max - count }                            -- D
      else some { c with max := cs - 1 }                                                  -- E
    else some c                                                                           -- F

/-- the attribute a descriptor list gives a column (first match, as `get_column_style` & co.) -/
def colAttr {α} (cols : List (ColD α)) (x : Int) : Option α :=
  match cols.find? (fun c => decide (c.min ≤ x ∧ x ≤ c.max)) with
  | some c => some c.att
  | none => none

end IronCalc.Structure
