import IronCalc.Sheet.Cols
import IronCalc.Sheet.Rows
/-
  The row/column attribute state of one worksheet and the eight attribute operations of the
  public `Model` API (model.rs: set_column_width, set_column_hidden, set_column_style,
  delete_column_style, set_row_height, set_row_hidden, set_row_style, delete_row_style),
  with style arguments already interned to indices (interning is C30).

  `applyOp` is the implementation side (descriptor lists); `specOp` is the specification side:
  the same operation on the *denotation* (a function from column/row numbers to attributes),
  written so that it visibly changes one attribute of one column/row.
-/
namespace IronCalc.Sheet

structure Sheet (W H : Type) where
  cols : List (Col W)
  rows : List (Row H)

inductive Op (W H : Type)
  | setColWidth (c : Int) (w : W)
  | setColHidden (c : Int) (h : Bool)
  | setColStyle (c : Int) (k : Int)
  | delColStyle (c : Int)
  | setRowHeight (r : Int) (h : H)
  | setRowHidden (r : Int) (b : Bool)
  | setRowStyle (r : Int) (k : Int)
  | delRowStyle (r : Int)

variable {W H : Type}

/-- `Result<(), String>`: on `Err` the worksheet is untouched (every check precedes every write) -/
def orKeep {α ε : Type} (old : α) : Except ε α → α
  | .ok new => new
  | .error _ => old

/-- one call of the public API on the descriptor lists -/
def applyOp (wo : WidthOps W) (ho : HeightOps H) (q : Quirks) (s : Sheet W H) : Op W H → Sheet W H
  | .setColWidth c w => { s with cols := orKeep s.cols (setColumnWidth wo q s.cols c w) }
  | .setColHidden c h => { s with cols := orKeep s.cols (setColumnHidden wo q s.cols c h) }
  | .setColStyle c k => { s with cols := orKeep s.cols (setColumnStyle wo q s.cols c k) }
  | .delColStyle c => { s with cols := orKeep s.cols (deleteColumnStyle q s.cols c) }
  | .setRowHeight r h => { s with rows := orKeep s.rows (setRowHeight ho s.rows r h) }
  | .setRowHidden r b => { s with rows := orKeep s.rows (setRowHidden ho s.rows r b) }
  | .setRowStyle r k => { s with rows := setRowStyle ho s.rows r k }
  | .delRowStyle r => { s with rows := deleteRowStyle s.rows r }

/-- what a sheet denotes: the attributes of every column and every row -/
structure Den (W H : Type) where
  col : Int → ColAttr W
  row : Int → RowAttr H

def denote (wo : WidthOps W) (ho : HeightOps H) (s : Sheet W H) : Den W H :=
  ⟨colAttr wo s.cols, rowAttr ho s.rows⟩

/-- change the value at exactly one point -/
def upd {α : Type} (f : Int → α) (c : Int) (g : α → α) : Int → α :=
  fun x => if x = c then g (f x) else f x

/-- the width a column has after `set_column_width(column, w)`: the default when `w` is the
    default, else `w` after the store/load conversion -/
def setWidthValue (wo : WidthOps W) (w : W) : W :=
  if wo.isDefault w then wo.dflt else wo.load (wo.store w)

/-- the specification of the eight operations on the denotation: each changes exactly one
    attribute of exactly one column or row (or nothing, when the call is rejected) -/
def specOp (wo : WidthOps W) (ho : HeightOps H) (a : Den W H) : Op W H → Den W H
  | .setColWidth c w =>
    if validColumn c && !wo.isNeg w then
      { a with col := upd a.col c fun t => { t with width := setWidthValue wo w } } else a
  | .setColHidden c h =>
    if validColumn c && !wo.isNeg (a.col c).width then
      { a with col := upd a.col c fun t => { t with hidden := h } } else a
  | .setColStyle c k =>
    if validColumn c && !wo.isNeg (a.col c).width then
      { a with col := upd a.col c fun t => { t with style := some k } } else a
  | .delColStyle c =>
    if validColumn c then { a with col := upd a.col c fun t => { t with style := none } } else a
  | .setRowHeight r h =>
    if validRow r && !ho.isNeg h then
      { a with row := upd a.row r fun t => { t with height := ho.load (ho.store h) } } else a
  | .setRowHidden r b =>
    if validRow r then { a with row := upd a.row r fun t => { t with hidden := b } } else a
  | .setRowStyle r k =>
    { a with row := upd a.row r fun t => { t with style := k, cellStyle := if k ≠ 0 then some k else none } }
  | .delRowStyle r =>
    { a with row := upd a.row r fun t => { t with style := 0, cellStyle := none } }

/-- models model.rs::get_cell_style_index for a cell that does not exist: the row's style when it
    has `custom_format`, else the style of the first column descriptor containing it, else 0 -/
def emptyCellStyle (s : Sheet W H) (row column : Int) : Int :=
  match rowCellStyle s.rows row with
  | some k => k
  | none =>
    match findCol s.cols column with
    | some d => d.style.getD 0
    | none => 0

/-- the facts about `f64` arithmetic the column laws rest on (hypotheses of the theorems; for
    doubles and the factor 9 = 2³+2⁰ the third is Kahan's x/9*9 = x; all three are checked on the
    running code by the correspondence and by the oracle) -/
structure WidthLaws (wo : WidthOps W) : Prop where
  isDefault_dflt : wo.isDefault wo.dflt = true
  eq_of_isDefault : ∀ w, wo.isDefault w = true → w = wo.dflt
  reload : ∀ s, wo.load (wo.store (wo.load s)) = wo.load s

/-- the fact about `f64` arithmetic the row laws rest on: 25 / 1.5625 * 1.5625 = 25 -/
structure HeightLaws (ho : HeightOps H) : Prop where
  dflt_roundtrip : ho.load (ho.store ho.dflt) = ho.dflt

/-- exact instances used for examples and witnesses (`store`/`load` are ÷9/×9 on multiples of 9
    resp. the identity; any instance satisfying the laws would do) -/
def natWidthOps : WidthOps Nat := ⟨id, id, 90, 0, fun w => w == 90, fun _ => false⟩
def natHeightOps : HeightOps Nat := ⟨id, id, 25, 0, fun _ => false⟩

end IronCalc.Sheet
