/-
  Column descriptors of a worksheet (`Worksheet.cols : Vec<Col>`), the setters that split
  and update them and the getters that read them.

  Models base/src/worksheet.rs (set_column_width_and_style, set_column_width,
  set_column_hidden, set_column_style, delete_column_style, get_column_width,
  get_actual_column_width, is_column_hidden, get_column_style) and the thin wrappers of
  the same names in base/src/model.rs.

  Widths are `f64` in the code.  The model is parametric in the width type `W` and in the
  operations the code performs on widths (`WidthOps`): `store` is `w / COLUMN_WIDTH_FACTOR`,
  `load` is `w * COLUMN_WIDTH_FACTOR`, `isDefault w` is `w == DEFAULT_COLUMN_WIDTH`
  (the code tests `width != DEFAULT_COLUMN_WIDTH`), `isNeg w` is `w < 0.0`.
  Theorems hold for every instance (under the laws they name); the driver instantiates `W`
  with hardware doubles.  No theorem mentions `Float`.

  The index loops of the Rust code (`index`, `split`, `cols.remove/insert`) are written as
  structural recursion producing the same list: prefix ++ [pre?] ++ [col] ++ [post?] ++ suffix.

  `Quirks` selects, per defect of the pinned tree, the pinned or the repaired line, so that
  both the theorems about the current code and the machine-checked witnesses of the pinned
  defects (F29a, F29b, F29c) are statements about the same functions.
-/
namespace IronCalc.Sheet

/-- the width arithmetic the code performs (all on `f64`) -/
structure WidthOps (W : Type) where
  /-- `w / constants::COLUMN_WIDTH_FACTOR` -/
  store : W → W
  /-- `w * constants::COLUMN_WIDTH_FACTOR` -/
  load : W → W
  /-- `constants::DEFAULT_COLUMN_WIDTH` -/
  dflt : W
  /-- `0.0` (what `get_column_width` reports for a hidden column) -/
  zero : W
  /-- `w == DEFAULT_COLUMN_WIDTH` -/
  isDefault : W → Bool
  /-- `w < 0.0` -/
  isNeg : W → Bool

/-- models base/src/types.rs::Col -/
structure Col (W : Type) where
  min : Int
  max : Int
  width : W
  customWidth : Bool
  hidden : Bool
  style : Option Int
deriving DecidableEq, Repr

/-- which of the pinned tree's lines are in force (`true` = the pinned, defective line) -/
structure Quirks where
  /-- F29a: `col.style = cols[index].style;` in the split branch of set_column_width_and_style -/
  splitKeepsOldStyle : Bool
  /-- F29b: set_column_style reads `get_column_width` (0 when hidden) instead of the actual width -/
  styleUsesVisibleWidth : Bool
  /-- F29c: delete_column_style writes `hidden: false` and drops a hidden default-width column -/
  deleteStyleUnhides : Bool
deriving DecidableEq, Repr

/-- the tree as pinned -/
def Quirks.pinned : Quirks := ⟨true, true, true⟩
/-- the tree after the three `fix:` commits (the code the check runs against) -/
def Quirks.fixed : Quirks := ⟨false, false, false⟩

instance exceptDecEq {ε α : Type} [DecidableEq ε] [DecidableEq α] : DecidableEq (Except ε α)
  | .ok a, .ok b => if h : a = b then isTrue (by rw [h]) else isFalse (by intro e; cases e; exact h rfl)
  | .error a, .error b => if h : a = b then isTrue (by rw [h]) else isFalse (by intro e; cases e; exact h rfl)
  | .ok _, .error _ => isFalse (by intro e; cases e)
  | .error _, .ok _ => isFalse (by intro e; cases e)

inductive ColErr
  | invalidColumn   -- "Column number '{column}' is not valid."
  | negativeWidth   -- "Can not set a negative width: {width}"
deriving DecidableEq, Repr

/-- models base/src/constants.rs::LAST_COLUMN -/
def lastColumn : Int := 16384

/-- models base/src/expressions/utils/mod.rs::is_valid_column_number -/
def validColumn (c : Int) : Bool := decide (1 ≤ c) && decide (c ≤ lastColumn)

variable {W : Type}

/-- the loop `for col in cols { if column >= min && column <= max { … } }` common to all getters:
    the first descriptor whose range contains the column -/
def findCol : List (Col W) → Int → Option (Col W)
  | [], _ => none
  | d :: rest, c => if d.min ≤ c ∧ c ≤ d.max then some d else findCol rest c

/-- models worksheet.rs::get_column_width -/
def getColumnWidth (ops : WidthOps W) (cols : List (Col W)) (c : Int) : Except ColErr W :=
  if !validColumn c then .error .invalidColumn else
  match findCol cols c with
  | some d =>
    if d.hidden then .ok ops.zero
    else if d.customWidth then .ok (ops.load d.width)
    else .ok ops.dflt
  | none => .ok ops.dflt

/-- models worksheet.rs::get_actual_column_width -/
def getActualColumnWidth (ops : WidthOps W) (cols : List (Col W)) (c : Int) : Except ColErr W :=
  if !validColumn c then .error .invalidColumn else
  match findCol cols c with
  | some d => if d.customWidth then .ok (ops.load d.width) else .ok ops.dflt
  | none => .ok ops.dflt

/-- models worksheet.rs::is_column_hidden -/
def isColumnHidden (cols : List (Col W)) (c : Int) : Except ColErr Bool :=
  if !validColumn c then .error .invalidColumn else
  match findCol cols c with
  | some d => .ok d.hidden
  | none => .ok false

/-- models worksheet.rs::get_column_style -/
def getColumnStyle (cols : List (Col W)) (c : Int) : Except ColErr (Option Int) :=
  if !validColumn c then .error .invalidColumn else
  match findCol cols c with
  | some d => .ok d.style
  | none => .ok none

/-- models model.rs::get_column_style at the level of style indices: unlike the worksheet getter it
    does not validate the column number (an invalid column simply has no descriptor) -/
def modelGetColumnStyle (cols : List (Col W)) (c : Int) : Option Int :=
  match findCol cols c with
  | some d => d.style
  | none => none

/-- the body of worksheet.rs::set_column_width_and_style after the two validity checks.
    `nw`/`ncw` are the stored width and the custom-width flag of the new descriptor. -/
def setCore (q : Quirks) (column : Int) (nw : W) (ncw : Bool) (hidden : Bool) (style : Option Int) :
    List (Col W) → List (Col W)
  | [] => [⟨column, column, nw, ncw, hidden, style⟩]
  | d :: rest =>
    if d.min ≤ column ∧ column ≤ d.max then
      if d.min = column ∧ d.max = column then
        { d with style := style, width := nw, customWidth := ncw, hidden := hidden } :: rest
      else
        let pre : Col W := { d with max := column - 1 }
        let post : Col W := { d with min := column + 1 }
        let col : Col W := ⟨column, column, nw, ncw, hidden,
                            if q.splitKeepsOldStyle then d.style else style⟩
        (if column ≠ d.min then [pre] else []) ++ col :: ((if column ≠ d.max then [post] else []) ++ rest)
    else if column < d.min then
      ⟨column, column, nw, ncw, hidden, style⟩ :: d :: rest
    else
      d :: setCore q column nw ncw hidden style rest

/-- models worksheet.rs::set_column_width_and_style -/
def setColumnWidthAndStyle (ops : WidthOps W) (q : Quirks) (cols : List (Col W)) (column : Int)
    (width : W) (hidden : Bool) (style : Option Int) : Except ColErr (List (Col W)) :=
  if !validColumn column then .error .invalidColumn
  else if ops.isNeg width then .error .negativeWidth
  else .ok (setCore q column (ops.store width) (!ops.isDefault width) hidden style cols)

/-- models worksheet.rs::set_column_width (and model.rs::set_column_width) -/
def setColumnWidth (ops : WidthOps W) (q : Quirks) (cols : List (Col W)) (column : Int) (width : W) :
    Except ColErr (List (Col W)) := do
  let style ← getColumnStyle cols column
  let hidden ← isColumnHidden cols column
  setColumnWidthAndStyle ops q cols column width hidden style

/-- `r.unwrap_or(DEFAULT_COLUMN_WIDTH)` -/
def unwrapOrDefault (ops : WidthOps W) : Except ColErr W → W
  | .ok w => w
  | .error _ => ops.dflt

/-- models worksheet.rs::set_column_hidden (and model.rs::set_column_hidden) -/
def setColumnHidden (ops : WidthOps W) (q : Quirks) (cols : List (Col W)) (column : Int) (hidden : Bool) :
    Except ColErr (List (Col W)) := do
  let width := unwrapOrDefault ops (getActualColumnWidth ops cols column)
  let style ← getColumnStyle cols column
  setColumnWidthAndStyle ops q cols column width hidden style

/-- models worksheet.rs::set_column_style (model.rs::set_column_style interns the style first: C30) -/
def setColumnStyle (ops : WidthOps W) (q : Quirks) (cols : List (Col W)) (column : Int) (styleIndex : Int) :
    Except ColErr (List (Col W)) := do
  let width := unwrapOrDefault ops
    (if q.styleUsesVisibleWidth then getColumnWidth ops cols column else getActualColumnWidth ops cols column)
  let hidden ← isColumnHidden cols column
  setColumnWidthAndStyle ops q cols column width hidden (some styleIndex)

/-- the body of worksheet.rs::delete_column_style after the validity check -/
def delCore (q : Quirks) (column : Int) : List (Col W) → List (Col W)
  | [] => []
  | d :: rest =>
    if d.min ≤ column ∧ column ≤ d.max then
      let pre : Col W := { d with max := column - 1 }
      let post : Col W := { d with min := column + 1 }
      let col : Col W := ⟨column, column, d.width, d.customWidth,
                          if q.deleteStyleUnhides then false else d.hidden, none⟩
      let keep : Bool := if q.deleteStyleUnhides then d.customWidth else d.customWidth || d.hidden
      (if column ≠ d.min then [pre] else []) ++ ((if keep then [col] else []) ++
        ((if column ≠ d.max then [post] else []) ++ rest))
    else if column < d.min then d :: rest
    else d :: delCore q column rest

/-- models worksheet.rs::delete_column_style (and model.rs::delete_column_style) -/
def deleteColumnStyle (q : Quirks) (cols : List (Col W)) (column : Int) : Except ColErr (List (Col W)) :=
  if !validColumn column then .error .invalidColumn else .ok (delCore q column cols)

/-! ### Denotation: what a descriptor list says about each column -/

/-- the three attributes of a column (the width is the *actual* width: `get_column_width`
    reports `zero` for a hidden column, see `getColumnWidth_eq_attr`) -/
structure ColAttr (W : Type) where
  width : W
  hidden : Bool
  style : Option Int
deriving DecidableEq, Repr

def descAttr (ops : WidthOps W) (d : Col W) : ColAttr W :=
  ⟨if d.customWidth then ops.load d.width else ops.dflt, d.hidden, d.style⟩

def noDesc (ops : WidthOps W) : ColAttr W := ⟨ops.dflt, false, none⟩

/-- the attributes of column `c` under the descriptor list `cols` (any list: first match wins) -/
def colAttr (ops : WidthOps W) (cols : List (Col W)) (c : Int) : ColAttr W :=
  match findCol cols c with
  | some d => descAttr ops d
  | none => noDesc ops

/-- descriptors in increasing order, pairwise disjoint, non-empty, inside `(lo, hi]` -/
def SortedIn (lo hi : Int) : List (Col W) → Prop
  | [] => True
  | d :: rest => lo < d.min ∧ d.min ≤ d.max ∧ d.max ≤ hi ∧ SortedIn d.max hi rest

/-- a well-formed layout: sorted, disjoint, every descriptor within 1 ..= LAST_COLUMN -/
def WfCols (cols : List (Col W)) : Prop := SortedIn 0 lastColumn cols

instance decSortedIn (lo hi : Int) : (cols : List (Col W)) → Decidable (SortedIn lo hi cols)
  | [] => isTrue trivial
  | d :: rest =>
    have := decSortedIn d.max hi rest
    by unfold SortedIn; exact inferInstance

instance (cols : List (Col W)) : Decidable (WfCols cols) := decSortedIn _ _ _

/-- executable form of `SortedIn` (used by the driver and by `decide`d examples) -/
def sortedInB (lo hi : Int) : List (Col W) → Bool
  | [] => true
  | d :: rest => decide (lo < d.min) && decide (d.min ≤ d.max) && decide (d.max ≤ hi) && sortedInB d.max hi rest

end IronCalc.Sheet
