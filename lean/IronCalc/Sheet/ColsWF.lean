import IronCalc.Sheet.StructureSheet
/-
  Well-formedness of column descriptor lists and of row entry lists (clauses of C27), and its
  preservation by the structural rewrites of base/src/actions.rs.

  Authoritative models: for insert_columns / delete_columns / move_column_unchecked the functions
  `insertCols`, `deleteCols`, `setColAtt`, `moveColAtts` of Sheet/Structure.lean and
  Sheet/StructureSheet.lean (tied to the code by the C12–C15 suites and by `c27-desc`); for the
  row loops `rowDescCoord`.  The attribute operations (set width / hidden / style, delete style)
  are those of the C29 model Sheet/Cols.lean, whose `SortedIn` is the same predicate on its own
  descriptor type (`wfCols_iff` in Props/C27.lean).
-/
namespace IronCalc.ColsWF
open IronCalc.Structure

variable {α : Type}

/-- descriptors in increasing order, pairwise disjoint, non-empty, inside `(lo, hi]` -/
def SortedD (lo hi : Int) : List (ColD α) → Prop
  | [] => True
  | d :: rest => lo < d.min ∧ d.min ≤ d.max ∧ d.max ≤ hi ∧ SortedD d.max hi rest

/-- the column clause of C27: sorted by `min`, pairwise disjoint, `1 ≤ min ≤ max ≤ 16384` -/
def ColsWF (cols : List (ColD α)) : Prop := SortedD 0 16384 cols

instance decSortedD (lo hi : Int) : (cols : List (ColD α)) → Decidable (SortedD lo hi cols)
  | [] => isTrue trivial
  | d :: rest =>
    have := decSortedD d.max hi rest
    by unfold SortedD; exact inferInstance

instance (cols : List (ColD α)) : Decidable (ColsWF cols) := decSortedD _ _ _

theorem SortedD.mono {lo lo' hi hi' : Int} {cols : List (ColD α)} (h : SortedD lo hi cols)
    (hl : lo' ≤ lo) (hh : hi ≤ hi') : SortedD lo' hi' cols := by
  induction cols generalizing lo lo' with
  | nil => trivial
  | cons d rest ih =>
    simp only [SortedD] at h ⊢
    exact ⟨by omega, h.2.1, by omega, ih h.2.2.2 (Int.le_refl _)⟩

/-- tighten the upper bound when every descriptor is known to end at or before it -/
theorem SortedD.tighten {lo hi hi' : Int} {cols : List (ColD α)} (h : SortedD lo hi' cols)
    (hm : ∀ d ∈ cols, d.max ≤ hi) : SortedD lo hi cols := by
  induction cols generalizing lo with
  | nil => trivial
  | cons d rest ih =>
    simp only [SortedD] at h ⊢
    exact ⟨h.1, h.2.1, hm d List.mem_cons_self, ih h.2.2.2 (fun e he => hm e (List.mem_cons_of_mem _ he))⟩

theorem SortedD.max_le {lo hi : Int} {cols : List (ColD α)} (h : SortedD lo hi cols) :
    ∀ d ∈ cols, d.max ≤ hi := by
  induction cols generalizing lo with
  | nil => intro d hd; cases hd
  | cons e rest ih =>
    simp only [SortedD] at h
    intro d hd
    rcases List.mem_cons.mp hd with rfl | hd
    · exact h.2.2.1
    · exact ih h.2.2.2 d hd

macro "sortedD_close " h:ident : tactic =>
  `(tactic| (repeat' apply And.intro) <;>
      first | omega | exact $h | exact SortedD.mono $h (by omega) (by omega) | trivial)

/-! ## insert_columns -/

/-- every descriptor at or right of the insertion point is displaced -/
theorem insertCols_allShift (r k : Int) {lo hi : Int} (cols : List (ColD α))
    (h : SortedD lo hi cols) (hr : r ≤ lo + 1) : SortedD (lo + k) (hi + k) (insertCols r k cols) := by
  induction cols generalizing lo with
  | nil => trivial
  | cons d rest ih =>
    simp only [SortedD] at h
    have := ih h.2.2.2 (by omega)
    have h1 : ¬ r > d.max := by omega
    have h2 : r ≤ d.min := by omega
    simp only [insertCols, List.map_cons, h1, h2, if_true, if_false, SortedD] at this ⊢
    sortedD_close this

/-- insert_columns keeps the list sorted and disjoint above the lower bound; the upper bound
    moves by the number of inserted columns (the code checks the cells, not the descriptors) -/
theorem insertCols_sorted (r k : Int) (hk : 0 < k) {lo hi : Int} (cols : List (ColD α))
    (h : SortedD lo hi cols) : SortedD lo (hi + k) (insertCols r k cols) := by
  induction cols generalizing lo with
  | nil => trivial
  | cons d rest ih =>
    simp only [SortedD] at h
    by_cases h1 : r > d.max
    · have := ih h.2.2.2
      simp only [insertCols, List.map_cons, h1, if_true, SortedD] at this ⊢
      sortedD_close this
    · have := insertCols_allShift r k rest h.2.2.2 (by omega)
      by_cases h2 : r ≤ d.min
      · simp only [insertCols, List.map_cons, h1, h2, if_true, if_false, SortedD] at this ⊢
        sortedD_close this
      · simp only [insertCols, List.map_cons, h1, h2, if_false, SortedD] at this ⊢
        sortedD_close this

theorem mem_insertCols {r k : Int} {cols : List (ColD α)} {e : ColD α} (he : e ∈ insertCols r k cols) :
    ∃ d ∈ cols, e.att = d.att ∧ e.max = (if r > d.max then d.max else d.max + k) := by
  simp only [insertCols, List.mem_map] at he
  obtain ⟨d, hd, rfl⟩ := he
  refine ⟨d, hd, ?_⟩
  by_cases h1 : r > d.max
  · simp [h1]
  · by_cases h2 : r ≤ d.min <;> simp [h1, h2]

/-- insert_columns preserves the column clause when no descriptor is pushed past the last column -/
theorem insertCols_wf (r k : Int) (hk : 0 < k) {lo hi : Int} (cols : List (ColD α)) (h : SortedD lo hi cols)
    (hfit : ∀ d ∈ cols, r ≤ d.max → d.max + k ≤ hi) : SortedD lo hi (insertCols r k cols) := by
  refine (insertCols_sorted r k hk cols h).tighten ?_
  intro e he
  obtain ⟨d, hd, _, hm⟩ := mem_insertCols he
  rw [hm]
  by_cases h1 : r > d.max
  · simp only [h1, if_true]; exact h.max_le d hd
  · simp only [h1, if_false]; exact hfit d hd (by omega)

/-! ## delete_columns -/

/-- every descriptor right of the deleted band is displaced -/
theorem deleteCols_allShift (r k : Int) (hk : 0 < k) {lo hi : Int} (cols : List (ColD α))
    (h : SortedD lo hi cols) (hr : r + k - 1 ≤ lo) : SortedD (lo - k) hi (deleteCols r k cols) := by
  induction cols generalizing lo with
  | nil => trivial
  | cons d rest ih =>
    simp only [SortedD] at h
    have := ih h.2.2.2 (by omega)
    have h1 : r ≤ d.min := by omega
    have h2 : r + k - 1 < d.min := by omega
    simp only [deleteCols, List.filterMap_cons, h1, h2, if_true, SortedD] at this ⊢
    sortedD_close this

/-- delete_columns (repaired case split, F27b) preserves sorted ∧ disjoint ∧ bounds -/
theorem deleteCols_sorted (r k : Int) (hk : 0 < k) {lo lo' hi : Int} (cols : List (ColD α))
    (h : SortedD lo hi cols) (hl : lo' ≤ lo) (hr : lo' < r) : SortedD lo' hi (deleteCols r k cols) := by
  induction cols generalizing lo lo' with
  | nil => trivial
  | cons d rest ih =>
    simp only [SortedD] at h
    have hrest := h.2.2.2
    by_cases h1 : r ≤ d.min
    · by_cases h2 : r + k - 1 < d.min
      · -- A
        have := deleteCols_allShift r k hk rest hrest (by omega)
        simp only [deleteCols, List.filterMap_cons, h1, h2, if_true, SortedD] at this ⊢
        sortedD_close this
      · by_cases h3 : r + k - 1 < d.max
        · -- B
          have := deleteCols_allShift r k hk rest hrest (by omega)
          simp only [deleteCols, List.filterMap_cons, h1, h2, h3, if_true, if_false, SortedD] at this ⊢
          sortedD_close this
        · -- C
          have := ih hrest (lo' := lo') (by omega) hr
          simp only [deleteCols, List.filterMap_cons, h1, h2, h3, if_true, if_false] at this ⊢
          exact this
    · by_cases h2 : r ≤ d.max
      · by_cases h3 : r + k - 1 ≤ d.max
        · -- D
          have := deleteCols_allShift r k hk rest hrest (by omega)
          simp only [deleteCols, List.filterMap_cons, h1, h2, h3, if_true, if_false, SortedD] at this ⊢
          sortedD_close this
        · -- E
          have := ih hrest (lo' := r - 1) (by omega) (by omega)
          simp only [deleteCols, List.filterMap_cons, h1, h2, h3, if_true, if_false, SortedD] at this ⊢
          sortedD_close this
      · -- F
        have := ih hrest (lo' := d.max) (Int.le_refl _) (by omega)
        simp only [deleteCols, List.filterMap_cons, h1, h2, if_false, SortedD] at this ⊢
        sortedD_close this

/-- delete_columns as pinned (`column_start < min`): kept for the witness of finding F27b -/
def deleteColsPinned (column count : Int) (cols : List (ColD α)) : List (ColD α) :=
  let cs := column
  let ce := column + count - 1
  cols.filterMap fun c =>
    if cs < c.min then
      if ce < c.min then some { c with min := c.min - count, max := c.max - count }
      else if ce < c.max then some { c with min := cs, max := c.max - count }
      else none
    else if cs ≤ c.max then
      if ce ≤ c.max then some { c with max := c.max - count }
      else some { c with max := cs - 1 }
    else some c

theorem mem_deleteCols {r k : Int} {cols : List (ColD α)} {e : ColD α} (he : e ∈ deleteCols r k cols) :
    ∃ d ∈ cols, e.att = d.att := by
  simp only [deleteCols, List.mem_filterMap] at he
  obtain ⟨d, hd, hf⟩ := he
  refine ⟨d, hd, ?_⟩
  split at hf <;> (try split at hf) <;> (try split at hf) <;> simp_all <;> (subst hf; rfl)

/-! ## set_column_width_and_style as used by move_column_unchecked -/

theorem setColAtt_go_sorted (column : Int) (hid : Bool) (st : Option String) (w : Option Int) {lo hi : Int}
    (cols : List (ColD CAtt)) (h : SortedD lo hi cols) (h1 : lo < column) (h2 : column ≤ hi) :
    SortedD lo hi (setColAtt.go column hid st w cols) := by
  induction cols generalizing lo with
  | nil => simp only [setColAtt.go, SortedD]; exact ⟨h1, Int.le_refl _, h2, trivial⟩
  | cons d rest ih =>
    simp only [SortedD] at h
    have hrest := h.2.2.2
    simp only [setColAtt.go]
    by_cases hin : d.min ≤ column ∧ column ≤ d.max
    · simp only [hin, and_self, if_true]
      by_cases hex : d.min = column ∧ d.max = column
      · simp only [hex, and_self, if_true, SortedD]
        rw [hex.2] at hrest
        sortedD_close hrest
      · simp only [hex, if_false]
        by_cases hmin : column ≠ d.min <;> by_cases hmax : column ≠ d.max <;>
          (first | rw [if_pos hmin] | rw [if_neg hmin]) <;> (first | rw [if_pos hmax] | rw [if_neg hmax]) <;>
          simp only [List.nil_append, List.cons_append, List.append_assoc, SortedD] <;>
          sortedD_close hrest
    · simp only [hin, if_false]
      by_cases hlt : column < d.min
      · simp only [hlt, if_true, SortedD]
        sortedD_close hrest
      · simp only [hlt, if_false, SortedD]
        have := ih hrest (by omega)
        sortedD_close this

/-- set_column_width_and_style (structure builder's model) preserves the column clause -/
theorem setColAtt_sorted (column w : Int) (hid : Bool) (st : Option String) {lo hi : Int}
    (cols : List (ColD CAtt)) (h : SortedD lo hi cols) (h1 : lo < column) (h2 : column ≤ hi) :
    SortedD lo hi (setColAtt cols column w hid st) := by
  unfold setColAtt
  exact setColAtt_go_sorted column hid st _ cols h h1 h2

/-! ## move_column_unchecked: a chain of set_column_width_and_style calls -/

theorem foldl_range_inv {β : Type} (P : β → Prop) (f : β → Nat → β) (n : Nat) (b : β) (hb : P b)
    (hf : ∀ b i, i < n → P b → P (f b i)) : P ((List.range n).foldl f b) := by
  induction n generalizing b with
  | zero => simpa using hb
  | succ m ih =>
    rw [List.range_succ, List.foldl_append]
    simp only [List.foldl_cons, List.foldl_nil]
    exact hf _ m (by omega) (ih b hb (fun b i hi hp => hf b i (by omega) hp))

/-- moving one column (source and target inside the bounds) preserves the column clause -/
theorem moveColAtts_sorted (column d : Int) {lo hi : Int} (cols : List (ColD CAtt)) (h : SortedD lo hi cols)
    (h1 : lo < column) (h2 : column ≤ hi) (h3 : lo < column + d) (h4 : column + d ≤ hi) :
    SortedD lo hi (moveColAtts cols column d) := by
  unfold moveColAtts
  simp only
  apply setColAtt_sorted _ _ _ _ _ _ h3 h4
  by_cases hd : d > 0
  · simp only [hd, if_true]
    apply foldl_range_inv (fun cs => SortedD lo hi cs) _ _ _ h
    intro b i hi' hb
    have : (i : Int) < d := by omega
    exact setColAtt_sorted _ _ _ _ b hb (by omega) (by omega)
  · simp only [hd, if_false]
    apply foldl_range_inv (fun cs => SortedD lo hi cs) _ _ _ h
    intro b i hi' hb
    have : (i : Int) < -d := by omega
    exact setColAtt_sorted _ _ _ _ b hb (by omega) (by omega)

/-- the per-sheet rewrite of `worksheet.cols` by one structural step (what `stepCols` applies to
    the descriptors of the edited sheet) -/
def stepColsD (o : Op) (cols : List (ColD CAtt)) : List (ColD CAtt) :=
  match o with
  | .insert r k => insertCols r k cols
  | .delete r k => deleteCols r k cols
  | .move1 r d => moveColAtts cols r d

theorem mem_blockOpsPos {r d : Int} {n : Nat} {o : Op} (h : o ∈ blockOpsPos r d n) :
    ∃ i : Nat, i < n ∧ o = .move1 (r + i) d := by
  induction n with
  | zero => simp [blockOpsPos] at h
  | succ m ih =>
    simp only [blockOpsPos, List.mem_cons] at h
    rcases h with rfl | h
    · exact ⟨m, by omega, rfl⟩
    · obtain ⟨i, hi, rfl⟩ := ih h; exact ⟨i, by omega, rfl⟩

theorem mem_blockOpsNeg {r d : Int} {n : Nat} {o : Op} (h : o ∈ blockOpsNeg r d n) :
    ∃ i : Nat, i < n ∧ o = .move1 (r + i) d := by
  induction n generalizing r with
  | zero => simp [blockOpsNeg] at h
  | succ m ih =>
    simp only [blockOpsNeg, List.mem_cons] at h
    rcases h with rfl | h
    · exact ⟨0, by omega, by simp⟩
    · obtain ⟨i, hi, rfl⟩ := ih h
      exact ⟨i + 1, by omega, by congr 1; omega⟩

/-- move_columns_action (block of `n` columns by `d`, arguments as the code accepts them)
    preserves the column clause -/
theorem moveBlock_sorted (r : Int) (n : Nat) (d : Int) {lo hi : Int} (cols : List (ColD CAtt))
    (h : SortedD lo hi cols) (h1 : lo < r) (h2 : r + n - 1 ≤ hi) (h3 : lo < r + d) (h4 : r + n - 1 + d ≤ hi) :
    SortedD lo hi ((blockOps r n d).foldl (fun cs o => stepColsD o cs) cols) := by
  have key : ∀ (ops : List Op), (∀ o ∈ ops, ∃ i : Nat, i < n ∧ o = .move1 (r + i) d) →
      ∀ cs, SortedD lo hi cs → SortedD lo hi (ops.foldl (fun cs o => stepColsD o cs) cs) := by
    intro ops
    induction ops with
    | nil => intro _ cs hcs; exact hcs
    | cons o os ih =>
      intro hall cs hcs
      simp only [List.foldl_cons]
      apply ih (fun o' ho' => hall o' (List.mem_cons_of_mem _ ho'))
      obtain ⟨i, hi, rfl⟩ := hall o List.mem_cons_self
      exact moveColAtts_sorted _ _ cs hcs (by omega) (by omega) (by omega) (by omega)
  unfold blockOps
  by_cases hd : d > 0
  · simp only [hd, if_true]
    exact key _ (fun o ho => mem_blockOpsPos ho) cols h
  · simp only [hd, if_false]
    exact key _ (fun o ho => mem_blockOpsNeg ho) cols h

/-! ## rows: one entry per row index, inside the grid -/

/-- the row clause of C27 on the list of row indices of one sheet's `rows` -/
def RowsWF (rs : List Int) : Prop := rs.Nodup ∧ ∀ r ∈ rs, 1 ≤ r ∧ r ≤ 1048576

/-- the `rows` loops of insert_rows / delete_rows / move_row_unchecked on the row indices -/
def stepRowIdx (o : Op) (rs : List Int) : List Int := rs.filterMap (rowDescCoord o)

theorem rowDescCoord_inj (o : Op) (ho : o.valid) (a a' b : Int)
    (h : rowDescCoord o a = some b) (h' : rowDescCoord o a' = some b) : a = a' := by
  cases o with
  | insert r k =>
    have hk : 0 < k := ho
    simp only [rowDescCoord] at h h'
    split at h <;> split at h' <;> (try split at h) <;> (try split at h') <;> simp_all <;> omega
  | delete r k =>
    have hk : 0 < k := ho
    simp only [rowDescCoord] at h h'
    split at h <;> split at h' <;> (try split at h) <;> (try split at h') <;> simp_all <;> omega
  | move1 r d =>
    simp only [rowDescCoord] at h h'
    split at h <;> split at h' <;> (try split at h) <;> (try split at h') <;>
      (try split at h) <;> (try split at h') <;> simp_all <;> omega

/-- the three row loops never produce two entries for one row -/
theorem stepRowIdx_nodup (o : Op) (ho : o.valid) (rs : List Int) (h : rs.Nodup) : (stepRowIdx o rs).Nodup := by
  unfold stepRowIdx
  apply List.Pairwise.filterMap (R := (· ≠ ·)) _ _ h
  intro a a' hne b hb b' hb' hbb
  subst hbb
  exact hne (rowDescCoord_inj o ho a a' b hb hb')

theorem mem_stepRowIdx {o : Op} {rs : List Int} {x : Int} (h : x ∈ stepRowIdx o rs) :
    ∃ r ∈ rs, rowDescCoord o r = some x := by
  simpa [stepRowIdx, List.mem_filterMap] using h

/-- delete_rows preserves the row clause -/
theorem rows_delete_wf (r k : Int) (hk : 0 < k) (hr : 1 ≤ r) (rs : List Int) (h : RowsWF rs) :
    RowsWF (stepRowIdx (.delete r k) rs) := by
  refine ⟨stepRowIdx_nodup (.delete r k) hk rs h.1, ?_⟩
  intro x hx
  obtain ⟨y, hy, he⟩ := mem_stepRowIdx hx
  have := h.2 y hy
  simp only [rowDescCoord] at he
  split at he <;> (try split at he) <;> simp_all <;> omega

/-- insert_rows keeps rows unique and ≥ 1; it keeps them inside the grid when no entry is pushed
    past the last row (the code checks the cells, not the row entries) -/
theorem rows_insert_wf (r k : Int) (hk : 0 < k) (rs : List Int) (h : RowsWF rs)
    (hfit : ∀ y ∈ rs, r ≤ y → y + k ≤ 1048576) : RowsWF (stepRowIdx (.insert r k) rs) := by
  refine ⟨stepRowIdx_nodup (.insert r k) hk rs h.1, ?_⟩
  intro x hx
  obtain ⟨y, hy, he⟩ := mem_stepRowIdx hx
  have hb := h.2 y hy
  have hf := hfit y hy
  simp only [rowDescCoord] at he
  by_cases hlt : y < r
  · simp only [hlt, if_true, Option.some.injEq] at he; omega
  · have hge : y ≥ r := by omega
    simp only [hlt, hge, if_true, if_false, Option.some.injEq] at he
    have := hf (by omega); omega

/-- move_row_unchecked (source and target in the grid) preserves the row clause -/
theorem rows_move1_wf (r d : Int) (h1 : 1 ≤ r) (h2 : r ≤ 1048576) (h3 : 1 ≤ r + d) (h4 : r + d ≤ 1048576)
    (rs : List Int) (h : RowsWF rs) : RowsWF (stepRowIdx (.move1 r d) rs) := by
  refine ⟨stepRowIdx_nodup (.move1 r d) trivial rs h.1, ?_⟩
  intro x hx
  obtain ⟨y, hy, he⟩ := mem_stepRowIdx hx
  have := h.2 y hy
  simp only [rowDescCoord] at he
  split at he <;> (try split at he) <;> (try split at he) <;> simp_all <;> omega

/-- move_rows_action (block of `n` rows by `d`, arguments as the code accepts them) -/
theorem rows_moveBlock_wf (r : Int) (n : Nat) (d : Int) (h1 : 1 ≤ r) (h2 : r + n - 1 ≤ 1048576)
    (h3 : 1 ≤ r + d) (h4 : r + n - 1 + d ≤ 1048576) (rs : List Int) (h : RowsWF rs) :
    RowsWF ((blockOps r n d).foldl (fun rs o => stepRowIdx o rs) rs) := by
  have key : ∀ (ops : List Op), (∀ o ∈ ops, ∃ i : Nat, i < n ∧ o = .move1 (r + i) d) →
      ∀ rs, RowsWF rs → RowsWF (ops.foldl (fun rs o => stepRowIdx o rs) rs) := by
    intro ops
    induction ops with
    | nil => intro _ rs hrs; exact hrs
    | cons o os ih =>
      intro hall rs hrs
      simp only [List.foldl_cons]
      apply ih (fun o' ho' => hall o' (List.mem_cons_of_mem _ ho'))
      obtain ⟨i, hi, rfl⟩ := hall o List.mem_cons_self
      exact rows_move1_wf _ _ (by omega) (by omega) (by omega) (by omega) rs hrs
  unfold blockOps
  by_cases hd : d > 0
  · simp only [hd, if_true]
    exact key _ (fun o ho => mem_blockOpsPos ho) rs h
  · simp only [hd, if_false]
    exact key _ (fun o ho => mem_blockOpsNeg ho) rs h

end IronCalc.ColsWF
