import IronCalc.Sheet.Structure
/-
  M-Sigma at sheet level: printing of references (stringify_reference), and the structural actions of
  base/src/actions.rs applied to a small persistent workbook state (cells, row descriptors, column
  descriptors, links) — what the driver executes for the `c12-15-sigma` correspondence.
  No Mathlib (imported by the driver).
-/
namespace IronCalc.Structure

/-! ## printing -/

-- models expressions/utils/mod.rs::number_to_column (valid columns only; callers check the grid first)
def colNameAux : Nat → Nat → List Char → List Char
  | 0, _, acc => acc
  | fuel + 1, i, acc =>
    if i = 0 then acc else colNameAux fuel ((i - 1) / 26) (Char.ofNat (65 + (i - 1) % 26) :: acc)

def colName (n : Int) : String := String.ofList (colNameAux 4 n.toNat [])

def sheetName (i : Nat) : String := "Sheet" ++ toString (i + 1)

-- models the tail of stringify_reference: `$` markers, omitted parts of full ranges, sheet prefix
def printPoint (prefixed : Option Nat) (ra : Bool) (r : Int) (ca : Bool) (c : Int) (omitRow omitCol : Bool) : String :=
  let rowS := if omitRow then "" else (if ra then "$" else "") ++ toString r
  let colS := if omitCol then "" else (if ca then "$" else "") ++ colName c
  match prefixed with
  | some s => sheetName s ++ "!" ++ colS ++ rowS
  | none => colS ++ rowS

def noDisp : Disp := ⟨.row, 1000000, .insert 1 1⟩   -- DisplaceData::None: matches no sheet

def printRefDisp (d : Disp) (h : Host) (q : Ref) : String :=
  match rhoRef d h q with
  | some (x, y) => printPoint (if q.named then some q.sheet else none) q.row.abs x q.col.abs y false false
  | none => "#REF!"

/-- text of one atom under displacement `d` (= `to_string_displaced` restricted to the atom) -/
def printAtomDisp (d : Disp) (h : Host) : Atom → String
  | .ref q => printRefDisp d h q
  | .range g =>
    let (p1, p2) := rhoRange d h g
    let s1 := match p1 with
      | some (x, y) => printPoint (if g.named then some g.sheet else none) g.r1.abs x g.c1.abs y g.fullRow g.fullCol
      | none => "#REF!"
    let s2 := match p2 with
      | some (x, y) => printPoint none g.r2.abs x g.c2.abs y g.fullRow g.fullCol
      | none => "#REF!"
    s1 ++ ":" ++ s2
  | .err => "#REF!"
  | .broken l r =>
    let f (o : Option Ref) : String :=
      match o with
      | some q => printRefDisp d h q
      | none => "#REF!"
    f l ++ ":" ++ f r
  | .frozen pre p1 p2 oR oC =>
    let f (pre : Option Nat) (o : Option (Bool × Int × Bool × Int)) : String :=
      match o with
      | some (ra, x, ca, y) => printPoint pre ra x ca y oR oC
      | none => "#REF!"
    f pre p1 ++ ":" ++ f none p2

/-- text of one atom as `get_cell_formula` shows it -/
def printAtom (h : Host) (a : Atom) : String := printAtomDisp noDisp h a

/-! ## workbook state -/

inductive Body where
  | val (obs : String)                         -- a cell without formula: its observable (content, type, style …), opaque
  | fml (tpl : String) (atoms : List Atom) (obs : String)
deriving Repr, Inhabited

structure CellE where
  sheet : Nat
  row : Int
  col : Int
  body : Body
deriving Repr, Inhabited

/-- column attributes as `get_actual_column_width` / `is_column_hidden` / `get_column_style` see them -/
structure CAtt where
  width : Option Int      -- `none`: no custom width (DEFAULT_COLUMN_WIDTH)
  hidden : Bool
  style : Option String
deriving DecidableEq, Repr, Inhabited

structure RowE where
  sheet : Nat
  r : Int
  hidden : Bool
  obs : String
deriving Repr, Inhabited

structure LinkE where
  sheet : Nat
  row : Int
  col : Int
  id : String
deriving Repr, Inhabited

structure Book where
  cells : List CellE
  rows : List RowE
  cols : List (Nat × ColD CAtt)      -- (sheet, descriptor), in `worksheet.cols` order
  links : List LinkE
deriving Repr, Inhabited

def CellE.host (c : CellE) : Host := ⟨c.sheet, c.row, c.col⟩

def CellE.coord (ax : Axis) (c : CellE) : Int := match ax with | .row => c.row | .col => c.col

def CellE.setCoord (ax : Axis) (c : CellE) (x : Int) : CellE :=
  match ax with | .row => { c with row := x } | .col => { c with col := x }

-- models actions.rs::move_cell: a cell without formula is moved as it is; a formula is re-entered at the target
def moveCellTo (ax : Axis) (c : CellE) (x : Int) : CellE :=
  let c' := c.setCoord ax x
  match c.body with
  | .val _ => c'
  | .fml tpl atoms obs =>
    if x = c.coord ax then c' else { c' with body := .fml tpl (atoms.map (retypeAtom c.host c'.host)) obs }

/-! ### column descriptors under a single column move -/

def colsOf (b : Book) (s : Nat) : List (ColD CAtt) := (b.cols.filter (·.1 = s)).map (·.2)

def findCol (cols : List (ColD CAtt)) (x : Int) : Option (ColD CAtt) :=
  cols.find? (fun c => decide (c.min ≤ x ∧ x ≤ c.max))

-- models worksheet.rs::get_actual_column_width (pixels; DEFAULT_COLUMN_WIDTH = 90), is_column_hidden, get_column_style
def actualWidth (cols : List (ColD CAtt)) (x : Int) : Int :=
  match findCol cols x with
  | some c => c.att.width.getD 90
  | none => 90
def colHidden (cols : List (ColD CAtt)) (x : Int) : Bool :=
  match findCol cols x with | some c => c.att.hidden | none => false
def colStyle (cols : List (ColD CAtt)) (x : Int) : Option String :=
  match findCol cols x with | some c => c.att.style | none => none

-- models worksheet.rs::set_column_width_and_style (walk the sorted descriptors, overwrite an exact single-column
-- match, split a covering descriptor — the new single-column descriptor takes the requested width, hidden flag
-- and style (repaired code, fix F29a), the two remainders keep the old attributes — or insert)
def setColAtt (cols : List (ColD CAtt)) (column : Int) (w : Int) (hidden : Bool) (style : Option String) :
    List (ColD CAtt) :=
  let wOpt : Option Int := if w = 90 then none else some w
  let rec go : List (ColD CAtt) → List (ColD CAtt)
    | [] => [⟨column, column, ⟨wOpt, hidden, style⟩⟩]
    | c :: rest =>
      if c.min ≤ column ∧ column ≤ c.max then
        if c.min = column ∧ c.max = column then ⟨column, column, ⟨wOpt, hidden, style⟩⟩ :: rest
        else
          let pre := if column ≠ c.min then [{ c with max := column - 1 }] else []
          let post := if column ≠ c.max then [{ c with min := column + 1 }] else []
          pre ++ [⟨column, column, ⟨wOpt, hidden, style⟩⟩] ++ post ++ rest
      else if column < c.min then ⟨column, column, ⟨wOpt, hidden, style⟩⟩ :: c :: rest
      else c :: go rest
  go cols

-- models the column-attribute part of actions.rs::move_column_unchecked
def moveColAtts (cols : List (ColD CAtt)) (column d : Int) : List (ColD CAtt) :=
  let target := column + d
  let w := actualWidth cols column
  let st := colStyle cols column
  let hid := colHidden cols column
  let step (cols : List (ColD CAtt)) (src dst : Int) : List (ColD CAtt) :=
    setColAtt cols dst (actualWidth cols src) (colHidden cols src) (colStyle cols src)
  let cols :=
    if d > 0 then
      (List.range d.toNat).foldl (fun cs (i : Nat) => step cs (column + 1 + i) (column + i)) cols
    else
      (List.range (-d).toNat).foldl (fun cs (i : Nat) => step cs (column - 1 - i) (column - i)) cols
  setColAtt cols target w hid st

/-! ### one step on the whole book -/

def stepCells (ax : Axis) (s : Nat) (o : Op) (cells : List CellE) : List CellE :=
  let moved := cells.filterMap fun c =>
    if c.sheet = s then (sigma o (c.coord ax)).map (moveCellTo ax c) else some c
  -- displace_cells: every formula in every sheet, hosted at its (new) position
  moved.map fun c =>
    match c.body with
    | .val _ => c
    | .fml tpl atoms obs => { c with body := .fml tpl (atoms.map (rhoAtom ⟨ax, s, o⟩ c.host)) obs }

def stepRows (ax : Axis) (s : Nat) (o : Op) (rows : List RowE) : List RowE :=
  match ax with
  | .col => rows
  | .row => rows.filterMap fun r =>
    if r.sheet = s then (rowDescCoord o r.r).map (fun x => { r with r := x }) else some r

def stepCols (ax : Axis) (s : Nat) (o : Op) (b : Book) : List (Nat × ColD CAtt) :=
  match ax with
  | .row => b.cols
  | .col =>
    let mine := colsOf b s
    let mine' := match o with
      | .insert r k => insertCols r k mine
      | .delete r k => deleteCols r k mine
      | .move1 r d => moveColAtts mine r d
    b.cols.filter (·.1 ≠ s) ++ mine'.map (fun c => (s, c))

def stepLinks (ax : Axis) (s : Nat) (o : Op) (links : List LinkE) : List LinkE :=
  links.filterMap fun l =>
    if l.sheet = s then
      match ax with
      | .row => (linkCoord o l.row).map (fun x => { l with row := x })
      | .col => (linkCoord o l.col).map (fun x => { l with col := x })
    else some l

def stepBook (ax : Axis) (s : Nat) (o : Op) (b : Book) : Book :=
  { cells := stepCells ax s o b.cells, rows := stepRows ax s o b.rows,
    cols := stepCols ax s o b, links := stepLinks ax s o b.links }

/-! ### the public actions, with their argument checks -/

def maxCoord (ax : Axis) (s : Nat) (b : Book) : Int :=
  (b.cells.filter (·.sheet = s)).foldl (fun m c => max m (c.coord ax)) 1

-- models actions.rs::insert_rows / insert_columns (array-formula pre-checks are not modelled)
def insertAction (ax : Axis) (s : Nat) (r k : Int) (b : Book) : Option Book :=
  if k ≤ 0 then none
  else if maxCoord ax s b + k > ax.last then none
  else some (stepBook ax s (.insert r k) b)

-- models actions.rs::delete_rows / delete_columns
def deleteAction (ax : Axis) (s : Nat) (r k : Int) (b : Book) : Option Book :=
  if k ≤ 0 then none
  else if ¬ (1 ≤ r ∧ r ≤ ax.last) then none
  else if r + k - 1 > ax.last then none
  else some (stepBook ax s (.delete r k) b)

-- models actions.rs::move_rows_action / move_columns_action
def moveAction (ax : Axis) (s : Nat) (r n d : Int) (b : Book) : Option Book :=
  if n ≤ 0 ∨ d = 0 then some b
  else if ¬ (1 ≤ r + d ∧ r + d ≤ ax.last ∧ 1 ≤ r + n - 1 + d ∧ r + n - 1 + d ≤ ax.last) then none
  else if ¬ (1 ≤ r ∧ r ≤ ax.last ∧ 1 ≤ r + n - 1 ∧ r + n - 1 ≤ ax.last) then none
  else some ((blockOps r n.toNat d).foldl (fun b o => stepBook ax s o b) b)

def lineHidden (ax : Axis) (s : Nat) (b : Book) (x : Int) : Bool :=
  match ax with
  | .row => match b.rows.find? (fun r => r.sheet = s ∧ r.r = x) with | some r => r.hidden | none => false
  | .col => colHidden (colsOf b s) x

-- models user_model/common.rs::move_rows_action / move_columns_action
def userMoveAction (ax : Axis) (s : Nat) (r n d : Int) (b : Book) : Option Book :=
  if d = 0 ∨ n ≤ 0 then some b
  else match userDelta ax (lineHidden ax s b) r n d with
    | none => none
    | some d' => moveAction ax s r n d' b

end IronCalc.Structure
