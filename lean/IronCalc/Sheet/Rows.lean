/-
  Row descriptors of a worksheet (`Worksheet.rows : Vec<Row>`), one entry per row, appended
  in the order rows are first touched (the list is not sorted).

  Models base/src/worksheet.rs (set_row_style, delete_row_style, set_row_hidden,
  set_row_height, is_row_hidden, row_height) and base/src/model.rs (get_row_height,
  get_row_style and the wrappers).  Heights are `f64`; as for columns the model is parametric
  in the height type and its operations (`store h = h / ROW_HEIGHT_FACTOR`,
  `load h = h * ROW_HEIGHT_FACTOR`).
-/
namespace IronCalc.Sheet

structure HeightOps (H : Type) where
  /-- `h / constants::ROW_HEIGHT_FACTOR` -/
  store : H → H
  /-- `h * constants::ROW_HEIGHT_FACTOR` -/
  load : H → H
  /-- `constants::DEFAULT_ROW_HEIGHT` -/
  dflt : H
  /-- `0.0` -/
  zero : H
  /-- `h < 0.0` -/
  isNeg : H → Bool

/-- models base/src/types.rs::Row -/
structure Row (H : Type) where
  r : Int
  height : H
  customFormat : Bool
  customHeight : Bool
  s : Int
  hidden : Bool
deriving DecidableEq, Repr

inductive RowErr
  | invalidRow       -- "Row number '{row}' is not valid."
  | negativeHeight   -- "Can not set a negative height: {height}"
deriving DecidableEq, Repr

/-- models base/src/constants.rs::LAST_ROW -/
def lastRow : Int := 1048576

/-- models base/src/expressions/utils/mod.rs::is_valid_row -/
def validRow (r : Int) : Bool := decide (1 ≤ r) && decide (r ≤ lastRow)

variable {H : Type}

/-- `for r in rows { if r.r == row { … } }`: the first entry for the row -/
def findRow : List (Row H) → Int → Option (Row H)
  | [], _ => none
  | d :: rest, r => if d.r = r then some d else findRow rest r

/-- `for r in rows.iter_mut() { if r.r == row { f(r); return } }`: update the first entry for
    the row; `none` when the loop falls through -/
def updFirst (row : Int) (f : Row H → Row H) : List (Row H) → Option (List (Row H))
  | [] => none
  | d :: rest =>
    if d.r = row then some (f d :: rest)
    else match updFirst row f rest with
      | some rest' => some (d :: rest')
      | none => none

/-- the shape shared by set_row_style, set_row_hidden and set_row_height:
    `for r in rows.iter_mut() { if r.r == row { f(r); return Ok(()) } }  rows.push(n);` -/
def updOrPush (row : Int) (f : Row H → Row H) (n : Row H) (rows : List (Row H)) : List (Row H) :=
  match updFirst row f rows with
  | some rows' => rows'
  | none => rows ++ [n]

/-- models worksheet.rs::is_row_hidden -/
def isRowHidden (rows : List (Row H)) (row : Int) : Except RowErr Bool :=
  if !validRow row then .error .invalidRow else
  match findRow rows row with
  | some d => .ok d.hidden
  | none => .ok false

/-- models worksheet.rs::row_height (model.rs::get_row_height) -/
def rowHeight (ops : HeightOps H) (rows : List (Row H)) (row : Int) : Except RowErr H :=
  if !validRow row then .error .invalidRow else
  match findRow rows row with
  | some d => if d.hidden then .ok ops.zero else .ok (ops.load d.height)
  | none => .ok ops.dflt

/-- models model.rs::get_row_style at the level of style indices: `Some(get_style(r.s))` for the
    first entry of the row (whatever its `custom_format`), `None` when the row has no entry -/
def getRowStyle (rows : List (Row H)) (row : Int) : Option Int :=
  match findRow rows row with
  | some d => some d.s
  | none => none

/-- the row part of model.rs::get_cell_style_index / worksheet.rs::get_row_column_style:
    the row's style index when it has `custom_format`, else fall through to the column -/
def rowCellStyle (rows : List (Row H)) (row : Int) : Option Int :=
  match findRow rows row with
  | some d => if d.customFormat then some d.s else none
  | none => none

/-- models worksheet.rs::set_row_style (no validity check in the code) -/
def setRowStyle (ops : HeightOps H) (rows : List (Row H)) (row : Int) (styleIndex : Int) : List (Row H) :=
  let customFormat := decide (styleIndex ≠ 0)
  updOrPush row (fun r => { r with s := styleIndex, customFormat := customFormat })
    ⟨row, ops.store ops.dflt, customFormat, false, styleIndex, false⟩ rows

/-- models worksheet.rs::delete_row_style (no validity check in the code) -/
def deleteRowStyle (rows : List (Row H)) (row : Int) : List (Row H) :=
  match updFirst row (fun r => { r with s := 0, customFormat := false }) rows with
  | some rows' => rows'
  | none => rows

/-- models worksheet.rs::set_row_hidden -/
def setRowHidden (ops : HeightOps H) (rows : List (Row H)) (row : Int) (hidden : Bool) :
    Except RowErr (List (Row H)) :=
  if !validRow row then .error .invalidRow else
  .ok (updOrPush row (fun r => { r with hidden := hidden }) ⟨row, ops.store ops.dflt, false, false, 0, hidden⟩ rows)

/-- models worksheet.rs::set_row_height -/
def setRowHeight (ops : HeightOps H) (rows : List (Row H)) (row : Int) (height : H) :
    Except RowErr (List (Row H)) :=
  if !validRow row then .error .invalidRow
  else if ops.isNeg height then .error .negativeHeight
  else
    match isRowHidden rows row with
    | .error e => .error e
    | .ok hidden =>
      .ok (updOrPush row (fun r => { r with height := ops.store height, customHeight := true })
        ⟨row, ops.store height, false, true, 0, hidden⟩ rows)

/-! ### Denotation -/

/-- the attributes of a row: actual height (`row_height` reports `zero` when hidden), hidden flag,
    declared style index (`get_row_style`, with "no entry" read as index 0, the default style) and
    the style cells of the row inherit (`custom_format` gate of get_cell_style_index) -/
structure RowAttr (H : Type) where
  height : H
  hidden : Bool
  style : Int
  cellStyle : Option Int
deriving DecidableEq, Repr

def rowDescAttr (ops : HeightOps H) (d : Row H) : RowAttr H :=
  ⟨ops.load d.height, d.hidden, d.s, if d.customFormat then some d.s else none⟩

def noRow (ops : HeightOps H) : RowAttr H := ⟨ops.dflt, false, 0, none⟩

def rowAttr (ops : HeightOps H) (rows : List (Row H)) (r : Int) : RowAttr H :=
  match findRow rows r with
  | some d => rowDescAttr ops d
  | none => noRow ops

/-- no row has two entries -/
def NoDupRows : List (Row H) → Prop
  | [] => True
  | d :: rest => (∀ e ∈ rest, e.r ≠ d.r) ∧ NoDupRows rest

instance decNoDupRows : (rows : List (Row H)) → Decidable (NoDupRows rows)
  | [] => isTrue trivial
  | d :: rest =>
    have := decNoDupRows rest
    by unfold NoDupRows; exact inferInstance

end IronCalc.Sheet
