import IronCalc.Sheet.Rows
/-
  Helper lemmas for C29 (rows): what "update the first entry, else push" does to the first-match
  lookup `findRow`, for ANY list of row entries (duplicates included).
-/
namespace IronCalc.Sheet

variable {H : Type}

theorem findRow_cons (d : Row H) (rest : List (Row H)) (x : Int) :
    findRow (d :: rest) x = if d.r = x then some d else findRow rest x := rfl

theorem updFirst_none {row : Int} {f : Row H → Row H} {rows : List (Row H)} :
    updFirst row f rows = none → findRow rows row = none := by
  induction rows with
  | nil => intro _; rfl
  | cons d rest ih =>
    simp only [updFirst, findRow_cons]
    by_cases h : d.r = row
    · simp [h]
    · simp only [h, if_false]
      cases hu : updFirst row f rest with
      | none => intro _; exact ih hu
      | some r => simp

/-- updating the first entry of `row` by an `r`-preserving `f` changes the lookup of `row` by `f`
    and no other lookup -/
theorem findRow_updFirst {row : Int} {f : Row H → Row H} (hf : ∀ d, (f d).r = d.r)
    {rows rows' : List (Row H)} (h : updFirst row f rows = some rows') (x : Int) :
    findRow rows' x = if x = row then (findRow rows row).map f else findRow rows x := by
  induction rows generalizing rows' with
  | nil => simp [updFirst] at h
  | cons d rest ih =>
    simp only [updFirst] at h
    by_cases hd : d.r = row
    · simp only [hd, if_true, Option.some.injEq] at h
      subst h
      simp only [findRow_cons, hf, hd, if_true, Option.map_some]
      by_cases hx : x = row
      · simp [hx]
      · have : ¬ row = x := fun e => hx e.symm
        simp [hx, this]
    · simp only [hd, if_false] at h
      cases hu : updFirst row f rest with
      | none => simp [hu] at h
      | some r =>
        simp only [hu, Option.some.injEq] at h
        subst h
        simp only [findRow_cons, ih hu, hd, if_false]
        by_cases hx : x = row
        · subst hx; simp [hd]
        · simp [hx]

theorem findRow_append (rows : List (Row H)) (n : Row H) (x : Int) :
    findRow (rows ++ [n]) x =
      match findRow rows x with
      | some d => some d
      | none => if n.r = x then some n else none := by
  induction rows with
  | nil => simp [findRow]
  | cons d rest ih =>
    simp only [List.cons_append, findRow_cons, ih]
    by_cases h : d.r = x <;> simp [h]

/-- pushing an entry for a row that has none changes the lookup of that row only -/
theorem findRow_push {rows : List (Row H)} {n : Row H} (h : findRow rows n.r = none) (x : Int) :
    findRow (rows ++ [n]) x = if x = n.r then some n else findRow rows x := by
  rw [findRow_append]
  by_cases hx : x = n.r
  · subst hx; simp [h]
  · have : ¬ n.r = x := fun e => hx e.symm
    simp only [hx, this, if_false]
    cases findRow rows x <;> rfl

/-- "update the first entry of `row`, else push `n`" sets the lookup of `row` and no other lookup -/
theorem findRow_updOrPush {row : Int} {f : Row H → Row H} (hf : ∀ d, (f d).r = d.r) {n : Row H} (hn : n.r = row)
    (rows : List (Row H)) (x : Int) :
    findRow (updOrPush row f n rows) x =
      if x = row then some (match findRow rows row with | some d => f d | none => n) else findRow rows x := by
  unfold updOrPush
  cases hu : updFirst row f rows with
  | some rows' =>
    simp only [findRow_updFirst hf hu]
    by_cases hx : x = row
    · simp only [hx, if_true]
      cases hfr : findRow rows row with
      | some d => rfl
      | none =>
        exfalso
        -- updFirst succeeded, so the row has an entry
        have : ∀ (l l' : List (Row H)), updFirst row f l = some l' → findRow l row ≠ none := by
          intro l
          induction l with
          | nil => intro l' h; simp [updFirst] at h
          | cons d rest ih =>
            intro l' h
            simp only [updFirst] at h
            simp only [findRow_cons]
            by_cases hd : d.r = row
            · simp [hd]
            · simp only [hd, if_false] at h ⊢
              cases hu2 : updFirst row f rest with
              | none => simp [hu2] at h
              | some r => exact ih r hu2
        exact this rows rows' hu hfr
    · simp [hx]
  | none =>
    have h0 := updFirst_none hu
    subst hn
    simp only [findRow_push h0, h0]

theorem rowAttr_def (ops : HeightOps H) (rows : List (Row H)) (x : Int) :
    rowAttr ops rows x = match findRow rows x with
      | some d => rowDescAttr ops d
      | none => noRow ops := rfl

/-! preservation of "one entry per row" -/

theorem mem_updFirst {row : Int} {f : Row H → Row H} (hf : ∀ d, (f d).r = d.r)
    {rows rows' : List (Row H)} (h : updFirst row f rows = some rows') :
    ∀ e ∈ rows', ∃ e0 ∈ rows, e.r = e0.r := by
  induction rows generalizing rows' with
  | nil => simp [updFirst] at h
  | cons d rest ih =>
    simp only [updFirst] at h
    by_cases hd : d.r = row
    · simp only [hd, if_true, Option.some.injEq] at h
      subst h
      intro e he
      rcases List.mem_cons.mp he with rfl | he
      · exact ⟨d, List.mem_cons_self, hf d⟩
      · exact ⟨e, List.mem_cons_of_mem _ he, rfl⟩
    · simp only [hd, if_false] at h
      cases hu : updFirst row f rest with
      | none => simp [hu] at h
      | some r =>
        simp only [hu, Option.some.injEq] at h
        subst h
        intro e he
        rcases List.mem_cons.mp he with rfl | he
        · exact ⟨e, List.mem_cons_self, rfl⟩
        · obtain ⟨e0, h0, h1⟩ := ih hu e he
          exact ⟨e0, List.mem_cons_of_mem _ h0, h1⟩

theorem noDup_updFirst {row : Int} {f : Row H → Row H} (hf : ∀ d, (f d).r = d.r)
    {rows rows' : List (Row H)} (hn : NoDupRows rows) (h : updFirst row f rows = some rows') :
    NoDupRows rows' := by
  induction rows generalizing rows' with
  | nil => simp [updFirst] at h
  | cons d rest ih =>
    simp only [updFirst] at h
    simp only [NoDupRows] at hn
    by_cases hd : d.r = row
    · simp only [hd, if_true, Option.some.injEq] at h
      subst h
      simp only [NoDupRows, hf]
      exact hn
    · simp only [hd, if_false] at h
      cases hu : updFirst row f rest with
      | none => simp [hu] at h
      | some r =>
        simp only [hu, Option.some.injEq] at h
        subst h
        simp only [NoDupRows]
        refine ⟨?_, ih hn.2 hu⟩
        intro e he
        obtain ⟨e0, h0, h1⟩ := mem_updFirst hf hu e he
        rw [h1]; exact hn.1 e0 h0

theorem findRow_none_iff {rows : List (Row H)} {row : Int} :
    findRow rows row = none ↔ ∀ e ∈ rows, e.r ≠ row := by
  induction rows with
  | nil => simp [findRow]
  | cons d rest ih =>
    simp only [findRow_cons, List.mem_cons, forall_eq_or_imp]
    by_cases h : d.r = row
    · simp [h]
    · simp [h, ih]

theorem noDup_push {rows : List (Row H)} {n : Row H} (hn : NoDupRows rows) (h : findRow rows n.r = none) :
    NoDupRows (rows ++ [n]) := by
  induction rows with
  | nil => simp [NoDupRows]
  | cons d rest ih =>
    simp only [NoDupRows] at hn
    simp only [findRow_cons] at h
    by_cases hd : d.r = n.r
    · simp [hd] at h
    · simp only [hd, if_false] at h
      simp only [List.cons_append, NoDupRows]
      refine ⟨?_, ih hn.2 h⟩
      intro e he
      rcases List.mem_append.mp he with he | he
      · exact hn.1 e he
      · simp only [List.mem_singleton] at he
        subst he; exact fun e => hd e.symm

theorem setRowHeight_toBool (ho : HeightOps H) (rows : List (Row H)) (r : Int) (v : H) :
    (setRowHeight ho rows r v).toBool = (validRow r && !ho.isNeg v) := by
  unfold setRowHeight isRowHidden
  cases hv : validRow r <;> cases hn : ho.isNeg v <;> simp [Except.toBool]
  cases findRow rows r <;> rfl

theorem setRowHidden_toBool (ho : HeightOps H) (rows : List (Row H)) (r : Int) (b : Bool) :
    (setRowHidden ho rows r b).toBool = validRow r := by
  unfold setRowHidden
  cases validRow r <;> simp [Except.toBool]

theorem noDup_updOrPush {row : Int} {f : Row H → Row H} (hf : ∀ d, (f d).r = d.r) {n : Row H} (hn : n.r = row)
    {rows : List (Row H)} (h : NoDupRows rows) : NoDupRows (updOrPush row f n rows) := by
  unfold updOrPush
  cases hu : updFirst row f rows with
  | some rows' => exact noDup_updFirst hf h hu
  | none =>
    have h0 := updFirst_none hu
    subst hn
    exact noDup_push h h0

end IronCalc.Sheet
