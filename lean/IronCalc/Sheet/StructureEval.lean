import IronCalc.Sheet.StructureProofs
/-
  Value level of C12/C13/C15: an abstract evaluator that reads the grid only through references, for the
  safe fragment the properties name (position-independent functions of cell values; ranges only under
  aggregates that ignore blank lines).  One axis: every reference carries its coordinate on the edited axis
  (`End`, relative or absolute) and an opaque cross part `J` (sheet + the other coordinate or column window).
-/
namespace IronCalc.Structure

/-- safe-fragment formulas -/
inductive Fm (V J : Type) where
  | const (v : V)
  | cell (on : Bool) (e : End) (j : J)              -- `on`: the reference is on the edited sheet
  | agg (g : Nat) (on : Bool) (a b : End) (j : J)   -- aggregate `g` over the lines a..b (window `j`)
  | app1 (f : Nat) (x : Fm V J)
  | app2 (f : Nat) (x y : Fm V J)

/-- interpretation of the function symbols -/
structure Interp (V : Type) where
  blank : V
  fn1 : Nat → V → V
  fn2 : Nat → V → V → V
  agg : Nat → List V → V

/-- "does not depend on the number of blank cells inside the ranges it reads" -/
def BlankInsensitive {V} (I : Interp V) : Prop :=
  ∀ g l1 l2, I.agg g (l1 ++ I.blank :: l2) = I.agg g (l1 ++ l2)

/-- the values of `n` consecutive lines from `a` on -/
def lines {V} (F : Int → V) (a : Int) : Nat → List V
  | 0 => []
  | n + 1 => F a :: lines F (a + 1) n

/-- a grid: (on the edited sheet?) → line index → cross part → value -/
abbrev Grid (V J : Type) := Bool → Int → J → V

def eval {V J} (I : Interp V) (G : Grid V J) (h : Int) : Fm V J → V
  | .const v => v
  | .cell on e j => G on (e.resolve h) j
  | .agg g on a b j =>
    I.agg g (lines (fun x => G on x j) (a.resolve h) ((b.resolve h) - (a.resolve h) + 1).toNat)
  | .app1 f x => I.fn1 f (eval I G h x)
  | .app2 f x y => I.fn2 f (eval I G h x) (eval I G h y)

/-- `move_cell` re-enters the formula text at the new host -/
def Fm.retype {V J} (h h' : Int) : Fm V J → Fm V J
  | .const v => .const v
  | .cell on e j => .cell on (retypeEnd h h' e) j
  | .agg g on a b j => .agg g on (retypeEnd h h' a) (retypeEnd h h' b) j
  | .app1 f x => .app1 f (x.retype h h')
  | .app2 f x y => .app2 f (x.retype h h') (y.retype h h')

/-- one coordinate through `stringify_reference` + re-parse at host `h`; `none` = `#REF!` -/
def rhoEnd (ax : Axis) (o : Op) (h : Int) (e : End) : Option End :=
  (rhoCoord o (e.resolve h)).bind fun x => if inGrid ax x then some (End.ofA1 h e.abs x) else none

/-- displacement of a whole formula hosted at `h` (`displace_cells`); `none` = some reference became `#REF!` -/
def Fm.rho {V J} (ax : Axis) (o : Op) (h : Int) : Fm V J → Option (Fm V J)
  | .const v => some (.const v)
  | .cell on e j => if on then (rhoEnd ax o h e).map (fun e' => .cell on e' j) else some (.cell on e j)
  | .agg g on a b j =>
    if on then
      (rhoEnd ax o h a).bind fun a' => (rhoEnd ax o h b).map fun b' => .agg g on a' b' j
    else some (.agg g on a b j)
  | .app1 f x => (x.rho ax o h).map (.app1 f)
  | .app2 f x y => (x.rho ax o h).bind fun x' => (y.rho ax o h).map fun y' => .app2 f x' y'

/-! ### list lemmas -/

theorem lines_append {V} (F : Int → V) (a : Int) (n m : Nat) :
    lines F a (n + m) = lines F a n ++ lines F (a + n) m := by
  induction n generalizing a with
  | zero => simp [lines]
  | succ n ih =>
    have e : n + 1 + m = (n + m) + 1 := by omega
    rw [e]
    simp only [lines, List.cons_append, ih (a + 1)]
    congr 2
    have : a + 1 + (n : Int) = a + ((n + 1 : Nat) : Int) := by omega
    rw [this]

theorem lines_congr {V} (F F' : Int → V) (a t : Int) (n : Nat)
    (h : ∀ i, a ≤ i → i < a + n → F i = F' (i + t)) : lines F a n = lines F' (a + t) n := by
  induction n generalizing a with
  | zero => rfl
  | succ n ih =>
    simp only [lines]
    rw [h a (by omega) (by omega)]
    congr 1
    have : a + t + 1 = a + 1 + t := by omega
    rw [this]
    exact ih (a + 1) (fun i h1 h2 => h i (by omega) (by omega))

theorem lines_blank {V} (F : Int → V) (bl : V) (a : Int) (n : Nat)
    (h : ∀ i, a ≤ i → i < a + n → F i = bl) : lines F a n = List.replicate n bl := by
  induction n generalizing a with
  | zero => rfl
  | succ n ih =>
    simp only [lines, List.replicate_succ]
    rw [h a (by omega) (by omega)]
    congr 1
    exact ih (a + 1) (fun i h1 h2 => h i (by omega) (by omega))

theorem agg_drop_blanks {V} (I : Interp V) (hB : BlankInsensitive I) (g : Nat) (l1 l2 : List V) (n : Nat) :
    I.agg g (l1 ++ (List.replicate n I.blank ++ l2)) = I.agg g (l1 ++ l2) := by
  induction n with
  | zero => simp
  | succ n ih =>
    simp only [List.replicate_succ, List.cons_append]
    rw [hB g l1 _]
    exact ih

/-! ### resolving retyped / rewritten coordinates -/

theorem ofA1_resolve (h : Int) (abs : Bool) (x : Int) : (End.ofA1 h abs x).resolve h = x := by
  unfold End.ofA1 End.resolve
  cases abs <;> simp <;> omega

theorem retype_resolve (h h' : Int) (e : End) : (retypeEnd h h' e).resolve h' = e.resolve h := by
  unfold retypeEnd; exact ofA1_resolve _ _ _

theorem retype_abs (h h' : Int) (e : End) : (retypeEnd h h' e).abs = e.abs := rfl

theorem rhoEnd_some (ax : Axis) (o : Op) (h : Int) (e e' : End) (he : rhoEnd ax o h e = some e') :
    rhoCoord o (e.resolve h) = some (e'.resolve h) ∧ inGrid ax (e'.resolve h) = true ∧ e'.abs = e.abs := by
  unfold rhoEnd at he
  cases hc : rhoCoord o (e.resolve h) with
  | none => rw [hc] at he; simp at he
  | some x =>
    rw [hc] at he
    simp only [Option.bind_some] at he
    split at he
    · rename_i hg
      simp only [Option.some.injEq] at he
      subst he
      rw [ofA1_resolve]
      exact ⟨rfl, hg, rfl⟩
    · cases he

/-- the aggregate over a range after an insertion equals the aggregate before it -/
theorem lines_insert {V} (I : Interp V) (hB : BlankInsensitive I) (g : Nat) (F F' : Int → V)
    (A B r k : Int) (hk : 0 < k)
    (hmove : ∀ x, F' (if x ≥ r then x + k else x) = F x)
    (hnew : ∀ y, r ≤ y → y < r + k → F' y = I.blank) :
    I.agg g (lines F' (if A ≥ r then A + k else A)
        ((if B ≥ r then B + k else B) - (if A ≥ r then A + k else A) + 1).toNat)
      = I.agg g (lines F A (B - A + 1).toNat) := by
  by_cases hAB : A ≤ B
  · by_cases h1 : A ≥ r
    · -- the whole range shifts
      have h2 : B ≥ r := by omega
      simp only [h1, h2, if_true]
      have e : (B + k - (A + k) + 1).toNat = (B - A + 1).toNat := by congr 1; omega
      rw [e]
      congr 1
      symm
      apply lines_congr
      intro i hi _
      have := hmove i
      have hi' : i ≥ r := by omega
      simp only [hi', if_true] at this
      exact this.symm
    · by_cases h2 : B ≥ r
      · -- the interior receives the new lines: the range grows
        simp only [h1, h2, if_true, if_false]
        have hn' : (B + k - A + 1).toNat = (r - A).toNat + (k.toNat + (B - r + 1).toNat) := by omega
        have hn : (B - A + 1).toNat = (r - A).toNat + (B - r + 1).toNat := by omega
        rw [hn', hn, lines_append, lines_append, lines_append]
        have ea : A + ((r - A).toNat : Int) = r := by omega
        have eb : r + (k.toNat : Int) = r + k := by omega
        rw [ea, eb]
        have l1 : lines F' A (r - A).toNat = lines F A (r - A).toNat := by
          have := lines_congr F F' A 0 (r - A).toNat (by
            intro i hi1 hi2
            have := hmove i
            have hi' : ¬ i ≥ r := by omega
            simp only [hi', if_false] at this
            simpa using this.symm)
          simpa using this.symm
        have l2 : lines F' r k.toNat = List.replicate k.toNat I.blank :=
          lines_blank F' I.blank r k.toNat (fun i hi1 hi2 => hnew i hi1 (by omega))
        have l3 : lines F' (r + k) (B - r + 1).toNat = lines F r (B - r + 1).toNat := by
          symm
          apply lines_congr
          intro i hi _
          have := hmove i
          have hi' : i ≥ r := by omega
          simp only [hi', if_true] at this
          exact this.symm
        rw [l1, l2, l3]
        exact agg_drop_blanks I hB g _ _ _
      · -- the range is above the insertion point
        simp only [h1, h2, if_false]
        congr 1
        have := lines_congr F F' A 0 (B - A + 1).toNat (by
          intro i hi1 hi2
          have := hmove i
          have hi' : ¬ i ≥ r := by omega
          simp only [hi', if_false] at this
          simpa using this.symm)
        simpa using this.symm
  · -- an empty (inverted) range stays empty
    have e1 : (B - A + 1).toNat = 0 := by omega
    have e2 : ((if B ≥ r then B + k else B) - (if A ≥ r then A + k else A) + 1).toNat = 0 := by
      split <;> split <;> omega
    rw [e1, e2]
    rfl

end IronCalc.Structure
