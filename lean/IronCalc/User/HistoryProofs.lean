import IronCalc.User.History
/-
  Generic lemmas about the undo/redo/queue machine (no diff kind is mentioned here).
  The property theorems built from them are in Props/C01..C04.
-/
namespace IronCalc.User

variable {W D Op E O : Type}

/-- the diff list `ds` links the observable states `a` (before) and `b` (after): replayed
    backwards on ANY workbook that looks like `b` it succeeds and yields one that looks like `a`,
    and replayed forwards on any workbook that looks like `a` it succeeds and yields `b`.
    ("any workbook that looks like": the laws are stated up to `obs`, because undo/redo and
    replicas replay a list on a state that is only observably equal to the recorded one.) -/
def Linked (S : Sys W D Op E) (obs : W → O) (ds : List D) (a b : O) : Prop :=
  (∀ v, obs v = b → (S.applyBack v ds).ok = true ∧ obs (S.applyBack v ds).w = a) ∧
  (∀ v, obs v = a → (S.applyFwd v ds).ok = true ∧ obs (S.applyFwd v ds).w = b)

/-- local inverse law: the list an operation records undoes it -/
def LocalInv (S : Sys W D Op E) (obs : W → O) (dom : W → Op → Prop) : Prop :=
  ∀ w o ds, dom w o → (S.doOp w o).err = none → (S.doOp w o).pushed = some ds →
    ∀ v, obs v = obs (S.doOp w o).w →
      (S.applyBack v ds).ok = true ∧ obs (S.applyBack v ds).w = obs w

/-- replay law: the list an operation records re-does it -/
def LocalFwd (S : Sys W D Op E) (obs : W → O) (dom : W → Op → Prop) : Prop :=
  ∀ w o ds, dom w o → (S.doOp w o).err = none → (S.doOp w o).pushed = some ds →
    ∀ v, obs v = obs w →
      (S.applyFwd v ds).ok = true ∧ obs (S.applyFwd v ds).w = obs (S.doOp w o).w

/-- a successful call that records nothing changed nothing observable -/
def Quiet (S : Sys W D Op E) (obs : W → O) (dom : W → Op → Prop) : Prop :=
  ∀ w o, dom w o → (S.doOp w o).err = none → (S.doOp w o).pushed = none → obs (S.doOp w o).w = obs w

/-- a failing call neither mutates nor records (the per-operation content of C04) -/
def Atomic (S : Sys W D Op E) (dom : W → Op → Prop) : Prop :=
  ∀ w o e, dom w o → (S.doOp w o).err = some e → (S.doOp w o).w = w ∧ (S.doOp w o).pushed = none

/-- the per-operation laws, on a domain `dom w o` of (state, operation) pairs -/
structure Laws (S : Sys W D Op E) (obs : W → O) (dom : W → Op → Prop) : Prop where
  inv : LocalInv S obs dom
  fwd : LocalFwd S obs dom
  quiet : Quiet S obs dom
  atomic : Atomic S dom

/-- the command is inside the domain at the state it is issued in (undo/redo/flush always are) -/
def CmdDom (dom : W → Op → Prop) (s : St W D) : Cmd Op → Prop
  | .op o => dom s.w o
  | _ => True

/-- every operation of the command list is inside the domain at the state it is issued in -/
def AllDom (S : Sys W D Op E) (dom : W → Op → Prop) : St W D → List (Cmd Op) → Prop
  | _, [] => True
  | s, cmd :: cs => CmdDom dom s cmd ∧ AllDom S dom (step S s cmd).1 cs

/-- the undo stack matches the live operations, entry by entry -/
def ChainBack (S : Sys W D Op E) (obs : W → O) (base : O) :
    List (List D) → List (Op × O) → Prop
  | [], [] => True
  | ds :: u, e :: dn => Linked S obs ds (curOf base dn) e.2 ∧ ChainBack S obs base u dn
  | _, _ => False

/-- the redo stack matches the undone operations, entry by entry -/
def ChainFwd (S : Sys W D Op E) (obs : W → O) :
    O → List (List D) → List (Op × O) → Prop
  | _, [], [] => True
  | a, ds :: r, e :: un => Linked S obs ds a e.2 ∧ ChainFwd S obs e.2 r un
  | _, _, _ => False

/-- the refinement relation between the machine and the cursor specification -/
def Refines (S : Sys W D Op E) (obs : W → O) (s : St W D) (c : Cur Op O) : Prop :=
  obs s.w = c.cur ∧ ChainBack S obs c.base s.undo c.done ∧ ChainFwd S obs c.cur s.redo c.undone

/-- what the specification does on a command, given what the implementation's operation
    reported (the spec fixes how the CURSOR moves, not what an operation computes) -/
def specStep (S : Sys W D Op E) (obs : W → O) (s : St W D) (c : Cur Op O) : Cmd Op → Cur Op O
  | .op o =>
    let r := S.doOp s.w o
    match r.err, r.pushed with
    | none, some _ => c.doOp o (obs r.w)
    | _, _ => c
  | .undo => c.undo
  | .redo => c.redo
  | .flush => c

def specRun (S : Sys W D Op E) (obs : W → O) (s : St W D) (c : Cur Op O) :
    List (Cmd Op) → Cur Op O
  | [] => c
  | cmd :: cs => specRun S obs (step S s cmd).1 (specStep S obs s c cmd) cs

theorem chainBack_length {S : Sys W D Op E} {obs : W → O} {base : O} :
    ∀ {u : List (List D)} {dn : List (Op × O)}, ChainBack S obs base u dn → u.length = dn.length
  | [], [], _ => rfl
  | _ :: u, _ :: dn, h => by
    simp only [List.length_cons]; rw [chainBack_length h.2]
  | [], _ :: _, h => h.elim
  | _ :: _, [], h => h.elim

theorem chainFwd_length {S : Sys W D Op E} {obs : W → O} :
    ∀ {a : O} {r : List (List D)} {un : List (Op × O)}, ChainFwd S obs a r un → r.length = un.length
  | _, [], [], _ => rfl
  | _, _ :: r, _ :: un, h => by
    simp only [List.length_cons]; rw [chainFwd_length h.2]
  | _, [], _ :: _, h => h.elim
  | _, _ :: _, [], h => h.elim

theorem refines_init (S : Sys W D Op E) (obs : W → O) (w : W) (q : List (Tag × List D))
    (sent : List (List (Tag × List D))) :
    Refines S obs ({ w := w, undo := [], redo := [], queue := q, sent := sent } : St W D)
      ({ base := obs w, done := [], undone := [] } : Cur Op O) :=
  ⟨rfl, trivial, trivial⟩

theorem st_eta (s : St W D) : ({ s with w := s.w } : St W D) = s := by cases s; rfl

/-- a failing operation under `Atomic` leaves the whole machine state unchanged -/
theorem doUser_atomic (S : Sys W D Op E) (dom : W → Op → Prop) (hA : Atomic S dom)
    (s : St W D) (o : Op) (e : E) (hd : dom s.w o)
    (h : (doUser S s o).2 = some e) : (doUser S s o).1 = s := by
  unfold doUser at h ⊢
  simp only at h ⊢
  obtain ⟨hw, hp⟩ := hA s.w o e hd h
  rw [hp, hw]

/-- one command preserves the refinement -/
theorem step_refines (S : Sys W D Op E) (obs : W → O) (dom : W → Op → Prop) (L : Laws S obs dom)
    (s : St W D) (c : Cur Op O) (h : Refines S obs s c) (cmd : Cmd Op) (hdom : CmdDom dom s cmd) :
    Refines S obs (step S s cmd).1 (specStep S obs s c cmd) := by
  obtain ⟨hobs, hback, hfwd⟩ := h
  cases cmd with
  | op o =>
    simp only [step, specStep, doUser]
    cases herr : (S.doOp s.w o).err with
    | some e =>
      obtain ⟨hw, hp⟩ := L.atomic s.w o e hdom herr
      rw [hp, hw]
      exact ⟨hobs, hback, hfwd⟩
    | none =>
      cases hp : (S.doOp s.w o).pushed with
      | none =>
        have hq := L.quiet s.w o hdom herr hp
        exact ⟨by simpa [hq] using hobs, hback, hfwd⟩
      | some ds =>
        refine ⟨rfl, ⟨⟨?_, ?_⟩, hback⟩, trivial⟩
        · intro v hv
          have := L.inv s.w o ds hdom herr hp v hv
          exact ⟨this.1, by rw [this.2]; exact hobs⟩
        · intro v hv
          exact L.fwd s.w o ds hdom herr hp v (by rw [hv]; exact hobs.symm)
  | undo =>
    simp only [step, specStep, undoStep]
    cases hu : s.undo with
    | nil =>
      rw [hu] at hback
      cases hd : c.done with
      | nil => simp only [Cur.undo, hd]; exact ⟨hobs, by rw [hu, hd]; trivial, hfwd⟩
      | cons e dn => rw [hd] at hback; exact hback.elim
    | cons ds rest =>
      rw [hu] at hback
      cases hd : c.done with
      | nil => rw [hd] at hback; exact hback.elim
      | cons e dn =>
        rw [hd] at hback
        obtain ⟨hl, hrest⟩ := hback
        have hcur : c.cur = e.2 := by simp [Cur.cur, hd, curOf]
        have hb := hl.1 s.w (by rw [hobs, hcur])
        simp only [hb.1, if_true, Cur.undo, hd]
        refine ⟨?_, hrest, ?_⟩
        · simpa [Cur.cur] using hb.2
        · simp only [Cur.cur]
          exact ⟨hl, by rw [← hcur]; exact hfwd⟩
  | redo =>
    simp only [step, specStep, redoStep]
    cases hr : s.redo with
    | nil =>
      rw [hr] at hfwd
      cases hd : c.undone with
      | nil => simp only [Cur.redo, hd]; exact ⟨hobs, hback, by rw [hr, hd]; trivial⟩
      | cons e un => rw [hd] at hfwd; exact hfwd.elim
    | cons ds rest =>
      rw [hr] at hfwd
      cases hd : c.undone with
      | nil => rw [hd] at hfwd; exact hfwd.elim
      | cons e un =>
        rw [hd] at hfwd
        obtain ⟨hl, hrest⟩ := hfwd
        have hf := hl.2 s.w hobs
        simp only [hf.1, if_true, Cur.redo, hd]
        refine ⟨?_, ?_, ?_⟩
        · simpa [Cur.cur, curOf] using hf.2
        · exact ⟨hl, hback⟩
        · simpa [Cur.cur, curOf] using hrest
  | flush =>
    exact ⟨hobs, hback, hfwd⟩

/-- undo and redo return `Ok` on every state that refines a cursor -/
theorem undo_redo_ok (S : Sys W D Op E) (obs : W → O)
    (s : St W D) (c : Cur Op O) (h : Refines S obs s c) :
    (undoStep S s).2 = true ∧ (redoStep S s).2 = true := by
  obtain ⟨hobs, hback, hfwd⟩ := h
  constructor
  · unfold undoStep
    cases hu : s.undo with
    | nil => rfl
    | cons ds rest =>
      rw [hu] at hback
      cases hd : c.done with
      | nil => rw [hd] at hback; exact hback.elim
      | cons e dn =>
        rw [hd] at hback
        have hcur : c.cur = e.2 := by simp [Cur.cur, hd, curOf]
        have hb := hback.1.1 s.w (by rw [hobs, hcur])
        simp [hb.1]
  · unfold redoStep
    cases hr : s.redo with
    | nil => rfl
    | cons ds rest =>
      rw [hr] at hfwd
      cases hd : c.undone with
      | nil => rw [hd] at hfwd; exact hfwd.elim
      | cons e un =>
        rw [hd] at hfwd
        have hf := hfwd.1.2 s.w hobs
        simp [hf.1]

/-- any command list preserves the refinement -/
theorem run_refines (S : Sys W D Op E) (obs : W → O) (dom : W → Op → Prop) (L : Laws S obs dom) :
    ∀ (cs : List (Cmd Op)) (s : St W D) (c : Cur Op O), Refines S obs s c → AllDom S dom s cs →
      Refines S obs (run S s cs) (specRun S obs s c cs)
  | [], _, _, h, _ => h
  | cmd :: cs, s, c, h, hd => by
    simp only [run, specRun]
    exact run_refines S obs dom L cs _ _ (step_refines S obs dom L s c h cmd hd.1) hd.2

/-! ### spec-level facts about the cursor -/

def Cur.undoN (c : Cur Op O) : Nat → Cur Op O
  | 0 => c
  | k + 1 => (c.undo).undoN k
def Cur.redoN (c : Cur Op O) : Nat → Cur Op O
  | 0 => c
  | k + 1 => (c.redo).redoN k

theorem Cur.undoN_done : ∀ (k : Nat) (c : Cur Op O), k ≤ c.done.length →
    (c.undoN k).done = c.done.drop k ∧ (c.undoN k).base = c.base ∧
    (c.undoN k).undone = (c.done.take k).reverse ++ c.undone
  | 0, c, _ => by simp [Cur.undoN]
  | k + 1, c, hk => by
    cases hd : c.done with
    | nil => rw [hd] at hk; simp at hk
    | cons e dn =>
      have hk' : k ≤ dn.length := by rw [hd] at hk; simpa using hk
      have hu : c.undo = { c with done := dn, undone := e :: c.undone } := by
        simp [Cur.undo, hd]
      have := Cur.undoN_done k (c.undo) (by rw [hu]; exact hk')
      simp only [Cur.undoN]
      rw [this.1, this.2.1, this.2.2, hu]
      simp [List.take_succ_cons, List.reverse_cons, List.append_assoc]

theorem Cur.redo_undo (c : Cur Op O) (h : c.done ≠ []) : (c.undo).redo = c := by
  cases hd : c.done with
  | nil => exact absurd hd h
  | cons e dn =>
    cases c with
    | mk b d u => simp only at hd; subst hd; simp [Cur.undo, Cur.redo]

/-- redoing `j ≤ k` of `k` undone steps puts the cursor back to `k - j` steps before the start -/
theorem Cur.redoN_undoN : ∀ (k j : Nat) (c : Cur Op O), j ≤ k → k ≤ c.done.length →
    (c.undoN k).redoN j = c.undoN (k - j)
  | _, 0, _, _, _ => by simp [Cur.redoN]
  | 0, j + 1, _, hj, _ => by omega
  | k + 1, j + 1, c, hj, hk => by
    have h1 : (c.undoN (k + 1)) = ((c.undoN k).undo) := by
      clear hj
      induction k generalizing c with
      | zero => rfl
      | succ n ih =>
        have : (c.undo).done.length ≥ n + 1 := by
          cases hd : c.done with
          | nil => rw [hd] at hk; simp at hk
          | cons e dn => rw [hd] at hk; simp [Cur.undo, hd]; simp at hk; omega
        have := ih (c.undo) this
        simpa [Cur.undoN] using this
    have hne : (c.undoN k).done ≠ [] := by
      have := (Cur.undoN_done k c (by omega)).1
      rw [this]
      intro h0
      have : (c.done.drop k).length = 0 := by rw [h0]; rfl
      simp at this; omega
    rw [h1]
    simp only [Cur.redoN]
    rw [Cur.redo_undo _ hne]
    have := Cur.redoN_undoN k j c (by omega) (by omega)
    rw [this]
    congr 1
    omega

theorem specRun_undos (S : Sys W D Op E) (obs : W → O) : ∀ (k : Nat) (s : St W D) (c : Cur Op O),
    specRun S obs s c (List.replicate k Cmd.undo) = c.undoN k
  | 0, _, _ => rfl
  | k + 1, s, c => by
    simp only [List.replicate_succ, specRun, specStep, Cur.undoN]
    exact specRun_undos S obs k _ _

theorem specRun_redos (S : Sys W D Op E) (obs : W → O) : ∀ (k : Nat) (s : St W D) (c : Cur Op O),
    specRun S obs s c (List.replicate k Cmd.redo) = c.redoN k
  | 0, _, _ => rfl
  | k + 1, s, c => by
    simp only [List.replicate_succ, specRun, specStep, Cur.redoN]
    exact specRun_redos S obs k _ _

theorem run_append (S : Sys W D Op E) : ∀ (a b : List (Cmd Op)) (s : St W D),
    run S s (a ++ b) = run S (run S s a) b
  | [], _, _ => rfl
  | c :: a, b, s => by simp only [List.cons_append, run]; exact run_append S a b _

theorem specRun_append (S : Sys W D Op E) (obs : W → O) : ∀ (a b : List (Cmd Op)) (s : St W D)
    (c : Cur Op O), specRun S obs s c (a ++ b) = specRun S obs (run S s a) (specRun S obs s c a) b
  | [], _, _, _ => rfl
  | x :: a, b, s, c => by
    simp only [List.cons_append, run, specRun]; exact specRun_append S obs a b _ _

/-! ### the replica (C03) -/

theorem applyQueue_append (S : Sys W D Op E) : ∀ (q1 q2 : List (Tag × List D)) (w : W),
    applyQueue S w (q1 ++ q2) =
      (if (applyQueue S w q1).ok then applyQueue S (applyQueue S w q1).w q2
       else ⟨(applyQueue S w q1).w, false⟩)
  | [], _, _ => by simp [applyQueue]
  | e :: q1, q2, w => by
    simp only [List.cons_append, applyQueue]
    by_cases hok : (applyEntry S w e).ok = true
    · simp only [hok, if_true]; exact applyQueue_append S q1 q2 _
    · simp [hok]

/-- folding the batches one after the other = folding their concatenation -/
theorem applyBatches_flatten (S : Sys W D Op E) : ∀ (bs : List (List (Tag × List D))) (w : W),
    applyBatches S w bs = applyQueue S w bs.flatten
  | [], _ => rfl
  | b :: bs, w => by
    simp only [applyBatches, List.flatten_cons]
    rw [applyQueue_append]
    by_cases hok : (applyQueue S w b).ok = true
    · simp only [hok, if_true]; exact applyBatches_flatten S bs _
    · simp [hok]

theorem applyQueue_snoc (S : Sys W D Op E) (q : List (Tag × List D)) (e : Tag × List D) (w : W)
    (hok : (applyQueue S w q).ok = true) :
    applyQueue S w (q ++ [e]) =
      ⟨(applyEntry S (applyQueue S w q).w e).w, (applyEntry S (applyQueue S w q).w e).ok⟩ := by
  rw [applyQueue_append, hok]
  simp only [if_true, applyQueue]
  cases (applyEntry S (applyQueue S w q).w e).ok <;> simp

theorem log_snoc (s : St W D) (w' : W) (u r : List (List D)) (e : Tag × List D) :
    log ({ w := w', undo := u, redo := r, queue := s.queue ++ [e], sent := s.sent } : St W D)
      = log s ++ [e] := by
  simp [log, List.append_assoc]

theorem log_flush (s : St W D) : log (flushStep s) = log s := by
  simp [log, flushStep, List.flatten_append]

/-- the invariant of C03: a replica that has applied the whole log looks like the primary -/
def InSync (S : Sys W D Op E) (obs : W → O) (r0 : W) (s : St W D) : Prop :=
  (applyQueue S r0 (log s)).ok = true ∧ obs (applyQueue S r0 (log s)).w = obs s.w

theorem step_insync (S : Sys W D Op E) (obs : W → O) (dom : W → Op → Prop) (L : Laws S obs dom)
    (r0 : W) (s : St W D) (c : Cur Op O) (h : Refines S obs s c) (hs : InSync S obs r0 s)
    (cmd : Cmd Op) (hdom : CmdDom dom s cmd) :
    InSync S obs r0 (step S s cmd).1 := by
  obtain ⟨hobs, hback, hfwd⟩ := h
  obtain ⟨hok, heq⟩ := hs
  cases cmd with
  | op o =>
    simp only [step, doUser]
    cases herr : (S.doOp s.w o).err with
    | some e =>
      obtain ⟨hw, hp⟩ := L.atomic s.w o e hdom herr
      rw [hp, hw]
      exact ⟨hok, heq⟩
    | none =>
      cases hp : (S.doOp s.w o).pushed with
      | none =>
        have hq := L.quiet s.w o hdom herr hp
        exact ⟨hok, by simpa [hq, log] using heq⟩
      | some ds =>
        have hlog : log ({ pushDiffList s ds with w := (S.doOp s.w o).w } : St W D)
            = log s ++ [(Tag.redo, ds)] := by
          simp [log, pushDiffList, List.append_assoc]
        unfold InSync
        rw [hlog, applyQueue_snoc S _ _ _ hok]
        have := L.fwd s.w o ds hdom herr hp _ heq
        simpa [applyEntry] using this
  | undo =>
    simp only [step, undoStep]
    cases hu : s.undo with
    | nil => exact ⟨hok, heq⟩
    | cons ds rest =>
      rw [hu] at hback
      cases hd : c.done with
      | nil => rw [hd] at hback; exact hback.elim
      | cons e dn =>
        rw [hd] at hback
        have hcur : c.cur = e.2 := by simp [Cur.cur, hd, curOf]
        have hb := hback.1.1 s.w (by rw [hobs, hcur])
        have hr := hback.1.1 (applyQueue S r0 (log s)).w (by rw [heq, hobs, hcur])
        simp only [hb.1, if_true]
        unfold InSync
        rw [log_snoc, applyQueue_snoc S _ _ _ hok]
        simp only [applyEntry]
        exact ⟨hr.1, by rw [hr.2, hb.2]⟩
  | redo =>
    simp only [step, redoStep]
    cases hr : s.redo with
    | nil => exact ⟨hok, heq⟩
    | cons ds rest =>
      rw [hr] at hfwd
      cases hd : c.undone with
      | nil => rw [hd] at hfwd; exact hfwd.elim
      | cons e un =>
        rw [hd] at hfwd
        have hf := hfwd.1.2 s.w hobs
        have hrr := hfwd.1.2 (applyQueue S r0 (log s)).w (by rw [heq, hobs])
        simp only [hf.1, if_true]
        unfold InSync
        rw [log_snoc, applyQueue_snoc S _ _ _ hok]
        simp only [applyEntry]
        exact ⟨hrr.1, by rw [hrr.2, hf.2]⟩
  | flush =>
    simp only [step]
    unfold InSync
    rw [log_flush]
    exact ⟨hok, heq⟩

theorem run_insync (S : Sys W D Op E) (obs : W → O) (dom : W → Op → Prop) (L : Laws S obs dom)
    (r0 : W) :
    ∀ (cs : List (Cmd Op)) (s : St W D) (c : Cur Op O), Refines S obs s c → InSync S obs r0 s →
      AllDom S dom s cs → InSync S obs r0 (run S s cs)
  | [], _, _, _, hs, _ => hs
  | cmd :: cs, s, c, h, hs, hd => by
    simp only [run]
    exact run_insync S obs dom L r0 cs _ _ (step_refines S obs dom L s c h cmd hd.1)
      (step_insync S obs dom L r0 s c h hs cmd hd.1) hd.2

theorem allDom_append (S : Sys W D Op E) (dom : W → Op → Prop) :
    ∀ (a b : List (Cmd Op)) (s : St W D), AllDom S dom s (a ++ b) ↔
      AllDom S dom s a ∧ AllDom S dom (run S s a) b
  | [], _, _ => by simp [AllDom, run]
  | x :: a, b, s => by
    simp only [List.cons_append, AllDom, run, allDom_append S dom a b, and_assoc]

theorem allDom_undos (S : Sys W D Op E) (dom : W → Op → Prop) : ∀ (k : Nat) (s : St W D),
    AllDom S dom s (List.replicate k Cmd.undo)
  | 0, _ => trivial
  | k + 1, s => ⟨trivial, allDom_undos S dom k _⟩

theorem allDom_redos (S : Sys W D Op E) (dom : W → Op → Prop) : ∀ (k : Nat) (s : St W D),
    AllDom S dom s (List.replicate k Cmd.redo)
  | 0, _ => trivial
  | k + 1, s => ⟨trivial, allDom_redos S dom k _⟩

end IronCalc.User
